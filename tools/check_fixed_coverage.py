#!/usr/bin/env python3
# Every violation reported on the pinned tree (/tmp/pinned) must be mapped to a `fixed` or `known` entry
# of known_findings.json that lists the property. Prints the unmapped ones.
import json, glob, subprocess, os
os.system('rm -f /verif/replays/*.json')
subprocess.run(['/verif/bin/olacheck','-prop','all','-no-evidence','-repo','/tmp/pinned'],stdout=subprocess.DEVNULL,stderr=subprocess.DEVNULL)
kf=json.load(open('/verif/known_findings.json'))['findings']
miss=[]
reps=sorted(glob.glob('/verif/replays/*.json'))
for p in reps:
    r=json.load(open(p))
    prop=r.get('property') or r.get('property_id'); rule=(r.get('rule') or '').split('#')[0]; key=r.get('key') or r.get('construct') or ''
    ok=False
    for f in kf:
        fr=f['rule']
        same_rule = fr==rule or rule.startswith(fr+'-') or fr.startswith(rule+'-') or (fr.startswith('LK-GUARD') and rule.startswith('LK-GUARD')) or (fr in ('LK-ORDER','LK-SHUTDOWN') and rule in ('LK-ORDER','LK-SHUTDOWN'))
        if same_rule and (f['key']==key or key.startswith(f['key']) or f['key'].startswith(key)) :
            if prop in f['properties']: ok=True
    if not ok: miss.append((prop,rule,key))
for m in miss: print(m)
print(len(reps),'violations on the pinned tree;',len(miss),'not mapped')
os.system('rm -f /verif/replays/*.json')
