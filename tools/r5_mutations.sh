#!/bin/bash
# Breaking edits applied on top of round-5 refactorings (and two older trees the new clauses were tried on): each line
# is a stored refactoring, a file, an edit and the rule expected to report it.  Same mechanics as r4_mutations.sh.
cd /verif
run() { # id file expr rule
  out=$(tools/mut_on_benign.sh "$1" "$2" "$3" "$4" 2>&1)
  if echo "$out" | grep -q "false $4"; then echo "DETECTED $1 [$4] $3" | cut -c1-200; else echo "MISSED   $1 [$4] $3" | cut -c1-200; echo "$out" | head -5; fi
}
run C06-r5-3 internal/store/store.go 's/\t\t\tres\.mod = true\n(\t\t\tres\.index\.RmDesc)/$1/' SH-SWEEP-GUARD
run C06-r5-3 internal/store/store.go 's/res\.mod = true\n(\t\t\tres\.index\.RmDesc\(types\.Descriptor\{Digest: d\}\)\n\t\t\}\n\t\})/$1/' SH-SWEEP-GUARD
run C06-r5-3 internal/store/store.go 's/if marks\.seen\[d\] \{\n\t\t\tcontinue\n\t\t\}/if false {\n\t\t\tcontinue\n\t\t}/' SH-SWEEP-GUARD
run C06-r5-3 internal/store/store.go 's/&& !marks\.inIndex\[d\]//' SH-SWEEP-GUARD
run C06-r5-3 internal/store/store.go 's/return gcMarks\{cutoff: cutoff, seen: seen, inIndex: inIndex\}/return gcMarks{cutoff: cutoff, seen: map[digest.Digest]bool{}, inIndex: inIndex}/' SH-SWEEP-GUARD
run C06-r5-3 internal/store/store.go 's/return gcMarks\{cutoff: cutoff, seen: seen, inIndex: inIndex\}/return gcMarks{cutoff: cutoff, seen: walked, inIndex: inIndex}/' SH-SWEEP-GUARD
run C05-1 internal/store/store.go 's/\treturn seen\n/\treturn walked\n/' SH-SWEEP-GUARD
run C01-r5-1 blob.go 's/\t\t\tif errCancel := bc\.Cancel\(\); errCancel != nil \{\n[^\n]*\n\t\t\t\}\n//' TS-CANCEL
run C01-r5-1 blob.go 's/\t\tcase blobCommitVerify:\n/\t\tcase blobCommitVerify:\n\t\t\tw.WriteHeader(http.StatusBadRequest)\n\t\t\treturn\n\t\tcase blobCommitLocation + 7:\n/' TS-CANCEL
run C07-r5-2 referrer.go 's/\t\/\/ concurrent updates to the same response would otherwise lose entries\n\ts\.referrerMu\.Lock\(\)\n\tdefer s\.referrerMu\.Unlock\(\)\n//' LK-RMW
run C14-r5-3 internal/store/mem.go 's/\t\t\tmr\.blobs\[d\] = nil\n\t\t\}\n\t\}\n\tmr\.timeMod = time\.Now\(\)/\t\t\tmr.blobs[d] = nil\n\t\t\t_ = os.Remove(filepath.Join(mr.path, blobsDir, d.Algorithm().String(), d.Encoded()))\n\t\t}\n\t}\n\tmr.timeMod = time.Now()/' FS-WHO
run C07-1 referrer.go 's/referrerStore\(repo, subject, refResp\)/referrerStore(repo, subject, index)/' TS-REFRESP-FLOW
run C08-r3-2 internal/store/store.go 's/if conf.Storage.GC.GracePeriod > 0 \{\n\t\topts.Age/if conf.Storage.GC.Frequency > 0 {\n\t\topts.Age/' TS-OPT-GUARD
