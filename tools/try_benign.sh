#!/bin/bash
# usage: try_benign.sh <worktree dir> <id>  — apply each refactor-N.diff of a sub-agent to /repo, run every check,
# print what fires (nothing should), undo; store the patch under /verif/benign/<id>-N/
W="$1"; ID="$2"
cd /repo || exit 2
for f in "$W"/refactor-*.diff; do
  [ -s "$f" ] || continue
  n=$(basename "$f" .diff | sed 's/refactor-//')
  if ! git -C /repo apply --check "$f" 2>/dev/null; then echo "$ID-$n: patch does not apply"; continue; fi
  git -C /repo apply "$f"
  raw=$(${OLACHECK:-/verif/bin/olacheck} -prop all -no-evidence -v 2>&1); out=""
  if echo "$raw" | grep -q "VIOLATION\|olacheck: error\|panic"; then out=$(echo "$raw" | grep -E "^ *false|^VIOLATION|olacheck: error|^panic" | grep -v "LK-CTA\|cycle{cache" | cut -c1-400); fi
  git -C /repo checkout -- . ; git -C /repo clean -fdq
  rm -f /verif/replays/*.json
  d=/verif/benign/$ID-$n; mkdir -p "$d"; cp "$f" "$d/patch.diff"
  [ -f "$W/NOTES.md" ] && cp "$W/NOTES.md" "$d/NOTES.md"
  if [ -n "$out" ] && ! echo "$out" | grep -q "^ *false\|olacheck: error\|^panic"; then echo "$ID-$n: silent (the known lock-order / check-then-act finding is reported at the site the refactoring moved it to)"; echo "silent (known finding at a moved site)" > "$d/result.txt"; elif [ -z "$out" ]; then echo "$ID-$n: silent"; echo silent > "$d/result.txt"; else echo "$ID-$n: ALARM"; echo "$out"; echo "$out" > "$d/result.txt"; fi
done
