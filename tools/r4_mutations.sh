#!/bin/bash
# Breaking edits applied on top of the round-4 (targeted) refactorings: each line is a stored refactoring, a file, an
# edit and the rule expected to report it.  For every edit a scratch worktree with the refactoring applied is broken
# (it must still build) and analysed; prints DETECTED / MISSED per edit.  Uses tools/mut_on_benign.sh.
cd /verif
run() { # id file expr rule
  out=$(tools/mut_on_benign.sh "$1" "$2" "$3" "$4" 2>&1)
  if echo "$out" | grep -q "false $4"; then echo "DETECTED $1 [$4] $3" | cut -c1-200; else echo "MISSED   $1 [$4] $3" | cut -c1-200; echo "$out" | head -5; fi
}
run C20-r4-1 internal/cache/cache.go 's/max\(1, int/max(0, int/' TS-LOWWATER
run C08-r4-1 internal/cache/cache.go 's/target >= 1/target >= 0/' TS-LOWWATER
run C08-r4-1 internal/cache/cache.go 's/c.minCount = pruneTarget\(c.maxCount\)/c.minCount = pruneTarget(c.maxCount - 1)/' TS-LOWWATER
run C04-r4-1 types/ref.go 's/refTagMaxLen-1/refTagMaxLen/g' TB-GRAMMAR
run C04-r4-1 types/ref.go 's/refTagAlnum = `a-zA-Z0-9`/refTagAlnum = `a-zA-Z0-9\\\\pL`/' TB-GRAMMAR
run C01-r4-1 manifest.go 's/if types.RefTagRE.MatchString\(arg\) \{\n\t\treturn arg, dExpect, true/if len(arg) < 128 {\n\t\treturn arg, dExpect, true/' TS-REFTAG
run C01-r4-1 manifest.go 's/if d != dExpect \{/if d == "" {/' TS-HASHBYTES
run C01-r4-1 manifest.go 's/return "", dArg, true/if dExpect != "" {\n\t\treturn "", dExpect, true\n\t}\n\treturn "", dArg, true/' TS-HASHBYTES
run C04-r4-2 manifest.go 's/if tag == "" \{\n\t\t\tdExpect = dArg/if tag == "" && dExpect == "" {\n\t\t\tdExpect = dArg/' TS-HASHBYTES
run C04-r4-2 manifest.go 's/if types.RefTagRE.MatchString\(ref\) \{/if len(ref) < 100 {/' TS-REFTAG
run C03-r4-2 types/manifest.go 's/i.rmTag\(d.Digest, tag\)/i.rmDigest(d.Digest)/' TS-TAGKEEP
run C03-r4-2 types/manifest.go 's/if found && \(annot == nil \|\| tagged\) \{/if found {/' TS-TAGKEEP
run C05-r4-1 manifest.go 's/artifactType = m.Config.MediaType/artifactType = ""/' SH-SIBLING-REF
run C05-r4-1 manifest.go 's/referrer = referrerEntry\(mt, m.ArtifactType, d,/referrer = referrerEntry(m.MediaType, m.ArtifactType, d,/' SH-SIBLING-REF
run C05-r4-1 manifest.go 's/\t\tAnnotations:  annotations,\n\t\}\n\}/\t}\n}/' SH-SIBLING-REF
run C05-r4-3 manifest.go 's/(child manifests missing.*?return\n\t\t\t\}\n\t\t\t)manSubject, manAnnotations = m.Subject, m.Annotations/$1manAnnotations = m.Annotations/s' TS-REFERRER-CALL
run C05-r4-3 manifest.go 's/if manSubject != nil && manSubject.Digest != "" && \*s.conf.API.Referrer.Enabled \{/if manSubject != nil \&\& manSubject.Digest != "" {/' TS-REFERRER-CALL
run C07-r4-1 types/manifest.go 's/\tentry.Annotations = rp.Annotations\n/\tif rp.Annotations != nil {\n\t\tentry.Annotations = rp.Annotations\n\t}\n/' TS-REFDESC
run C07-r4-1 types/manifest.go 's/\tif entry.Digest == "" \{\n\t\tentry.Digest = digest.Canonical.FromBytes\(raw\)\n\t\}/\tentry.Digest = digest.Canonical.FromBytes(raw)/' TS-REFDESC
run C07-r4-1 types/manifest.go 's/\tentry.Size = int64\(len\(raw\)\)\n//' TS-REFDESC
run C11-r4-3 internal/store/dir.go 's/stringsHasAny\(strings.Split\(repoStr, "\/"\), indexFile, layoutFile, blobsDir\)/stringsHasAny(strings.Split(repoStr, "\/"), indexFile, layoutFile)/' TB-RESERVED
run C16-r4-2 internal/store/mem.go 's/\tmr.wg.Add\(1\)\n\tm.repos\[repoStr\] = mr\n/\tm.repos[repoStr] = mr\n\tmr.wg.Add(1)\n/' LK-TOKEN
run C16-r4-2 internal/store/mem.go 's/\t\t\/\/ purely in memory, nothing to load\n\t\treturn mr, nil/\t\tm.repos[repoStr] = mr\n\t\treturn mr, nil/' LK-TOKEN
run C13-r4-1 internal/cache/cache.go 's/\tc.schedulePruneLocked\(\)\n\}/\tif c.timer == nil {\n\t\tc.schedulePruneLocked()\n\t}\n}/' TS-PRUNE-TRIGGER
run C13-r4-1 internal/cache/cache.go 's/if c.maxCount > 0 && len\(c.entries\) > c.maxCount \{/if c.maxCount > 0 \&\& len(c.entries) > c.maxCount \&\& c.timer != nil {/' TS-PRUNE-TRIGGER
run C14-r4-3 olareg.go 's/canDelete := \*api.DeleteEnabled/canDelete := *api.PushEnabled/' TB-ROUTE
run C14-r4-3 olareg.go 's/\} else if canPush && method == http.MethodPut \{/} else if method == http.MethodPut {/' TB-ROUTE
run C14-r4-3 olareg.go 's/ok && canPush \{/ok \&\& (canPush || isRead) {/' TB-ROUTE
run C15-r4-1 types/errors.go 's/errCodeNameUnknown         = "NAME_UNKNOWN"/errCodeNameUnknown         = "NAME_UNKNOWN_"/' TB-ERRCODE
run C15-r4-1 types/errors.go 's/newErrorInfo\(errCodeBlobUploadUnknown,/newErrorInfo(errCodeBlobUnknown,/' TB-ERRPAIR
run C15-r4-1 types/errors.go 's/\t\tCode:    code,\n\t\tMessage: message,/\t\tCode:    message,\n\t\tMessage: code,/' TB-ERRCODE
run C19-r4-1 config/config.go 's/\tif cur == zero \{\n\t\treturn def\n\t\}\n\treturn cur/\tif cur != zero {\n\t\treturn def\n\t}\n\treturn cur/' TB-DEFAULTS
run C19-r4-1 config/config.go 's/gc.GracePeriod = zeroDefault\(gc.GracePeriod, gcGracePeriodDefault\)/gc.GracePeriod = zeroDefault(gc.Frequency, gcGracePeriodDefault)/' TB-DEFAULTS
run C19-r4-1 config/config.go 's/\tif cur == nil \{\n\t\treturn &def\n\t\}\n\treturn cur/\tif cur == nil || !*cur {\n\t\treturn \&def\n\t}\n\treturn cur/' TB-DEFAULTS
run C19-r4-1 config/config.go 's/gcFrequencyDefault         = time.Minute \* 15/gcFrequencyDefault         = time.Minute * 5/' TB-FLAGS
run C19-r4-3 cmd/olareg/serve.go 's/gc.Untagged = &opts.gcUntagged/gc.Untagged = \&opts.gcRefDangling/' TB-FLAGS
run C19-r4-3 cmd/olareg/serve.go 's/\tapi.RateLimit = opts.apiRateLimit\n//' TB-FLAGS
run C19-r4-3 cmd/olareg/serve.go 's/RootDir:   opts.storeDir,/RootDir:   opts.tlsCert,/' TB-FLAGS
run C06-r4-3 internal/store/dir.go 's/(if err := d.gcRepo\(r, start\); err != nil \{\n\t\t\terrs = append\(errs, fmt.Errorf\("failed to gc repo %s: %w", r, err\)\)\n)/$1\t\t\tbreak\n/' SH-PASS-LOOP
run C06-r4-3 internal/store/mem.go 's/(func \(mr \*memRepo\) IndexInsert.*?)\tmr.timeMod = time.Now\(\)\n/$1/s' SH-MODSTAMP
run C05-r4-2 internal/store/store.go 's/\t\tblobs = append\(blobs, man.Config.Digest\)\n//' SH-MARK-EXHAUSTIVE
run C05-r4-2 internal/store/store.go 's/\t\tfor _, b := range blobs \{\n\t\t\tseen\[b\] = true\n\t\t\}\n/\t\t_ = blobs\n/' SH-MARK-EXHAUSTIVE
run C05-r4-2 internal/store/store.go 's/return man.Manifests, nil, true/return nil, nil, true/' SH-MARK-EXHAUSTIVE
