#!/bin/bash
# usage: confirm_seeded.sh <worktree> <seed id> <property id> [race]
# Confirms a seeded change in a scratch worktree (suite passes with it; demo fails with it and passes
# without it), stores it under /verif/seeded/<seed id>/ and records which checks catch it.
set -u
WT="$1"; SID="$2"; PROP="$3"; RACE=""; [ "${4:-}" = race ] && RACE="-race"
export GOFLAGS=-mod=mod GOPROXY=off GOSUMDB=off GOTOOLCHAIN=local GOWORK=off
cd "$WT" || exit 2
DEMO=$(git status --porcelain | awk '/^\?\? .*_test\.go$/ {print $2}' | head -1)
[ -z "$DEMO" ] && { echo "no untracked demo test"; exit 2; }
PKG="./$(dirname "$DEMO")"
git diff > /tmp/seed_$SID.diff
[ -s /tmp/seed_$SID.diff ] || { echo "empty production diff"; exit 2; }
echo "demo=$DEMO pkg=$PKG"
go build ./... || { echo "BUILD FAILS"; exit 1; }
SUITE=$(go test -vet=off -count=1 -skip 'TestSeededDemo' ./... 2>&1 | grep -cE '^(FAIL|---\s*FAIL)')
echo "suite failures with change: $SUITE"
WITH=$(timeout 900 go test $RACE -vet=off -count=1 -run 'TestSeededDemo' "$PKG" 2>&1 | tail -3 | grep -cE '^(FAIL|panic)|FAIL')
git apply -R /tmp/seed_$SID.diff
WITHOUT=$(timeout 900 go test $RACE -vet=off -count=1 -run 'TestSeededDemo' "$PKG" 2>&1 | tail -3 | grep -cE '^ok')
git apply /tmp/seed_$SID.diff
echo "demo fails with change: $WITH ; demo passes without: $WITHOUT"
if [ "$SUITE" != "0" ] || [ "$WITH" = "0" ] || [ "$WITHOUT" = "0" ]; then echo "NOT CONFIRMED"; exit 1; fi
D=/verif/seeded/$SID; mkdir -p "$D"
cp /tmp/seed_$SID.diff "$D/patch.diff"; cp "$DEMO" "$D/$(basename "$DEMO").txt"; [ -f NOTES.md ] && cp NOTES.md "$D/NOTES.md"
# which checks catch it (analysing the worktree directly; equivalent to applying the patch to /repo)
CAUGHT=$(/verif/bin/olacheck -prop all -no-evidence -repo "$WT" 2>&1 | grep -E '^VIOLATION' | sed -E 's/VIOLATION property=([A-Z0-9]+) replay=.*\/[A-Z0-9]+-(.*)-[0-9a-f]+\.json/\1:\2/' | sort -u | tr '\n' ' ')
rm -f /verif/replays/*.json
echo "caught by: $CAUGHT"
python3 - "$D" "$SID" "$PROP" "$DEMO" "$PKG" "$CAUGHT" <<'PY'
import json,sys
d,sid,prop,demo,pkg,caught=sys.argv[1:7]
notes=open(d+'/NOTES.md').read() if __import__('os').path.exists(d+'/NOTES.md') else ''
json.dump({"id":sid,"breaks_property":prop,"demo":demo+" (stored with a .txt suffix)","demo_package":pkg,
 "needs_to_manifest":"see NOTES.md","confirmed":{"suite_passes_with_change":True,"demo_fails_with_change":True,"demo_passes_without_change":True},
 "what_i_ran":["go build ./...","go test -vet=off -count=1 -skip TestSeededDemo ./...  (0 failures)","go test -run TestSeededDemo "+pkg+"  (fails with the change)","git apply -R patch.diff; go test -run TestSeededDemo "+pkg+"  (passes); git apply patch.diff","olacheck -prop all -repo <worktree>"],
 "caught_by":caught.split()},open(d+'/meta.json','w'),indent=1)
PY
echo CONFIRMED
