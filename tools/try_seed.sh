#!/bin/bash
# usage: try_seed.sh <worktree dir>   — which checks report the change in this scratch worktree
W="$1"
/verif/bin/olacheck -prop all -no-evidence -repo "$W" -v 2>&1 | grep -E "^VIOL|^ *false" | grep -v "LK-CTA\|cycle{cache" | cut -c1-${2:-260} | head -${3:-10}
rm -f /verif/replays/*.json
