#!/bin/bash
# Applies every stored seeded change to /repo (git apply), runs all checks, records which fire, and
# undoes the change (git checkout -- .).  Prints the detection matrix and updates meta.json caught_by.
# With REPO=<clean worktree of /repo> the changes are applied there instead (olacheck -repo), so that the run does not
# collide with another tool that is using /repo's working tree.
set -u
cd /verif
REPO="${REPO:-/repo}"
RARG=""; [ "$REPO" != /repo ] && RARG="-repo $REPO"
[ -z "$(git -C $REPO status --porcelain)" ] || { echo "$REPO is not clean"; exit 2; }
for d in seeded/*/; do
  id=$(basename "$d")
  if ! git -C $REPO apply --check "$PWD/$d/patch.diff" 2>/dev/null; then echo "$id: patch no longer applies"; continue; fi
  git -C $REPO apply "$PWD/$d/patch.diff"
  caught=$(bin/olacheck $RARG -prop all -no-evidence 2>&1 | grep -E '^VIOLATION' | sed -E 's/VIOLATION property=([A-Z0-9]+) replay=.*\/[A-Z0-9]+-(.*)-[0-9a-f]+\.json/\1:\2/' | sort -u | tr '\n' ' ')
  git -C $REPO checkout -- .
  rm -f replays/*.json
  echo "$id: $caught"
  python3 - "$d/meta.json" "$caught" <<'PY'
import json,sys
m=json.load(open(sys.argv[1])); m['caught_by']=sys.argv[2].split(); json.dump(m,open(sys.argv[1],'w'),indent=1)
PY
done
[ -z "$(git -C $REPO status --porcelain)" ] && echo "$REPO clean"
