#!/bin/bash
# Applies every stored seeded change to /repo (git apply), runs all checks, records which fire, and
# undoes the change (git checkout -- .).  Prints the detection matrix and updates meta.json caught_by.
set -u
cd /verif
[ -z "$(git -C /repo status --porcelain)" ] || { echo "/repo is not clean"; exit 2; }
for d in seeded/*/; do
  id=$(basename "$d")
  if ! git -C /repo apply --check "$PWD/$d/patch.diff" 2>/dev/null; then echo "$id: patch no longer applies"; continue; fi
  git -C /repo apply "$PWD/$d/patch.diff"
  caught=$(bin/olacheck -prop all -no-evidence 2>&1 | grep -E '^VIOLATION' | sed -E 's/VIOLATION property=([A-Z0-9]+) replay=.*\/[A-Z0-9]+-(.*)-[0-9a-f]+\.json/\1:\2/' | sort -u | tr '\n' ' ')
  git -C /repo checkout -- .
  rm -f replays/*.json
  echo "$id: $caught"
  python3 - "$d/meta.json" "$caught" <<'PY'
import json,sys
m=json.load(open(sys.argv[1])); m['caught_by']=sys.argv[2].split(); json.dump(m,open(sys.argv[1],'w'),indent=1)
PY
done
[ -z "$(git -C /repo status --porcelain)" ] && echo "/repo clean"
