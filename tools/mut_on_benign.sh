#!/bin/bash
# usage: mut_on_benign.sh <benign id> <file> <perl -0pi expression> [rule filter]
# A refactored tree must still be judged: apply the stored refactoring to a scratch worktree of /repo, break it with the
# given edit, require that it still builds, and print what the checker reports.
id="$1"; file="$2"; expr="$3"; filt="${4:-.}"
export GOFLAGS=-mod=mod GOPROXY=off GOSUMDB=off GOTOOLCHAIN=local GOWORK=off
wt=/tmp/cross/mut.$$; mkdir -p /tmp/cross
git -C /repo worktree add -q --detach "$wt" HEAD || exit 2
trap 'git -C /repo worktree remove --force "$wt" 2>/dev/null; rm -f /verif/replays/*.json' EXIT
git -C "$wt" apply /verif/benign/$id/patch.diff || { echo "patch does not apply"; exit 2; }
before=$(md5sum "$wt/$file")
perl -0pi -e "$expr" "$wt/$file"
[ "$before" = "$(md5sum "$wt/$file")" ] && { echo "edit did not change $file"; exit 2; }
(cd "$wt" && go build ./... ) || { echo "does not build"; exit 2; }
${OLACHECK:-/verif/bin/olacheck} -repo "$wt" -prop all -no-evidence -v 2>&1 | grep -E "^ *false|olacheck: error|^panic" | grep -v "LK-CTA\|cycle{cache" | grep -E "$filt" | cut -c1-${W:-260} | sort -u
echo "-- done"
