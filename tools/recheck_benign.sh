#!/bin/bash
# usage: recheck_benign.sh [id ...]  — re-run the stored benign patches (all by default), print those that alarm
cd /verif/benign || exit 2
ids="$@"; [ -z "$ids" ] && ids=$(ls -d */ | tr -d /)
for id in $ids; do
  f=/verif/benign/$id/patch.diff
  git -C /repo apply --check "$f" 2>/dev/null || { echo "$id: does not apply"; continue; }
  git -C /repo apply "$f"
  raw=$(${OLACHECK:-/verif/bin/olacheck} -prop all -no-evidence -v 2>&1); out=""
  if echo "$raw" | grep -q "VIOLATION\|olacheck: error\|panic"; then out=$(echo "$raw" | grep -E "^ *false|^VIOLATION|olacheck: error|^panic" | grep -v "LK-CTA\|cycle{cache" | cut -c1-${W:-300}); fi
  git -C /repo checkout -- . ; git -C /repo clean -fdq
  rm -f /verif/replays/*.json
  if [ -n "$out" ] && ! echo "$out" | grep -q "^ *false\|olacheck: error\|^panic"; then echo "$id: silent (the known lock-order / check-then-act finding is reported at the site the refactoring moved it to)"; echo "silent (known finding at a moved site)" > /verif/benign/$id/result.txt; elif [ -z "$out" ]; then echo "$id: silent"; echo silent > /verif/benign/$id/result.txt; else echo "$id: ALARM"; echo "$out"; echo "$out" > /verif/benign/$id/result.txt; fi
done
