#!/bin/bash
# usage: recheck_benign.sh [id ...]  — re-run the stored benign patches (all by default), print those that alarm
cd /verif/benign || exit 2
ids="$@"; [ -z "$ids" ] && ids=$(ls)
for id in $ids; do
  f=/verif/benign/$id/patch.diff
  git -C /repo apply --check "$f" 2>/dev/null || { echo "$id: does not apply"; continue; }
  git -C /repo apply "$f"
  raw=$(/verif/bin/olacheck -prop all -no-evidence -v 2>&1); out=""
  if echo "$raw" | grep -q "VIOLATION\|olacheck: error\|panic"; then out=$(echo "$raw" | grep -E "^ *false|^VIOLATION|olacheck: error|^panic" | grep -v "LK-CTA\|cycle{cache" | cut -c1-${W:-300}); fi
  git -C /repo checkout -- . ; git -C /repo clean -fdq
  rm -f /verif/replays/*.json
  if [ -z "$out" ]; then echo "$id: silent"; echo silent > /verif/benign/$id/result.txt; else echo "$id: ALARM"; echo "$out"; echo "$out" > /verif/benign/$id/result.txt; fi
done
