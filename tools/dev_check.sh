#!/bin/bash
# usage: dev_check.sh <benign id ...>  — analyse stored refactorings with the development binary (bin/olacheck.dev) in
# scratch worktrees under /tmp/cross (parallel, /repo's working tree is not touched); prints what alarms.
export GOFLAGS=-mod=mod GOPROXY=off GOSUMDB=off GOTOOLCHAIN=local GOWORK=off
BIN=${OLACHECK:-/verif/bin/olacheck.dev}
one() {
  id="$1"; wt=/tmp/cross/dev.$id
  git -C /repo worktree remove --force "$wt" >/dev/null 2>&1
  git -C /repo worktree add -q --detach "$wt" HEAD || { echo "$id: no worktree"; return; }
  if ! git -C "$wt" apply /verif/benign/$id/patch.diff 2>/dev/null; then echo "$id: does not apply"; git -C /repo worktree remove --force "$wt"; return; fi
  out=$($BIN -repo "$wt" -prop all -no-evidence -v 2>&1 | grep -E "^ *false|olacheck: error|^panic" | grep -v "LK-CTA\|cycle{cache" | sed 's/^ *//' | sort -u | cut -c1-${W:-300})
  git -C /repo worktree remove --force "$wt"
  if [ -z "$out" ]; then echo "$id: silent"; else echo "$id: ALARM"; echo "$out" | sed "s/^/   /"; fi
}
export -f one; export BIN
printf '%s\n' "$@" | xargs -P ${P:-6} -I{} bash -c 'one {}'
rm -f /verif/replays/*.json
