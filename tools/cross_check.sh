#!/bin/bash
# usage: cross_check.sh [benign id ...]
# Detection under refactoring: for every stored behaviour-preserving refactoring B (benign/<id>/patch.diff) a scratch
# worktree of /repo with B applied is analysed again with (1) every self-test edit of B's property that still
# applies textually and (2) every stored seeded change of B's property whose patch still applies on top of B.
# Each must still be reported.  Prints one line per combination that is MISSED and a summary per B.
# Worktrees live under /tmp/cross and are removed when done.
set -u
export GOFLAGS=-mod=mod GOPROXY=off GOSUMDB=off GOTOOLCHAIN=local GOWORK=off
cd /verif || exit 2
ids="$@"; [ -z "$ids" ] && ids=$(ls benign)
mkdir -p /tmp/cross
one() {
  b="$1"; prop="${b%%-*}"
  wt=/tmp/cross/$b
  git -C /repo worktree remove --force "$wt" >/dev/null 2>&1
  git -C /repo worktree add --detach -q "$wt" HEAD || { echo "$b: cannot create worktree"; return; }
  if ! git -C "$wt" apply /verif/benign/$b/patch.diff 2>/dev/null; then echo "$b: refactoring does not apply"; git -C /repo worktree remove --force "$wt"; return; fi
  det=0; miss=0; na=0
  for m in $(python3 - "$prop" <<'PY'
import re,sys
prop=sys.argv[1]
src=open('/verif/checker/selftest/mutants.go').read()
for m in re.finditer(r'\{ID: "([^"]+)", Props: \[\]string\{([^}]*)\}', src):
    if '"%s"'%prop in m.group(2): print(m.group(1))
PY
); do
    out=$(/verif/bin/olacheck -repo "$wt" -verif /verif -mutant "$m" 2>/dev/null)
    v=$(python3 -c '
import json,sys
try: r=json.loads(sys.argv[1])
except Exception: print("error"); sys.exit()
if not r.get("applies"): print("na")
elif not r.get("loads"): print("noload")
elif any((r.get("new_failures") or {}).get(p) for p in r.get("props",[])): print("det")
else: print("miss")' "$out")
    case "$v" in
      det) det=$((det+1));;
      na|noload) na=$((na+1));;
      *) miss=$((miss+1)); echo "MISSED under $b: self-test edit $m ($v)";;
    esac
  done
  sdet=0; smiss=0; sna=0
  for s in /verif/seeded/$prop-*/; do
    sid=$(basename "$s")
    if ! git -C "$wt" apply --check "$s/patch.diff" 2>/dev/null; then sna=$((sna+1)); continue; fi
    git -C "$wt" apply "$s/patch.diff"
    if ! (cd "$wt" && go build ./... >/dev/null 2>&1); then sna=$((sna+1)); git -C "$wt" apply -R "$s/patch.diff"; continue; fi
    base=$(python3 -c 'import json,sys; print(" ".join(json.load(open(sys.argv[1])).get("caught_by",[])))' "$s/meta.json")
    if [ -z "$base" ]; then sna=$((sna+1)); git -C "$wt" apply -R "$s/patch.diff"; continue; fi
    if /verif/bin/olacheck -repo "$wt" -verif /verif -prop all -no-evidence 2>&1 | grep -q "^VIOLATION property=$prop "; then sdet=$((sdet+1)); else smiss=$((smiss+1)); echo "MISSED under $b: seeded change $sid"; fi
    git -C "$wt" apply -R "$s/patch.diff"
  done
  echo "$b: self-test edits detected=$det missed=$miss n/a=$na; seeded changes detected=$sdet missed=$smiss n/a=$sna"
  git -C /repo worktree remove --force "$wt"
}
export -f one
printf '%s\n' $ids | xargs -P ${P:-4} -I{} bash -c 'one {}'
rm -f /verif/replays/*.json
