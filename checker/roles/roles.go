// Package roles resolves the anchors of the rules (store API, families, server, handlers) from types.
package roles

import (
	"go/constant"
	"go/token"
	"go/types"
	"sort"

	"golang.org/x/tools/go/ssa"

	"olacheck/an"
	"olacheck/core"
)

// Family is one store implementation: the concrete types implementing Store, Repo and BlobCreator
// plus every struct type of the store package connected to them by field references.
type Family struct {
	Name   string // name of the Store-implementing type ("dir", "mem")
	Store  *types.Named
	Repo   *types.Named
	Upload *types.Named
	Types  map[string]bool // names of the store-package struct types in the family
	// Mutating is true for the family that persists to the filesystem: the one the server constructor
	// builds for the configured store type StoreDir (fallback when that cannot be resolved: the family
	// whose functions call mutating filesystem functions).
	Mutating bool
	// Kind is the configured store type the family is constructed for ("StoreDir", "StoreMem", …).
	Kind string
}

// Roles are the resolved anchors of the rules.
type Roles struct {
	P                                                    *core.Prog
	RootPath                                             string
	StorePath, CachePath, TypesPath, ConfigPath, CmdPath string
	IStore, IRepo, IBlobCreator                          *types.Named
	Families                                             []*Family
	Server                                               *types.Named
	Router                                               *ssa.Function
	// Dispatch is the function that matches the request path and picks the handler: the router itself, or the routing
	// step it calls (`s.route(method, path)`)
	Dispatch   *ssa.Function
	Handlers   []*ssa.Function // functions of the root package taking an http.ResponseWriter
	APIMethods map[string]map[string]bool
}

func LookupNamed(pk *types.Package, name string) *types.Named {
	if pk == nil {
		return nil
	}
	o := pk.Scope().Lookup(name)
	if o == nil {
		return nil
	}
	n, _ := o.Type().(*types.Named)
	return n
}

// Resolve computes the roles of a loaded program.
func Resolve(p *core.Prog) *Roles {
	r := &Roles{P: p, RootPath: p.Module, StorePath: p.Module + "/internal/store", CachePath: p.Module + "/internal/cache",
		TypesPath: p.Module + "/types", ConfigPath: p.Module + "/config", CmdPath: p.Module + "/cmd/olareg",
		APIMethods: map[string]map[string]bool{}}
	sp := p.All[r.StorePath]
	if sp == nil || p.All[r.RootPath] == nil || p.All[r.CachePath] == nil || p.All[r.TypesPath] == nil {
		return r
	}
	// the store API: interfaces of the store package named Store, Repo, BlobCreator
	r.IStore = LookupNamed(sp.Types, "Store")
	r.IRepo = LookupNamed(sp.Types, "Repo")
	r.IBlobCreator = LookupNamed(sp.Types, "BlobCreator")
	for _, it := range []*types.Named{r.IStore, r.IRepo, r.IBlobCreator} {
		if it == nil {
			continue
		}
		if iface, ok := it.Underlying().(*types.Interface); ok {
			m := map[string]bool{}
			for i := 0; i < iface.NumMethods(); i++ {
				m[iface.Method(i).Name()] = true
			}
			r.APIMethods[it.Obj().Name()] = m
		}
	}
	// families: connected components of the store package's struct types under field references
	scope := sp.Types.Scope()
	var structs []*types.Named
	for _, name := range scope.Names() {
		if tn, ok := scope.Lookup(name).(*types.TypeName); ok {
			if n, ok := tn.Type().(*types.Named); ok {
				if _, ok := n.Underlying().(*types.Struct); ok {
					structs = append(structs, n)
				}
			}
		}
	}
	impl := func(n *types.Named, it *types.Named) bool {
		if it == nil {
			return false
		}
		iface, ok := it.Underlying().(*types.Interface)
		if !ok {
			return false
		}
		return types.Implements(types.NewPointer(n), iface) || types.Implements(n, iface)
	}
	// components computes the families with the given struct types left out of the linking (they join no family)
	components := func(exclude map[string]bool) []*Family {
		parent := map[string]string{}
		var find func(s string) string
		find = func(s string) string {
			if parent[s] == "" || parent[s] == s {
				parent[s] = s
				return s
			}
			parent[s] = find(parent[s])
			return parent[s]
		}
		for _, n := range structs {
			find(n.Obj().Name())
		}
		var refs func(t types.Type, from string, depth int)
		refs = func(t types.Type, from string, depth int) {
			if depth > 8 {
				return
			}
			switch x := t.(type) {
			case *types.Pointer:
				refs(x.Elem(), from, depth+1)
			case *types.Slice:
				refs(x.Elem(), from, depth+1)
			case *types.Array:
				refs(x.Elem(), from, depth+1)
			case *types.Map:
				refs(x.Key(), from, depth+1)
				refs(x.Elem(), from, depth+1)
			case *types.Named:
				if x.Obj().Pkg() != nil && x.Obj().Pkg().Path() == r.StorePath && !exclude[x.Obj().Name()] {
					if _, ok := x.Underlying().(*types.Struct); ok {
						a, b := find(from), find(x.Obj().Name())
						if a != b {
							parent[a] = b
						}
					}
				}
				if ta := x.TypeArgs(); ta != nil {
					for i := 0; i < ta.Len(); i++ {
						refs(ta.At(i), from, depth+1)
					}
				}
			}
		}
		for _, n := range structs {
			if exclude[n.Obj().Name()] {
				continue
			}
			st := n.Underlying().(*types.Struct)
			for i := 0; i < st.NumFields(); i++ {
				refs(st.Field(i).Type(), n.Obj().Name(), 0)
			}
		}
		fams := map[string]*Family{}
		for _, n := range structs {
			if exclude[n.Obj().Name()] {
				continue
			}
			root := find(n.Obj().Name())
			f := fams[root]
			if f == nil {
				f = &Family{Types: map[string]bool{}}
				fams[root] = f
			}
			f.Types[n.Obj().Name()] = true
			switch {
			case impl(n, r.IStore):
				f.Store = n
				f.Name = n.Obj().Name()
			case impl(n, r.IRepo):
				f.Repo = n
			case impl(n, r.IBlobCreator):
				f.Upload = n
			}
		}
		var out []*Family
		for _, f := range fams {
			if f.Store != nil && f.Repo != nil && f.Upload != nil {
				out = append(out, f)
			}
		}
		return out
	}
	nStores := 0
	for _, n := range structs {
		if impl(n, r.IStore) {
			nStores++
		}
	}
	exclude := map[string]bool{}
	r.Families = components(exclude)
	// a helper struct used by several stores (a shared hashing or bookkeeping record) would tie their families into
	// one: such a type — not itself an implementation of the store API — is left out when that separates them
	for round := 0; round < 4 && len(r.Families) < nStores; round++ {
		improved := false
		for _, n := range structs {
			name := n.Obj().Name()
			if exclude[name] || impl(n, r.IStore) || impl(n, r.IRepo) || impl(n, r.IBlobCreator) {
				continue
			}
			exclude[name] = true
			if fs := components(exclude); len(fs) > len(r.Families) {
				r.Families = fs
				improved = true
				break
			}
			delete(exclude, name)
		}
		if !improved {
			break
		}
	}
	sort.Slice(r.Families, func(i, j int) bool { return r.Families[i].Name < r.Families[j].Name })
	// fallback when the constructor switch below cannot be read: the mutating family is the one whose functions make the
	// most mutating filesystem calls (a single stray call in the other family does not turn it into a persisting store)
	nMut := map[*Family]int{}
	maxMut := 0
	for _, fn := range p.Funcs("internal/store") {
		fam := r.FamilyOfFunc(fn)
		if fam == nil {
			continue
		}
		an.Calls(fn, func(call ssa.CallInstruction) {
			if f := an.FuncObj(call); f != nil && f.Pkg() != nil && f.Pkg().Path() == "os" && MutatingOS[f.Name()] && an.RecvNamed(f) == nil {
				nMut[fam]++
				if nMut[fam] > maxMut {
					maxMut = nMut[fam]
				}
			}
		})
	}
	for fam, k := range nMut {
		fam.Mutating = k > 0 && k == maxMut
	}
	// the server constructor's switch: which family is built for which configured store type
	if cp := p.All[r.ConfigPath]; cp != nil {
		constName := map[int64]string{}
		sc := cp.Types.Scope()
		for _, n := range sc.Names() {
			if k, ok := sc.Lookup(n).(*types.Const); ok && IsNamed(k.Type(), r.ConfigPath, "Store") {
				if v, ok := constant.Int64Val(k.Val()); ok {
					constName[v] = n
				}
			}
		}
		resolved := 0
		for _, fn := range p.Funcs("") {
			an.Calls(fn, func(call ssa.CallInstruction) {
				callee := call.Common().StaticCallee()
				if callee == nil || core.FuncPkgPath(callee) != r.StorePath {
					return
				}
				fam := r.FamilyOfFunc(callee)
				if fam == nil || callee.Signature.Results().Len() != 1 || an.NamedOf(callee.Signature.Results().At(0).Type()) != r.IStore {
					return
				}
				for _, g := range an.GuardingEdges(call.Block()) {
					x, y, op, ok := an.CmpTest(an.BlockIf(g.From))
					if !ok || op != token.EQL || g.Succ != 0 {
						continue
					}
					if k, isC := an.ConstInt(y); isC && IsNamed(x.Type(), r.ConfigPath, "Store") {
						fam.Kind = constName[k]
						resolved++
					}
				}
			})
		}
		if resolved < 2 {
			// the constructors chosen as function values (create = store.NewMem under `storeType == config.StoreMem`, called
			// later): the guard of the place the constructor is named decides the kind
			isCtor := func(v ssa.Value) *Family {
				callee, ok := v.(*ssa.Function)
				if !ok || core.FuncPkgPath(callee) != r.StorePath {
					return nil
				}
				if callee.Signature.Results().Len() != 1 || an.NamedOf(callee.Signature.Results().At(0).Type()) != r.IStore {
					return nil
				}
				return r.FamilyOfFunc(callee)
			}
			kindOf := func(edges []an.Edge) string {
				for _, g := range edges {
					x, y, op, ok := an.CmpTest(an.BlockIf(g.From))
					if !ok || op != token.EQL || g.Succ != 0 {
						continue
					}
					if k, isC := an.ConstInt(y); isC && IsNamed(x.Type(), r.ConfigPath, "Store") {
						return constName[k]
					}
				}
				return ""
			}
			for _, fn := range p.Funcs("") {
				an.Instrs(fn, func(in ssa.Instruction) {
					if phi, isPhi := in.(*ssa.Phi); isPhi {
						for i, ev := range phi.Edges {
							fam := isCtor(ev)
							if fam == nil || i >= len(phi.Block().Preds) {
								continue
							}
							pred := phi.Block().Preds[i]
							edges := an.GuardingEdges(pred)
							if an.BlockIf(pred) != nil && pred.Succs[0] != pred.Succs[1] {
								for k, sb := range pred.Succs {
									if sb == phi.Block() {
										edges = append(edges, an.Edge{From: pred, Succ: k})
									}
								}
							}
							if k := kindOf(edges); k != "" && fam.Kind == "" {
								fam.Kind = k
								resolved++
							}
						}
						return
					}
					if _, isCall := in.(ssa.CallInstruction); isCall {
						return
					}
					for _, op := range in.Operands(nil) {
						if op == nil || *op == nil {
							continue
						}
						if fam := isCtor(*op); fam != nil && fam.Kind == "" {
							if k := kindOf(an.GuardingEdges(in.Block())); k != "" {
								fam.Kind = k
								resolved++
							}
						}
					}
				})
			}
		}
		if resolved >= 2 {
			for _, f := range r.Families {
				f.Mutating = f.Kind == "StoreDir"
			}
		}
	}
	// server, router, handlers
	rp := p.All[r.RootPath]
	r.Server = LookupNamed(rp.Types, "Server")
	for _, fn := range p.Funcs("") {
		if fn.Signature.Recv() != nil && fn.Name() == "ServeHTTP" && fn.Parent() == nil {
			if n := an.NamedOf(fn.Signature.Recv().Type()); n != nil && n == r.Server {
				r.Router = fn
			}
		}
		if hasRespWriterParam(fn) {
			r.Handlers = append(r.Handlers, fn)
		}
	}
	r.Dispatch = r.Router
	if r.Router != nil {
		matches := func(f *ssa.Function) int {
			n := 0
			an.Calls(f, func(call ssa.CallInstruction) {
				sc := call.Common().StaticCallee()
				if sc == nil || sc.Pkg == nil || sc.Pkg.Pkg.Path() != r.RootPath {
					return
				}
				res := sc.Signature.Results()
				if res.Len() == 2 {
					if _, isSl := res.At(0).Type().Underlying().(*types.Slice); isSl {
						if b, ok := res.At(1).Type().Underlying().(*types.Basic); ok && b.Kind() == types.Bool {
							n++
						}
					}
				}
			})
			return n
		}
		if matches(r.Router) == 0 {
			an.Calls(r.Router, func(call ssa.CallInstruction) {
				sc := call.Common().StaticCallee()
				if sc == nil || sc == r.Router || sc.Signature.Recv() == nil || an.NamedOf(an.Deref(sc.Signature.Recv().Type())) != r.Server {
					return
				}
				if matches(sc) > 0 && (r.Dispatch == r.Router || matches(sc) > matches(r.Dispatch)) {
					r.Dispatch = sc
				}
			})
		}
	}
	return r
}

func hasRespWriterParam(fn *ssa.Function) bool {
	for _, pa := range fn.Params {
		if IsNamed(pa.Type(), "net/http", "ResponseWriter") {
			return true
		}
	}
	return false
}

func IsNamed(t types.Type, pkg, name string) bool {
	n, ok := t.(*types.Named)
	if !ok || n.Obj().Pkg() == nil {
		return false
	}
	return n.Obj().Pkg().Path() == pkg && n.Obj().Name() == name
}

// FamilyOfType returns the family a store-package type belongs to.
func (r *Roles) FamilyOfType(t types.Type) *Family {
	n := an.NamedOf(t)
	if n == nil || n.Obj().Pkg() == nil || n.Obj().Pkg().Path() != r.StorePath {
		return nil
	}
	for _, f := range r.Families {
		if f.Types[n.Obj().Name()] {
			return f
		}
	}
	return nil
}

// FamilyOfFunc returns the family of a method (or closure nested in a method / constructor) of the store package.
func (r *Roles) FamilyOfFunc(fn *ssa.Function) *Family {
	for f := fn; f != nil; f = f.Parent() {
		if f.Signature.Recv() != nil {
			if fam := r.FamilyOfType(f.Signature.Recv().Type()); fam != nil {
				return fam
			}
		}
		// constructors: a function of the store package returning Store whose body allocates the family's store type
		if f.Parent() == nil && core.FuncPkgPath(f) == r.StorePath && f.Signature.Recv() == nil {
			var fam *Family
			an.Instrs(f, func(in ssa.Instruction) {
				if a, ok := in.(*ssa.Alloc); ok {
					if ff := r.FamilyOfType(a.Type()); ff != nil && ff.Store != nil && an.NamedOf(a.Type()) == ff.Store {
						fam = ff
					}
				}
			})
			if fam != nil {
				return fam
			}
			// a free helper of the store package all of whose (static) callers belong to one family (a piece split out
			// of that family's methods); the shared ingest and collector are called from both families and stay shared
			if r.P != nil && f == fn {
				var only *Family
				ok := true
				sites := r.P.Callers(f)
				for _, site := range sites {
					pf := site.Parent()
					if pf == nil || pf == f || site.Common().StaticCallee() != f {
						ok = false
						break
					}
					cf := r.familyNoCallers(pf)
					if cf == nil || (only != nil && only != cf) {
						ok = false
						break
					}
					only = cf
				}
				if ok && only != nil && len(sites) > 0 {
					return only
				}
			}
		}
	}
	return nil
}

// familyNoCallers: FamilyOfFunc without the caller-based fallback (no recursion through the call graph).
func (r *Roles) familyNoCallers(fn *ssa.Function) *Family {
	for f := fn; f != nil; f = f.Parent() {
		if f.Signature.Recv() != nil {
			if fam := r.FamilyOfType(f.Signature.Recv().Type()); fam != nil {
				return fam
			}
		}
	}
	return nil
}

// API classifies a call as a call of the store API: interface name and method name.
// It recognises interface invocations and static calls of implementing methods.
func (r *Roles) API(call ssa.CallInstruction) (iface, method string, ok bool) {
	cc := call.Common()
	if cc.IsInvoke() {
		n := an.NamedOf(cc.Value.Type())
		if n == nil {
			return "", "", false
		}
		for _, it := range []*types.Named{r.IStore, r.IRepo, r.IBlobCreator} {
			if it != nil && n == it {
				return it.Obj().Name(), cc.Method.Name(), true
			}
		}
		return "", "", false
	}
	fn := cc.StaticCallee()
	if fn == nil || fn.Signature.Recv() == nil {
		return "", "", false
	}
	fam := r.FamilyOfType(fn.Signature.Recv().Type())
	if fam == nil {
		return "", "", false
	}
	n := an.NamedOf(fn.Signature.Recv().Type())
	var it *types.Named
	switch n {
	case fam.Store:
		it = r.IStore
	case fam.Repo:
		it = r.IRepo
	case fam.Upload:
		it = r.IBlobCreator
	}
	if it == nil || !r.APIMethods[it.Obj().Name()][fn.Name()] {
		return "", "", false
	}
	return it.Obj().Name(), fn.Name(), true
}

// IsAPI reports whether call is iface.method of the store API.
func (r *Roles) IsAPI(call ssa.CallInstruction, iface string, methods ...string) bool {
	i, m, ok := r.API(call)
	if !ok || i != iface {
		return false
	}
	for _, x := range methods {
		if x == m {
			return true
		}
	}
	return false
}

// IsSessionType reports whether t is the BlobCreator interface or one of its implementations.
func (r *Roles) IsSessionType(t types.Type) bool {
	n := an.NamedOf(t)
	if n == nil {
		return false
	}
	if n == r.IBlobCreator {
		return true
	}
	for _, f := range r.Families {
		if n == f.Upload {
			return true
		}
	}
	return false
}

// IsRepoType reports whether t is the Repo interface or one of its implementations.
func (r *Roles) IsRepoType(t types.Type) bool {
	n := an.NamedOf(t)
	if n == nil {
		return false
	}
	if n == r.IRepo {
		return true
	}
	for _, f := range r.Families {
		if n == f.Repo {
			return true
		}
	}
	return false
}

// MutatingOS lists the functions of package os that change the filesystem.
var MutatingOS = map[string]bool{"Create": true, "CreateTemp": true, "WriteFile": true, "Mkdir": true, "MkdirAll": true, "MkdirTemp": true,
	"Remove": true, "RemoveAll": true, "Rename": true, "Chmod": true, "Chown": true, "Lchown": true, "Chtimes": true, "Truncate": true,
	"Symlink": true, "Link": true, "OpenFile": true}
