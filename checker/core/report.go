package core

import (
	"crypto/sha256"
	"encoding/hex"
	"encoding/json"
	"fmt"
	"go/token"
	"os"
	"path/filepath"
	"sort"
	"strings"
	"time"
)

// Ob is one obligation: a rule instance checked on a named construct.
type Ob struct {
	Rule   string `json:"rule"`
	Key    string `json:"key"` // construct key: never contains line numbers
	Pos    string `json:"pos"` // file:line, for the reader only
	OK     bool   `json:"ok"`
	Detail string `json:"detail,omitempty"`
	Kind   string `json:"kind,omitempty"` // "", "undecided", "vacuous", "unresolved-role", "exception"
	// Tags name the clause / role the obligation belongs to; a property may claim a rule restricted to a tag.
	Tags []string `json:"tags,omitempty"`
}

// HasTag reports whether the obligation carries the tag.
func (o Ob) HasTag(t string) bool {
	for _, x := range o.Tags {
		if x == t {
			return true
		}
	}
	return false
}

// Ctx collects the obligations of one run.
type Ctx struct {
	P     *Prog
	Obs   []Ob
	Notes []string
	Stats map[string]int
	memo  map[string]any
	cur   string // rule being run
	tags  []string
}

// Tagged runs f with the given tags attached to every obligation it records.
func (c *Ctx) Tagged(tags []string, f func()) {
	saved := c.tags
	c.tags = append(append([]string{}, saved...), tags...)
	f()
	c.tags = saved
}

// SetTags replaces the current tags (until the next SetTags / end of rule).
func (c *Ctx) SetTags(tags ...string) { c.tags = tags }

func NewCtx(p *Prog) *Ctx {
	return &Ctx{P: p, Stats: map[string]int{}, memo: map[string]any{}}
}

// Memo caches an expensive shared analysis result under a name.
func Memo[T any](c *Ctx, name string, f func() T) T {
	if v, ok := c.memo[name]; ok {
		return v.(T)
	}
	v := f()
	c.memo[name] = v
	return v
}

func (c *Ctx) SetRule(id string) { c.cur = id; c.tags = nil }

func (c *Ctx) add(ok bool, kind, key string, pos token.Pos, format string, args ...any) {
	c.Obs = append(c.Obs, Ob{Rule: c.cur, Key: key, Pos: c.P.Pos(pos), OK: ok, Kind: kind, Detail: fmt.Sprintf(format, args...), Tags: append([]string(nil), c.tags...)})
}

// Pass records a discharged obligation.
func (c *Ctx) Pass(key string, pos token.Pos, format string, args ...any) {
	c.add(true, "", key, pos, format, args...)
}

// Fail records a violated obligation.
func (c *Ctx) Fail(key string, pos token.Pos, format string, args ...any) {
	c.add(false, "", key, pos, format, args...)
}

// Check records pass or fail.
func (c *Ctx) Check(ok bool, key string, pos token.Pos, format string, args ...any) {
	c.add(ok, "", key, pos, format, args...)
}

// Undecided records an obligation the rule could not decide; it fails closed.
func (c *Ctx) Undecided(key string, pos token.Pos, format string, args ...any) {
	c.add(false, "undecided", key, pos, format, args...)
}

// Unresolved records a role that could not be resolved; it fails closed.
func (c *Ctx) Unresolved(key string, format string, args ...any) {
	c.add(false, "unresolved-role", key, token.NoPos, format, args...)
}

// Exception records a named exception (one symbol, one reason); it passes and is printed in the evidence.
func (c *Ctx) Exception(key string, pos token.Pos, format string, args ...any) {
	c.add(true, "exception", key, pos, format, args...)
}

func (c *Ctx) Note(format string, args ...any) {
	c.Notes = append(c.Notes, fmt.Sprintf(format, args...))
}

// Finding is an entry of known_findings.json.
type Finding struct {
	Properties []string `json:"properties"`
	Rule       string   `json:"rule"`
	Key        string   `json:"key"`
	Status     string   `json:"status"` // "known" | "fixed"
	Commit     string   `json:"commit,omitempty"`
	What       string   `json:"what"`
	Line       string   `json:"line,omitempty"` // the "fixed: property=<id> <commit> <what failed>" form
}

type FindingsFile struct {
	Comment  string    `json:"comment"`
	Findings []Finding `json:"findings"`
}

func LoadFindings(path string) (*FindingsFile, error) {
	b, err := os.ReadFile(path)
	if err != nil {
		return nil, err
	}
	ff := &FindingsFile{}
	if err := json.Unmarshal(b, ff); err != nil {
		return nil, err
	}
	return ff, nil
}

// Known returns the known (unrepaired) finding matching rule and key for the property.
func (ff *FindingsFile) Known(prop, rule, key string) *Finding {
	for i := range ff.Findings {
		f := &ff.Findings[i]
		if f.Status != "known" || f.Rule != rule || f.Key != key {
			continue
		}
		for _, p := range f.Properties {
			if p == prop {
				return f
			}
		}
	}
	return nil
}

// Evidence is the JSON written to evidence/<id>.json.
type Evidence struct {
	PropertyID  string         `json:"property_id"`
	Tier        string         `json:"tier"`
	Seed        int            `json:"seed"`
	Level       string         `json:"level"`
	Coverage    map[string]any `json:"coverage"`
	Assumptions []string       `json:"assumptions"`
	WallS       float64        `json:"wall_s"`
	Violations  int            `json:"violations"`
}

// Outcome of judging a property.
type Outcome struct {
	Violations []Ob
	Known      []Ob
	KnownWhat  map[string]string
}

func hashKey(s string) string {
	h := sha256.Sum256([]byte(s))
	return hex.EncodeToString(h[:])[:12]
}

// Replay is the JSON stored for a violation.
type Replay struct {
	Property string `json:"property"`
	Rule     string `json:"rule"`
	Key      string `json:"key"`
	Pos      string `json:"pos"`
	Kind     string `json:"kind,omitempty"`
	Detail   string `json:"detail"`
	Repo     string `json:"repo"`
	When     string `json:"when"`
	Replay   string `json:"replay_cmd"`
}

// Judge splits failed obligations into known findings and violations, prints the
// KNOWN-FINDING / VIOLATION lines and writes replay files.
func Judge(prop string, obs []Ob, ff *FindingsFile, verifDir, repo string) Outcome {
	out := Outcome{KnownWhat: map[string]string{}}
	seen := map[string]bool{}
	for _, o := range obs {
		if o.OK {
			continue
		}
		id := o.Rule + "|" + o.Key
		if seen[id] {
			continue
		}
		seen[id] = true
		if f := ff.Known(prop, o.Rule, o.Key); f != nil {
			out.Known = append(out.Known, o)
			out.KnownWhat[id] = f.What
			continue
		}
		out.Violations = append(out.Violations, o)
	}
	for _, o := range out.Known {
		fmt.Printf("KNOWN-FINDING: property=%s %s [rule=%s key=%s at %s]\n", prop, out.KnownWhat[o.Rule+"|"+o.Key], o.Rule, o.Key, o.Pos)
	}
	_ = os.MkdirAll(filepath.Join(verifDir, "replays"), 0o755)
	for _, o := range out.Violations {
		name := fmt.Sprintf("%s-%s-%s.json", prop, o.Rule, hashKey(o.Rule+"|"+o.Key))
		path := filepath.Join(verifDir, "replays", name)
		r := Replay{Property: prop, Rule: o.Rule, Key: o.Key, Pos: o.Pos, Kind: o.Kind, Detail: o.Detail, Repo: repo,
			When:   time.Now().UTC().Format(time.RFC3339),
			Replay: fmt.Sprintf("%s/bin/olacheck -prop %s -replay %s", verifDir, prop, path)}
		b, _ := json.MarshalIndent(r, "", "  ")
		_ = os.WriteFile(path, append(b, '\n'), 0o644)
		kind := ""
		if o.Kind != "" {
			kind = " kind=" + o.Kind
		}
		fmt.Printf("  violated: rule=%s%s at %s\n    construct: %s\n    %s\n", o.Rule, kind, o.Pos, o.Key, strings.ReplaceAll(o.Detail, "\n", "\n    "))
		fmt.Printf("VIOLATION property=%s replay=%s\n", prop, path)
	}
	return out
}

// SortObs orders obligations deterministically.
func SortObs(obs []Ob) {
	sort.SliceStable(obs, func(i, j int) bool {
		if obs[i].Rule != obs[j].Rule {
			return obs[i].Rule < obs[j].Rule
		}
		if obs[i].Key != obs[j].Key {
			return obs[i].Key < obs[j].Key
		}
		return obs[i].Pos < obs[j].Pos
	})
}

// WriteEvidence writes the evidence file atomically.
func WriteEvidence(path string, ev Evidence) error {
	if err := os.MkdirAll(filepath.Dir(path), 0o755); err != nil {
		return err
	}
	b, err := json.MarshalIndent(ev, "", " ")
	if err != nil {
		return err
	}
	tmp := path + ".tmp"
	if err := os.WriteFile(tmp, append(b, '\n'), 0o644); err != nil {
		return err
	}
	return os.Rename(tmp, path)
}
