// Package core loads the program under analysis and carries the reporting plumbing
// (obligations, violations, known findings, evidence).
package core

import (
	"fmt"
	"go/token"
	"go/types"
	"os"
	"regexp"
	"sort"
	"strings"

	"golang.org/x/tools/go/callgraph"
	"golang.org/x/tools/go/callgraph/cha"
	"golang.org/x/tools/go/callgraph/vta"
	"golang.org/x/tools/go/packages"
	"golang.org/x/tools/go/ssa"
	"golang.org/x/tools/go/ssa/ssautil"
)

// Prog is the type-checked, SSA-built program with its call graph.
type Prog struct {
	Dir     string
	Fset    *token.FileSet
	Initial []*packages.Package
	All     map[string]*packages.Package // by package path, module packages only
	SSA     *ssa.Program
	CG      *callgraph.Graph
	Module  string // module path of the repository

	AllFuncs map[*ssa.Function]bool
	// functions of the module (including generic instantiations and closures), sorted by position
	ModFuncs []*ssa.Function
	byName   map[string][]*ssa.Function
}

// LoadConfig selects the build context.
type LoadConfig struct {
	Dir     string
	Env     []string          // extra environment (GOOS=..., GOARCH=...)
	Overlay map[string][]byte // in-memory edits (self-test only)
}

// Load type-checks ./... in dir, builds SSA with instantiated generics and the VTA call graph.
func Load(lc LoadConfig) (*Prog, error) {
	env := append(os.Environ(), "GOFLAGS=-mod=mod", "GOPROXY=off", "GOSUMDB=off", "GOTOOLCHAIN=local", "GOWORK=off")
	env = append(env, lc.Env...)
	cfg := &packages.Config{
		Mode:    packages.LoadAllSyntax | packages.NeedModule,
		Dir:     lc.Dir,
		Env:     env,
		Tests:   false,
		Overlay: lc.Overlay,
	}
	pkgs, err := packages.Load(cfg, "./...")
	if err != nil {
		return nil, fmt.Errorf("load: %w", err)
	}
	if len(pkgs) == 0 {
		return nil, fmt.Errorf("load: no packages found in %s", lc.Dir)
	}
	p := &Prog{Dir: lc.Dir, Initial: pkgs, All: map[string]*packages.Package{}, byName: map[string][]*ssa.Function{}}
	var errs []string
	packages.Visit(pkgs, nil, func(pk *packages.Package) {
		for _, e := range pk.Errors {
			errs = append(errs, fmt.Sprintf("%s: %s", pk.PkgPath, e.Msg))
		}
	})
	if len(errs) > 0 {
		sort.Strings(errs)
		if len(errs) > 10 {
			errs = errs[:10]
		}
		return nil, fmt.Errorf("type errors: %s", strings.Join(errs, "; "))
	}
	for _, pk := range pkgs {
		if pk.Module != nil && pk.Module.Main {
			p.Module = pk.Module.Path
			break
		}
	}
	if p.Module == "" {
		return nil, fmt.Errorf("load: cannot determine main module")
	}
	p.Fset = pkgs[0].Fset
	packages.Visit(pkgs, nil, func(pk *packages.Package) {
		if pk.Module != nil && pk.Module.Main {
			p.All[pk.PkgPath] = pk
		}
	})
	prog, _ := ssautil.AllPackages(pkgs, ssa.InstantiateGenerics)
	prog.Build()
	p.SSA = prog
	p.AllFuncs = ssautil.AllFunctions(prog)
	p.CG = vta.CallGraph(p.AllFuncs, cha.CallGraph(prog))
	for fn := range p.AllFuncs {
		if p.InModule(fn) && fn.Blocks != nil {
			p.ModFuncs = append(p.ModFuncs, fn)
			p.byName[fn.String()] = append(p.byName[fn.String()], fn)
		}
	}
	sort.Slice(p.ModFuncs, func(i, j int) bool {
		a, b := p.ModFuncs[i], p.ModFuncs[j]
		if a.Pos() != b.Pos() {
			return a.Pos() < b.Pos()
		}
		return a.String() < b.String()
	})
	return p, nil
}

// FuncPkg returns the package a function belongs to (following closures and instantiations).
func FuncPkg(fn *ssa.Function) *ssa.Package {
	for fn != nil {
		if fn.Pkg != nil {
			return fn.Pkg
		}
		if fn.Origin() != nil && fn.Origin() != fn {
			fn = fn.Origin()
			continue
		}
		if fn.Parent() != nil {
			fn = fn.Parent()
			continue
		}
		if o := fn.Object(); o != nil && o.Pkg() != nil {
			return nil
		}
		return nil
	}
	return nil
}

// FuncPkgPath returns the import path of the package that declares fn.
func FuncPkgPath(fn *ssa.Function) string {
	for f := fn; f != nil; {
		if f.Pkg != nil {
			return f.Pkg.Pkg.Path()
		}
		if o := f.Object(); o != nil && o.Pkg() != nil {
			return o.Pkg().Path()
		}
		if f.Origin() != nil && f.Origin() != f {
			f = f.Origin()
			continue
		}
		f = f.Parent()
	}
	return ""
}

// InModule reports whether fn is declared in the repository's module.
func (p *Prog) InModule(fn *ssa.Function) bool {
	pp := FuncPkgPath(fn)
	return pp == p.Module || strings.HasPrefix(pp, p.Module+"/")
}

// Pkg returns a module package by path relative to the module root ("" = root package).
func (p *Prog) Pkg(rel string) *packages.Package {
	path := p.Module
	if rel != "" {
		path += "/" + rel
	}
	return p.All[path]
}

// SSAPkg returns the ssa package for a relative path.
func (p *Prog) SSAPkg(rel string) *ssa.Package {
	pk := p.Pkg(rel)
	if pk == nil {
		return nil
	}
	return p.SSA.Package(pk.Types)
}

// Pos renders a position relative to the repository directory.
func (p *Prog) Pos(pos token.Pos) string {
	if !pos.IsValid() {
		return "-"
	}
	ps := p.Fset.Position(pos)
	f := ps.Filename
	if strings.HasPrefix(f, p.Dir+"/") {
		f = f[len(p.Dir)+1:]
	}
	return fmt.Sprintf("%s:%d", f, ps.Line)
}

// FuncName is a stable, human-readable name of a function: pkg-relative, with closures as parent$n.
func (p *Prog) FuncName(fn *ssa.Function) string {
	if fn == nil {
		return "<nil>"
	}
	s := fn.String()
	s = strings.ReplaceAll(s, p.Module+"/internal/", "")
	s = strings.ReplaceAll(s, p.Module+"/", "")
	s = strings.ReplaceAll(s, p.Module+".", "olareg.")
	s = strings.ReplaceAll(s, p.Module, "olareg")
	s = strings.ReplaceAll(s, "github.com/opencontainers/go-digest", "digest")
	return s
}

var closureNum = regexp.MustCompile(`\$\d+`)
var typeArgSuffix = regexp.MustCompile(`\)\.(\w+)\[[^\]]*\]`)

// KeyName is FuncName made stable for violation keys: closure numbers and the repeated type
// arguments of instantiated methods are dropped.
func (p *Prog) KeyName(fn *ssa.Function) string { return KeyOfName(p.FuncName(fn)) }

// KeyOfName normalises a rendered function name.
func KeyOfName(s string) string {
	if i := strings.Index(s, ":"); i > 0 && !strings.Contains(s[:i], "(") && !strings.Contains(s[:i], ".") {
		return s[:i+1] + KeyOfName(s[i+1:])
	}
	s = typeArgSuffix.ReplaceAllString(s, ").$1")
	s = closureNum.ReplaceAllString(s, "$$fn")
	if i := strings.Index(s, "["); i > 0 && !strings.HasPrefix(s, "(") {
		// generic function instance: cache.New[...]
		s = s[:i]
	}
	return s
}

// TypeName renders a type relative to the module.
func (p *Prog) TypeName(t types.Type) string {
	s := types.TypeString(t, func(pk *types.Package) string {
		if pk.Path() == p.Module {
			return "olareg"
		}
		if strings.HasPrefix(pk.Path(), p.Module+"/") {
			return pk.Name()
		}
		return pk.Name()
	})
	return s
}

// Funcs returns the module functions declared in the package with the given relative path.
func (p *Prog) Funcs(rel string) []*ssa.Function {
	path := p.Module
	if rel != "" {
		path += "/" + rel
	}
	var out []*ssa.Function
	for _, fn := range p.ModFuncs {
		if FuncPkgPath(fn) == path {
			out = append(out, fn)
		}
	}
	return out
}

// Callees returns the call-graph callees of one call site.
func (p *Prog) Callees(site ssa.CallInstruction) []*ssa.Function {
	n := p.CG.Nodes[site.Parent()]
	if n == nil {
		return nil
	}
	var out []*ssa.Function
	seen := map[*ssa.Function]bool{}
	for _, e := range n.Out {
		if e.Site == site && !seen[e.Callee.Func] {
			seen[e.Callee.Func] = true
			out = append(out, e.Callee.Func)
		}
	}
	sort.Slice(out, func(i, j int) bool { return out[i].String() < out[j].String() })
	return out
}

// Callers returns the call sites that may call fn.
func (p *Prog) Callers(fn *ssa.Function) []ssa.CallInstruction {
	n := p.CG.Nodes[fn]
	if n == nil {
		return nil
	}
	var out []ssa.CallInstruction
	seen := map[ssa.CallInstruction]bool{}
	for _, e := range n.In {
		if e.Site != nil && !seen[e.Site] {
			seen[e.Site] = true
			// the wrappers go/ssa synthesises (pointer-receiver wrapper of a value method, bound-method and thunk
			// wrappers) are callers only when something calls them
			if par := e.Site.Parent(); par != nil && par != fn && (strings.HasPrefix(par.Synthetic, "wrapper for") || strings.HasPrefix(par.Synthetic, "bound method wrapper") || strings.HasPrefix(par.Synthetic, "thunk for")) {
				if pn := p.CG.Nodes[par]; pn == nil || len(pn.In) == 0 {
					continue
				}
			}
			out = append(out, e.Site)
		}
	}
	sort.Slice(out, func(i, j int) bool { return out[i].Pos() < out[j].Pos() })
	return out
}
