package rules

import (
	"go/token"
	"go/types"

	"golang.org/x/tools/go/ssa"

	"olacheck/an"
	"olacheck/core"
)

// TS-LOADSTAMP: a store that skips re-reading a file when a remembered modification time equals the file's current
// one must only ever advance that stamp together with the content it stands for.  In every function that compares a
// time field of its receiver with a file's ModTime(): on every path to every return, the stamp field has been stored
// only if the receiver's index has been replaced on that path — a stamp advanced before the content was parsed makes
// the next load (even a forced one) take ‘unchanged’ for a file that was never loaded: after a restart the repository
// then runs on the empty default index, and the collector, which finds no references in it, deletes every blob.

func init() {
	register(&Rule{ID: "TS-LOADSTAMP", Floor: 1,
		Doc: "in every store function that skips a load when a time field of the repository equals the file's ModTime(), that field is stored only on paths on which the in-memory index was replaced (path state ‘stamp advanced ⇒ content replaced’ at every return): the ‘unchanged’ shortcut can never vouch for content that was not loaded",
		Run: func(c *core.Ctx) {
			r := requireRoles(c)
			if r == nil {
				return
			}
			n := 0
			for _, fn := range c.P.Funcs("internal/store") {
				if fn.Signature.Recv() == nil || len(fn.Params) == 0 || len(fn.Blocks) == 0 {
					continue
				}
				recv := fn.Params[0]
				recvField := func(v ssa.Value) (int, bool) {
					ld, ok := an.Strip(v).(*ssa.UnOp)
					if !ok || ld.Op != token.MUL {
						return 0, false
					}
					fa, ok := ld.X.(*ssa.FieldAddr)
					if !ok || fa.X != ssa.Value(recv) {
						return 0, false
					}
					return fa.Field, true
				}
				isModTime := func(v ssa.Value) bool {
					call, _ := an.CallOf(an.Origin(v))
					if call == nil {
						return false
					}
					if call.Call.IsInvoke() {
						return call.Call.Method.Name() == "ModTime"
					}
					sc := call.Call.StaticCallee()
					return sc != nil && sc.Name() == "ModTime"
				}
				stamp := -1
				for _, b := range fn.Blocks {
					ifi := an.BlockIf(b)
					if ifi == nil {
						continue
					}
					var x, y ssa.Value
					if a, bb, op, ok := an.CmpTest(ifi); ok && (op == token.EQL || op == token.NEQ) {
						x, y = a, bb
					} else if call, _, ok := an.BoolCallTest(ifi); ok && an.IsMethod(call, "time", "Time", "Equal") && len(call.Call.Args) == 2 {
						x, y = call.Call.Args[0], call.Call.Args[1]
					} else {
						continue
					}
					for _, pair := range [][2]ssa.Value{{x, y}, {y, x}} {
						if f, ok := recvField(pair[0]); ok && isModTime(pair[1]) {
							stamp = f
						}
					}
				}
				if stamp < 0 {
					continue
				}
				st, ok := an.Deref(recv.Type()).Underlying().(*types.Struct)
				if !ok {
					continue
				}
				n++
				key := "stamp:" + kn(c.P.FuncName(fn)) + "|" + st.Field(stamp).Name()
				isIndexAddr := func(v ssa.Value) bool {
					fa, ok := v.(*ssa.FieldAddr)
					return ok && fa.X == ssa.Value(recv) && isNamedType(an.Deref(fa.Type()), r.TypesPath, "Index")
				}
				type ps struct{ stamp, content bool }
				bad := token.NoPos
				an.Paths(an.PathSpec[ps]{Fn: fn, Init: ps{},
					Instr: func(s ps, in ssa.Instruction) []ps {
						switch x := in.(type) {
						case *ssa.Store:
							if fa, ok := x.Addr.(*ssa.FieldAddr); ok && fa.X == ssa.Value(recv) && fa.Field == stamp {
								s.stamp = true
							}
							if isIndexAddr(x.Addr) {
								s.content = true
							}
						case *ssa.Call:
							// decoded in place: json…Decode(&dr.index) / Unmarshal(raw, &dr.index)
							if an.IsMethod(x, "encoding/json", "Decoder", "Decode") || an.IsFunc(x, "encoding/json", "Unmarshal") {
								for _, a := range x.Call.Args {
									if mi, ok := a.(*ssa.MakeInterface); ok && isIndexAddr(mi.X) {
										s.content = true
									}
								}
							}
						case *ssa.Return:
							if s.stamp && !s.content && bad == token.NoPos {
								bad = x.Pos()
							}
						}
						return []ps{s}
					}})
				c.Check(bad == token.NoPos, key, fn.Pos(), "%s stores the ‘file unchanged’ stamp %s only on paths on which it replaced the in-memory index: %v — otherwise (return at %s) a load that failed after the stamp was advanced is answered with ‘unchanged’ the next time, the repository runs on an index that was never read from the file, and the collector deletes what that index does not mention", c.P.FuncName(fn), st.Field(stamp).Name(), bad == token.NoPos, c.P.Pos(bad))
			}
			if n == 0 {
				c.Unresolved("stamp", "no store function compares a time field of the repository with a file's ModTime()")
			}
		}})
}
