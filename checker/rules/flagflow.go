package rules

import (
	"go/token"
	"go/types"
	"strings"

	"golang.org/x/tools/go/ssa"

	"olacheck/an"
	"olacheck/core"
)

// optionFlow: where the option fields the flags are bound to end up in the configuration, decided on the value flow of
// the command package rather than on the shape of one composite literal: a fact is ‘this value carries option F’ (a
// scalar, or the address of one) or ‘this struct (value or address) holds option F at the relative path P’.  Facts start
// at every &opts.F / opts.F of an options struct and follow loads, conversions, string building, stores into fields of
// local structs (the path grows), loads of whole structs, returns to the call sites, arguments into the functions of the
// package, and writes through pointer parameters back to the arguments.  Whenever a struct of type config.Config holds
// F at P, F flows to P.
type flowFact struct {
	v     ssa.Value
	path  string
	field string
	out   bool // written through a pointer parameter: goes back to the callers' arguments
}

func optionFlow(c *core.Ctx, pkgRel string, rootTypes map[*types.Named]bool) map[string][]string {
	res := map[string][]string{}
	cmdPath := c.P.Module + "/" + pkgRel
	inCmd := func(fn *ssa.Function) bool {
		return fn != nil && len(fn.Blocks) > 0 && core.FuncPkgPath(fn) == cmdPath
	}
	isConfig := func(t types.Type) bool { return isNamed(an.Deref(t), c.P.Module+"/config", "Config") }
	join := func(a, b string) string {
		switch {
		case a == "":
			return b
		case b == "":
			return a
		}
		return a + "." + b
	}
	seen := map[flowFact]bool{}
	var work []flowFact
	add := func(v ssa.Value, path, field string, out bool) {
		if v == nil {
			return
		}
		f := flowFact{v, path, field, out}
		if seen[f] || len(seen) > 20000 {
			return
		}
		seen[f] = true
		work = append(work, f)
	}
	fieldName := func(t types.Type, i int) (string, *types.Named) {
		st, ok := an.Deref(t).Underlying().(*types.Struct)
		if !ok || i >= st.NumFields() {
			return "", nil
		}
		return st.Field(i).Name(), an.NamedOf(an.Deref(t))
	}
	// placeOf: the root an address is an element of, and the field path below the root
	placeOf := func(addr ssa.Value) (ssa.Value, string) {
		path := ""
		for i := 0; i < 16; i++ {
			switch x := addr.(type) {
			case *ssa.FieldAddr:
				n, _ := fieldName(x.X.Type(), x.Field)
				path = join(n, path)
				addr = x.X
				continue
			case *ssa.IndexAddr:
				addr = x.X
				continue
			}
			break
		}
		return addr, path
	}
	// sources
	for _, fn := range c.P.Funcs(pkgRel) {
		an.Instrs(fn, func(in ssa.Instruction) {
			fa, ok := in.(*ssa.FieldAddr)
			if !ok {
				return
			}
			n, named := fieldName(fa.X.Type(), fa.Field)
			if named != nil && rootTypes[named] {
				add(fa, "", n, false)
			}
		})
	}
	resultsAt := func(fn *ssa.Function, idx int) []ssa.Value {
		var out []ssa.Value
		for _, site := range c.P.Callers(fn) {
			call, ok := site.(*ssa.Call)
			if !ok || call.Call.StaticCallee() != fn {
				continue
			}
			if fn.Signature.Results().Len() == 1 {
				out = append(out, call)
				continue
			}
			if call.Referrers() != nil {
				for _, r := range *call.Referrers() {
					if ex, ok := r.(*ssa.Extract); ok && ex.Index == idx {
						out = append(out, ex)
					}
				}
			}
		}
		return out
	}
	for len(work) > 0 {
		f := work[len(work)-1]
		work = work[:len(work)-1]
		if f.path != "" && isConfig(f.v.Type()) {
			res[f.field] = append(res[f.field], f.path)
		}
		// written through a pointer parameter: the callers' arguments hold it
		if p, isParam := f.v.(*ssa.Parameter); isParam && f.out {
			fn := p.Parent()
			for i, q := range fn.Params {
				if q != p {
					continue
				}
				for _, site := range c.P.Callers(fn) {
					if site.Common().StaticCallee() != fn || i >= len(site.Common().Args) {
						continue
					}
					root, q := placeOf(site.Common().Args[i])
					_, rootIsParam := root.(*ssa.Parameter)
					add(root, join(q, f.path), f.field, rootIsParam)
				}
			}
		}
		refs := f.v.Referrers()
		if refs == nil {
			continue
		}
		for _, r := range *refs {
			switch x := r.(type) {
			case *ssa.FieldAddr:
				n, named := fieldName(x.X.Type(), x.Field)
				switch {
				case f.path == "":
					// the address of an options sub-struct: its fields are options of their own
					if named != nil && named.Obj().Pkg() != nil && named.Obj().Pkg().Path() == cmdPath {
						add(x, "", f.field+"."+n, false)
					}
				case f.path == n:
					add(x, "", f.field, false)
				case strings.HasPrefix(f.path, n+"."):
					add(x, f.path[len(n)+1:], f.field, false)
				}
			case *ssa.Field:
				n, named := fieldName(x.X.Type(), x.Field)
				switch {
				case f.path == "":
					if named != nil && named.Obj().Pkg() != nil && named.Obj().Pkg().Path() == cmdPath {
						add(x, "", f.field+"."+n, false)
					}
				case f.path == n:
					add(x, "", f.field, false)
				case strings.HasPrefix(f.path, n+"."):
					add(x, f.path[len(n)+1:], f.field, false)
				}
			case *ssa.UnOp:
				if x.Op == token.MUL || f.path == "" {
					add(x, f.path, f.field, false)
				}
			case *ssa.Convert:
				add(x, f.path, f.field, false)
			case *ssa.ChangeType:
				add(x, f.path, f.field, false)
			case *ssa.ChangeInterface:
				add(x, f.path, f.field, false)
			case *ssa.MakeInterface:
				add(x, f.path, f.field, false)
			case *ssa.Slice:
				add(x, f.path, f.field, false)
			case *ssa.Phi:
				add(x, f.path, f.field, false)
			case *ssa.Extract:
				add(x, f.path, f.field, false)
			case *ssa.BinOp:
				if f.path == "" {
					add(x, "", f.field, false)
				}
			case *ssa.Store:
				if x.Val != f.v {
					continue
				}
				root, q := placeOf(x.Addr)
				_, rootIsParam := root.(*ssa.Parameter)
				add(root, join(q, f.path), f.field, rootIsParam)
			case *ssa.Return:
				for i, rv := range x.Results {
					if rv != f.v {
						continue
					}
					for _, cv := range resultsAt(x.Parent(), i) {
						add(cv, f.path, f.field, false)
					}
				}
			case ssa.CallInstruction:
				cc := x.Common()
				if bi, ok := cc.Value.(*ssa.Builtin); ok {
					if bi.Name() == "append" {
						if v := x.Value(); v != nil {
							add(v, f.path, f.field, false)
						}
					}
					continue
				}
				callee := cc.StaticCallee()
				if inCmd(callee) {
					for i, a := range cc.Args {
						if a == f.v && i < len(callee.Params) {
							add(callee.Params[i], f.path, f.field, false)
						}
					}
					continue
				}
				if f.path != "" {
					continue
				}
				// a library function: the value it builds from the option carries it (fmt.Sprintf, strconv.Itoa), and so
				// does the local a pointer-receiver method fills from it (kind.UnmarshalText([]byte(opts.storeType)))
				if v := x.Value(); v != nil {
					add(v, "", f.field, false)
				}
				if callee != nil && callee.Signature.Recv() != nil && len(cc.Args) > 1 && cc.Args[0] != f.v {
					if al, ok := cc.Args[0].(*ssa.Alloc); ok {
						add(al, "", f.field, false)
					}
				}
			}
		}
	}
	return res
}
