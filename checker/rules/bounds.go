package rules

import (
	"fmt"
	"go/token"
	"go/types"
	"strings"

	"golang.org/x/tools/go/ssa"

	"olacheck/an"
	"olacheck/core"
)

func init() {
	register(&Rule{ID: "PV-BOUNDS", Floor: 3,
		Doc: "for every slice / index expression of the server package whose bound or index derives from an integer parsed from the request (strconv.Atoi/ParseInt/ParseUint; directly, through ± constants, through φ, or through len of a slice cut with such a bound), difference-bound facts implied by the dominating branch conditions (and, per φ operand, by the conditions on its incoming edge) prove 0 ≤ low ≤ high ≤ len / 0 ≤ i < len; constant φ operands are out of scope; an obligation that cannot be proven is reported",
		Run: runBounds})
}

// sym is a symbol of the difference-bound domain: an SSA value, the length of a slice-valued source, or zero.
type sym struct {
	kind string // "zero" | "val" | "len"
	v    ssa.Value
}

type lin struct {
	s sym
	k int64
}

type boundsCtx struct {
	c  *core.Ctx
	fn *ssa.Function
}

// fieldStoresOf returns the stores to the same struct field (same base allocation, same field) as load l.
func fieldKey(addr ssa.Value) (ssa.Value, int, bool) {
	fa, ok := addr.(*ssa.FieldAddr)
	if !ok {
		return nil, 0, false
	}
	if _, isAlloc := fa.X.(*ssa.Alloc); !isAlloc {
		return nil, 0, false
	}
	return fa.X, fa.Field, true
}

func (b *boundsCtx) storesTo(base ssa.Value, field int) []*ssa.Store {
	var out []*ssa.Store
	an.Instrs(b.fn, func(in ssa.Instruction) {
		if st, ok := in.(*ssa.Store); ok {
			if bs, f, ok := fieldKey(st.Addr); ok && bs == base && f == field {
				out = append(out, st)
			}
		}
	})
	return out
}

func dominatesInstr(a, x ssa.Instruction) bool {
	if a.Block() == x.Block() {
		return an.InstrIndex(a) < an.InstrIndex(x)
	}
	return a.Block().Dominates(x.Block())
}

// forward resolves a load of a local struct field to the value last stored, when one store dominates the
// load and no other store to the field lies between them; otherwise it returns a canonical representative
// load (the earliest load with no store in between), so that equal values get equal symbols.
func (b *boundsCtx) forward(v ssa.Value) ssa.Value {
	u, ok := v.(*ssa.UnOp)
	if !ok || u.Op != token.MUL {
		return v
	}
	base, field, ok := fieldKey(u.X)
	if !ok {
		return v
	}
	stores := b.storesTo(base, field)
	// the latest dominating store with no other store between it and the load
	for _, s := range stores {
		if !dominatesInstr(s, u) {
			continue
		}
		clean := true
		for _, o := range stores {
			if o != s && an.Reaches(s, o) && an.Reaches(o, u) {
				clean = false
			}
		}
		if clean {
			return s.Val
		}
	}
	// representative load
	var rep ssa.Value = u
	an.Instrs(b.fn, func(in ssa.Instruction) {
		l, ok := in.(*ssa.UnOp)
		if !ok || l.Op != token.MUL || l == u {
			return
		}
		if bs, f, ok := fieldKey(l.X); !ok || bs != base || f != field {
			return
		}
		if !dominatesInstr(l, u) {
			return
		}
		for _, s := range stores {
			if an.Reaches(l, s) && an.Reaches(s, u) {
				return
			}
		}
		if rl, ok := rep.(*ssa.UnOp); ok && dominatesInstr(l, rl) {
			rep = l
		}
	})
	return rep
}

func (b *boundsCtx) norm(v ssa.Value, depth int) lin {
	if depth > 12 {
		return lin{sym{"val", v}, 0}
	}
	switch x := v.(type) {
	case *ssa.Const:
		if k, ok := an.ConstInt(x); ok {
			return lin{sym{kind: "zero"}, k}
		}
	case *ssa.Convert:
		if bt, ok := x.X.Type().Underlying().(*types.Basic); ok && bt.Info()&types.IsInteger != 0 {
			return b.norm(x.X, depth+1)
		}
	case *ssa.ChangeType:
		return b.norm(x.X, depth+1)
	case *ssa.BinOp:
		if x.Op == token.ADD || x.Op == token.SUB {
			if k, ok := an.ConstInt(x.Y); ok {
				l := b.norm(x.X, depth+1)
				if x.Op == token.SUB {
					k = -k
				}
				return lin{l.s, l.k + k}
			}
			if k, ok := an.ConstInt(x.X); ok && x.Op == token.ADD {
				l := b.norm(x.Y, depth+1)
				return lin{l.s, l.k + k}
			}
		}
	case *ssa.Call:
		if arg := lenOf(x); arg != nil {
			src := b.forward(arg)
			if sl, ok := src.(*ssa.Slice); ok {
				if sl.High != nil {
					h := b.norm(sl.High, depth+1)
					if sl.Low == nil {
						return h
					}
					if k, ok := an.ConstInt(sl.Low); ok {
						return lin{h.s, h.k - k}
					}
				}
			}
			return lin{sym{"len", src}, 0}
		}
	case *ssa.UnOp:
		if x.Op == token.MUL {
			if f := b.forward(x); f != ssa.Value(x) {
				return b.norm(f, depth+1)
			}
		}
	case *ssa.Extract:
		return lin{sym{"val", x}, 0}
	}
	return lin{sym{"val", v}, 0}
}

// fact: a - b <= c
type fact struct {
	a, b sym
	c    int64
}

// factsAt collects the facts implied by the conditional edges dominating block blk.
func (b *boundsCtx) factsAt(blk *ssa.BasicBlock) []fact {
	var out []fact
	for _, g := range an.GuardingEdges(blk) {
		if g.From != nil && !g.Synthetic() {
			out = append(out, b.edgeFacts(g.From, g.Succ)...)
		}
		// the edge may test the verdict of a helper (`limit, ok := parse(n); if ok …`): the comparisons the helper made on
		// the way to that verdict hold too, with the values it returns standing for the results extracted here
		for _, fe := range an.ImpliedHelperEdges(g) {
			hb := &boundsCtx{c: b.c, fn: fe.Callee}
			hf := hb.edgeFacts(fe.From, fe.Succ)
			if len(hf) == 0 {
				continue
			}
			// helper value returned at result k (the same on all returns consistent with the verdict)  ->  Extract #k here
			subst := map[ssa.Value]ssa.Value{}
			if fe.Call.Referrers() != nil {
				for _, ref := range *fe.Call.Referrers() {
					ex, ok := ref.(*ssa.Extract)
					if !ok {
						continue
					}
					var rv ssa.Value
					same := true
					for _, hr := range an.HelperReturns(ex, nil) {
						if _, isC := hr.Val.(*ssa.Const); isC {
							continue // e.g. `return 0, false`: not a return with the accepted verdict's value
						}
						v := stripInt(hr.Val)
						if rv != nil && rv != v {
							same = false
						}
						rv = v
					}
					if same && rv != nil {
						subst[rv] = ex
					}
				}
			}
			for _, f := range hf {
				ok := true
				for _, sp := range []*sym{&f.a, &f.b} {
					if sp.kind == "zero" {
						continue
					}
					if nv, has := subst[sp.v]; has && sp.kind == "val" {
						sp.v = nv
					} else {
						ok = false
					}
				}
				if ok {
					out = append(out, f)
				}
			}
		}
	}
	return out
}

// factsOnEdge: the facts holding when control goes from pred to succ (the dominating conditions of pred
// plus the condition of the edge itself).
func (b *boundsCtx) factsOnEdge(pred, succ *ssa.BasicBlock) []fact {
	out := b.factsAt(pred)
	if an.BlockIf(pred) != nil && len(pred.Succs) == 2 && pred.Succs[0] != pred.Succs[1] {
		for i, s := range pred.Succs {
			if s == succ {
				out = append(out, b.edgeFacts(pred, i)...)
			}
		}
	}
	return out
}

func (b *boundsCtx) edgeFacts(from *ssa.BasicBlock, succ int) []fact {
	var out []fact
	{
		x, y, op, ok := an.CmpTest(an.BlockIf(from))
		if !ok {
			return nil
		}
		if succ == 1 {
			op = an.NegateOp(op)
		}
		if bt, ok := x.Type().Underlying().(*types.Basic); !ok || bt.Info()&types.IsInteger == 0 {
			return nil
		}
		lx, ly := b.norm(x, 0), b.norm(y, 0)
		// lx.s + lx.k  op  ly.s + ly.k
		add := func(a, bb lin, c int64) { // a <= bb + c
			out = append(out, fact{a.s, bb.s, bb.k - a.k + c})
		}
		switch op {
		case token.LSS:
			add(lx, ly, -1)
		case token.LEQ:
			add(lx, ly, 0)
		case token.GTR:
			add(ly, lx, -1)
		case token.GEQ:
			add(ly, lx, 0)
		case token.EQL:
			add(lx, ly, 0)
			add(ly, lx, 0)
		case token.NEQ:
			// len != 0  =>  len >= 1
			for _, pair := range [][2]lin{{lx, ly}, {ly, lx}} {
				if pair[0].s.kind == "len" && pair[1].s.kind == "zero" && pair[1].k-pair[0].k == 0 {
					out = append(out, fact{sym{kind: "zero"}, pair[0].s, -1 + 0})
				}
			}
		}
	}
	return out
}

// entails: facts |= a <= b + c  (a, b symbols)
func entails(facts []fact, a, bsym sym, c int64) bool {
	if a == bsym && c >= 0 {
		return true
	}
	// collect symbols
	idx := map[sym]int{}
	add := func(s sym) {
		if _, ok := idx[s]; !ok {
			idx[s] = len(idx)
		}
	}
	zero := sym{kind: "zero"}
	add(zero)
	add(a)
	add(bsym)
	for _, f := range facts {
		add(f.a)
		add(f.b)
	}
	n := len(idx)
	const inf = int64(1) << 50
	d := make([][]int64, n)
	for i := range d {
		d[i] = make([]int64, n)
		for j := range d[i] {
			d[i][j] = inf
		}
		d[i][i] = 0
	}
	set := func(x, y sym, c int64) { // x - y <= c
		i, j := idx[x], idx[y]
		if c < d[i][j] {
			d[i][j] = c
		}
	}
	for _, f := range facts {
		set(f.a, f.b, f.c)
	}
	for s := range idx {
		if s.kind == "len" {
			set(zero, s, 0) // 0 <= len
		}
	}
	for k := 0; k < n; k++ {
		for i := 0; i < n; i++ {
			for j := 0; j < n; j++ {
				if d[i][k]+d[k][j] < d[i][j] {
					d[i][j] = d[i][k] + d[k][j]
				}
			}
		}
	}
	return d[idx[a]][idx[bsym]] <= c
}

// requestDerived: the value's backward slice contains an integer parsed from the request.
func (b *boundsCtx) requestDerived(v ssa.Value, seen map[ssa.Value]bool, depth int) bool {
	if v == nil || seen[v] || depth > 14 {
		return false
	}
	seen[v] = true
	switch x := v.(type) {
	case *ssa.Extract:
		if call, ok := x.Tuple.(*ssa.Call); ok && x.Index == 0 {
			if an.IsFunc(call, "strconv", "Atoi") || an.IsFunc(call, "strconv", "ParseInt") || an.IsFunc(call, "strconv", "ParseUint") {
				return true
			}
		}
		// a result of a helper of this module that returns a parsed integer
		for _, hr := range an.HelperReturns(x, func(h *ssa.Function) bool { return strings.HasPrefix(core.FuncPkgPath(h), b.c.P.Module) }) {
			hb := &boundsCtx{c: b.c, fn: hr.Callee}
			if hb.requestDerived(hr.Val, map[ssa.Value]bool{}, depth+1) {
				return true
			}
		}
	case *ssa.Convert:
		return b.requestDerived(x.X, seen, depth+1)
	case *ssa.ChangeType:
		return b.requestDerived(x.X, seen, depth+1)
	case *ssa.BinOp:
		return b.requestDerived(x.X, seen, depth+1) || b.requestDerived(x.Y, seen, depth+1)
	case *ssa.Phi:
		for _, e := range x.Edges {
			if b.requestDerived(e, seen, depth+1) {
				return true
			}
		}
	case *ssa.Call:
		if arg := lenOf(x); arg != nil {
			if sl, ok := b.forward(arg).(*ssa.Slice); ok {
				return b.requestDerived(sl.High, seen, depth+1) || b.requestDerived(sl.Low, seen, depth+1)
			}
		}
	case *ssa.UnOp:
		if x.Op == token.MUL {
			// an integer field of the request itself (Content-Length as parsed by net/http: -1 when unknown)
			if fa, ok := x.X.(*ssa.FieldAddr); ok {
				if n := an.NamedOf(an.Deref(fa.X.Type())); n != nil && n.Obj().Pkg() != nil && n.Obj().Pkg().Path() == "net/http" && n.Obj().Name() == "Request" {
					if bt, ok := x.Type().Underlying().(*types.Basic); ok && bt.Info()&types.IsInteger != 0 {
						return true
					}
				}
			}
			if f := b.forward(x); f != ssa.Value(x) {
				return b.requestDerived(f, seen, depth+1)
			}
			// a decoded JSON number: field of a struct filled by Unmarshal is compared, not used as an index, in this code base
		}
	}
	return false
}

// prove: lhs <= rhs + c at block blk, expanding φ operands (constant operands of an index are out of scope).
func (b *boundsCtx) prove(lhs, rhs ssa.Value, rhsIsLenOf ssa.Value, c int64, blk *ssa.BasicBlock, extra []fact, depth int) bool {
	var l, r lin
	if lhs == nil {
		l = lin{sym{kind: "zero"}, 0}
	} else {
		l = b.norm(lhs, 0)
	}
	switch {
	case rhsIsLenOf != nil:
		src := b.forward(rhsIsLenOf)
		if sl, ok := src.(*ssa.Slice); ok && sl.High != nil && sl.Low == nil {
			r = b.norm(sl.High, 0)
		} else {
			r = lin{sym{"len", src}, 0}
		}
	case rhs == nil:
		r = lin{sym{kind: "zero"}, 0}
	default:
		r = b.norm(rhs, 0)
	}
	facts := append(append([]fact{}, extra...), b.factsAt(blk)...)
	if entails(facts, l.s, r.s, r.k-l.k+c) {
		return true
	}
	if depth > 4 {
		return false
	}
	// expand a φ on either side
	expand := func(v ssa.Value, isLeft bool) (bool, bool) {
		phi, ok := v.(*ssa.Phi)
		if !ok {
			return false, false
		}
		for i, e := range phi.Edges {
			if _, isConst := e.(*ssa.Const); isConst && !b.requestDerived(e, map[ssa.Value]bool{}, 0) {
				// constant merged in by the φ: not request-derived on this edge; check it only when trivially decidable
				var ok2 bool
				if isLeft {
					ok2 = b.prove(e, rhs, rhsIsLenOf, c, phi.Block().Preds[i], extra, depth+1)
				} else {
					ok2 = b.prove(lhs, e, nil, c, phi.Block().Preds[i], extra, depth+1)
				}
				_ = ok2
				continue
			}
			var ok2 bool
			ex := append(append([]fact{}, extra...), b.factsAt(blk)...)
			ex = append(ex, b.factsOnEdge(phi.Block().Preds[i], phi.Block())...)
			if isLeft {
				ok2 = b.prove(e, rhs, rhsIsLenOf, c, phi.Block().Preds[i], ex, depth+1)
			} else {
				ok2 = b.prove(lhs, e, nil, c, phi.Block().Preds[i], ex, depth+1)
			}
			if !ok2 {
				return true, false
			}
		}
		return true, true
	}
	if lhs != nil {
		if isPhi, ok := expand(stripInt(lhs), true); isPhi {
			return ok
		}
	}
	if rhs != nil && rhsIsLenOf == nil {
		if isPhi, ok := expand(stripInt(rhs), false); isPhi {
			return ok
		}
	}
	return false
}

func stripInt(v ssa.Value) ssa.Value {
	for {
		switch x := v.(type) {
		case *ssa.Convert:
			v = x.X
		case *ssa.ChangeType:
			v = x.X
		default:
			return v
		}
	}
}

func runBounds(c *core.Ctx) {
	total := 0
	for _, fn := range serverFuncs(c) {
		b := &boundsCtx{c: c, fn: fn}
		n := 0
		name := kn(c.P.FuncName(fn))
		// "taglist": the handler that marshals a tag list
		isTagList := false
		buildsTagList := func(f *ssa.Function) bool {
			found := false
			an.Instrs(f, func(in ssa.Instruction) {
				if al, ok := in.(*ssa.Alloc); ok && isNamedType(an.Deref(al.Type()), c.P.Module+"/types", "TagList") {
					found = true
				}
			})
			return found
		}
		isTagList = buildsTagList(fn)
		if !isTagList {
			// a paging step of that handler
			for _, site := range c.P.Callers(fn) {
				if site.Parent() != nil && site.Common().StaticCallee() == fn && buildsTagList(site.Parent()) {
					isTagList = true
				}
			}
		}
		if isTagList {
			c.SetTags("taglist")
		} else {
			c.SetTags("other")
		}
		an.Instrs(fn, func(in ssa.Instruction) {
			switch x := in.(type) {
			case *ssa.Slice:
				derived := (x.Low != nil && b.requestDerived(x.Low, map[ssa.Value]bool{}, 0)) || (x.High != nil && b.requestDerived(x.High, map[ssa.Value]bool{}, 0))
				if !derived {
					return
				}
				n++
				total++
				key := fmt.Sprintf("slice:%s#%d", name, n)
				var problems []string
				if x.Low != nil && !b.prove(nil, x.Low, nil, 0, x.Block(), nil, 0) {
					problems = append(problems, "0 ≤ low")
				}
				if x.High != nil {
					if x.Low == nil && !b.prove(nil, x.High, nil, 0, x.Block(), nil, 0) {
						problems = append(problems, "0 ≤ high")
					}
					if x.Low != nil && !b.prove(x.Low, x.High, nil, 0, x.Block(), nil, 0) {
						problems = append(problems, "low ≤ high")
					}
					if !b.prove(x.High, nil, x.X, 0, x.Block(), nil, 0) {
						problems = append(problems, "high ≤ len")
					}
				}
				if len(problems) > 0 {
					c.Fail(key, x.Pos(), "the slice expression at %s uses a bound parsed from the request and the dominating conditions do not prove %v: a request value at or beyond the bound panics the handler", c.P.Pos(x.Pos()), problems)
				} else {
					c.Pass(key, x.Pos(), "request-derived bound proven in range")
				}
			case *ssa.MakeSlice:
				dl := b.requestDerived(x.Len, map[ssa.Value]bool{}, 0)
				dc := b.requestDerived(x.Cap, map[ssa.Value]bool{}, 0)
				if !dl && !dc {
					return
				}
				n++
				total++
				key := fmt.Sprintf("make:%s#%d", name, n)
				var problems []string
				if dl && !b.prove(nil, x.Len, nil, 0, x.Block(), nil, 0) {
					problems = append(problems, "0 ≤ len")
				}
				if dc && !b.prove(nil, x.Cap, nil, 0, x.Block(), nil, 0) {
					problems = append(problems, "0 ≤ cap")
				}
				if dc && !b.prove(x.Len, x.Cap, nil, 0, x.Block(), nil, 0) {
					problems = append(problems, "len ≤ cap")
				}
				if len(problems) > 0 {
					c.Fail(key, x.Pos(), "make at %s takes a size that comes from the request (an integer parsed from it, or a field of the request such as ContentLength, which is -1 when the length is unknown) and the dominating conditions do not prove %v: such a request panics the handler", c.P.Pos(x.Pos()), problems)
				} else {
					c.Pass(key, x.Pos(), "request-derived size proven non-negative")
				}
			case *ssa.IndexAddr:
				if !b.requestDerived(x.Index, map[ssa.Value]bool{}, 0) {
					return
				}
				if _, isSlice := x.X.Type().Underlying().(*types.Slice); !isSlice {
					return
				}
				n++
				total++
				key := fmt.Sprintf("index:%s#%d", name, n)
				var problems []string
				if !b.prove(nil, x.Index, nil, 0, x.Block(), nil, 0) {
					problems = append(problems, "0 ≤ index")
				}
				if !b.prove(x.Index, nil, x.X, -1, x.Block(), nil, 0) {
					problems = append(problems, "index < len")
				}
				if len(problems) > 0 {
					c.Fail(key, x.Pos(), "the index expression at %s uses an index derived from the request and the dominating conditions do not prove %v: such a request panics the handler", c.P.Pos(x.Pos()), problems)
				} else {
					c.Pass(key, x.Pos(), "request-derived index proven in range")
				}
			}
		})
	}
	// a constant index into a list decoded from a request body (m.Manifests[0] after json.Unmarshal(raw, &m)): the list is as
	// long as the client made it — `"manifests": []` decodes to a list that is not nil and has no element
	c.SetTags("other")
	for _, fn := range c.P.ModFuncs {
		if strings.HasPrefix(core.FuncPkgPath(fn), c.P.Module+"/cmd") || len(fn.Blocks) == 0 {
			continue
		}
		decoded := map[ssa.Value]bool{}
		an.Calls(fn, func(call ssa.CallInstruction) {
			if !(an.IsFunc(call, "encoding/json", "Unmarshal") || an.IsMethod(call, "encoding/json", "Decoder", "Decode")) {
				return
			}
			args := call.Common().Args
			if len(args) == 0 {
				return
			}
			dst := an.Strip(args[len(args)-1])
			if mi, ok := dst.(*ssa.MakeInterface); ok {
				dst = an.Strip(mi.X)
			}
			if al, ok := dst.(*ssa.Alloc); ok {
				decoded[al] = true
			}
		})
		if len(decoded) == 0 {
			continue
		}
		b := &boundsCtx{c: c, fn: fn}
		n := 0
		name := kn(c.P.FuncName(fn))
		an.Instrs(fn, func(in ssa.Instruction) {
			x, ok := in.(*ssa.IndexAddr)
			if !ok {
				return
			}
			if _, isC := x.Index.(*ssa.Const); !isC {
				return
			}
			if _, isSlice := x.X.Type().Underlying().(*types.Slice); !isSlice {
				return
			}
			root, pth := accessPath(an.Strip(x.X))
			if root == nil || len(pth) == 0 || !decoded[root] {
				return
			}
			n++
			total++
			key := fmt.Sprintf("decoded-index:%s#%d", name, n)
			if b.prove(x.Index, nil, x.X, -1, x.Block(), nil, 0) {
				c.Pass(key, x.Pos(), "constant index into a decoded list proven below its length")
			} else {
				c.Fail(key, x.Pos(), "the element %s[%s] of a list decoded from the request body is taken at %s and the dominating conditions do not prove the list that long (a test against nil does not: an empty JSON array decodes to an empty list that is not nil): such a body panics the handler", strings.Join(pth, "."), x.Index.Name(), c.P.Pos(x.Pos()))
			}
		})
	}
	// an index that may be a constant (the page counter reset to 0) into a list taken from a cache: nothing at the read
	// site says how long a cached list is, so either the site proves the list long enough or every producer does — each
	// Set on the same cache field stores a list whose length the conditions dominating the Set prove sufficient. A
	// producer that caches an empty list makes the reset-to-first-page read panic on the next identical request.
	c.SetTags("other")
	cacheField := func(call ssa.CallInstruction, method string) (string, bool) {
		callee := call.Common().StaticCallee()
		if callee != nil && callee.Origin() != nil {
			callee = callee.Origin()
		}
		if callee == nil || callee.Name() != method || callee.Signature.Recv() == nil || !strings.HasSuffix(core.FuncPkgPath(callee), "/internal/cache") {
			return "", false
		}
		recv, _ := an.CallArgs(call)
		_, pth := accessPath(an.Strip(recv))
		if len(pth) == 0 {
			return "", false
		}
		return pth[len(pth)-1], true
	}
	for _, fn := range serverFuncs(c) {
		b := &boundsCtx{c: c, fn: fn}
		n := 0
		name := kn(c.P.FuncName(fn))
		an.Instrs(fn, func(in ssa.Instruction) {
			x, ok := in.(*ssa.IndexAddr)
			if !ok {
				return
			}
			if _, isSlice := x.X.Type().Underlying().(*types.Slice); !isSlice {
				return
			}
			src, _ := an.CallOf(an.Origin(x.X))
			if src == nil {
				return
			}
			field, isGet := cacheField(src, "Get")
			if !isGet {
				return
			}
			// constants the index can be
			var consts []*ssa.Const
			var collect func(v ssa.Value, depth int)
			seen := map[ssa.Value]bool{}
			collect = func(v ssa.Value, depth int) {
				v = stripInt(v)
				if seen[v] || depth > 4 {
					return
				}
				seen[v] = true
				switch y := v.(type) {
				case *ssa.Const:
					consts = append(consts, y)
				case *ssa.Phi:
					for _, e := range y.Edges {
						collect(e, depth+1)
					}
				}
			}
			collect(x.Index, 0)
			if len(consts) == 0 {
				return
			}
			n++
			total++
			key := fmt.Sprintf("cached-index:%s#%d", name, n)
			for _, k := range consts {
				kv, isInt := an.ConstInt(k)
				if !isInt || kv < 0 {
					continue
				}
				if b.prove(k, nil, x.X, -1, x.Block(), nil, 0) {
					continue
				}
				// producers
				nSet, badSet := 0, token.NoPos
				for _, pf := range c.P.ModFuncs {
					if len(pf.Blocks) == 0 {
						continue
					}
					pb := &boundsCtx{c: c, fn: pf}
					an.Calls(pf, func(call ssa.CallInstruction) {
						f2, isSet := cacheField(call, "Set")
						if !isSet || f2 != field {
							return
						}
						_, args := an.CallArgs(call)
						if len(args) < 2 {
							return
						}
						nSet++
						// a slice literal is as long as its backing array
						lit := an.Strip(args[1])
						if ct, isCT := lit.(*ssa.ChangeType); isCT {
							lit = an.Strip(ct.X)
						}
						if sl, isSl := lit.(*ssa.Slice); isSl && sl.Low == nil && sl.High == nil {
							if arr, isArr := an.Deref(sl.X.Type()).Underlying().(*types.Array); isArr && arr.Len() >= kv+1 {
								return
							}
						}
						if !pb.prove(nil, nil, lit, -(kv+1), call.Block(), nil, 0) && badSet == token.NoPos {
							badSet = call.Pos()
						}
					})
				}
				if nSet == 0 || badSet != token.NoPos {
					where := "no producer found"
					if badSet != token.NoPos {
						where = "the Set at " + c.P.Pos(badSet) + " is not dominated by a test that the list has more than " + fmt.Sprint(kv) + " element(s)"
					}
					c.Fail(key, x.Pos(), "element %d of a list read from the cache %s is taken at %s (the index can be the constant %d) and neither the conditions at the read nor those at every Set prove the list that long (%s): once an empty list is cached, the next identical request panics the handler", kv, field, c.P.Pos(x.Pos()), kv, where)
					return
				}
			}
			c.Pass(key, x.Pos(), "constant index into a cached list: every list stored in the cache %s is proven long enough where it is stored", field)
		})
	}
	if total == 0 {
		c.Unresolved("request-integers", "no request-derived slice or index expression found")
	}
}
