package rules

import (
	"fmt"
	"go/ast"
	"go/token"
	"go/types"
	"sort"
	"strings"

	"golang.org/x/tools/go/ssa"

	"olacheck/an"
	"olacheck/core"
	"olacheck/lock"
)

func kn(s string) string { return core.KeyOfName(s) }

func init() {
	register(&Rule{ID: "LK-ORDER", Floor: 20,
		Doc: "lock-order graph over mutexes, repository tokens, wait-group waits and the handler-activity resource (edge A→B whenever B is blockingly acquired or waited for while A is held, through every call chain including cache callbacks): every strongly connected component of more than one class is a possible circular wait",
		Run: func(c *core.Ctx) { runLockOrder(c, nil) }})
	register(&Rule{ID: "LK-SHUTDOWN", Floor: 10,
		Doc: "the part of the lock-order graph that involves the server's own mutexes and the handler-activity resource (what Run, Shutdown, Close and the rate limiter take or wait for) has no cycle: shutdown cannot wait for handlers that need a lock it holds",
		Run: func(c *core.Ctx) {
			runLockOrder(c, func(name string) bool { return name == "activity" || strings.HasPrefix(name, "olareg.Server.") })
		}})
	register(&Rule{ID: "LK-SELF", Floor: 8,
		Doc: "no mutex class is acquired while the same class is already held (sync.Mutex is not re-entrant), with the `locked` flags specialised per call site and interface calls resolved within the store family",
		Run: func(c *core.Ctx) {
			e := getLock(c)
			bad := map[int]bool{}
			var keys []string
			for k := range e.Selfs {
				keys = append(keys, k)
			}
			sort.Strings(keys)
			for _, k := range keys {
				s := e.Selfs[k]
				bad[s.Class] = true
				if strings.Contains(strings.ToLower(s.Chain), "ingest") {
					c.SetTags("ingest")
				} else {
					c.SetTags()
				}
				c.Fail("self:"+e.Classes[s.Class].Name+"|"+kn(s.Func), s.Pos, "%s is acquired in %s while it is already held; chain: %s", e.Classes[s.Class].Name, s.Func, s.Chain)
			}
			c.SetTags("ingest")
			for i, cl := range e.Classes {
				if (cl.Kind == lock.Mutex || cl.Kind == lock.Token) && !bad[i] {
					c.Pass("class:"+cl.Name, token.NoPos, "never acquired while held (%d contexts analysed)", e.Contexts)
				}
			}
		}})
	register(&Rule{ID: "LK-PAIR", Floor: 10,
		Doc: "every mutex and token acquired on a path from a program entry point (exported server API, HTTP router, goroutine, timer callback) is released on every exit of that entry point, and no function's exits disagree on which mutexes they leave held (lock-transfer wrappers excepted: all their exits agree)",
		Run: func(c *core.Ctx) {
			e := getLock(c)
			badRoot := map[string]bool{}
			var keys []string
			for k := range e.Leaks {
				keys = append(keys, k)
			}
			sort.Strings(keys)
			for _, k := range keys {
				l := e.Leaks[k]
				kind := e.Classes[l.Class].Kind
				if kind != lock.Mutex && kind != lock.Token {
					continue
				}
				badRoot[l.Root] = true
				what := "is still held at an exit of"
				if l.Release {
					what = "is released without being held on a path through"
				}
				c.Fail(fmt.Sprintf("leak:%s|%s|%v", kn(l.Root), e.Classes[l.Class].Name, l.Release), l.Pos, "%s %s entry point %s", e.Classes[l.Class].Name, what, l.Root)
			}
			var fns []string
			for f := range e.ExitDiff {
				fns = append(fns, f)
			}
			sort.Strings(fns)
			for _, f := range fns {
				c.Fail("exits:"+kn(f), token.NoPos, "the exits of %s leave different mutexes held: %s", f, e.ExitDiff[f])
			}
			for _, r := range e.Roots {
				if !badRoot[r] {
					c.Pass("root:"+kn(r), token.NoPos, "all mutexes and tokens released on every exit")
				}
			}
			// premise of the lock-transfer wrappers: every cache option literal installs the pre and post
			// hooks together (a pre hook that locks without a post hook that unlocks leaks the lock)
			for _, rel := range []string{"", "internal/store", "internal/cache"} {
				pk := c.P.Pkg(rel)
				if pk == nil {
					continue
				}
				for _, f := range pk.Syntax {
					ast.Inspect(f, func(n ast.Node) bool {
						cl, ok := n.(*ast.CompositeLit)
						if !ok {
							return true
						}
						tv, ok := pk.TypesInfo.Types[cl]
						if !ok {
							return true
						}
						nt := an.NamedOf(tv.Type)
						if nt == nil || nt.Origin().Obj().Name() != "Opts" || nt.Origin().Obj().Pkg() == nil || nt.Origin().Obj().Pkg().Path() != c.P.Module+"/internal/cache" {
							return true
						}
						pre, post := false, false
						for _, el := range cl.Elts {
							if kv, ok := el.(*ast.KeyValueExpr); ok {
								if id, ok := kv.Key.(*ast.Ident); ok {
									switch id.Name {
									case "PrunePreFn":
										pre = true
									case "PrunePostFn":
										post = true
									}
								}
							}
						}
						if pre || post {
							c.Check(pre == post, "hooks-paired:"+exprStringType(tv.Type), cl.Pos(), "cache options install the pre and post pruning hooks together: pre=%v post=%v", pre, post)
						}
						return true
					})
				}
			}
		}})
	register(&Rule{ID: "LK-HOLD", Floor: 8,
		Doc: "every function of the server package is neutral with respect to repository holds: on every path, each successful RepoGet is followed by exactly one Done before the function returns (the error result of RepoGet is correlated with the hold), and no entry point leaks or double-releases a hold",
		Run: func(c *core.Ctx) {
			e := getLock(c)
			r := requireRoles(c)
			if r == nil {
				return
			}
			for _, fn := range c.P.Funcs("") {
				hasGet := false
				an.Calls(fn, func(call ssa.CallInstruction) {
					if r.IsAPI(call, "Store", "RepoGet") {
						hasGet = true
					}
				})
				name := c.P.FuncName(fn)
				transfers := false
				for i := 0; i < fn.Signature.Results().Len(); i++ {
					if r.IsRepoType(fn.Signature.Results().At(i).Type()) {
						transfers = true // hands the held repository to its caller, like RepoGet itself
					}
				}
				if transfers {
					if hasGet {
						c.Pass("hold:"+kn(name), fn.Pos(), "returns the repository it obtained: the hold passes to the caller")
					}
					continue
				}
				if d, bad := e.NetHold[name]; bad {
					c.Fail("hold:"+kn(name), fn.Pos(), "%s returns with a changed repository hold on some path (%s): a missing Done blocks garbage collection and Close of that repository forever, a second Done panics", name, d)
				} else if hasGet {
					c.Pass("hold:"+kn(name), fn.Pos(), "RepoGet/Done paired on all paths")
				}
			}
			var keys []string
			for k := range e.Leaks {
				keys = append(keys, k)
			}
			sort.Strings(keys)
			for _, k := range keys {
				l := e.Leaks[k]
				if e.Classes[l.Class].Kind != lock.Hold {
					continue
				}
				c.Fail(fmt.Sprintf("leak:%s|%s|%v", kn(l.Root), e.Classes[l.Class].Name, l.Release), l.Pos, "hold %s leaked or released twice through entry point %s", e.Classes[l.Class].Name, l.Root)
			}
		}})
	register(&Rule{ID: "LK-TOKEN", Floor: 6,
		Doc: "collector/handler exclusion protocol: (i) outside the collector a repository token is only taken in a select that also waits for the context's Done channel; (ii) the collector waits for the holders only while it has the token and before it takes the repository mutex; (iii) a hold is only added while the token is held or on a repository that is not yet published",
		Run: runLockToken})
	register(&Rule{ID: "LK-GUARD", Floor: 25,
		Doc: "static lockset: for every field of the structs of the server, store and cache packages that is written after its object is published, all post-publication accesses (reads, writes, map/slice element accesses, addresses handed to callees) hold one common mutex, in every calling context",
		Run: func(c *core.Ctx) { runLockGuard(c, "") }})
	for _, v := range []struct{ id, prefix, what string }{
		{"LK-GUARD-SERVER", "olareg.", "the server type and the rate-limit entry"},
		{"LK-GUARD-CACHE", "cache.", "the bounded cache (entries map, per-entry time, timer, sort keys)"},
		{"LK-GUARD-STORE", "store.", "the store, repository and upload types of both stores"},
		{"LK-GUARD-UPLOAD", "@upload", "the upload-session types of both stores, including the buffers, writers and digesters they hold (accesses of those objects through their methods count as accesses of the session's state)"},
	} {
		v := v
		register(&Rule{ID: v.id, Floor: 5,
			Doc: "static lockset restricted to the fields of " + v.what + ": all post-publication accesses of a field that is written after publication hold one common mutex, in every calling context",
			Run: func(c *core.Ctx) { runLockGuard(c, v.prefix) }})
	}
	register(&Rule{ID: "LK-PAIR-CACHE", Floor: 3,
		Doc: "the cache's mutex is released on every exit of every entry point that takes it, and no cache function's exits disagree on the mutexes they leave held",
		Run: func(c *core.Ctx) {
			e := getLock(c)
			n := 0
			var keys []string
			for k := range e.Leaks {
				keys = append(keys, k)
			}
			sort.Strings(keys)
			bad := map[string]bool{}
			for _, k := range keys {
				l := e.Leaks[k]
				if !strings.HasPrefix(e.Classes[l.Class].Name, "cache.") {
					continue
				}
				bad[e.Classes[l.Class].Name] = true
				c.Fail(fmt.Sprintf("leak:%s|%s|%v", kn(l.Root), e.Classes[l.Class].Name, l.Release), l.Pos, "%s leaked or released without being held through entry point %s", e.Classes[l.Class].Name, l.Root)
			}
			for f, d := range e.ExitDiff {
				if strings.Contains(f, "cache.") {
					c.Fail("exits:"+kn(f), token.NoPos, "the exits of %s leave different mutexes held: %s", f, d)
				}
			}
			for _, cl := range e.Classes {
				if cl.Kind == lock.Mutex && strings.HasPrefix(cl.Name, "cache.") && !bad[cl.Name] {
					n++
					c.Pass("class:"+cl.Name, token.NoPos, "released on every exit of every entry point")
				}
			}
		}})
	register(&Rule{ID: "LK-ATOMIC", Floor: 2,
		Doc: "in each store family's IndexInsert and IndexRemove the in-memory index is mutated, and (directory store) persisted, while the repository mutex is held, with no release of that mutex in between",
		Run: runLockAtomic})
	register(&Rule{ID: "LK-RMW", Floor: 1,
		Doc: "a server function that reads the index (IndexGet), derives the current referrers response of a subject from it and later inserts a replacement (IndexInsert) performs a read-modify-write of shared state: one mutex must be held from the read to the write",
		Run: runLockRMW})
	register(&Rule{ID: "LK-CTA", Floor: 2,
		Doc: "check-then-act on an upload session: where the value of BlobCreator.Size() decides a branch that guards a later write into the same session, one mutex must be held from the Size call to the write; otherwise two requests for the same offset can both pass the check",
		Run: runLockCTA})
	register(&Rule{ID: "LK-COPY", Floor: 2,
		Doc: "the index handed out by each family's IndexGet is the result of the index's Copy method, taken while the repository mutex is held",
		Run: runLockCopy})
	register(&Rule{ID: "LK-FLAG", Floor: 10,
		Doc: "every call that passes locked=true to a function that would otherwise take the repository mutex is made with that mutex held, or on a repository that is not yet published",
		Run: runLockFlag})
}

// runLockOrder reports cycles; with a filter, only cycles containing a class the filter selects, and only
// edges touching such a class are listed as discharged.
func runLockOrder(c *core.Ctx, filter func(string) bool) {
	e := getLock(c)
	n := len(e.Classes)
	adj := make([][]int, n)
	for k := range e.Edges {
		adj[k[0]] = append(adj[k[0]], k[1])
	}
	for i := range adj {
		sort.Ints(adj[i])
	}
	// Tarjan
	index, low, onst := make([]int, n), make([]int, n), make([]bool, n)
	for i := range index {
		index[i] = -1
	}
	var st []int
	comp := make([]int, n)
	ncomp, idx := 0, 0
	var sc func(v int)
	sc = func(v int) {
		index[v], low[v] = idx, idx
		idx++
		st = append(st, v)
		onst[v] = true
		for _, w := range adj[v] {
			if index[w] < 0 {
				sc(w)
				if low[w] < low[v] {
					low[v] = low[w]
				}
			} else if onst[w] && index[w] < low[v] {
				low[v] = index[w]
			}
		}
		if low[v] == index[v] {
			for {
				w := st[len(st)-1]
				st = st[:len(st)-1]
				onst[w] = false
				comp[w] = ncomp
				if w == v {
					break
				}
			}
			ncomp++
		}
	}
	for v := 0; v < n; v++ {
		if index[v] < 0 {
			sc(v)
		}
	}
	size := map[int]int{}
	members := map[int][]string{}
	for v := 0; v < n; v++ {
		size[comp[v]]++
		members[comp[v]] = append(members[comp[v]], e.Classes[v].Name)
	}
	var keys [][2]int
	for k := range e.Edges {
		keys = append(keys, k)
	}
	sort.Slice(keys, func(i, j int) bool {
		if keys[i][0] != keys[j][0] {
			return keys[i][0] < keys[j][0]
		}
		return keys[i][1] < keys[j][1]
	})
	for _, k := range keys {
		a, b := e.Classes[k[0]].Name, e.Classes[k[1]].Name
		if filter != nil {
			inCycle := comp[k[0]] == comp[k[1]] && size[comp[k[0]]] > 1
			sel := false
			if inCycle {
				for _, mname := range members[comp[k[0]]] {
					if filter(mname) {
						sel = true
					}
				}
			} else {
				sel = filter(a) || filter(b)
			}
			if !sel {
				continue
			}
		}
		if comp[k[0]] == comp[k[1]] && size[comp[k[0]]] > 1 {
			m := members[comp[k[0]]]
			sort.Strings(m)
			var sites []string
			for s := range e.Edges[k] {
				sites = append(sites, s)
			}
			sort.Strings(sites)
			for _, s := range sites {
				site := e.Edges[k][s]
				op := "acquires"
				if site.Wait {
					op = "waits for"
				}
				c.Fail(fmt.Sprintf("cycle{%s}|%s→%s|%s→%s", strings.Join(m, ", "), a, b, kn(site.Holder), kn(site.Acquirer)), site.Pos,
					"circular wait possible among {%s}: %s takes %s and then (chain %s) %s %s %s, while another path takes them in the opposite order", strings.Join(m, ", "), site.Holder, a, site.Chain, site.Acquirer, op, b)
			}
			continue
		}
		c.Pass("edge:"+a+"→"+b, token.NoPos, "%d site(s); not part of a cycle", len(e.Edges[k]))
	}
	c.Note("lock engine: %d classes, %d order edges, %d roots, %d contexts, %d functions interpreted", len(e.Classes), len(e.Edges), len(e.Roots), e.Contexts, e.FuncsAnalysed())
	if u := e.Unreached(); len(u) > 0 {
		c.Note("functions of the analysed packages that no entry point reaches (not interpreted): %s", strings.Join(u, ", "))
	}
	for _, nt := range e.Notes {
		c.Note("lock engine: %s", nt)
	}
}

func typeOfClass(name string) string {
	if i := strings.LastIndex(name, "."); i > 0 {
		return name[:i]
	}
	return name
}

func runLockToken(c *core.Ctx) {
	e := getLock(c)
	// collectors: functions that wait on a hold of a type that also has a token
	tokenOfType := map[string]int{}
	for i, cl := range e.Classes {
		if cl.Kind == lock.Token {
			tokenOfType[typeOfClass(cl.Name)] = i
		}
	}
	collector := map[string]bool{}
	seenW := map[string]bool{}
	c.SetTags("exclusion")
	for _, w := range e.Waits {
		t := typeOfClass(e.Classes[w.Class].Name)
		tok, has := tokenOfType[t]
		if !has {
			continue
		}
		key := fmt.Sprintf("wait:%s|%s", e.Classes[w.Class].Name, kn(w.Func))
		// waiting for the holders in a function that takes the token itself = the collector
		takes := false
		for _, op := range e.TokenOps {
			if op.Func == w.Func && op.Class == tok {
				takes = true
			}
		}
		if takes {
			collector[w.Func] = true
		}
		mu, hasMu := e.ClassByName(t + ".mu")
		ok := w.Held&(1<<uint(tok)) != 0 || !takes
		if takes && hasMu && w.Held&(1<<uint(mu)) != 0 {
			ok = false
		}
		k2 := key + fmt.Sprintf("|%v", ok)
		if seenW[k2] {
			continue
		}
		seenW[k2] = true
		if !takes {
			// Close waits for the holders after the stop signal made RepoGet fail: no token needed
			c.Pass(key, w.Pos, "waits for the holders of %s outside the collector (held: %v)", t, e.HeldNames(w.Held))
			continue
		}
		c.Check(ok, key, w.Pos, "collector %s waits for the holders of %s with the token held and the repository mutex not yet taken (held: %v)", w.Func, t, e.HeldNames(w.Held))
	}
	// a function that takes the token with a plain receive is a collector: it must wait for the holders
	c.SetTags("exclusion")
	seenC := map[string]bool{}
	for _, op := range e.TokenOps {
		if op.InSelect || seenC[op.Func] {
			continue
		}
		seenC[op.Func] = true
		waits := false
		for _, w := range e.Waits {
			if w.Func == op.Func && typeOfClass(e.Classes[w.Class].Name) == typeOfClass(e.Classes[op.Class].Name) {
				waits = true
			}
		}
		if !waits {
			// the take may be a step of its own (dr.requestsBlock()): then every function that calls the step is the
			// collector and does the waiting
			var step *ssa.Function
			for _, f := range c.P.Funcs("internal/store") {
				if c.P.FuncName(f) == op.Func {
					step = f
				}
			}
			if step != nil {
				sites := c.P.Callers(step)
				all := len(sites) > 0
				for _, site := range sites {
					g := site.Parent()
					if g == nil || site.Common().StaticCallee() != step {
						all = false
						continue
					}
					gw := false
					for _, w := range e.Waits {
						if w.Func == c.P.FuncName(g) && typeOfClass(e.Classes[w.Class].Name) == typeOfClass(e.Classes[op.Class].Name) {
							gw = true
						}
					}
					if !gw {
						all = false
					}
				}
				waits = all
				if all {
					collector[op.Func] = true // the step takes the token on behalf of the collectors that call it
				}
			}
		}
		c.Check(waits, "collector-waits:"+kn(op.Func), op.Pos, "%s takes the repository token and waits for the requests that hold the repository before it works on it: %v — otherwise the collection overlaps in-flight requests (a blob uploaded by a request that still holds the repository can be swept under it)", op.Func, waits)
		if !waits {
			collector[op.Func] = true
		}
	}
	seenT := map[string]bool{}
	heldAt := map[string]uint64{}
	for _, op := range e.TokenOps {
		heldAt[fmt.Sprintf("take:%s|%s", e.Classes[op.Class].Name, kn(op.Func))] |= op.Held & e.MutexMask()
	}
	for _, op := range e.TokenOps {
		key := fmt.Sprintf("take:%s|%s", e.Classes[op.Class].Name, kn(op.Func))
		if seenT[key] {
			continue
		}
		seenT[key] = true
		c.SetTags("cancel")
		switch {
		case collector[op.Func]:
			c.Pass(key, op.Pos, "taken by the collector")
		case op.InSelect && op.Cancelable && op.Blocking && heldAt[key] != 0:
			c.Fail(key, op.Pos, "%s waits for the repository token %s while holding %v: whoever needs that mutex meanwhile (requests for other repositories, the ticker, Close) blocks in Lock(), which no context cancels, for as long as the collection runs — and the collection itself waits for in-flight requests", op.Func, e.Classes[op.Class].Name, e.HeldNames(heldAt[key]))
		case op.InSelect && op.Cancelable && op.Blocking:
			c.Pass(key, op.Pos, "taken in a select that also waits for ctx.Done(), with no mutex held")
		default:
			c.Fail(key, op.Pos, "%s takes the repository token %s with a wait that cannot be cancelled: a request waiting for a running collection does not return when its context is cancelled", op.Func, e.Classes[op.Class].Name)
		}
	}
	// the token covers the whole collection: it is still held where the collector hands the repository to the shared
	// mark-and-sweep. If it is given back earlier (requests are admitted while the sweep runs), the only thing left
	// between a request and the sweep is the repository mutex — then every blob read of that store takes that mutex on
	// every path before it touches storage; a read that does neither sees blobs the sweep is about to delete (a manifest
	// push verifies its layers, the sweep removes them, the push is acknowledged)
	c.SetTags("exclusion")
	for fname := range collector {
		var cf *ssa.Function
		for _, f := range c.P.Funcs("internal/store") {
			if c.P.FuncName(f) == fname {
				cf = f
			}
		}
		if cf == nil || cf.Signature.Recv() == nil {
			continue
		}
		t := ""
		if nt := an.NamedOf(an.Deref(cf.Signature.Recv().Type())); nt != nil {
			t = "store." + nt.Obj().Name()
		}
		tok, has := tokenOfType[t]
		if !has {
			continue
		}
		var sweepCalls []ssa.CallInstruction
		for _, sub := range an.WithAnon(cf) {
			an.Calls(sub, func(call ssa.CallInstruction) {
				h := call.Common().StaticCallee()
				if h == nil || h.Signature.Recv() != nil || core.FuncPkgPath(h) != core.FuncPkgPath(cf) || h.Signature.Results().Len() != 3 {
					return
				}
				if isNamedType(h.Signature.Results().At(0).Type(), c.P.Module+"/types", "Index") {
					sweepCalls = append(sweepCalls, call)
				}
			})
		}
		for _, sc := range sweepCalls {
			m, reached := e.MustHeld[sc]
			key := "token-covers-sweep:" + kn(fname)
			if reached && m&(1<<uint(tok)) != 0 {
				c.Pass(key, sc.Pos(), "the repository token is held at the mark-and-sweep call")
				continue
			}
			// fallback: the blob reads of this repository type go through the mutex
			lockFree := token.NoPos
			lockFreeFn := ""
			mu, hasMu := e.ClassByName(t + ".mu")
			for _, f := range c.P.Funcs("internal/store") {
				if f.Signature.Recv() == nil || an.NamedOf(an.Deref(f.Signature.Recv().Type())) != an.NamedOf(an.Deref(cf.Signature.Recv().Type())) {
					continue
				}
				res := f.Signature.Results()
				if res.Len() != 2 || !isNamed(res.At(0).Type(), "io", "ReadSeekCloser") {
					continue
				}
				an.Calls(f, func(call ssa.CallInstruction) {
					if !an.IsFunc(call, "os", "Open") || lockFree != token.NoPos {
						return
					}
					// some path from the entry reaches the open without a call that takes the repository mutex
					seen := map[*ssa.BasicBlock]bool{}
					var walk func(b *ssa.BasicBlock) bool
					walk = func(b *ssa.BasicBlock) bool {
						if seen[b] {
							return false
						}
						seen[b] = true
						for _, in := range b.Instrs {
							if in == ssa.Instruction(call) {
								return true
							}
							if ci, ok := in.(ssa.CallInstruction); ok && hasMu {
								if takesMutex(e, ci, mu, 0) {
									return false
								}
							}
						}
						ifi := an.BlockIf(b)
						for i, x := range b.Succs {
							// `if !locked { Lock }`: on the edge on which the caller says it holds the mutex, it is held
							if ifi != nil {
								base, neg := an.CondBase(ifi.Cond)
								if p, isP := base.(*ssa.Parameter); isP {
									if bt, isB := p.Type().Underlying().(*types.Basic); isB && bt.Kind() == types.Bool && ((i == 0) != neg) {
										continue
									}
								}
							}
							if walk(x) {
								return true
							}
						}
						return false
					}
					if walk(f.Blocks[0]) {
						lockFree, lockFreeFn = call.Pos(), c.P.FuncName(f)
					}
				})
			}
			c.Check(lockFree == token.NoPos, key, sc.Pos(), "%s gives the repository token back before the mark-and-sweep it starts at %s; the blob reads of that repository then all pass the repository mutex: %v%s", fname, c.P.Pos(sc.Pos()), lockFree == token.NoPos, map[bool]string{true: "", false: fmt.Sprintf(" (%s opens the blob at %s without having taken it) — a request admitted during the sweep verifies blobs the sweep is about to delete: a manifest is acknowledged whose layers the collection removes", lockFreeFn, c.P.Pos(lockFree))}[lockFree == token.NoPos])
		}
	}
	c.SetTags("exclusion")
	seenA := map[string]bool{}
	for _, a := range e.HoldAdds {
		t := typeOfClass(e.Classes[a.Class].Name)
		tok, has := tokenOfType[t]
		if !has {
			continue
		}
		ok := a.Unpub || a.Held&(1<<uint(tok)) != 0
		key := fmt.Sprintf("add:%s|%s|%s", e.Classes[a.Class].Name, kn(a.Func), map[bool]string{true: "unpublished", false: "published"}[a.Unpub])
		if seenA[key+fmt.Sprint(ok)] {
			continue
		}
		seenA[key+fmt.Sprint(ok)] = true
		c.Check(ok, key, a.Pos, "hold on %s added in %s: repository unpublished=%v, token held=%v — otherwise the collector's Wait can overlap a request that believes it holds the repository", t, a.Func, a.Unpub, a.Held&(1<<uint(tok)) != 0)
	}
}

// guardExceptions: one named field each, with the reason.
var guardExceptions = map[string]string{
	"olareg.Server.store": "lifecycle field: written only by Close and Shutdown (after the HTTP shutdown has waited for the handlers); the documented contract of Close/Shutdown forbids using the server concurrently with or after them",
}

func runLockGuard(c *core.Ctx, prefix string) {
	e := getLock(c)
	reps := e.Lockset()
	sort.Slice(reps, func(i, j int) bool { return reps[i].Field < reps[j].Field })
	immut := 0
	var uploadPrefixes []string
	if prefix == "@upload" {
		if r := requireRoles(c); r != nil {
			for _, fam := range r.Families {
				uploadPrefixes = append(uploadPrefixes, c.P.TypeName(fam.Upload)+".")
			}
		}
	}
	for _, fr := range reps {
		if prefix == "@upload" {
			match := false
			for _, up := range uploadPrefixes {
				if strings.HasPrefix(fr.Field, up) {
					match = true
				}
			}
			if !match {
				continue
			}
		} else if prefix != "" && !strings.HasPrefix(fr.Field, prefix) {
			continue
		}
		if fr.PostWrites == 0 {
			immut++
			c.Pass("field:"+fr.Field, token.NoPos, "never written after publication (%d reads, %d constructor writes)", fr.Reads, fr.Writes)
			continue
		}
		if len(fr.Common) > 0 {
			c.Pass("field:"+fr.Field, token.NoPos, "all %d post-publication accesses hold %v", fr.Reads+fr.Writes, fr.Common)
			continue
		}
		if reason, ok := guardExceptions[fr.Field]; ok {
			// the exception only covers writers named Close / Shutdown of the server type
			okWriters := true
			isLifecycle := func(name string) bool {
				return strings.HasSuffix(name, ").Close") || strings.HasSuffix(name, ").Shutdown")
			}
			// …or a function of the server that only Close / Shutdown call (the shared ‘close the store’ step)
			var onlyFromLifecycle func(name string, depth int) bool
			onlyFromLifecycle = func(name string, depth int) bool {
				if isLifecycle(name) {
					return true
				}
				if depth > 2 {
					return false
				}
				var fn *ssa.Function
				for _, f := range serverFuncs(c) {
					if c.P.FuncName(f) == name {
						fn = f
					}
				}
				if fn == nil || fn.Parent() != nil {
					return false
				}
				sites := c.P.Callers(fn)
				if len(sites) == 0 {
					return false
				}
				for _, site := range sites {
					if site.Common().StaticCallee() != fn || !onlyFromLifecycle(c.P.FuncName(site.Parent()), depth+1) {
						return false
					}
				}
				return true
			}
			for _, m := range e.Accesses[fr.Field] {
				if m.Write && !m.Unpub && !onlyFromLifecycle(m.Func, 0) {
					okWriters = false
				}
			}
			if okWriters {
				c.Exception("field:"+fr.Field, token.NoPos, "%s", reason)
				continue
			}
		}
		seen := map[string]bool{}
		sort.Slice(fr.Bad, func(i, j int) bool { return fr.Bad[i].Pos < fr.Bad[j].Pos })
		for _, b := range fr.Bad {
			k := fmt.Sprintf("race:%s|%s|%s", fr.Field, kn(b.Func), map[bool]string{true: "write", false: "read"}[b.Write])
			if seen[k] {
				continue
			}
			seen[k] = true
			c.Fail(k, b.Pos, "%s of %s in %s holds %v, but the field is written after publication and its other accesses hold %s (entry point %s): data race candidate",
				map[bool]string{true: "write", false: "read"}[b.Write], fr.Field, b.Func, e.HeldNames(b.Held&e.MutexMask()), fr.Guard, b.Root)
		}
	}
}

// mustHeldAt returns the mutexes held at a call in every analysed context (0, false when never reached).
func mustHeldAt(e *lock.Engine, in ssa.Instruction) (uint64, bool) {
	m, ok := e.MustHeld[in]
	return m & e.MutexMask(), ok
}

func runLockAtomic(c *core.Ctx) {
	e := getLock(c)
	r := requireRoles(c)
	if r == nil {
		return
	}
	for _, fam := range r.Families {
		for _, mname := range []string{"IndexInsert", "IndexRemove"} {
			fn := e.MethodOf(fam.Repo, mname)
			key := fmt.Sprintf("%s.%s", fam.Repo.Obj().Name(), mname)
			if fn == nil {
				c.Unresolved(key, "method not found")
				continue
			}
			muClass, ok := e.ClassByName(c.P.TypeName(fam.Repo) + ".mu")
			if !ok {
				c.Fail(key, fn.Pos(), "repository type has no mutex class")
				continue
			}
			bit := uint64(1) << uint(muClass)
			// events: calls on the in-memory index (pointer receiver &x.index) and calls that persist
			var mutations, saves, loads []ssa.CallInstruction
			touchesIndex := func(f *ssa.Function) bool {
				hit := false
				an.Calls(f, func(call ssa.CallInstruction) {
					for _, a := range call.Common().Args {
						if fa, ok := a.(*ssa.FieldAddr); ok && isNamedType(an.Deref(fa.Type()), r.TypesPath, "Index") {
							hit = true
						}
					}
				})
				return hit
			}
			if !touchesIndex(fn) {
				// the method delegates to a helper of the repository type that does the work
				an.Calls(fn, func(call ssa.CallInstruction) {
					if sc := call.Common().StaticCallee(); sc != nil && sc.Signature.Recv() != nil && an.NamedOf(an.Deref(sc.Signature.Recv().Type())) == fam.Repo && len(sc.Blocks) > 0 && touchesIndex(sc) {
						fn = sc
					}
				})
			}
			if !touchesIndex(fn) {
				// …or hands the work as a closure to a wrapper that runs it under the lock (mr.withLock(func() {…}))
				var inner *ssa.Function
				n := 0
				for _, af := range fn.AnonFuncs {
					if touchesIndex(af) {
						inner = af
						n++
					}
				}
				if n == 1 {
					fn = inner
				}
			}
			an.Calls(fn, func(call ssa.CallInstruction) {
				if _, isDefer := call.(*ssa.Defer); isDefer {
					return
				}
				cc := call.Common()
				if cc.StaticCallee() == nil && !cc.IsInvoke() {
					for _, a := range cc.Args {
						if fa, ok := a.(*ssa.FieldAddr); ok && isNamedType(an.Deref(fa.Type()), r.TypesPath, "Index") {
							mutations = append(mutations, call)
							return
						}
					}
				}
				if sc := cc.StaticCallee(); sc != nil && sc.Signature.Recv() != nil && len(cc.Args) > 0 {
					if fa, ok := cc.Args[0].(*ssa.FieldAddr); ok && isNamedType(an.Deref(fa.Type()), r.TypesPath, "Index") {
						mutations = append(mutations, call)
						return
					}
					if recvN := an.NamedOf(sc.Signature.Recv().Type()); recvN == fam.Repo {
						if reachesRename(c, sc) {
							saves = append(saves, call)
						} else if strings.Contains(strings.ToLower(sc.Name()), "load") {
							loads = append(loads, call)
						}
					}
				}
			})
			if len(mutations) == 0 {
				c.Fail(key, fn.Pos(), "no call on the repository's in-memory index found in %s", fn.Name())
				continue
			}
			okAll := true
			msg := ""
			for _, ev := range append(append(append([]ssa.CallInstruction{}, loads...), mutations...), saves...) {
				if m, reached := mustHeldAt(e, ev); !reached || m&bit == 0 {
					okAll = false
					msg = fmt.Sprintf("call at %s is made without %s held", c.P.Pos(ev.Pos()), e.Classes[muClass].Name)
				}
			}
			// no release between the first and the last event
			first := append(append([]ssa.CallInstruction{}, loads...), mutations...)
			last := append(append([]ssa.CallInstruction{}, mutations...), saves...)
			an.Calls(fn, func(call ssa.CallInstruction) {
				if _, isDefer := call.(*ssa.Defer); isDefer {
					return
				}
				if an.IsMethod(call, "sync", "Mutex", "Unlock") {
					for _, f := range first {
						for _, l := range last {
							if f != l && an.Reaches(f, call) && an.Reaches(call, l) {
								okAll = false
								msg = fmt.Sprintf("the mutex is released at %s between the load/mutation at %s and the mutation/save at %s", c.P.Pos(call.Pos()), c.P.Pos(f.Pos()), c.P.Pos(l.Pos()))
							}
						}
					}
				}
			})
			if fam.Mutating || len(saves) > 0 {
				msg2 := fmt.Sprintf("%d load, %d mutation, %d save call(s)", len(loads), len(mutations), len(saves))
				if okAll {
					msg = msg2
				}
			}
			if okAll && msg == "" {
				msg = fmt.Sprintf("%d mutation call(s) under %s", len(mutations), e.Classes[muClass].Name)
			}
			c.Check(okAll, key, fn.Pos(), "%s", msg)
		}
	}
}

// reachesRename: fn (transitively, within the store package) calls os.Rename.
func reachesRename(c *core.Ctx, fn *ssa.Function) bool {
	seen := map[*ssa.Function]bool{}
	var walk func(f *ssa.Function, d int) bool
	walk = func(f *ssa.Function, d int) bool {
		if seen[f] || d > 6 || f.Blocks == nil {
			return false
		}
		seen[f] = true
		found := false
		an.Calls(f, func(call ssa.CallInstruction) {
			if an.IsFunc(call, "os", "Rename") {
				found = true
				return
			}
			if sc := call.Common().StaticCallee(); sc != nil && c.P.InModule(sc) {
				if walk(sc, d+1) {
					found = true
				}
			}
		})
		return found
	}
	return walk(fn, 0)
}

func runLockRMW(c *core.Ctx) {
	e := getLock(c)
	r := requireRoles(c)
	if r == nil {
		return
	}
	subjAnnot := constValue(c, "types", "AnnotReferrerSubject")
	if subjAnnot == "" {
		c.Unresolved("types.AnnotReferrerSubject", "annotation constant not found")
		return
	}
	rmwAll, rmwN := ^uint64(0), 0
	var rmwFirst *ssa.Function
	defer func() {
		// the updates exclude each other only under one and the same mutex: an add under one mutex and a delete under
		// another both ‘hold a mutex across’ and still interleave
		if rmwN >= 2 {
			c.Check(rmwAll != 0, "rmw-one-mutex", rmwFirst.Pos(), "the %d functions that read, modify and re-insert a subject's referrers response share a mutex held across the update: %v — under different mutexes a push and a delete of referrers of one subject interleave and one of the two updates is lost", rmwN, rmwAll != 0)
		}
	}()
	for _, fn := range c.P.Funcs("") {
		var gets, inserts []ssa.CallInstruction
		lookup := false
		an.Calls(fn, func(call ssa.CallInstruction) {
			switch {
			case r.IsAPI(call, "Repo", "IndexGet"):
				gets = append(gets, call)
			case r.IsAPI(call, "Repo", "IndexInsert"):
				inserts = append(inserts, call)
			case call.Common().StaticCallee() != nil && core.FuncPkgPath(call.Common().StaticCallee()) == c.P.Module && call.Common().StaticCallee() != fn &&
				reachesAPI(c, r, call.Common().StaticCallee(), "Repo", "IndexInsert", 1, map[*ssa.Function]bool{fn: true}):
				// the re-insert happens in a function this one calls
				inserts = append(inserts, call)
			case an.IsMethod(call, r.TypesPath, "Index", "GetByAnnotation"):
				_, args := an.CallArgs(call)
				if len(args) > 0 {
					if s, ok := an.ConstString(args[0]); ok && s == subjAnnot {
						lookup = true
					}
				}
			}
		})
		if !lookup && len(gets) > 0 && len(inserts) > 0 {
			// the lookup happens in a step the index read here is handed to (refResp := respLoad(repo, index, subject))
			var looksUp func(f *ssa.Function, d int) bool
			looksUp = func(f *ssa.Function, d int) bool {
				if f == nil || d > 2 || len(f.Blocks) == 0 || core.FuncPkgPath(f) != c.P.Module {
					return false
				}
				hit := false
				an.Calls(f, func(call ssa.CallInstruction) {
					if an.IsMethod(call, r.TypesPath, "Index", "GetByAnnotation") {
						if _, args := an.CallArgs(call); len(args) > 0 {
							if s, ok := an.ConstString(args[0]); ok && s == subjAnnot {
								hit = true
							}
						}
					} else if sc := call.Common().StaticCallee(); sc != nil && sc != f && looksUp(sc, d+1) {
						hit = true
					}
				})
				return hit
			}
			an.Calls(fn, func(call ssa.CallInstruction) {
				sc := call.Common().StaticCallee()
				if sc == nil || sc == fn || lookup {
					return
				}
				handsIndex := false
				for _, a := range call.Common().Args {
					for _, o := range append([]ssa.Value{an.Origin(a)}, an.Origins(a)...) {
						if gc, idx := an.CallOf(o); gc != nil && idx <= 0 {
							for _, g := range gets {
								if ssa.Instruction(gc) == ssa.Instruction(g) {
									handsIndex = true
								}
							}
						}
					}
				}
				if handsIndex && looksUp(sc, 1) {
					lookup = true
				}
			})
		}
		if len(gets) == 0 && len(inserts) > 0 && lookup {
			// the index the response is looked up in is handed in by the caller: the read of the read-modify-write is the
			// caller's IndexGet, and the mutex has to be held from there to the call — a mutex taken inside this function
			// only covers the write half
			hasIndexParam := false
			for _, p := range fn.Params {
				if isNamedType(p.Type(), r.TypesPath, "Index") {
					hasIndexParam = true
				}
			}
			if hasIndexParam {
				name := c.P.FuncName(fn)
				ok, judged := true, false
				for _, site := range c.P.Callers(fn) {
					caller := site.Parent()
					if caller == nil || site.Common().StaticCallee() != fn {
						continue
					}
					var cgets []ssa.CallInstruction
					// the read the handed-in index comes from (through locals and variables captured by a closure)
					for ai, a := range site.Common().Args {
						if !isNamedType(a.Type(), r.TypesPath, "Index") {
							continue
						}
						_ = ai
						for _, o := range append([]ssa.Value{an.Origin(a)}, an.Origins(a)...) {
							if gc, _ := an.CallOf(o); gc != nil && r.IsAPI(gc, "Repo", "IndexGet") {
								cgets = append(cgets, gc)
							}
						}
					}
					if len(cgets) == 0 {
						an.Calls(caller, func(call ssa.CallInstruction) {
							if r.IsAPI(call, "Repo", "IndexGet") && an.Reaches(call, site) {
								cgets = append(cgets, call)
							}
						})
					}
					if len(cgets) == 0 {
						continue
					}
					judged = true
					common := ^uint64(0)
					for _, ev := range append(cgets, site) {
						m, reached := mustHeldAt(e, ev)
						if !reached {
							m = 0
						}
						common &= m
					}
					if common == 0 {
						ok = false
					}
				}
				if judged {
					rmwN++
					if rmwFirst == nil {
						rmwFirst = fn
					}
					if ok {
						c.Pass("rmw:"+kn(name), fn.Pos(), "the index handed to %s is read by its callers under the mutex that is still held at the call", name)
					} else {
						rmwAll = 0
						c.Fail("rmw:"+kn(name), fn.Pos(), "%s looks up a subject's referrers response in an index its caller read (IndexGet) before any common mutex was taken, and re-inserts a modified response: an update acknowledged between the caller's read and the lock is overwritten — the referrer it added is listed nowhere", name)
					}
				}
			}
			continue
		}
		if len(gets) == 0 || len(inserts) == 0 || !lookup {
			continue
		}
		name := c.P.FuncName(fn)
		common := ^uint64(0)
		reached := true
		for _, ev := range append(append([]ssa.CallInstruction{}, gets...), inserts...) {
			m, ok := mustHeldAt(e, ev)
			if !ok {
				reached = false
			}
			common &= m
		}
		ok := reached && common != 0
		// the common mutex must not be released between the read and the write
		if ok {
			an.Calls(fn, func(call ssa.CallInstruction) {
				if _, isDefer := call.(*ssa.Defer); isDefer {
					return
				}
				if an.IsMethod(call, "sync", "Mutex", "Unlock") {
					for _, g := range gets {
						for _, i := range inserts {
							if an.Reaches(g, call) && an.Reaches(call, i) {
								ok = false
							}
						}
					}
				}
			})
		}
		if ok {
			rmwAll &= common
			rmwN++
			if rmwFirst == nil {
				rmwFirst = fn
			}
			c.Pass("rmw:"+kn(name), fn.Pos(), "index read, referrers response lookup and re-insert all run under %v", e.HeldNames(common))
		} else {
			c.Fail("rmw:"+kn(name), fn.Pos(), "%s reads the index (IndexGet), looks up the referrers response of a subject and re-inserts a modified response (IndexInsert) without one mutex held across: two concurrent pushes of referrers to the same subject lose one of them", name)
		}
	}
}

// constValue returns the string value of a package-level constant.
func constValue(c *core.Ctx, rel, name string) string {
	pk := c.P.Pkg(rel)
	if pk == nil {
		return ""
	}
	o := pk.Types.Scope().Lookup(name)
	if k, ok := o.(*types.Const); ok {
		return strings.Trim(k.Val().ExactString(), `"`)
	}
	return ""
}

func runLockCTA(c *core.Ctx) {
	e := getLock(c)
	r := requireRoles(c)
	if r == nil {
		return
	}
	for _, fn := range c.P.Funcs("") {
		// sessions obtained by BlobSession in this function
		var sizes, writes []ssa.CallInstruction
		an.Calls(fn, func(call ssa.CallInstruction) {
			if r.IsAPI(call, "BlobCreator", "Size") {
				if decidesBranch(call.Value()) {
					sizes = append(sizes, call)
				}
			}
			if isSessionWrite(r, call) {
				writes = append(writes, call)
			}
		})
		if len(sizes) == 0 || len(writes) == 0 {
			continue
		}
		// only sessions that existed before this request (obtained through BlobSession)
		existing := false
		an.Calls(fn, func(call ssa.CallInstruction) {
			if r.IsAPI(call, "Repo", "BlobSession") {
				existing = true
			}
		})
		if !existing {
			continue
		}
		guarded := false
		for _, s := range sizes {
			for _, w := range writes {
				if an.Reaches(s, w) {
					guarded = true
				}
			}
		}
		if !guarded {
			continue
		}
		name := c.P.FuncName(fn)
		common := ^uint64(0)
		for _, ev := range append(append([]ssa.CallInstruction{}, sizes...), writes...) {
			m, _ := mustHeldAt(e, ev)
			common &= m
		}
		if common != 0 {
			c.Pass("cta:"+kn(name), fn.Pos(), "offset checks and write run under %v", e.HeldNames(common))
		} else {
			c.Fail("cta:"+kn(name), fn.Pos(), "%s compares the session's Size() with the request's offset and then writes into the session without a mutex held across check and write: two concurrent chunks for the same offset can both pass the check and both be appended", name)
		}
	}
}

// decidesBranch: the value (or a comparison / call result derived from it) is used as a branch condition.
func decidesBranch(v ssa.Value) bool {
	seen := map[ssa.Value]bool{}
	var walk func(v ssa.Value, d int) bool
	walk = func(v ssa.Value, d int) bool {
		if v == nil || seen[v] || d > 5 || v.Referrers() == nil {
			return false
		}
		seen[v] = true
		for _, ref := range *v.Referrers() {
			switch x := ref.(type) {
			case *ssa.If:
				return true
			case *ssa.BinOp:
				if walk(x, d+1) {
					return true
				}
			case *ssa.UnOp:
				if walk(x, d+1) {
					return true
				}
			case *ssa.Call:
				// passed to a predicate whose boolean result decides a branch
				if b, ok := x.Type().Underlying().(*types.Basic); ok && b.Kind() == types.Bool {
					if walk(x, d+1) {
						return true
					}
				}
			case *ssa.Convert, *ssa.ChangeType:
				if walk(x.(ssa.Value), d+1) {
					return true
				}
			}
		}
		return false
	}
	return walk(v, 0)
}

// isSessionWrite: a call that appends bytes to an upload session (Write, or io.Copy with the session as destination).
func isSessionWrite(r *Roles, call ssa.CallInstruction) bool {
	if r.IsAPI(call, "BlobCreator", "Write") {
		return true
	}
	if an.IsFunc(call, "io", "Copy") && len(call.Common().Args) == 2 {
		return r.IsSessionType(an.Origin(call.Common().Args[0]).Type())
	}
	return false
}

func runLockCopy(c *core.Ctx) {
	e := getLock(c)
	r := requireRoles(c)
	if r == nil {
		return
	}
	for _, fam := range r.Families {
		fn := e.MethodOf(fam.Repo, "IndexGet")
		key := fam.Repo.Obj().Name() + ".IndexGet"
		if fn == nil {
			c.Unresolved(key, "method not found")
			continue
		}
		muClass, _ := e.ClassByName(c.P.TypeName(fam.Repo) + ".mu")
		ok := true
		msg := "returns index.Copy() taken under the repository mutex"
		nret := 0
		an.Instrs(fn, func(in ssa.Instruction) {
			ret, isRet := in.(*ssa.Return)
			if !isRet || len(ret.Results) == 0 {
				return
			}
			nret++
			v := ret.Results[0]
			// defer-spilled results: follow the stores to the result cell
			vals := []ssa.Value{v}
			if u, isLoad := v.(*ssa.UnOp); isLoad && u.Op == token.MUL {
				if st, unk := an.CellStores(u.X); !unk && len(st) > 0 {
					vals = nil
					for _, s := range st {
						vals = append(vals, s.Val)
					}
				}
			}
			for _, val := range vals {
				call, _ := an.CallOf(val)
				if call == nil || !an.IsMethod(call, r.TypesPath, "Index", "Copy") {
					if cst, isConst := val.(*ssa.Const); isConst && cst.Value == nil {
						continue // zero value on an error path
					}
					ok = false
					msg = fmt.Sprintf("a returned index at %s is not the result of Index.Copy: handlers would share the store's slices and maps", c.P.Pos(ret.Pos()))
					continue
				}
				muBits := uint64(1) << uint(muClass)
				if rc, ok := e.ClassByName(c.P.TypeName(fam.Repo) + ".mu#r"); ok {
					muBits |= 1 << uint(rc) // a copy is a read: the shared mode of a read-write mutex suffices
				}
				if m, reached := mustHeldAt(e, call); !reached || m&muBits == 0 {
					ok = false
					msg = fmt.Sprintf("the copy at %s is taken without the repository mutex", c.P.Pos(call.Pos()))
				}
			}
		})
		if nret == 0 {
			ok, msg = false, "no return found"
		}
		c.Check(ok, key, fn.Pos(), "%s", msg)
	}
}

func runLockFlag(c *core.Ctx) {
	e := getLock(c)
	// lock-flag functions: a boolean parameter p such that the lock of a receiver field is taken on the !p side
	type flagFn struct {
		param int
		class int
		typ   string
	}
	flags := map[*ssa.Function]flagFn{}
	for _, fn := range c.P.Funcs("internal/store") {
		if fn.Signature.Recv() == nil {
			continue
		}
		for _, b := range fn.Blocks {
			ifi := an.BlockIf(b)
			if ifi == nil {
				continue
			}
			base, neg := an.CondBase(ifi.Cond)
			p, isParam := base.(*ssa.Parameter)
			if !isParam {
				continue
			}
			pi := -1
			for i, q := range fn.Params {
				if q == p {
					pi = i
				}
			}
			if pi < 0 {
				continue
			}
			falseSucc := 1
			if neg {
				falseSucc = 0
			}
			for _, in := range b.Succs[falseSucc].Instrs {
				if call, ok := in.(ssa.CallInstruction); ok && an.IsMethod(call, "sync", "Mutex", "Lock") {
					if fa, ok := call.Common().Args[0].(*ssa.FieldAddr); ok {
						if n := an.NamedOf(fa.X.Type()); n != nil {
							st := n.Underlying().(*types.Struct)
							name := c.P.TypeName(n) + "." + st.Field(fa.Field).Name()
							if ci, ok := e.ClassByName(name); ok {
								flags[fn] = flagFn{param: pi, class: ci, typ: c.P.TypeName(n)}
							}
						}
					}
				}
			}
		}
	}
	if len(flags) == 0 {
		c.Unresolved("lock-flag functions", "no function with a `locked` parameter found")
		return
	}
	var recs []lock.CallRec
	for _, rec := range e.CallRecs {
		recs = append(recs, rec)
	}
	sort.Slice(recs, func(i, j int) bool { return recs[i].Pos < recs[j].Pos })
	seen := map[string]bool{}
	for _, rec := range recs {
		ff, ok := flags[rec.Callee]
		if !ok {
			continue
		}
		val := ""
		for _, part := range strings.Split(rec.Params, ",") {
			if strings.HasPrefix(part, fmt.Sprintf("%d=", ff.param)) {
				val = part[len(part)-1:]
			}
		}
		key := fmt.Sprintf("flag:%s→%s|%s", kn(rec.Caller), kn(c.P.FuncName(rec.Callee)), val)
		held := rec.Held&(1<<uint(ff.class)) != 0
		unpub := false
		for _, u := range strings.Split(rec.Unpub, ",") {
			if u == ff.typ {
				unpub = true
			}
		}
		okv := true
		msg := ""
		switch val {
		case "T":
			okv = held || unpub
			msg = fmt.Sprintf("locked=true passed with %s held=%v, repository unpublished=%v", e.Classes[ff.class].Name, held, unpub)
		case "F":
			okv = !held
			msg = fmt.Sprintf("locked=false passed with %s held=%v", e.Classes[ff.class].Name, held)
		default:
			msg = "flag value not constant in this context; both branches analysed"
		}
		k := key + fmt.Sprint(okv)
		if seen[k] {
			continue
		}
		seen[k] = true
		c.Check(okv, key, rec.Pos, "%s", msg)
	}
}

func exprStringType(t types.Type) string {
	return types.TypeString(t, func(p *types.Package) string { return p.Name() })
}

func init() {
	register(&Rule{ID: "LK-REGISTRY", Floor: 2,
		Doc: "lookup-or-create of a repository object is atomic: in each store's RepoGet the lookup in the registry of open repositories and the registration of a newly built repository hold one common mutex that is not released on any path from the lookup to the registration — otherwise two first requests for a repository each build their own object (own index copy, own lock, own request counter) and their index updates overwrite each other",
		Run: func(c *core.Ctx) {
			e := getLock(c)
			r := requireRoles(c)
			if r == nil {
				return
			}
			for _, fam := range r.Families {
				fn := e.MethodOf(fam.Store, "RepoGet")
				key := "registry:" + fam.Store.Obj().Name()
				if fn == nil {
					c.Unresolved(key, "RepoGet of %s not found", fam.Store.Obj().Name())
					continue
				}
				// the lookup-or-create may live in a helper method of the store type that RepoGet calls
				{
					touches := func(f *ssa.Function) bool {
						hit := false
						an.Instrs(f, func(in ssa.Instruction) {
							switch x := in.(type) {
							case *ssa.MapUpdate:
								if an.NamedOf(an.Deref(fieldOwnerType(x.Map))) == fam.Store {
									hit = true
								}
							case ssa.CallInstruction:
								if an.IsMethod(x, c.P.Module+"/internal/cache", "Cache", "Set") {
									if recv, _ := an.CallArgs(x); an.NamedOf(an.Deref(fieldOwnerType(recv))) == fam.Store {
										hit = true
									}
								}
							}
						})
						return hit
					}
					if !touches(fn) {
						var found *ssa.Function
						an.Calls(fn, func(call ssa.CallInstruction) {
							if sc := call.Common().StaticCallee(); sc != nil && sc.Signature.Recv() != nil && an.NamedOf(an.Deref(sc.Signature.Recv().Type())) == fam.Store && touches(sc) {
								found = sc
							}
						})
						if found != nil {
							fn = found
						}
					}
				}
				st, ok := fam.Store.Underlying().(*types.Struct)
				if !ok {
					continue
				}
				// registry fields: map / cache whose values are repositories of this family
				regField := map[string]bool{}
				for i := 0; i < st.NumFields(); i++ {
					f := st.Field(i)
					ts := f.Type().String()
					if strings.Contains(ts, c.P.TypeName(fam.Repo)) || strings.Contains(ts, "."+fam.Repo.Obj().Name()) {
						if _, isMap := f.Type().Underlying().(*types.Map); isMap || strings.Contains(ts, "cache.Cache[") {
							regField[f.Name()] = true
						}
					}
				}
				if len(regField) == 0 {
					c.Unresolved(key, "%s has no registry field holding %s", fam.Store.Obj().Name(), fam.Repo.Obj().Name())
					continue
				}
				onReg := func(v ssa.Value) bool {
					root, p := accessPath(an.Strip(v))
					return len(p) == 1 && regField[p[0]] && root == ssa.Value(fn.Params[0])
				}
				fieldKey := func() string {
					for f := range regField {
						return c.P.TypeName(fam.Store) + "." + f
					}
					return ""
				}()
				heldAtPos := func(pos token.Pos) (uint64, bool) {
					m, found := ^uint64(0), false
					for _, a := range e.Accesses[fieldKey] {
						if a.Pos == pos && a.Func == c.P.FuncName(fn) {
							m &= a.Held
							found = true
						}
					}
					return m & e.MutexMask(), found
				}
				type ev struct {
					in   ssa.Instruction
					held uint64
					ok   bool
				}
				var reads, writes []ev
				an.Instrs(fn, func(in ssa.Instruction) {
					switch x := in.(type) {
					case *ssa.Lookup:
						if onReg(x.X) {
							h, ok := heldAtPos(x.Pos())
							if !ok {
								h, ok = heldAtPos(x.X.Pos())
							}
							reads = append(reads, ev{in, h, ok})
						}
					case *ssa.MapUpdate:
						if onReg(x.Map) {
							h, ok := heldAtPos(x.Pos())
							if !ok {
								h, ok = heldAtPos(x.Map.Pos())
							}
							writes = append(writes, ev{in, h, ok})
						}
					case ssa.CallInstruction:
						if _, isDefer := x.(*ssa.Defer); isDefer {
							return
						}
						isGet := an.IsMethod(x, c.P.Module+"/internal/cache", "Cache", "Get")
						isSet := an.IsMethod(x, c.P.Module+"/internal/cache", "Cache", "Set")
						if !isGet && !isSet {
							return
						}
						recv, _ := an.CallArgs(x)
						if !onReg(recv) {
							return
						}
						h, ok := mustHeldAt(e, x)
						if isGet {
							reads = append(reads, ev{in, h, ok})
						} else {
							writes = append(writes, ev{in, h, ok})
						}
					}
				})
				if len(reads) == 0 || len(writes) == 0 {
					c.Unresolved(key, "RepoGet of %s does not show a lookup and a registration on its registry field (reads %d, writes %d)", fam.Store.Obj().Name(), len(reads), len(writes))
					continue
				}
				common := ^uint64(0)
				reached := true
				for _, x := range append(append([]ev{}, reads...), writes...) {
					if !x.ok {
						reached = false
					}
					common &= x.held
				}
				good := reached && common != 0
				why := ""
				if !reached {
					why = "the lock state at the lookup or the registration could not be determined"
				} else if common == 0 {
					why = "no mutex is held at both the lookup and the registration"
				}
				if good {
					an.Calls(fn, func(call ssa.CallInstruction) {
						if _, isDefer := call.(*ssa.Defer); isDefer {
							return
						}
						if !an.IsMethod(call, "sync", "Mutex", "Unlock") && !an.IsMethod(call, "sync", "RWMutex", "Unlock") {
							return
						}
						for _, rd := range reads {
							for _, wr := range writes {
								if an.Reaches(rd.in, call) && an.Reaches(call, wr.in) {
									good = false
									why = fmt.Sprintf("the mutex is released at %s between the lookup and the registration", c.P.Pos(call.Pos()))
								}
							}
						}
					})
				}
				if good {
					c.Pass(key, fn.Pos(), "lookup and registration in %s both hold %v with no release in between", c.P.FuncName(fn), e.HeldNames(common))
				} else {
					c.Fail(key, writes[0].in.Pos(), "%s looks a repository up and registers a new one without one mutex held across (%s): two first requests for the same repository each build and use their own repository object, and their index updates overwrite each other", c.P.FuncName(fn), why)
				}
			}
		}})
}

// takesMutex: the call is a Lock of mutex class mu, or enters a function of the module that locks it (two levels).
func takesMutex(e *lock.Engine, call ssa.CallInstruction, mu int, depth int) bool {
	if depth > 2 {
		return false
	}
	if an.IsMethod(call, "sync", "Mutex", "Lock") || an.IsMethod(call, "sync", "RWMutex", "Lock") || an.IsMethod(call, "sync", "RWMutex", "RLock") {
		return true
	}
	h := call.Common().StaticCallee()
	if h == nil || len(h.Blocks) == 0 {
		return false
	}
	found := false
	an.Calls(h, func(c2 ssa.CallInstruction) {
		if _, isDefer := c2.(*ssa.Defer); isDefer {
			return
		}
		if takesMutex(e, c2, mu, depth+1) {
			found = true
		}
	})
	return found
}
