package rules

import (
	"fmt"
	"go/token"
	"go/types"

	"golang.org/x/tools/go/ssa"

	"olacheck/an"
	"olacheck/core"
)

// SH-CONVERT-ATOMIC: the conversion of fallback tags works on the live in-memory index. A fallback tag that
// cannot be adopted as it is holds the only record of its referrers until the regenerated response has been
// added. If the tag is dropped from the index while a later step of the conversion can still fail, a failure
// leaves an index that has lost the tag, has no replacement and is not marked converted; the next unrelated
// index write persists it and the repeated conversion finds nothing to convert — the referrers are gone.
// Hence: no failure return of the ingest is reachable from a removal of an index entry.
func init() {
	register(&Rule{ID: "SH-CONVERT-ATOMIC", Floor: 1,
		Doc: "in the function that converts fallback tags (the one that sets the converted marker) no return with a possibly non-nil error is reachable from a removal of an entry from the index (Index.RmDesc): the stale tags are dropped only after the last step that can fail, so an interrupted or failed conversion leaves every unconverted tag in place for the repetition",
		Run: func(c *core.Ctx) {
			r := requireRoles(c)
			if r == nil {
				return
			}
			conv := constValue(c, "types", "AnnotReferrerConvert")
			n := 0
			for _, fn := range sharedStoreFuncs(c) {
				marks := false
				an.Instrs(fn, func(in ssa.Instruction) {
					if mu, ok := in.(*ssa.MapUpdate); ok {
						if k, isK := an.ConstString(mu.Key); isK && k == conv && conv != "" {
							marks = true
						}
					}
				})
				if !marks {
					continue
				}
				k := 0
				an.Calls(fn, func(call ssa.CallInstruction) {
					if !an.IsMethod(call, r.TypesPath, "Index", "RmDesc") {
						return
					}
					if _, isDefer := call.(*ssa.Defer); isDefer {
						return
					}
					n++
					k++
					key := fmt.Sprintf("remove-then-fail:%s#%d", kn(c.P.FuncName(fn)), k)
					bad := token.NoPos
					an.ReachFrom(call, func(in ssa.Instruction) bool {
						if ret, ok := in.(*ssa.Return); ok && bad == token.NoPos && len(ret.Results) > 0 {
							last := ret.Results[len(ret.Results)-1]
							if an.IsErrorType(last.Type()) && !retErrNil(ret) {
								bad = ret.Pos()
							}
						}
						return bad == token.NoPos
					})
					c.Check(bad == token.NoPos, key, call.Pos(), "after the removal of an index entry at %s the conversion cannot fail any more: %v%s", c.P.Pos(call.Pos()), bad == token.NoPos, map[bool]string{true: "", false: fmt.Sprintf(" (failure return at %s is reachable) — a failed regeneration then leaves the index without the fallback tag, without the new response and not marked converted; the next index write persists that and the repeated conversion has nothing left to convert", c.P.Pos(bad))}[bad == token.NoPos])
				})
			}
			if n == 0 {
				c.Unresolved("convert-removals", "no removal of index entries in the function that sets the converted marker")
			}
		}})
}

// SH-CONVERT-MERGE: while it converts, the ingest keeps a table ‘subject → referrers response already in the
// index’ (filled from the entries that carry the subject annotation) and consults it when it regenerates a
// response, so that the new response extends the existing one instead of replacing it (AddDesc drops the
// previous response of a subject). Every response the conversion itself adds to the index before that lookup —
// an accurate fallback index adopted as it is — has to be entered into the table as well; otherwise a
// regeneration for the same subject (a mixed-subject fallback index naming it) replaces the adopted response
// and the referrers it listed are lost.
func init() {
	register(&Rule{ID: "SH-CONVERT-MERGE", Floor: 1,
		Doc: "the conversion's table of referrers responses already in the index (subject → descriptor, consulted when a response is regenerated) is kept complete: every Index.AddDesc of a descriptor carrying the referrers-subject annotation that can be followed by a lookup in that table — other than in the loop the lookup itself belongs to — is followed, before any such lookup, by an update of the table; an adopted response missing from the table is replaced, not merged, by a later regeneration for the same subject",
		Run: func(c *core.Ctx) {
			r := requireRoles(c)
			if r == nil {
				return
			}
			subjAnnot := constValue(c, "types", "AnnotReferrerSubject")
			conv := constValue(c, "types", "AnnotReferrerConvert")
			if subjAnnot == "" || conv == "" {
				c.Unresolved("annotations", "annotation constants not found")
				return
			}
			n := 0
			for _, fn := range sharedStoreFuncs(c) {
				marks := false
				an.Instrs(fn, func(in ssa.Instruction) {
					if mu, ok := in.(*ssa.MapUpdate); ok {
						if k, isK := an.ConstString(mu.Key); isK && k == conv {
							marks = true
						}
					}
				})
				if !marks {
					continue
				}
				// the table: the map from subjects to descriptors the function looks responses up in
				isDescMap := func(v ssa.Value) bool {
					m, ok := v.Type().Underlying().(*types.Map)
					return ok && isNamed(m.Elem(), r.TypesPath, "Descriptor")
				}
				// (a local filled in this function, or a parameter filled by the step that scanned the entries)
				var table ssa.Value
				an.Instrs(fn, func(in ssa.Instruction) {
					if lk, ok := in.(*ssa.Lookup); ok && isDescMap(lk.X) && table == nil {
						table = an.Origin(lk.X)
					}
				})
				if table == nil {
					continue
				}
				sameTable := func(v ssa.Value) bool { return an.Origin(v) == table || an.Strip(v) == an.Strip(table) }
				var lookups []*ssa.Lookup
				an.Instrs(fn, func(in ssa.Instruction) {
					if lk, ok := in.(*ssa.Lookup); ok && sameTable(lk.X) {
						lookups = append(lookups, lk)
					}
				})
				if len(lookups) == 0 {
					continue
				}
				// AddDesc of a descriptor whose annotations are a literal with the subject key
				carriesSubject := func(arg ssa.Value) bool {
					var al *ssa.Alloc
					switch x := an.Strip(arg).(type) {
					case *ssa.UnOp:
						al, _ = x.X.(*ssa.Alloc)
					case *ssa.Alloc:
						al = x
					}
					if al == nil || al.Referrers() == nil {
						return false
					}
					hit := false
					for _, ref := range *al.Referrers() {
						fa, ok := ref.(*ssa.FieldAddr)
						if !ok || fa.Referrers() == nil {
							continue
						}
						for _, r2 := range *fa.Referrers() {
							st, ok := r2.(*ssa.Store)
							if !ok || st.Addr != ssa.Value(fa) {
								continue
							}
							mm, ok := an.Strip(st.Val).(*ssa.MakeMap)
							if !ok || mm.Referrers() == nil {
								continue
							}
							for _, r3 := range *mm.Referrers() {
								if mu, ok := r3.(*ssa.MapUpdate); ok {
									if k, isK := an.ConstString(mu.Key); isK && k == subjAnnot {
										hit = true
									}
								}
							}
						}
					}
					return hit
				}
				k := 0
				an.Calls(fn, func(call ssa.CallInstruction) {
					if !an.IsMethod(call, r.TypesPath, "Index", "AddDesc") {
						return
					}
					_, args := an.CallArgs(call)
					if len(args) == 0 || !carriesSubject(args[0]) {
						return
					}
					h := loopHeader(call.Block())
					n++
					k++
					key := fmt.Sprintf("adopted-registered:%s#%d", kn(c.P.FuncName(fn)), k)
					bad := token.NoPos
					an.ReachFrom(call, func(in ssa.Instruction) bool {
						if bad != token.NoPos {
							return false
						}
						if mu, ok := in.(*ssa.MapUpdate); ok && sameTable(mu.Map) {
							return false // registered on this path
						}
						if lk, ok := in.(*ssa.Lookup); ok && sameTable(lk.X) {
							if h != nil && loopHeader(lk.Block()) == h {
								return true // the lookup of the loop this insert belongs to: keyed by that loop's own subject
							}
							bad = lk.Pos()
							return false
						}
						return true
					})
					c.Check(bad == token.NoPos, key, call.Pos(), "the referrers response added to the index at %s is entered into the table of existing responses before the table is consulted again: %v%s", c.P.Pos(call.Pos()), bad == token.NoPos, map[bool]string{true: "", false: fmt.Sprintf(" (lookup at %s is reachable without an update of the table) — a regeneration for the same subject then replaces the adopted response instead of extending it: the referrers it listed are lost", c.P.Pos(bad))}[bad == token.NoPos])
				})
			}
			if n == 0 {
				c.Unresolved("convert-adds", "no insertion of a referrers response in the function that sets the converted marker")
			}
		}})
}
