// Package rules holds the repository-specific rules and their wiring to the properties.
package rules

import (
	"go/types"

	"olacheck/core"
	"olacheck/roles"
)

type Roles = roles.Roles
type Family = roles.Family

func getRoles(c *core.Ctx) *Roles {
	return core.Memo(c, "roles", func() *Roles { return roles.Resolve(c.P) })
}

func lookupNamed(pk *types.Package, name string) *types.Named { return roles.LookupNamed(pk, name) }

// requireRoles fails closed when the anchors are missing.
func requireRoles(c *core.Ctx) *Roles {
	r := getRoles(c)
	ok := r.IStore != nil && r.IRepo != nil && r.IBlobCreator != nil && len(r.Families) >= 2 && r.Server != nil && r.Router != nil && len(r.Handlers) >= 5
	if !ok {
		c.Unresolved("roles", "store API interfaces / families / server / router / handlers could not be resolved (families=%d handlers=%d)", len(r.Families), len(r.Handlers))
		return nil
	}
	return r
}
