package rules

import (
	"fmt"
	"go/token"

	"golang.org/x/tools/go/ssa"

	"olacheck/an"
	"olacheck/core"
)

// TS-SEARCH-EXACT: sort.SearchStrings / sort.Search / sort.SearchInts return an *insertion point* — the index of
// the first element not less than the key, which holds the key only if the key is present. Code that steps over
// "the key's position" (uses the result plus one as the start of what follows) is right only behind a test that
// the element at the result equals the key; without it, a key that is absent makes the first element after it
// disappear. In the tag listing that is a page that resumes after a `last` which is no longer (or never was) a
// tag: the next tag is never listed.
func init() {
	register(&Rule{ID: "TS-SEARCH-EXACT", Floor: 0,
		Doc: "in the server package, the insertion point a binary search returns (sort.SearchStrings, sort.Search, sort.SearchInts, the index result of slices.BinarySearch) is stepped over (used plus one as a slice bound or index) only behind a test that the element at that position equals the key, or that the search found it: otherwise a key that is not in the list — a `last` parameter that is not a current tag — makes the element that follows it vanish from the answer",
		Run: func(c *core.Ctx) {
			n := 0
			for _, fn := range serverFuncs(c) {
				k := 0
				an.Calls(fn, func(call ssa.CallInstruction) {
					cc, ok := call.(*ssa.Call)
					if !ok {
						return
					}
					isSearch := an.IsFunc(call, "sort", "SearchStrings") || an.IsFunc(call, "sort", "SearchInts") || an.IsFunc(call, "sort", "Search") || an.IsFunc(call, "sort", "SearchFloat64s")
					isBin := an.IsFunc(call, "slices", "BinarySearch") || an.IsFunc(call, "slices", "BinarySearchFunc")
					if !isSearch && !isBin {
						return
					}
					n++
					k++
					key := fmt.Sprintf("search:%s#%d", kn(c.P.FuncName(fn)), k)
					// the index result
					var idx ssa.Value = cc
					var found ssa.Value
					if isBin && cc.Referrers() != nil {
						idx = nil
						for _, ref := range *cc.Referrers() {
							if ex, isEx := ref.(*ssa.Extract); isEx {
								if ex.Index == 0 {
									idx = ex
								} else {
									found = ex
								}
							}
						}
					}
					if idx == nil || idx.Referrers() == nil {
						c.Pass(key, cc.Pos(), "the search result is not stepped over")
						return
					}
					list := cc.Call.Args[0]
					bad := token.NoPos
					for _, ref := range *idx.Referrers() {
						bo, isBo := ref.(*ssa.BinOp)
						if !isBo || bo.Op != token.ADD {
							continue
						}
						if one, isC := an.ConstInt(bo.Y); !isC || one < 1 {
							if one2, isC2 := an.ConstInt(bo.X); !isC2 || one2 < 1 {
								continue
							}
						}
						// idx+1 used as a slice bound or an index
						if bo.Referrers() == nil {
							continue
						}
						for _, use := range *bo.Referrers() {
							var ub *ssa.BasicBlock
							switch u := use.(type) {
							case *ssa.Slice:
								ub = u.Block()
							case *ssa.IndexAddr:
								ub = u.Block()
							case *ssa.Index:
								ub = u.Block()
							case *ssa.Phi:
								ub = u.Block()
							}
							if ub == nil {
								continue
							}
							// guarded by `list[idx] == key` (true edge) or by the search's found result
							guarded := false
							for _, g := range an.GuardingEdges(ub) {
								ifi := g.If()
								if found != nil {
									if base, neg := an.CondBase(ifi.Cond); base == found && ((g.Succ == 0) != neg) {
										guarded = true
									}
								}
								if x, y, op, isCmp := an.CmpTest(ifi); isCmp && ((op == token.EQL && g.Succ == 0) || (op == token.NEQ && g.Succ == 1)) {
									for _, side := range []ssa.Value{x, y} {
										if ld, isLd := an.Strip(side).(*ssa.UnOp); isLd && ld.Op == token.MUL {
											if ia, isIA := ld.X.(*ssa.IndexAddr); isIA && an.Strip(ia.Index) == idx && (sameSource(ia.X, list) || an.Origin(ia.X) == an.Origin(list)) {
												guarded = true
											}
										}
									}
								}
							}
							if !guarded && bad == token.NoPos {
								bad = bo.Pos()
								if bad == token.NoPos {
									bad = cc.Pos()
								}
							}
						}
					}
					c.Check(bad == token.NoPos, key, cc.Pos(), "the insertion point found at %s is stepped over only where the element there equals the key: %v%s", c.P.Pos(cc.Pos()), bad == token.NoPos, map[bool]string{true: "", false: fmt.Sprintf(" (result+1 used at %s without that test) — for a key that is not in the list the insertion point is already the first element after it, and that element is skipped: a tag listing resumed after a `last` that is not a current tag never shows the next tag", c.P.Pos(bad))}[bad == token.NoPos])
				})
			}
			if n == 0 {
				c.Pass("search:none", token.NoPos, "no binary search in the handlers: positions are found by comparing every element")
			}
		}})
}
