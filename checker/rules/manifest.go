package rules

import (
	"encoding/json"
	"fmt"
	"sort"
)

// notApplicable lists the properties the checker does not claim, with the reason.
var notApplicable = map[string]string{}

// allPropertyIDs are the ids of /verif/properties.jsonl.
var allPropertyIDs = []string{"C01", "C02", "C03", "C04", "C05", "C06", "C07", "C08", "C09", "C10", "C11", "C12", "C13", "C14", "C15", "C16", "C17", "C18", "C19", "C20"}

const envPrefix = "GOFLAGS=-mod=mod GOPROXY=off GOSUMDB=off GOTOOLCHAIN=local GOWORK=off"

// ManifestJSON renders MANIFEST.json from the registered properties so that the manifest and the
// checker cannot disagree.
func ManifestJSON() ([]byte, error) {
	type check map[string]any
	var checks []check
	na := []map[string]string{}
	for _, id := range allPropertyIDs {
		p := properties[id]
		if p == nil {
			reason := notApplicable[id]
			if reason == "" {
				reason = "no sound static clause built for this property"
			}
			na = append(na, map[string]string{"property_id": id, "reason": reason})
			continue
		}
		var docs []string
		for _, rid := range p.Rules {
			docs = append(docs, rid)
		}
		sort.Strings(docs)
		checks = append(checks, check{
			"property_id":         id,
			"quick_cmd":           fmt.Sprintf("./check %s quick", id),
			"thorough_cmd":        fmt.Sprintf("./check %s thorough", id),
			"evidence_file":       fmt.Sprintf("/verif/evidence/%s.json", id),
			"replay_cmd_template": fmt.Sprintf("./check %s replay {path}", id),
			"engine":              "olacheck",
			"technique":           p.Technique,
			"level_claimed": map[string]string{
				"category":   "other",
				"text":       "Repository-specific static analysis (type-checked AST, go/ssa, VTA call graph) decides named structural clauses that are necessary conditions of the property, for all paths of the analysed functions; it does not decide the behaviour itself. Decided: " + p.Decided + " Not decided: " + p.NotDecided,
				"design_ref": p.DesignRef,
			},
			"level_note": "Trusted: go/packages, go/types, go/ssa and the VTA call graph of x/tools v0.29.0; POSIX rename atomicity and the documented behaviour of the Go standard library (sync, net/http, io, os) as modelled in DESIGN.md §3; lock identity per class. Rules: " + fmt.Sprint(docs),
		})
	}
	m := map[string]any{
		"version":   1,
		"setup_cmd": "cd /verif/checker && " + envPrefix + " go build -o /verif/bin/olacheck ./cmd/olacheck",
		"hooks": map[string]any{
			"guard":            "verif",
			"enable":           "no hooks: nothing in /repo is instrumented; the checks analyse the working tree as it is",
			"baseline_off_cmd": "cd /repo && " + envPrefix + " go test -vet=off -count=1 ./...",
			"source_commits":   []string{},
			"add_only":         true,
		},
		"engines": []map[string]any{{
			"name": "olacheck", "path": "/verif/checker",
			"serves_properties": PropertyIDs(),
			"kind_free_text":    "custom static analyser for olareg: go/packages + go/types + go/ssa (instantiated generics) + VTA call graph; lock/lockset engine, path (typestate) engine, provenance, filesystem-effect, table and shape rules",
		}},
		"checks":         checks,
		"not_applicable": na,
		"notes":          "Every check loads /repo's current working tree on every run (go/packages, Tests=false) and never executes repository code. known_findings.json lists recorded defects (status known) and repaired ones (status fixed).",
	}
	return json.MarshalIndent(m, "", " ")
}
