package rules

func init() {
	registerProperty(&Property{ID: "C15", Rules: []string{"TB-ERRCODE", "TB-NILCONF"},
		Decided: "error-code table equals the OCI table; settings dereferenced by handlers cannot be nil.", NotDecided: "panic freedom in general."})
	registerProperty(&Property{ID: "C19", Rules: []string{"TB-FLAGS", "TB-DEFAULTS"},
		Decided: "flag wiring and defaults.", NotDecided: "rate accounting."})
	registerProperty(&Property{ID: "C07", Rules: []string{"TS-REFERRER-CALL", "SH-SIBLING-REF", "TS-REFDEL"}, Decided: "x", NotDecided: "-"})
	registerProperty(&Property{ID: "C04", Rules: []string{"TS-EXISTS", "TS-MT-CONSISTENT", "TS-BOUNDREAD", "TS-REFTAG", "TB-MEDIATYPE"}, Decided: "media type tables agree.", NotDecided: "-"})
	registerProperty(&Property{ID: "C13", Rules: []string{"LK-GUARD", "LK-COPY", "TB-DEEP"}, Decided: "deep copies.", NotDecided: "-"})
	registerProperty(&Property{ID: "C12", Rules: []string{"LK-ORDER", "LK-SELF", "LK-PAIR", "LK-HOLD", "LK-TOKEN", "LK-FLAG"}, Decided: "lock order.", NotDecided: "-"})
	registerProperty(&Property{ID: "C11", Rules: []string{"LK-ATOMIC", "LK-RMW", "LK-COPY", "TB-DEEP"}, Decided: "atomicity.", NotDecided: "-"})
	registerProperty(&Property{ID: "C08", Rules: []string{"LK-CTA", "TS-RANGE", "TS-CANCEL", "TS-REFUSE"}, Decided: "cta.", NotDecided: "-"})
	registerProperty(&Property{ID: "C20", Rules: []string{"TS-CLEANUP"}, Decided: "x", NotDecided: "-"})
	registerProperty(&Property{ID: "C17", Rules: []string{"LK-SELF", "SH-IDEMPOTENT", "SH-WORKLIST", "SH-CONVERT-MARK", "TS-CONTENT-FIRST"}, Decided: "x", NotDecided: "-"})
	registerProperty(&Property{ID: "C05", Rules: []string{"SH-WORKLIST", "SH-MARK-EXHAUSTIVE", "SH-SWEEP-GUARD", "LK-TOKEN"}, Decided: "x", NotDecided: "-"})
	registerProperty(&Property{ID: "C06", Rules: []string{"SH-PASS-LOOP", "TS-SAVE", "SH-WORKLIST"}, Decided: "x", NotDecided: "-"})
	registerProperty(&Property{ID: "C10", Rules: []string{"TS-SAVE", "FS-INIT", "FS-CLEANUP"}, Decided: "x", NotDecided: "-"})
	registerProperty(&Property{ID: "C09", Rules: []string{"FS-INDEX", "FS-BLOB", "FS-TEMP", "TS-CONTENT-FIRST"}, Decided: "x", NotDecided: "-"})
	registerProperty(&Property{ID: "C01", Rules: []string{"TS-VERIFY", "TS-HASHBYTES", "SH-DIGESTER"}, Decided: "x", NotDecided: "-"})
	registerProperty(&Property{ID: "C02", Rules: []string{"TS-ACK"}, Decided: "x", NotDecided: "-"})
	registerProperty(&Property{ID: "C14", Rules: []string{"FS-WHO", "FS-RO", "TS-ROGUARD", "TB-ROUTE"}, Decided: "x", NotDecided: "-"})
	registerProperty(&Property{ID: "C16", Rules: []string{"PV-REPO", "PV-ROUTE", "PV-PATH", "TB-RESERVED"}, Decided: "reserved names.", NotDecided: "-"})
}
