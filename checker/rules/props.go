package rules

const techLock = "context- and path-sensitive lock analysis on go/ssa (held sets, order graph, lockset), VTA call graph"
const techPath = "path-sensitive typestate analysis on go/ssa (must-pass-through, error-value tracking, edge dominance)"

func init() {
	registerProperty(&Property{ID: "C01", DesignRef: "DESIGN.md §4 C01, §3.3, §3.7",
		Rules:      []string{"TS-VERIFY", "TS-HASHBYTES", "TS-SERVE", "TS-REFUSE#push", "TS-REFUSE#upload", "SH-DIGESTER", "FS-BLOB", "PV-PATH#digest", "LK-GUARD-UPLOAD", "LK-CTA-UPLOAD"},
		Technique:  techPath + "; who-may-write and path-provenance checks",
		Decided:    "the structural chain behind ‘served content hashes to its digest’: every session commit outside the stores is dominated by Verify's ok-edge against a parsed digest or the session was created with the digest (store re-checks); hashed bytes = written bytes = indexed digest and size; the computed digest is compared with the requested one; digester and writer are always re-created together, the commit compares with the expected digest before the rename / map insert and names the blob after the digester; nothing else creates files under blobs/; digest parts reach a file name only after Validate; read handlers take header, body and media type from one descriptor.",
		NotDecided: "correctness of the hash implementations; that Verify's re-scan after an algorithm switch reads exactly the bytes written; pre-existing corrupt files in a directory.",
	})
	registerProperty(&Property{ID: "C02", DesignRef: "DESIGN.md §4 C02, §3.3",
		Rules:      []string{"TS-BOUNDREAD", "TS-ACK", "TS-SERVE", "TS-CONTENT-FIRST#push", "TS-STORED-THEN-INDEXED#push", "TS-REFUSE#push", "TS-REFUSE#upload", "SH-WORKLIST#complete", "SH-SCAN-QUEUE", "SH-CONVERT-MARK#loader", "SH-WORKLIST#skip-set", "SH-SWEEP-GUARD#safety", "SH-ROOTS#safety", "TS-TAGKEEP", "TB-MEDIATYPE", "FS-CLEANUP", "TS-SAVE#api"},
		Technique:  techPath,
		Decided:    "the manifest body is read through a bound above the limit and an oversized body is refused on every path to the insert (never stored cut); no 2xx / `return nil` is reachable when a commit call failed, was not tested or was discarded (abstract error values tracked per path); content is stored before the index entry naming it; served headers and body come from the recorded descriptor; the child descriptors of nested indexes are rebuilt completely on every index load (worklist discipline of the scan), so manifests acknowledged by digest stay addressable after a restart; the collector removes nothing a retained manifest references (skip-set discipline, sweep guards and root selection shared with C05), so acknowledged content disappears only by policy; every entry the index classification accepts (OCI index and Docker manifest list) is queued for that child scan; in the directory store every index mutation of the store API ends in a save whose result is returned (an acknowledged tag is on disk).",
		NotDecided: "byte identity after arbitrary histories; range arithmetic (net/http.ServeContent); the full retention policy matrix (C05).",
	})
	registerProperty(&Property{ID: "C03", DesignRef: "DESIGN.md §4 C03, §3.4",
		Rules:      []string{"PV-BOUNDS#taglist", "TS-SORT", "TS-REFTAG", "TS-GETDESC", "TS-TAGKEEP", "TS-SAVE#api", "TB-GRAMMAR#tag", "TS-RMDESC", "SH-ROOTS#safety", "TS-REFRESP-FLOW", "TS-SEARCH-EXACT"},
		Technique:  "difference-bound (ABCD-style) range proof on go/ssa for request-derived integers; ordering checks on the CFG",
		Decided:    "every slice bound / index derived from the request's n, page … is proven in range by the dominating conditions (n=0, negative and oversized values cannot panic); the tag list is filled, sorted, truncated, marshalled in that order; a tag is recorded only from a grammar-checked reference; tag lookups return the annotated entry and digest lookups a bare descriptor (what makes ‘delete a tag’ and ‘delete a digest’ differ); a tagged entry of the index is a root of the collector whatever other entries of the same digest say (a tag that was never deleted is not dropped by a collection); a binary-search insertion point is stepped over only where the element there equals the key (a `last` that is not a current tag does not make the next tag vanish).",
		NotDecided: "the map semantics of AddDesc/RmDesc (value-level, see C18); strictness of the `last` comparison; exactly-once paging.",
	})
	registerProperty(&Property{ID: "C04", DesignRef: "DESIGN.md §4 C04, §3.3, §3.6",
		Rules:      []string{"TS-EXISTS", "TS-MT-CONSISTENT", "TS-REFTAG", "TS-HASHBYTES#expected-digest", "TS-REFUSE#push", "TB-MEDIATYPE", "TS-DETECT", "PV-PATH#digest", "TB-GRAMMAR#tag", "TS-TOMBSTONE", "TB-RESERVED", "TS-DECLARED-TYPE", "TS-BOUNDREAD"},
		Technique:  techPath + "; table agreement on constants",
		Decided:    "every path to the index insert passes the parse ok-edge and the ok-edge of an existence verifier that covers every Descriptor field of the parsed struct in the same repository; the declared media type is compared with the body's; reference is a grammar-checked tag or the compared digest; media-type tables agree; nothing mutating is reachable after any refusal; mutators sit behind the read-only guard; the body-kind detector gives up (which skips the comparison) only on paths that found every kind marker it reads empty.",
		NotDecided: "well-formedness beyond what the JSON decoder and the reference checks establish; equality of the observable state before/after a refusal as a value.",
	})
	registerProperty(&Property{ID: "C05", DesignRef: "DESIGN.md §4 C05, §3.7, §3.2",
		Rules:      []string{"SH-WORKLIST#skip-set", "SH-MARK-EXHAUSTIVE", "SH-SWEEP-GUARD#safety", "SH-ROOTS#safety", "TS-COMMIT-FRESH", "FS-CLEANUP", "LK-TOKEN#exclusion", "SH-SIBLING-REF#mediatype", "TB-MEDIATYPE", "LK-RMW", "TS-REFRESP-FLOW"},
		Technique:  "algorithm-shape rules on the typed AST and go/ssa (worklist discipline, field exhaustiveness, dominance of the sweep), lock/typestate analysis for the collector–handler exclusion",
		Decided:    "mark phase: skip-set discipline (a digest in several roles is still expanded), every descriptor field of image and index manifests and the referrers edge are followed; sweep: removal dominated by the not-marked edge, a modification-time test can skip it, an unmarked blob is kept only on the ‘not an index entry’ edge (retention closed under reference); root selection: every iteration path consistent with tagged / untagged-collection-off / recent appends the entry to the mark worklist (path conditions over the policy atoms); exclusion protocol: token before wait before mutex in the collector, holds only added with the token or before publication (the pairing of RepoGet/Done in handlers is decided under C12); the referrers response of a subject is read, extended and re-inserted under one mutex (a referrer lost to a concurrent update is listed nowhere and would be collected although its subject is retained).",
		NotDecided: "the referrers part of the retention policy matrix; which blobs a given graph retains.",
	})
	registerProperty(&Property{ID: "C06", DesignRef: "DESIGN.md §4 C06, §3.7",
		Rules:      []string{"SH-PASS-LOOP", "TS-SAVE#collector", "SH-WORKLIST#term", "SH-WORKLIST#skip-set", "SH-MARK-EXHAUSTIVE", "SH-SWEEP-GUARD", "SH-ROOTS", "SH-MODSTAMP", "FS-CLEANUP#fresh", "PV-PATH#collector", "TS-LOADSTAMP"},
		Technique:  "loop-shape and path rules on go/ssa and the typed AST",
		Decided:    "a failing repository does not end the store-wide pass (no path from the failure edge leaves the loop); a collector-modified index is saved on all paths; the mark and scan loops terminate on any input (progress + bounded growth); index entries without a blob are pruned; untagged entries that are old or outside any grace period are not roots when untagged collection is on (path conditions of the root selection); ‘exactly the garbage’ also means nothing retained is removed: the mark phase's skip-set discipline, field exhaustiveness and the sweep guards (shared with C05); the ‘not modified since’ window of the scheduled pass is derived from the tick before, and the time carried from one pass to the next was taken before the pass ran (nothing modified while a pass runs falls outside every later window).",
		NotDecided: "exactness of the sweep as a value; idempotence of a second pass; empty-repository removal semantics (its safety is under C10).",
	})
	registerProperty(&Property{ID: "C07", DesignRef: "DESIGN.md §4 C07, §3.3",
		Rules:      []string{"TS-REFERRER-CALL", "TS-REFDEL", "SH-SIBLING-REF", "TS-PAGE", "TS-FILTER-HDR", "PV-CACHEKEY", "TS-REFDESC", "LK-RMW", "TS-HASHBYTES#referrer", "TS-CONTENT-FIRST#referrer", "TS-STORED-THEN-INDEXED#referrer", "SH-SWAP-REMOVE", "TS-REFRESP-FLOW", "SH-GROUP-KEY", "TS-LIMIT-AGREE"},
		Technique:  techPath + "; sibling agreement; lock analysis for the read-modify-write",
		Decided:    "the referrers update is called on every push path with a subject, for both manifest kinds, before the 201, and before the index removal on delete — only when the manifest itself is removed; all builders of a referrers entry fill the same fields (config fallback for images); pages respect the limit; filtered answers announce the filter on every path; the response's read-modify-write runs under one mutex.",
		NotDecided: "exactness of the list contents after arbitrary histories; filter semantics; union of pages.",
	})
	registerProperty(&Property{ID: "C08", DesignRef: "DESIGN.md §4 C08, §3.3, §3.2",
		Rules:      []string{"TS-RANGE", "LK-CTA", "TS-CANCEL", "TS-REFUSE#upload", "PV-PATH#session", "FS-TEMP", "TS-CLEANUP", "TS-TIMER", "LK-GUARD-UPLOAD", "SH-RANGE-HDR", "TS-LOWWATER", "TS-PRUNE-TOTAL", "LK-CTA-UPLOAD", "TS-OPT-GUARD", "TS-WRITE-LIVE"},
		Technique:  techPath + "; lock analysis for check-then-act",
		Decided:    "every write into an existing session is dominated by the Content-Range check and the state-offset equality against Size(); check and write under one lock (fails today: known finding); a failed Verify cancels; every exit of both commit methods unregisters the session; a refused chunk reaches no write; session ids never reach a path; the session cleanup removes the temp file; cache entries are only dropped after their cleanup; the expiry timer of the session cache is re-armable after it was stopped (a stopped timer is never left in the nil-tested field, and the function the timer runs leaves the field re-armed, cleared or nil once it has gone through the entries).",
		NotDecided: "the count bound (asynchronous pruning, value-level); that status reports exactly the received bytes; expiry timing.",
	})
	registerProperty(&Property{ID: "C09", DesignRef: "DESIGN.md §4 C09, §3.5",
		Rules:      []string{"FS-INDEX", "FS-BLOB", "TS-CONTENT-FIRST", "SH-DIGESTER", "FS-INIT", "TS-SAVE#api", "TS-SAVE#ingest"},
		Technique:  "filesystem-effect analysis on go/ssa (who-may-write, ordering of effects on all paths)",
		Decided:    "the ordering/atomicity skeleton that a crash can expose: index.json only ever replaced by rename of a fully encoded same-directory temp file; blobs only appear by rename of the session's closed temp file after the digest comparison; content stored before the index entry that names it (handlers and ingest); layout file before index before exists flag. With POSIX rename atomicity (trusted) a blob file is absent or complete and index.json is the old or the new version.",
		NotDecided: "multi-step requests being all-or-nothing; GC deleting blobs before saving the index; stray temp files; power-failure durability (outside the property).",
	})
	registerProperty(&Property{ID: "C10", DesignRef: "DESIGN.md §4 C10, §3.5",
		Rules:      []string{"TS-SAVE", "FS-INIT", "FS-CLEANUP", "LK-COPY", "SH-WORKLIST#complete", "SH-SCAN-QUEUE", "SH-CONVERT-MARK#loader", "TS-HASHBYTES", "SH-SWEEP-GUARD#exact", "TS-LOADSTAMP", "TS-TOMBSTONE", "TB-RESERVED"},
		Technique:  "filesystem-effect and path analysis on go/ssa",
		Decided:    "every index mutation ends in a save whose result is returned; layout initialised (or known to exist) before the first write on every path; the empty-repository cleanup removes content before markers, stops at the first failure, knows every registered algorithm directory, reports success once the markers are gone and clears the exists flag on exactly that result; the initialiser repairs a layout file that fails the openers' content check; every index load runs the ingest whose child scan processes everything it queues.",
		NotDecided: "equality of answers across restart / across stores (value-level); child-descriptor rebuild.",
	})
	registerProperty(&Property{ID: "C11", DesignRef: "DESIGN.md §4 C11, §3.2",
		Rules:      []string{"LK-ATOMIC", "LK-RMW", "LK-REGISTRY", "LK-COPY", "TB-DEEP", "LK-GUARD-STORE", "TS-PAGE#snapshot", "TS-EXPIRE-ATOMIC", "TS-GC-FRESH"},
		Technique:  techLock,
		Decided:    "index load-modify-save is one uninterrupted critical section in both stores; the handler-level read-modify-write of a referrers response is covered by one mutex; handlers only see deep copies taken under the mutex; every shared field has a common lock; when the index a referrers update works on is handed in by the caller, the mutex is held from the caller's read to the call.",
		NotDecided: "linearizability of histories; multi-call handlers (push = insert + referrers update) being atomic as a whole.",
	})
	registerProperty(&Property{ID: "C12", DesignRef: "DESIGN.md §4 C12, §3.2",
		Rules:      []string{"LK-ORDER", "LK-SELF", "LK-PAIR", "LK-TOKEN", "LK-HOLD", "LK-FLAG", "SH-WORKLIST#term", "SH-SIBLING-STORE#tests-stop"},
		Technique:  techLock,
		Decided:    "the lock-order graph over mutexes, repository tokens, wait-group waits and handler activity is acyclic except for the recorded upload-mutex ⇄ session-cache cycle (known finding); no mutex is re-acquired while held (locked flags specialised per call site, families separated); every lock, token and hold is released on all exits of every entry point; waits for the collector are cancellable; locked=true is only passed with the mutex held; loops run under the token terminate.",
		NotDecided: "progress of blocking I/O; HTTP server shutdown internals; starvation / fairness.",
		Assumptions: []string{"(*http.Server).Shutdown waits for every running handler (modelled as a wait on the resource ‘handler activity’ that each handler root holds)",
			"function-typed cache fields through which the call graph finds callees are installed (non-nil); PrunePreFn/PrunePostFn are installed together"},
	})
	registerProperty(&Property{ID: "C13", DesignRef: "DESIGN.md §4 C13, §3.2",
		Rules:       []string{"LK-GUARD", "LK-GLOBALS", "LK-COPY", "TB-DEEP", "TS-POOL", "LK-RETAIN"},
		Technique:   "static lockset (Eraser/RacerD style) over the lock engine's per-access held sets, with publication analysis",
		Decided:     "every field of the server, store and cache structs that is written after publication is accessed under one common mutex in every calling context (constructor accesses on unpublished objects exempt); values leaving a critical section are deep copies (every reference field of the copied types re-allocated, skipped only on a nil test); a descriptor handed to a function that stores it into the shared index is not read after the repository mutex is released.",
		NotDecided:  "races on objects reachable only through pointers the lockset model does not track; library internals; ordering by channel / wait-group happens-before is not credited.",
		Assumptions: []string{"named exception: Server.store is written only by Close/Shutdown whose contract forbids concurrent use"},
	})
	registerProperty(&Property{ID: "C14", DesignRef: "DESIGN.md §4 C14, §3.5",
		Rules:      []string{"FS-WHO", "FS-RO", "TS-ROGUARD", "TB-ROUTE", "TS-REFUSE#ro", "TB-DEFAULTS#guard", "SH-SIBLING-STORE#read-only-guard"},
		Technique:  "filesystem-effect analysis (who-may-call, guarded reachability over the call graph) and guard dominance on go/ssa",
		Decided:    "mutating filesystem calls exist only in the directory family and only behind a read-only guard on every chain of callers; the memory family reaches none (store API resolved in-family); repository-level mutators in handlers sit behind the read-only refusal; each mutating route is gated by its API switch.",
		NotDecided: "‘while still serving its content’ for legacy layouts whose conversion needs a write (value-level).",
	})
	registerProperty(&Property{ID: "C15", DesignRef: "DESIGN.md §4 C15, §3.6, §3.4",
		Rules:      []string{"TB-ERRCODE", "TB-ERRPAIR", "TB-ERRWRAP", "SH-SIBLING-STORE#sentinels", "PV-BOUNDS", "PV-ROUTE", "PV-REPO", "TB-NILCONF", "TB-GRAMMAR", "TS-POOL", "LK-HOLD", "PV-PATH#digest", "TS-CONTENT-LENGTH", "PV-NILFIELD"},
		Technique:  "table agreement on typed constants; condition→code classification on go/ssa; difference-bound range proof",
		Decided:    "the error constructors equal the OCI code table; every error document follows a constant 4xx and the same condition maps to the same (registered) code at all sibling sites; request-derived integers are proven in range, constant indexes into decoded or cached lists are covered by a length test at the read or at every producer; only grammar-checked repository names are routed; dereferenced settings cannot be nil; digest parts reach a file name only after Validate (the accessors of an unvalidated digest panic on a value without a colon); a Content-Length computed from a byte slice announces the slice that is written.",
		NotDecided: "panic freedom in general (index arithmetic not derived from request integers); 5xx-vs-4xx classification of store errors.",
	})
	registerProperty(&Property{ID: "C16", DesignRef: "DESIGN.md §4 C16, §3.4",
		Rules:      []string{"PV-REPO", "PV-ROUTE", "PV-PATH", "TB-RESERVED", "PV-CACHEKEY#isolation", "SH-SIBLING-STORE#validates-digest", "TB-GRAMMAR#name", "TB-DEFAULTS#mode"},
		Technique:  "provenance (backward value tracing through parameters, closures and call sites) and path-composition analysis on go/ssa",
		Decided:    "every repository name reaching the store is grammar-checked (routed or checked at the site); every path handed to the OS is composed of root ⊕ checked name ⊕ constants ⊕ validated digest parts ⊕ the store's own temp / directory-entry names; session ids never reach a path; names the store creates inside a repository are reserved or outside the grammar.",
		NotDecided: "symlinks inside the root; case-insensitive filesystems; per-repository isolation of in-memory maps as a value property.",
	})
	registerProperty(&Property{ID: "C17", DesignRef: "DESIGN.md §4 C17, §3.7",
		Rules:      []string{"LK-SELF#ingest", "SH-IDEMPOTENT", "SH-WORKLIST#term", "SH-WORKLIST#complete", "SH-CONVERT-MARK", "TS-CONTENT-FIRST#ingest", "TS-STORED-THEN-INDEXED#ingest", "TS-SAVE#ingest", "SH-GROUP-KEY", "TS-REFDESC", "SH-SWAP-REMOVE", "TB-GRAMMAR#anchor", "SH-CONVERT-ATOMIC", "SH-CONVERT-MERGE"},
		Technique:  "lock analysis on the conversion's call chain; shape and path rules on go/ssa and the typed AST",
		Decided:    "the conversion cannot block on a mutex it already holds; re-creating an already stored response is tolerated (repeatability after interruption); the conversion and child-scan loops terminate; the converted marker is set on every normal exit and the modified result leads to a save; a regenerated response is stored before it is indexed; no failure return is reachable from the removal of a fallback tag; every referrers response the conversion adds to the index is entered into the table the regeneration consults (an adopted response is extended, not replaced).",
		NotDecided: "losslessness; grouping by actual subject; equality of the results of repeated conversions (value-level).",
	})
	registerProperty(&Property{ID: "C19", DesignRef: "DESIGN.md §4 C19, §3.6",
		Rules:      []string{"TB-FLAGS", "TB-DEFAULTS", "TB-NILCONF", "TB-ROUTE", "LK-SHUTDOWN", "LK-GUARD-SERVER", "TS-SHUTDOWN", "TS-CONF-LIST", "FS-RO", "TS-REFERRER-CALL#setting", "SH-CONVERT-MARK#setting", "PV-CLIENT-KEY", "TS-RATE-COUNTED", "TS-WARN-ALL", "TS-SIGNAL-CTX"},
		Technique:  "table agreement on the typed AST (flags, option fields, configuration paths, defaults); guard dominance in the router; lock analysis of the shutdown path",
		Decided:    "flag → option → configuration path wiring equals the documented table, flag defaults equal SetDefaults defaults, defaulting never overwrites a set value; every mutating route is gated by its switch; the rate-limit entry is updated under one mutex; the shutdown path is free of lock cycles and closes the store on every path on which the HTTP shutdown succeeded; the client address the rate limiter keys by is never cut at the first colon of RemoteAddr (IPv6 clients keep distinct counters); the request that creates a rate-limit entry or opens a new accounting window is counted in it; the configured warnings are added before anything in the router can answer; the context the command hands to Shutdown is not one the termination signal cancels.",
		NotDecided: "per-second accounting; signal handling outcome; every-combination behaviour as values.",
	})
	registerProperty(&Property{ID: "C20", DesignRef: "DESIGN.md §4 C20, §3.3",
		Rules:      []string{"TS-CLEANUP", "TS-LRU-TOUCH", "TS-PRUNE-TRIGGER", "TS-LOWWATER", "TS-EXPIRE-ATOMIC", "TS-AGE-CUTOFF", "LK-GUARD-CACHE", "LK-PAIR-CACHE"},
		Technique:  techPath + "; lockset on the cache's fields",
		Decided:    "at each of the four removal sites an entry is removed only after its cleanup ran with that key and returned nil (or no cleanup is configured / the entry is absent); entries, per-entry time and timer are only touched under the cache mutex; the cache mutex is released on every exit; every lookup of a found entry refreshes its last-use time and every insertion initialises it (the structural half of ‘least recently used’).",
		NotDecided: "LRU order, expiry timing, prune-back-to-limit (value-level); what happens to the old value when Set overwrites a key.",
	})
	registerProperty(&Property{ID: "C18", DesignRef: "DESIGN.md §4 C18",
		Rules:      []string{"SH-INDEX-SCAN", "SH-SWAP-REMOVE#index", "TS-TAGKEEP", "TS-GETDESC", "TB-DEEP", "TS-INDEX-SCOPE", "TS-INDEX-REUSE"},
		Technique:  "loop-shape rules on go/ssa (range coverage of every scan of the entry lists, re-examination after swap-removal), path-sensitive typestate on the index's editing methods, field-exhaustive deep-copy check on the typed AST",
		Decided:    "the structural conditions without which the index cannot keep its invariants for every sequence: every loop of the index type that scans an entry list examines the whole list (no first/last entry exempt from tag uniqueness, single referrers response, removal of every reference, lookup); a loop that removes by moving the last entry into the slot examines that slot again; an entry is dropped or overwritten only after its own annotations were looked at, or on the ‘no tag requested’ edge of a removal by digest, which removes every entry of the digest; lookup by tag returns the annotated entry and lookup by digest searches both the top-level and the child list and returns a bare descriptor; Copy re-allocates every reference field of index and descriptor; a removal that names a digest deletes entries of that digest only (or, without a digest, by tag or subject); children are recorded without consulting the top-level list; an insert with a tag reuses a same-digest entry whose annotations are empty but not nil (branch conditions evaluated under that scenario).",
		NotDecided: "the contents of the index as a value after a given sequence (which entry wins a replacement in scenarios other than the evaluated one, order, what AddDesc does to an entry that is compatible in one annotation and not the other); that GetByAnnotation's answer is the last insertion.",
	})
}
