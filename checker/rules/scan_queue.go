package rules

import (
	"fmt"
	"go/token"
	"go/types"
	"sort"

	"golang.org/x/tools/go/ssa"

	"olacheck/an"
	"olacheck/core"
)

// SH-SCAN-QUEUE: the children of nested indexes are not written to index.json; every load of the file
// rebuilds them by scanning each index it finds (top-level entries first, then the children of scanned
// indexes). Which entries are indexes is decided by one classification predicate (types.MediaTypeIndex —
// the OCI index *and* the Docker manifest list, as the push handler, the collector and the read handlers
// see it). The scan must queue every entry that predicate accepts: a narrower test (one media type, an
// additional condition on the entry) leaves the children of the other kind unrecorded after a restart —
// acknowledged manifests answer 404 by digest although their blobs are stored and retained.
func init() {
	register(&Rule{ID: "SH-SCAN-QUEUE", Floor: 1,
		Doc: "in the index ingest every descriptor the media-type classification (types.MediaTypeIndex) accepts as an index is queued for the child scan: on the way from the entry loop to the append onto the scan worklist the only tests of the entry are the classification predicate itself (or comparisons every index media type passes) and the ‘digest already seen’ test — a narrower guard (one media type only, or a condition on the entry's annotations) leaves the children of some nested indexes unrecorded on every load of index.json",
		Run: func(c *core.Ctx) {
			r := requireRoles(c)
			if r == nil {
				return
			}
			idxSet, _ := mediaTypeSet(c, "MediaTypeIndex")
			if len(idxSet) == 0 {
				c.Unresolved("types.MediaTypeIndex", "index media-type predicate not found")
				return
			}
			var idxTypes []string
			for s := range idxSet {
				idxTypes = append(idxTypes, s)
			}
			sort.Strings(idxTypes)
			n := 0
			for _, fn := range c.P.Funcs("internal/store") {
				// the ingest: calls (*types.Index).AddChildren inside a loop that runs while a descriptor list is non-empty
				var addCh *ssa.Call
				an.Calls(fn, func(call ssa.CallInstruction) {
					if cc, ok := call.(*ssa.Call); ok && an.IsMethod(call, r.TypesPath, "Index", "AddChildren") {
						addCh = cc
					}
				})
				if addCh == nil {
					continue
				}
				// worklist: the value whose emptiness the enclosing loop tests
				var w ssa.Value
				for h := loopHeader(addCh.Block()); h != nil; {
					if ifi := an.BlockIf(h); ifi != nil {
						if x, _, ok := an.LenZeroTest(ifi); ok {
							w = an.Strip(x)
							break
						}
						// the worklist walked by position while it grows: `for next := 0; next < len(W); next++`
						if a, b2, _, ok := an.CmpTest(ifi); ok {
							// (the length is read again in the header on every iteration; a range loop reads it once, before the loop)
							inHeader := func(v ssa.Value) bool {
								in, ok := an.Strip(v).(ssa.Instruction)
								return ok && in.Block() == h
							}
							if l := lenOf(b2); l != nil && inHeader(b2) && isDescSliceType(l.Type(), r.TypesPath) {
								w = an.Strip(l)
								break
							}
							if l := lenOf(a); l != nil && inHeader(a) && isDescSliceType(l.Type(), r.TypesPath) {
								w = an.Strip(l)
								break
							}
						}
					}
					if idom := h.Idom(); idom != nil {
						h = loopHeader(idom)
					} else {
						h = nil
					}
				}
				if w == nil {
					c.Undecided("queue:"+kn(c.P.FuncName(fn)), addCh.Pos(), "the loop around AddChildren does not test a worklist for emptiness")
					continue
				}
				// values the worklist is built from, backwards through φ, reslicing and append
				chain := map[ssa.Value]bool{}
				var appends []*ssa.Call
				var walk func(v ssa.Value)
				walk = func(v ssa.Value) {
					v = an.Strip(v)
					if chain[v] {
						return
					}
					chain[v] = true
					switch x := v.(type) {
					case *ssa.Phi:
						for _, e := range x.Edges {
							walk(e)
						}
					case *ssa.Slice:
						walk(x.X)
					case *ssa.UnOp:
						if x.Op == token.MUL {
							if al, ok := x.X.(*ssa.Alloc); ok {
								if sts, unknown := an.CellStores(al); !unknown {
									for _, st := range sts {
										walk(st.Val)
									}
								}
							}
						}
					case *ssa.Call:
						if b, ok := x.Call.Value.(*ssa.Builtin); ok && b.Name() == "append" && len(x.Call.Args) == 2 {
							appends = append(appends, x)
							walk(x.Call.Args[0])
						}
					}
				}
				walk(w)
				sort.Slice(appends, func(i, j int) bool { return appends[i].Pos() < appends[j].Pos() })
				k := 0
				for _, ap := range appends {
					elems := appendedElems(ap)
					if len(elems) != 1 {
						continue
					}
					elem := elems[0]
					root := elemRoot(elem)
					n++
					k++
					key := fmt.Sprintf("queue:%s#%d", kn(c.P.FuncName(fn)), k)
					h := loopHeader(ap.Block())
					why := ""
					for _, g := range an.GuardingEdges(ap.Block()) {
						ifi := g.If()
						if ifi == nil || (h != nil && !h.Dominates(g.From)) || (h != nil && g.From == h) {
							continue // decided before the entry was picked, or the loop's own continuation test
						}
						if an.Decomposes(g) {
							continue // its atoms are judged one by one
						}
						// the classification predicate on its true edge
						if call, trueSucc, ok := an.BoolCallTest(ifi); ok {
							if an.IsFunc(call, r.TypesPath, "MediaTypeIndex") {
								if g.Succ != trueSucc {
									why = "queued on the ‘not an index’ edge of the classification"
								}
								continue
							}
						}
						if !dependsOnElem(ifi.Cond, root, 0) {
							continue
						}
						// comparison of the entry's media type with a constant: every index media type must pass it
						if x, y, op, ok := an.CmpTest(ifi); ok && (op == token.EQL || op == token.NEQ) {
							cs, isC := an.ConstString(y)
							other := x
							if !isC {
								cs, isC = an.ConstString(x)
								other = y
							}
							if isC && readsField(other, "MediaType") {
								for _, s := range idxTypes {
									holds := (s == cs) == (op == token.EQL) // truth on successor 0
									taken := holds == (g.Succ == 0)
									if !taken {
										why = fmt.Sprintf("entries of media type %s never reach the scan: the guard compares the media type with %q only", s, cs)
									}
								}
								continue
							}
						}
						// ‘already seen’: a test that looks at nothing of the entry but its digest (a map lookup, a set's method)
						if lk, ok := lookupOf(ifi.Cond); ok && readsField(lk.Index, "Digest") {
							continue
						}
						if fs := elemFieldsRead(ifi.Cond, root, 0, map[ssa.Value]bool{}); len(fs) == 1 && fs["Digest"] {
							continue
						}
						if why == "" {
							why = fmt.Sprintf("the entry is queued only under a further condition on the entry itself (%s)", c.P.Pos(ifi.Cond.Pos()))
						}
					}
					c.Check(why == "", key, ap.Pos(), "every entry the index classification accepts is queued for the child scan at %s: %v%s", c.P.Pos(ap.Pos()), why == "", map[bool]string{true: "", false: " (" + why + ") — after the next load of index.json the children of such an index are unknown: manifests acknowledged by digest answer 404 although their blobs are stored"}[why == ""])
				}
			}
			if n == 0 {
				c.Unresolved("scan-queue", "no append to the child-scan worklist found in the store's ingest")
			}
		}})
}

// appendedElems: the values stored into the variadic array of an append call.
func appendedElems(ap *ssa.Call) []ssa.Value {
	sl, ok := an.Strip(ap.Call.Args[1]).(*ssa.Slice)
	if !ok {
		return nil
	}
	al, ok := sl.X.(*ssa.Alloc)
	if !ok {
		return nil
	}
	var out []ssa.Value
	for _, ref := range *al.Referrers() {
		ia, ok := ref.(*ssa.IndexAddr)
		if !ok {
			continue
		}
		for _, r2 := range *ia.Referrers() {
			if st, ok := r2.(*ssa.Store); ok && st.Addr == ssa.Value(ia) {
				out = append(out, st.Val)
			}
		}
	}
	return out
}

// elemRoot: the place a struct value was read from — through loads, field selections and single-assignment copies
// (`desc := desc`) down to the element address, allocation or other producer.
func elemRoot(v ssa.Value) ssa.Value {
	for i := 0; i < 12; i++ {
		v = an.Strip(v)
		switch x := v.(type) {
		case *ssa.UnOp:
			if x.Op != token.MUL {
				return v
			}
			v = x.X
		case *ssa.FieldAddr:
			v = x.X
		case *ssa.Field:
			v = x.X
		case *ssa.Alloc:
			if sv := an.SingleStore(x); sv != nil {
				v = sv
				continue
			}
			return v
		default:
			return v
		}
	}
	return v
}

// dependsOnElem: the value is computed from a part of the element rooted at root.
func dependsOnElem(v ssa.Value, root ssa.Value, depth int) bool {
	if depth > 8 || v == nil {
		return false
	}
	v = an.Strip(v)
	switch v.(type) {
	case *ssa.FieldAddr, *ssa.Field:
		if elemRoot(v) == root {
			return true
		}
	case *ssa.UnOp:
		if elemRoot(v) == root {
			return true
		}
	}
	in, ok := v.(ssa.Instruction)
	if !ok {
		return false
	}
	if _, isPhi := v.(*ssa.Phi); isPhi && depth > 3 {
		return false
	}
	for _, op := range in.Operands(nil) {
		if *op != nil && dependsOnElem(*op, root, depth+1) {
			return true
		}
	}
	return false
}

// readsField: v is (a conversion of) a load of the named field of some struct.
func readsField(v ssa.Value, name string) bool {
	for i := 0; i < 6; i++ {
		v = an.Strip(v)
		switch x := v.(type) {
		case *ssa.UnOp:
			if x.Op != token.MUL {
				return false
			}
			if fa, ok := x.X.(*ssa.FieldAddr); ok {
				return fieldNameOf(fa.X, fa.Field) == name
			}
			return false
		case *ssa.Field:
			return fieldNameOf(x.X, x.Field) == name
		case *ssa.Convert:
			v = x.X
		case *ssa.ChangeType:
			v = x.X
		default:
			return false
		}
	}
	return false
}

func fieldNameOf(base ssa.Value, idx int) string {
	if st, ok := an.Deref(base.Type()).Underlying().(*types.Struct); ok && idx < st.NumFields() {
		return st.Field(idx).Name()
	}
	return ""
}

// lookupOf: the condition is (the negation of) a map lookup.
func lookupOf(cond ssa.Value) (*ssa.Lookup, bool) {
	base, _ := an.CondBase(cond)
	lk, ok := an.Strip(base).(*ssa.Lookup)
	return lk, ok
}

func isDescSliceType(t types.Type, typesPath string) bool {
	sl, ok := t.Underlying().(*types.Slice)
	return ok && isNamed(sl.Elem(), typesPath, "Descriptor")
}

// elemFieldsRead: the first-level fields of the element rooted at root that the value is computed from
// ("*" when the element is used whole).
func elemFieldsRead(v ssa.Value, root ssa.Value, depth int, seen map[ssa.Value]bool) map[string]bool {
	out := map[string]bool{}
	if v == nil || depth > 8 || seen[v] {
		return out
	}
	seen[v] = true
	v = an.Strip(v)
	// the field chain from the element down to this value
	var chain []string
	cur := v
	for i := 0; i < 12; i++ {
		switch x := cur.(type) {
		case *ssa.UnOp:
			if x.Op == token.MUL {
				cur = x.X
				continue
			}
		case *ssa.FieldAddr:
			chain = append(chain, fieldNameOf(x.X, x.Field))
			cur = x.X
			continue
		case *ssa.Field:
			chain = append(chain, fieldNameOf(x.X, x.Field))
			cur = x.X
			continue
		case *ssa.Alloc:
			if sv := an.SingleStore(x); sv != nil {
				cur = an.Strip(sv)
				continue
			}
		}
		break
	}
	if elemRoot(v) == root {
		if len(chain) > 0 {
			out[chain[len(chain)-1]] = true
		} else {
			out["*"] = true
		}
		return out
	}
	in, ok := v.(ssa.Instruction)
	if !ok {
		return out
	}
	for _, op := range in.Operands(nil) {
		if *op == nil {
			continue
		}
		for k := range elemFieldsRead(*op, root, depth+1, seen) {
			out[k] = true
		}
	}
	return out
}
