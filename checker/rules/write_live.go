package rules

import (
	"fmt"
	"strings"

	"golang.org/x/tools/go/ssa"

	"olacheck/an"
	"olacheck/core"
)

// TS-WRITE-LIVE: ‘after cancellation or expiry, further use of the session is refused’. A handler holds the upload
// handle for the whole request; the session may be cancelled, expired or evicted from the session cache in the
// meantime. The Write method of each store's upload type therefore looks the session up in the cache again — which
// also refreshes its last-use time — and hands the bytes to the underlying writer only on the ‘found’ edge. The rule
// requires, for the upload type of every store family, that each call of an underlying Write in that method lies
// behind the nil edge of the error of a lookup in the session cache. Both stores do so today; the rule is also the
// sibling agreement for this clause.
func init() {
	register(&Rule{ID: "TS-WRITE-LIVE", Floor: 2,
		Doc: "in the Write method of every store family's upload type, each call of the underlying writer's Write lies behind the nil edge of the error of a lookup (Get) in the session cache: a handle whose session was cancelled, expired or evicted while a request was streaming accepts no more bytes (and each accepted write refreshes the session's last-use time, so a live stream does not expire)",
		Run: func(c *core.Ctx) {
			r := requireRoles(c)
			if r == nil {
				return
			}
			n := 0
			for _, fam := range r.Families {
				fn := methodOfNamed(c, fam.Upload, "Write")
				key := "write:" + fam.Upload.Obj().Name()
				if fn == nil || len(fn.Blocks) == 0 {
					c.Unresolved(key, "Write of %s not found", fam.Upload.Obj().Name())
					continue
				}
				var isLookup, isDirectLookup func(v ssa.Value) bool
				// a step of the store that answers nil only when the lookup found the session (`sessionTouch(cache, id)`,
				// `dru.sessionCheck()`): every nil return behind the found-edge of a lookup, every other return not nil
				viaStep := func(v ssa.Value) bool {
					call, _ := an.CallOf(an.Origin(v))
					if call == nil {
						if ex, ok := an.Strip(v).(*ssa.Extract); ok {
							call, _ = ex.Tuple.(*ssa.Call)
						} else if cc, ok := an.Strip(v).(*ssa.Call); ok {
							call = cc
						}
					}
					if call == nil {
						return false
					}
					h := call.Call.StaticCallee()
					if h == nil || len(h.Blocks) == 0 || len(h.Blocks) > 16 || core.FuncPkgPath(h) != r.StorePath || h.Signature.Results().Len() == 0 {
						return false
					}
					okAll, nNil := true, 0
					an.Instrs(h, func(in ssa.Instruction) {
						ret, isRet := in.(*ssa.Return)
						if !isRet || len(ret.Results) == 0 {
							return
						}
						res := ret.Results[len(ret.Results)-1]
						behindFound, behindNonNil := false, false
						for _, g := range an.GuardingEdges(ret.Block()) {
							if x, nilSucc, isNil := an.NilTest(g.If()); isNil {
								if g.Succ == nilSucc && isLookup(x) {
									behindFound = true
								}
								if g.Succ != nilSucc && (x == res || an.Origin(x) == an.Origin(res)) {
									behindNonNil = true
								}
							}
						}
						switch {
						case an.IsNilConst(res):
							nNil++
							if !behindFound {
								okAll = false
							}
						case behindNonNil, isLookup(res):
						default:
							if cc, _ := an.CallOf(an.Origin(res)); cc != nil && (an.IsFunc(cc, "fmt", "Errorf") || an.IsFunc(cc, "errors", "New")) {
								return
							}
							if !behindFound {
								okAll = false
							}
						}
					})
					return okAll && nNil > 0
				}
				isLookup = func(v ssa.Value) bool {
					if isDirectLookup(v) {
						return true
					}
					return viaStep(v)
				}
				isDirectLookup = func(v ssa.Value) bool {
					call, _ := an.CallOf(an.Origin(v))
					if call == nil {
						if ex, ok := an.Strip(v).(*ssa.Extract); ok {
							call, _ = ex.Tuple.(*ssa.Call)
						}
					}
					if call == nil {
						return false
					}
					h := call.Call.StaticCallee()
					if h != nil && h.Origin() != nil {
						h = h.Origin()
					}
					return h != nil && h.Name() == "Get" && strings.HasSuffix(core.FuncPkgPath(h), "internal/cache")
				}
				k := 0
				an.Calls(fn, func(call ssa.CallInstruction) {
					cc := call.Common()
					name := ""
					if cc.IsInvoke() {
						name = cc.Method.Name()
					} else if h := cc.StaticCallee(); h != nil && h.Signature.Recv() != nil {
						name = h.Name()
					}
					if name != "Write" {
						return
					}
					if _, isDefer := call.(*ssa.Defer); isDefer {
						return
					}
					k++
					n++
					ok := false
					for _, g := range an.GuardingEdges(call.Block()) {
						if x, nilSucc, isNil := an.NilTest(g.If()); isNil && g.Succ == nilSucc && isLookup(x) {
							ok = true
						}
					}
					c.Check(ok, fmt.Sprintf("%s#%d", key, k), call.Pos(), "the write to the underlying writer at %s happens only after the session was found in the session cache again: %v — otherwise a request that is still streaming keeps writing into a session that was cancelled, expired or evicted meanwhile, and its final PUT publishes that content as a blob", c.P.Pos(call.Pos()), ok)
				})
				if k == 0 {
					c.Unresolved(key, "%s does not call an underlying Write", c.P.FuncName(fn))
				}
			}
			if n == 0 {
				c.Unresolved("upload-types", "no upload type with a Write method found")
			}
		}})
}
