package rules

import (
	"fmt"

	"golang.org/x/tools/go/ssa"

	"olacheck/an"
	"olacheck/core"
)

// TS-REFRESP-FLOW: the read-modify-write of a subject's referrers response handles three values of the same types —
// the repository's index (read with IndexGet), the response (an index of its own, decoded from a blob or started
// empty) and the descriptors that go with them (the response's old entry in the index, the referrer being added or
// removed).  Every call is in place whichever of them is handed to it; what the rule decides is that each step is handed
// the right one.
func init() {
	register(&Rule{ID: "TS-REFRESP-FLOW", Floor: 2,
		Doc: "in the functions that update a subject's referrers response (IndexGet, a lookup by the subject annotation, AddDesc/RmDesc on the response, IndexInsert of the new response): the children handed to the insert (IndexWithChildren) are the manifests of the response that was modified, never those of the repository's index — that would move every untagged entry of the repository out of the index —, and the descriptor added to or removed from the response is the one the function was given, never the response's own entry looked up in the index",
		Run: func(c *core.Ctx) {
			r := requireRoles(c)
			if r == nil {
				return
			}
			for _, fn := range c.P.Funcs("") {
				var gets, inserts, mods []*ssa.Call
				an.Calls(fn, func(call ssa.CallInstruction) {
					cc, ok := call.(*ssa.Call)
					if !ok {
						return
					}
					switch {
					case r.IsAPI(cc, "Repo", "IndexGet"):
						gets = append(gets, cc)
					case r.IsAPI(cc, "Repo", "IndexInsert"):
						inserts = append(inserts, cc)
					case an.IsMethod(cc, r.TypesPath, "Index", "AddDesc") || an.IsMethod(cc, r.TypesPath, "Index", "RmDesc"):
						mods = append(mods, cc)
					}
				})
				if len(gets) == 0 || len(mods) == 0 {
					continue
				}
				name := kn(c.P.FuncName(fn))
				// where a struct value lives: the local it is kept in
				cell := func(v ssa.Value) ssa.Value {
					root, _ := accessPath(an.Strip(v))
					if root == nil {
						return nil
					}
					if al, ok := root.(*ssa.Alloc); ok {
						return al
					}
					return an.Origin(root)
				}
				fromIndexGet := func(v ssa.Value) bool {
					if v == nil {
						return false
					}
					cands := []ssa.Value{v, an.Origin(v)}
					if al, ok := v.(*ssa.Alloc); ok && al.Referrers() != nil {
						// the local the index was put into (its address may have gone to pointer-receiver methods since)
						for _, ref := range *al.Referrers() {
							if st, isSt := ref.(*ssa.Store); isSt && st.Addr == ssa.Value(al) {
								cands = append(cands, st.Val, an.Origin(st.Val))
							}
						}
					}
					for _, x := range cands {
						if gc, idx := an.CallOf(x); gc != nil && idx <= 0 {
							for _, g := range gets {
								if gc == g {
									return true
								}
							}
						}
					}
					return false
				}
				var modCells []ssa.Value
				for _, m := range mods {
					recv, _ := an.CallArgs(m)
					if cl := cell(recv); cl != nil {
						modCells = append(modCells, cl)
					}
				}
				isMod := func(cl ssa.Value) bool {
					for _, mc := range modCells {
						if mc == cl {
							return true
						}
					}
					return false
				}
				// (1) the children of the insert: in the function itself, or in a saving step the modified response is handed to
				// (referrerStore(repo, subject, refResp)), whose parameter then stands for the argument
				nIns := 0
				judge := func(in *ssa.Function, classify func(cl ssa.Value) (isResp, isIndex bool)) {
					an.Calls(in, func(call ssa.CallInstruction) {
						ins, ok := call.(*ssa.Call)
						if !ok || !r.IsAPI(ins, "Repo", "IndexInsert") {
							return
						}
						_, args := an.CallArgs(ins)
						if len(args) < 2 {
							return
						}
						opts, ok := variadicElems(args[len(args)-1])
						if !ok {
							return
						}
						for _, o := range opts {
							oc, _ := an.CallOf(an.Origin(o))
							if oc == nil || !an.IsFunc(oc, r.TypesPath, "IndexWithChildren") || len(oc.Call.Args) != 1 {
								continue
							}
							_, pth := accessPath(an.Strip(oc.Call.Args[0]))
							cl := cell(oc.Call.Args[0])
							if cl == nil || len(pth) == 0 || pth[len(pth)-1] != "Manifests" {
								continue
							}
							nIns++
							key := fmt.Sprintf("children:%s#%d", name, nIns)
							isResp, isIndex := classify(cl)
							switch {
							case isIndex:
								c.Fail(key, oc.Pos(), "the insert of the new referrers response at %s is given the manifests of the repository's index (read with IndexGet) as its children: every untagged entry of the repository is moved out of the index and is neither listed, saved nor a root of the collector any more — the children are the entries of the response itself", c.P.Pos(ins.Pos()))
							case isResp:
								c.Pass(key, oc.Pos(), "the children handed to the insert are the manifests of the response that was modified")
							}
						}
					})
				}
				judge(fn, func(cl ssa.Value) (bool, bool) { return isMod(cl), fromIndexGet(cl) })
				an.Calls(fn, func(call ssa.CallInstruction) {
					g := call.Common().StaticCallee()
					if g == nil || g == fn || call.Common().IsInvoke() || len(g.Blocks) == 0 || core.FuncPkgPath(g) != core.FuncPkgPath(fn) {
						return
					}
					respParam, indexParam := map[ssa.Value]bool{}, map[ssa.Value]bool{}
					for k, a := range call.Common().Args {
						if k >= len(g.Params) {
							break
						}
						cl := cell(a)
						if cl == nil {
							continue
						}
						if isMod(cl) {
							respParam[g.Params[k]] = true
						} else if fromIndexGet(cl) {
							indexParam[g.Params[k]] = true
						}
					}
					if len(respParam) == 0 && len(indexParam) == 0 {
						return
					}
					judge(g, func(cl ssa.Value) (bool, bool) { return respParam[cl], indexParam[cl] })
				})
				// (2) what is added to / removed from the response
				for i, m := range mods {
					_, args := an.CallArgs(m)
					if len(args) == 0 {
						continue
					}
					key := fmt.Sprintf("entry:%s#%d", name, i+1)
					root, _ := accessPath(an.Strip(args[0]))
					if root == nil {
						continue
					}
					var src ssa.Value = an.Origin(root)
					if al, ok := root.(*ssa.Alloc); ok {
						if whole := an.SingleStore(al); whole != nil {
							src = an.Origin(whole)
						}
					}
					if lc, idx := an.CallOf(src); lc != nil && idx <= 0 && an.IsMethod(lc, r.TypesPath, "Index", "GetByAnnotation") {
						c.Fail(key, m.Pos(), "the descriptor handed to %s at %s is the response's own entry looked up in the index, not the referrer the function was given: the response is left as it was (or loses nothing) and the listing is no longer exact", m.Call.StaticCallee().Name(), c.P.Pos(m.Pos()))
						continue
					}
					if _, isParam := src.(*ssa.Parameter); isParam {
						c.Pass(key, m.Pos(), "the response is modified with the descriptor the function was given")
					}
				}
			}
		}})
}
