package rules

import (
	"fmt"
	"go/token"
	"go/types"
	"sort"
	"strings"

	"golang.org/x/tools/go/ssa"

	"olacheck/an"
	"olacheck/core"
)

func init() {
	register(&Rule{ID: "PV-ROUTE", Floor: 2,
		Doc: "the router's matcher returns a match containing a repository name only on the true edge of the repository grammar (rePath.MatchString) for that name — the empty name, which a cleaned path cannot produce, is the one named exception — and the router passes only elements of a successful match to the handlers",
		Run: runPVRoute})
	register(&Rule{ID: "PV-REPO", Floor: 10,
		Doc: "the repository name of every Store.RepoGet call in the server package, traced back through parameters, closure variables and all call sites, is an element of a successful matcher result or is dominated by the true edge of the repository grammar check of that same value",
		Run: runPVRepo})
	register(&Rule{ID: "PV-PATH", Floor: 20,
		Doc: "every path handed to a filesystem call in the store package is composed only of: constants, the repository path field (assigned only as Join(root, name) with name the RepoGet parameter), the configured root, Algorithm().String()/Encoded() of a digest validated on a dominating edge or computed by a digester (PV-DIGEST), names returned by ReadDir / File.Name of the store's own files, and fields assigned only from such values; nothing derived from a session id reaches a path (PV-SESSION)",
		Run: runPVPath})
}

// matcherFunc: the function of the server package the router calls that returns ([]string, bool).
func matcherFunc(c *core.Ctx) *ssa.Function {
	r := getRoles(c)
	var m *ssa.Function
	an.Calls(r.Dispatch, func(call ssa.CallInstruction) {
		sc := call.Common().StaticCallee()
		if sc == nil || core.FuncPkgPath(sc) != c.P.Module {
			return
		}
		res := sc.Signature.Results()
		if res.Len() == 2 {
			if _, isSl := res.At(0).Type().Underlying().(*types.Slice); isSl {
				if b, ok := res.At(1).Type().Underlying().(*types.Basic); ok && b.Kind() == types.Bool {
					m = sc
				}
			}
		}
	})
	return m
}

func isGrammarCheck(c *core.Ctx, call *ssa.Call) bool {
	return an.IsMethod(call, "regexp", "Regexp", "MatchString") && an.IsGlobalLoad(call.Call.Args[0], c.P.Module, "rePath")
}

// grammarGuarded: block b is dominated by the true edge of rePath.MatchString(v).
func grammarGuarded(c *core.Ctx, v ssa.Value, b *ssa.BasicBlock) bool {
	o := an.Origin(v)
	for _, g := range an.GuardingEdges(b) {
		call, trueSucc, ok := an.BoolCallTest(g.If())
		if !ok || g.Succ != trueSucc || !isGrammarCheck(c, call) {
			continue
		}
		if an.Origin(call.Call.Args[1]) == o {
			return true
		}
		// the same field of the same (never reassigned) record or parameter, read twice
		r1, p1 := deepAccessPath(an.Strip(call.Call.Args[1]))
		r2, p2 := deepAccessPath(an.Strip(v))
		if r1 != nil && r1 == r2 && len(p1) > 0 && strings.Join(p1, ".") == strings.Join(p2, ".") {
			if _, isParam := r1.(*ssa.Parameter); isParam {
				return true
			}
		}
	}
	return false
}

func runPVRoute(c *core.Ctx) {
	r := requireRoles(c)
	if r == nil {
		return
	}
	m := matcherFunc(c)
	if m == nil {
		c.Unresolved("matcher", "the router calls no matcher returning ([]string, bool)")
		return
	}
	// the repository component: the value appended to the result that is built by strings.Join
	bad := ""
	usedEmpty := false
	nTrue := 0
	type st struct{ ok bool }
	an.Paths(an.PathSpec[st]{Fn: m, Init: st{},
		Instr: func(s st, in ssa.Instruction) []st {
			if ret, isRet := in.(*ssa.Return); isRet && len(ret.Results) == 2 {
				if k, isC := ret.Results[1].(*ssa.Const); isC && k.Value != nil && k.Value.String() == "true" {
					nTrue++
					if !s.ok && bad == "" {
						bad = fmt.Sprintf("`return …, true` at %s is reachable without the true edge of the repository grammar check", c.P.Pos(ret.Pos()))
					}
				}
			}
			return []st{s}
		},
		Edge: func(s st, from *ssa.BasicBlock, succ int) (st, bool) {
			ifi := an.BlockIf(from)
			if ifi == nil {
				return s, true
			}
			if call, trueSucc, ok := an.BoolCallTest(ifi); ok && isGrammarCheck(c, call) && succ == trueSucc {
				if jc, _ := an.CallOf(an.Origin(call.Call.Args[1])); jc != nil && an.IsFunc(jc, "strings", "Join") {
					s.ok = true
				} else if _, isPhi := an.Origin(call.Call.Args[1]).(*ssa.Phi); isPhi {
					s.ok = true
				}
			}
			if x, y, op, ok := an.CmpTest(ifi); ok {
				if sv, isS := an.ConstString(y); isS && sv == "" {
					if _, isPhi := an.Origin(x).(*ssa.Phi); isPhi {
						if (op == token.EQL && succ == 0) || (op == token.NEQ && succ == 1) {
							s.ok = true
							usedEmpty = true
						}
					}
				}
			}
			return s, true
		}})
	key := "matcher:" + kn(c.P.FuncName(m))
	if bad != "" || nTrue == 0 {
		if nTrue == 0 {
			bad = "the matcher has no `return …, true`"
		}
		c.Fail(key, m.Pos(), "%s: names outside the OCI repository grammar (upper case, empty or dot components) would be routed to the store", bad)
	} else {
		c.Pass(key, m.Pos(), "every successful match passed the grammar check")
		if usedEmpty {
			c.Exception(key+":empty-name", m.Pos(), "the grammar check is skipped for the empty name; a routed name is never empty (the length guard leaves at least one element and the elements of a cleaned path are non-empty) — stated as an assumption, not proven")
		}
	}
	// router: handler arguments are elements of a successful match
	n, okAll := 0, true
	msg := ""
	an.Calls(r.Dispatch, func(call ssa.CallInstruction) {
		sc := call.Common().StaticCallee()
		if sc == nil || sc.Signature.Results().Len() != 1 || !isNamed(sc.Signature.Results().At(0).Type(), "net/http", "HandlerFunc") {
			return
		}
		_, args := an.CallArgs(call)
		for _, a := range args {
			if b, ok := a.Type().Underlying().(*types.Basic); !ok || b.Kind() != types.String {
				continue
			}
			n++
			if !matchElement(c, m, a, call.Block()) {
				okAll = false
				msg = fmt.Sprintf("argument of %s at %s is not an element of a successful match", c.P.FuncName(sc), c.P.Pos(call.Pos()))
			}
		}
	})
	c.Check(okAll && n > 0, "router-args", r.Router.Pos(), "%d handler arguments are elements of a successful match%s", n, map[bool]string{true: "", false: ": " + msg}[okAll])
}

// matchElement: v is matches[i] of a call of the matcher whose ok result is true on an edge dominating b.
func matchElement(c *core.Ctx, m *ssa.Function, v ssa.Value, b *ssa.BasicBlock) bool {
	u, ok := an.Origin(v).(*ssa.UnOp)
	if !ok || u.Op != token.MUL {
		return false
	}
	ia, ok := u.X.(*ssa.IndexAddr)
	if !ok {
		return false
	}
	mc, idx := an.CallOf(an.Origin(ia.X))
	if mc == nil || idx != 0 || mc.Call.StaticCallee() != m {
		return false
	}
	for _, g := range an.GuardingEdges(b) {
		base, neg := an.CondBase(g.If().Cond)
		if ex, isEx := base.(*ssa.Extract); isEx && ex.Tuple == ssa.Value(mc) && ex.Index == 1 {
			if (g.Succ == 0) != neg {
				return true
			}
		}
	}
	return false
}

// keyOnlyText: the boxed value only ever becomes an element of the variadic arguments of fmt.Errorf / a logger call.
func keyOnlyText(mi *ssa.MakeInterface) bool {
	if mi.Referrers() == nil {
		return true
	}
	for _, ref := range *mi.Referrers() {
		st, ok := ref.(*ssa.Store)
		if !ok {
			return false
		}
		ia, ok := st.Addr.(*ssa.IndexAddr)
		if !ok || ia.X.Referrers() == nil {
			return false
		}
		for _, r2 := range *ia.X.Referrers() {
			sl, ok := r2.(*ssa.Slice)
			if !ok || sl.Referrers() == nil {
				continue
			}
			for _, r3 := range *sl.Referrers() {
				call, ok := r3.(*ssa.Call)
				if !ok {
					return false
				}
				if !(an.IsFunc(call, "fmt", "Errorf") || (call.Call.StaticCallee() != nil && call.Call.StaticCallee().Pkg != nil && call.Call.StaticCallee().Pkg.Pkg.Path() == "log/slog")) {
					return false
				}
			}
		}
	}
	return true
}

func runPVRepo(c *core.Ctx) {
	r := requireRoles(c)
	if r == nil {
		return
	}
	m := matcherFunc(c)
	if m == nil {
		c.Unresolved("matcher", "matcher not found")
		return
	}
	var trace func(v ssa.Value, b *ssa.BasicBlock, depth int) (bool, string)
	trace = func(v ssa.Value, b *ssa.BasicBlock, depth int) (bool, string) {
		if depth > 8 {
			return false, "trace too deep"
		}
		if grammarGuarded(c, v, b) {
			return true, "grammar-checked"
		}
		if matchElement(c, m, v, b) {
			return true, "routed"
		}
		o := an.Origin(v)
		// a field of a small request record passed as a parameter (bm.from): what every caller stores in that field
		if base := fieldBase(o); base != o {
			if sp, isParam := an.Origin(base).(*ssa.Parameter); isParam {
				if stt, isStruct := sp.Type().Underlying().(*types.Struct); isStruct {
					fname := ""
					switch y := an.Strip(o).(type) {
					case *ssa.Field:
						fname = stt.Field(y.Field).Name()
					case *ssa.UnOp:
						if fa, ok := y.X.(*ssa.FieldAddr); ok {
							fname = stt.Field(fa.Field).Name()
						}
					}
					fn := sp.Parent()
					pi := -1
					for i, p := range fn.Params {
						if p == sp {
							pi = i
						}
					}
					sites := c.P.Callers(fn)
					if fname != "" && pi >= 0 && len(sites) > 0 {
						for _, s := range sites {
							if !c.P.InModule(s.Parent()) {
								continue
							}
							args := s.Common().Args
							if pi >= len(args) {
								return false, "argument not found at " + c.P.Pos(s.Pos())
							}
							ss := structStores(an.Origin(args[pi]))
							if len(ss) == 0 {
								if u, ok := an.Strip(args[pi]).(*ssa.UnOp); ok {
									ss = structStores(u.X)
								}
							}
							vals := ss[fname]
							if len(vals) == 0 {
								return false, fmt.Sprintf("field %s of the record passed at %s could not be traced", fname, c.P.Pos(s.Pos()))
							}
							for _, fv := range vals {
								if ok, why := trace(fv, s.Block(), depth+1); !ok {
									return false, why
								}
							}
						}
						return true, "all call sites pass a record with a checked name"
					}
				}
			}
		}
		// handed out by a helper of the module (name, ok := query.mountSource()): every return that hands out a name is
		// traced in the helper's frame, at the place of that return
		if hr := an.HelperReturns(o, func(h *ssa.Function) bool { return c.P.InModule(h) }); len(hr) > 0 {
			for _, x := range hr {
				if s0, isS := an.ConstString(x.Val); isS && s0 == "" {
					continue
				}
				if ok, why := trace(x.Val, x.Ret.Block(), depth+1); !ok {
					return false, why
				}
			}
			return true, "every return of the helper hands out a checked name"
		}
		switch x := o.(type) {
		case *ssa.Parameter:
			fn := x.Parent()
			pi := -1
			for i, p := range fn.Params {
				if p == x {
					pi = i
				}
			}
			sites := c.P.Callers(fn)
			if len(sites) == 0 {
				return false, fmt.Sprintf("parameter %s of %s has no call sites", x.Name(), c.P.FuncName(fn))
			}
			for _, s := range sites {
				if !c.P.InModule(s.Parent()) {
					continue
				}
				args := s.Common().Args
				if pi >= len(args) {
					return false, "argument not found at " + c.P.Pos(s.Pos())
				}
				if ok, why := trace(args[pi], s.Block(), depth+1); !ok {
					return false, why
				}
			}
			return true, "all call sites pass a checked name"
		case *ssa.Phi:
			for i, e := range x.Edges {
				if ok, why := trace(e, x.Block().Preds[i], depth+1); !ok {
					return false, why
				}
			}
			return true, "all merged values checked"
		}
		return false, fmt.Sprintf("the name originates from %s at %s, which is not checked against the repository grammar", describeValue(c, o), c.P.Pos(o.Pos()))
	}
	for _, fn := range serverFuncs(c) {
		n := 0
		an.Calls(fn, func(call ssa.CallInstruction) {
			if !r.IsAPI(call, "Store", "RepoGet") {
				return
			}
			n++
			_, args := an.CallArgs(call)
			key := fmt.Sprintf("repoget:%s#%d", kn(c.P.FuncName(fn)), n)
			ok, why := trace(args[1], call.Block(), 0)
			if ok {
				c.Pass(key, call.Pos(), "%s", why)
			} else {
				c.Fail(key, call.Pos(), "RepoGet at %s: %s — the directory store joins the name to its root, so a name with dot segments reads and (through the empty-repository cleanup) deletes outside the root", c.P.Pos(call.Pos()), why)
			}
		})
	}
}

func describeValue(c *core.Ctx, v ssa.Value) string {
	if call, _ := an.CallOf(v); call != nil {
		if f := an.FuncObj(call); f != nil {
			s := f.FullName()
			_, args := an.CallArgs(call)
			for _, a := range args {
				if k, ok := an.ConstString(a); ok {
					s += fmt.Sprintf("(%q)", k)
				}
			}
			return "the result of " + s
		}
	}
	return v.Name() + " (" + c.P.TypeName(v.Type()) + ")"
}

// ---- PV-PATH ----

type pathCheck struct {
	c        *core.Ctx
	r        *Roles
	fieldOK  map[string]int // type.field -> 0 unknown 1 in progress 2 ok 3 bad
	fieldWhy map[string]string
}

// pframe: the value is looked at inside a helper that was entered through call (in the caller's frame parent).
type pframe struct {
	call   *ssa.Call
	callee *ssa.Function
	parent *pframe
}

// argOf maps a parameter of the frame's callee to the caller's argument.
func (fr *pframe) argOf(p *ssa.Parameter) (ssa.Value, bool) {
	if fr == nil || p.Parent() != fr.callee {
		return nil, false
	}
	for i, q := range fr.callee.Params {
		if q == p && i < len(fr.call.Call.Args) {
			return fr.call.Call.Args[i], true
		}
	}
	return nil, false
}

func (pc *pathCheck) component(v ssa.Value, at ssa.Instruction, depth int) (bool, string) {
	return pc.componentIn(v, at, depth, nil)
}

// helperOf: a call of a function of this module that is not part of the store API (a helper whose result
// is examined in place, with its parameters standing for the caller's arguments).
func (pc *pathCheck) helperOf(x *ssa.Call) *ssa.Function {
	sc := x.Call.StaticCallee()
	if sc == nil || len(sc.Blocks) == 0 || !strings.HasPrefix(core.FuncPkgPath(sc), pc.c.P.Module) {
		return nil
	}
	return sc
}

func (pc *pathCheck) componentIn(v ssa.Value, at ssa.Instruction, depth int, fr *pframe) (bool, string) {
	c := pc.c
	if depth > 10 {
		return false, "component too deep to trace"
	}
	v = an.Strip(v)
	if _, ok := an.ConstString(v); ok {
		return true, ""
	}
	switch x := v.(type) {
	case *ssa.Phi:
		for _, e := range x.Edges {
			if ok, why := pc.componentIn(e, at, depth+1, fr); !ok {
				return false, why
			}
		}
		return true, ""
	case *ssa.BinOp:
		if x.Op == token.ADD {
			for _, e := range []ssa.Value{x.X, x.Y} {
				if ok, why := pc.componentIn(e, at, depth+1, fr); !ok {
					return false, why
				}
			}
			return true, ""
		}
	case *ssa.Parameter:
		// a parameter of a helper entered through a call: the caller's argument, at the call
		if arg, ok := fr.argOf(x); ok {
			return pc.componentIn(arg, fr.call, depth+1, fr.parent)
		}
		// the repository name parameter of a Store.RepoGet implementation (validated by PV-REPO)
		fn := x.Parent()
		if fn.Signature.Recv() != nil && pc.r.APIMethods["Store"][fn.Name()] && fn.Name() == "RepoGet" {
			if b, ok := x.Type().Underlying().(*types.Basic); ok && b.Kind() == types.String {
				return true, ""
			}
		}
		// a parameter of a helper that is not part of the store API: every call site passes an allowed component
		if fr == nil && !pc.r.APIMethods["Store"][fn.Name()] && !pc.r.APIMethods["Repo"][fn.Name()] && depth < 8 {
			sites := c.P.Callers(fn)
			pi := -1
			for i, q := range fn.Params {
				if q == x {
					pi = i
				}
			}
			if len(sites) > 0 && pi >= 0 {
				for _, site := range sites {
					cc := site.Common()
					if cc.IsInvoke() || cc.StaticCallee() != fn || pi >= len(cc.Args) {
						return false, fmt.Sprintf("parameter %s of %s (called dynamically)", x.Name(), c.P.FuncName(fn))
					}
					if ok, why := pc.componentIn(cc.Args[pi], site, depth+2, nil); !ok {
						return false, why
					}
				}
				return true, ""
			}
		}
		return false, fmt.Sprintf("parameter %s of %s", x.Name(), c.P.FuncName(fn))
	case *ssa.Extract:
		// one result of a helper of this module: what its non-error returns return there
		if hc, ok := x.Tuple.(*ssa.Call); ok && depth < 8 {
			if h := pc.helperOf(hc); h != nil {
				hrs := an.HelperReturns(x, nil)
				for _, hr := range hrs {
					if ok, why := pc.componentIn(hr.Val, hr.Ret, depth+1, &pframe{call: hc, callee: h, parent: fr}); !ok {
						return false, why
					}
				}
				if len(hrs) > 0 {
					return true, ""
				}
			}
		}
	case *ssa.Call:
		// a helper of this module that returns a string: its returned expressions, in place
		if h := pc.helperOf(x); h != nil && depth < 8 {
			if b, ok := x.Type().Underlying().(*types.Basic); ok && b.Kind() == types.String {
				n := 0
				for _, hb := range h.Blocks {
					if len(hb.Instrs) == 0 {
						continue
					}
					ret, ok := hb.Instrs[len(hb.Instrs)-1].(*ssa.Return)
					if !ok || len(ret.Results) != 1 {
						continue
					}
					n++
					if ok, why := pc.componentIn(ret.Results[0], ret, depth+1, &pframe{call: x, callee: h, parent: fr}); !ok {
						return false, why
					}
				}
				if n > 0 {
					return true, ""
				}
			}
		}
		if an.IsFunc(x, "path/filepath", "Join") || an.IsFunc(x, "path", "Join") {
			elems, ok := variadicElems(x.Call.Args[0])
			if !ok {
				return false, "Join of a slice built elsewhere"
			}
			for _, e := range elems {
				if ok, why := pc.componentIn(e, at, depth+1, fr); !ok {
					return false, why
				}
			}
			return true, ""
		}
		// names of the store's own files and directory entries
		if an.IsMethod(x, "os", "File", "Name") || an.IsMethod(x, "io/fs", "DirEntry", "Name") || an.IsMethod(x, "os", "DirEntry", "Name") || an.IsMethod(x, "io/fs", "FileInfo", "Name") {
			return true, ""
		}
		// digest parts
		if an.IsMethod(x, digestPkg, "Digest", "Encoded") || an.IsMethod(x, digestPkg, "Algorithm", "String") {
			dv := x.Call.Args[0]
			if an.IsMethod(x, digestPkg, "Algorithm", "String") {
				ac, _ := an.CallOf(an.Strip(dv))
				if ac == nil || !an.IsMethod(ac, digestPkg, "Digest", "Algorithm") {
					return false, "algorithm name not taken from a digest"
				}
				dv = ac.Call.Args[0]
			}
			return pc.digestOK(dv, x, fr)
		}
	case *ssa.UnOp:
		if x.Op == token.MUL {
			// element of a literal list
			if ia, ok := x.X.(*ssa.IndexAddr); ok {
				if elems, ok := literalListElems(ia); ok {
					for _, e := range elems {
						if ok, why := pc.componentIn(e, at, depth+1, fr); !ok {
							return false, why
						}
					}
					return true, ""
				}
			}
			// captured variable with a single store
			if o := an.Origin(x); o != ssa.Value(x) {
				return pc.componentIn(o, at, depth+1, fr)
			}
			// struct field
			if fa, ok := x.X.(*ssa.FieldAddr); ok {
				return pc.field(fa, depth)
			}
		}
	case *ssa.Field:
		// field of a struct value (config copied by value)
		root, p := accessPath(x)
		if isNamedType(root.Type(), pc.r.ConfigPath, "Config") || pathEndsWith(p, "Storage", "RootDir") {
			if pathEndsWith(p, "Storage", "RootDir") {
				return true, ""
			}
		}
	}
	return false, fmt.Sprintf("%s at %s", describeValue(c, v), c.P.Pos(v.Pos()))
}

// digestOK: the digest value was validated on a dominating edge, or computed by a digester.
func (pc *pathCheck) digestOK(dv ssa.Value, at *ssa.Call, fr *pframe) (bool, string) {
	o := an.Origin(dv)
	// the digest is a parameter of a helper: it is the caller's argument, and it is the caller (at the call)
	// that must have validated it — unless the helper validates it itself
	if p, isParam := o.(*ssa.Parameter); isParam {
		if arg, ok := fr.argOf(p); ok {
			if okHere, _ := pc.digestGuarded(dv, o, at); okHere {
				return true, ""
			}
			return pc.digestOK(arg, fr.call, fr.parent)
		}
	}
	if call, _ := an.CallOf(o); call != nil && call.Call.IsInvoke() && call.Call.Method.Name() == "Digest" && isNamed(call.Call.Value.Type(), digestPkg, "Digester") {
		return true, ""
	}
	// an accessor of the store package every return of which is a digester's Digest()
	if hr := an.HelperReturns(o, func(h *ssa.Function) bool { return core.FuncPkgPath(h) == pc.r.StorePath }); len(hr) > 0 {
		all := true
		for _, x := range hr {
			call, _ := an.CallOf(an.Origin(x.Val))
			if call == nil || !call.Call.IsInvoke() || call.Call.Method.Name() != "Digest" || !isNamed(call.Call.Value.Type(), digestPkg, "Digester") {
				all = false
			}
		}
		if all {
			return true, ""
		}
	}
	if ok, _ := pc.digestGuarded(dv, o, at); ok {
		return true, ""
	}
	// a digest parameter of a helper that is not part of the store API: validated at every call site
	if p, isParam := o.(*ssa.Parameter); isParam && fr == nil {
		fn := p.Parent()
		if !pc.r.APIMethods["Repo"][fn.Name()] && !pc.r.APIMethods["Store"][fn.Name()] && !pc.r.APIMethods["BlobCreator"][fn.Name()] {
			sites := pc.c.P.Callers(fn)
			pi := -1
			for i, q := range fn.Params {
				if q == p {
					pi = i
				}
			}
			all := len(sites) > 0 && pi >= 0
			for _, site := range sites {
				cc, isCall := site.(*ssa.Call)
				if !isCall || cc.Call.IsInvoke() || cc.Call.StaticCallee() != fn || pi >= len(cc.Call.Args) {
					all = false
					break
				}
				if ok, _ := pc.digestOK(cc.Call.Args[pi], cc, nil); !ok {
					all = false
					break
				}
			}
			if all {
				return true, ""
			}
		}
	}
	// parsed digests are valid by construction
	if pcall, idx := an.CallOf(o); pcall != nil && idx == 0 && an.IsFunc(pcall, digestPkg, "Parse") {
		return true, ""
	}
	return false, fmt.Sprintf("parts of the digest %s are used in a path at %s without a dominating ok-edge of Validate(): a digest such as \"sha256:../../x\" would escape the blobs directory", describeValue(pc.c, o), pc.c.P.Pos(at.Pos()))
}

// digestGuarded: a dominating ok-edge of Validate() on the same digest at the given point.
func (pc *pathCheck) digestGuarded(dv, o ssa.Value, at *ssa.Call) (bool, string) {
	for _, g := range an.GuardingEdges(at.Block()) {
		// the validation done by a pre-check step (`if err := dr.blobReadable(d, locked); err != nil { return }`): every
		// execution of the step that answers nil has passed the ok-edge of Validate() on the digest it was given
		for _, fe := range an.ImpliedHelperEdges(g) {
			hifi := an.BlockIf(fe.From)
			if hifi == nil {
				continue
			}
			hx, hNil, hok := an.NilTest(hifi)
			if !hok || fe.Succ != hNil {
				continue
			}
			hv, _ := an.CallOf(hx)
			if hv == nil || !an.IsMethod(hv, digestPkg, "Digest", "Validate") {
				continue
			}
			if cv, mapped := fe.ArgOf(hv.Call.Args[0]); mapped && (an.Origin(cv) == o || sameSource(cv, dv)) {
				return true, ""
			}
		}
		x, nilSucc, ok := an.NilTest(g.If())
		if !ok || g.Succ != nilSucc {
			continue
		}
		vc, _ := an.CallOf(x)
		if vc == nil || !an.IsMethod(vc, digestPkg, "Digest", "Validate") {
			continue
		}
		arg := vc.Call.Args[0]
		if an.Origin(arg) == o {
			return true, ""
		}
		if sameSource(arg, dv) {
			return true, ""
		}
	}
	return false, ""
}

// field: every store to the field, anywhere in the store package, stores an allowed component.
func (pc *pathCheck) field(fa *ssa.FieldAddr, depth int) (bool, string) {
	n := an.NamedOf(fa.X.Type())
	st, ok := an.Deref(fa.X.Type()).Underlying().(*types.Struct)
	if n == nil || !ok {
		return false, "field of an unnamed struct"
	}
	fname := st.Field(fa.Field).Name()
	key := pc.c.P.TypeName(n) + "." + fname
	// configuration: the root directory
	if n.Obj().Pkg() != nil && n.Obj().Pkg().Path() == pc.r.ConfigPath {
		if fname == "RootDir" {
			return true, ""
		}
		return false, "configuration field " + key
	}
	switch pc.fieldOK[key] {
	case 1, 2:
		return true, ""
	case 3:
		return false, pc.fieldWhy[key]
	}
	pc.fieldOK[key] = 1
	stores := 0
	for _, fn := range pc.c.P.Funcs("internal/store") {
		var bad string
		an.Instrs(fn, func(in ssa.Instruction) {
			s, ok := in.(*ssa.Store)
			if !ok || bad != "" {
				return
			}
			f2, ok := s.Addr.(*ssa.FieldAddr)
			if !ok || f2.Field != fa.Field || an.NamedOf(f2.X.Type()) != n {
				return
			}
			stores++
			if ok, why := pc.component(s.Val, s, depth+1); !ok {
				bad = fmt.Sprintf("field %s is assigned at %s from %s", key, pc.c.P.Pos(s.Pos()), why)
			}
		})
		if bad != "" {
			pc.fieldOK[key] = 3
			pc.fieldWhy[key] = bad
			return false, bad
		}
	}
	if stores == 0 {
		pc.fieldOK[key] = 3
		pc.fieldWhy[key] = "field " + key + " is never assigned"
		return false, pc.fieldWhy[key]
	}
	pc.fieldOK[key] = 2
	return true, ""
}

func runPVPath(c *core.Ctx) {
	r := requireRoles(c)
	if r == nil {
		return
	}
	pc := &pathCheck{c: c, r: r, fieldOK: map[string]int{}, fieldWhy: map[string]string{}}
	count := map[string]int{}
	// the repository methods the shared collector (the function that deletes blobs) works through: a digest used there
	// without validation does not only escape the directory — the digest library panics on a malformed one, and the
	// panic ends the store-wide pass at that repository, in every pass
	collectorMethods := map[string]bool{}
	for _, f := range sharedStoreFuncs(c) {
		sweeps := false
		an.Calls(f, func(call ssa.CallInstruction) {
			if cc := call.Common(); cc.IsInvoke() && cc.Method.Name() == "blobDelete" && an.NamedOf(cc.Value.Type()) == r.IRepo {
				sweeps = true
			}
		})
		if !sweeps {
			continue
		}
		an.Calls(f, func(call ssa.CallInstruction) {
			if cc := call.Common(); cc.IsInvoke() && an.NamedOf(cc.Value.Type()) == r.IRepo {
				collectorMethods[cc.Method.Name()] = true
			}
		})
	}
	// the fields of the repository types that hold the bare name: filled by RepoGet from its name parameter as it is
	nameFields := map[*types.Var]bool{}
	for _, fam := range r.Families {
		get := getLock(c).MethodOf(fam.Store, "RepoGet")
		if get == nil {
			continue
		}
		fns := []*ssa.Function{get}
		an.Calls(get, func(call ssa.CallInstruction) {
			if sc := call.Common().StaticCallee(); sc != nil && core.FuncPkgPath(sc) == r.StorePath {
				fns = append(fns, sc)
			}
		})
		for _, f := range fns {
			an.Instrs(f, func(in ssa.Instruction) {
				st, ok := in.(*ssa.Store)
				if !ok {
					return
				}
				fa, ok := st.Addr.(*ssa.FieldAddr)
				if !ok || an.NamedOf(an.Deref(fa.X.Type())) != fam.Repo {
					return
				}
				if pr, isParam := an.Origin(st.Val).(*ssa.Parameter); isParam && isStringType(pr.Type()) {
					nameFields[fieldVarOf(fa)] = true
				}
			})
		}
	}
	for _, s := range fsSinks(c) {
		if core.FuncPkgPath(s.fn) != r.StorePath {
			continue
		}
		for pi, p := range s.paths {
			if s.name == "os.CreateTemp" && pi == 1 {
				// the pattern: a constant
				if _, ok := an.ConstString(p); ok {
					continue
				}
			}
			base := fmt.Sprintf("path:%s|%s", kn(c.P.FuncName(s.fn)), s.name)
			count[base]++
			key := fmt.Sprintf("%s#%d", base, count[base])
			ok, why := pc.component(p, s.call, 0)
			tags := []string{"path"}
			if usesDigest(p) {
				tags = append(tags, "digest")
				if s.fn.Signature.Recv() != nil && collectorMethods[s.fn.Name()] {
					tags = append(tags, "collector")
				}
			}
			if up := storeConst(c, "uploadDir"); up != "" && (hasPart(p, up) || core.FuncPkgPath(s.fn) == r.StorePath && sinkInUploadCreator(s)) {
				tags = append(tags, "session")
			}
			c.SetTags(tags...)
			if ok {
				// … and it starts below the root: the leftmost component is not the repository's bare name (the field RepoGet fills
				// with its name parameter) — a path that starts there is relative to the working directory of the process
				if leaf := leftmostComponent(p); leaf != nil {
					if fa := fieldAddrOf(leaf); fa != nil && nameFields[fieldVarOf(fa)] {
						ok, why = false, fmt.Sprintf("the repository's name (field %s) as its first component: the path is relative to the working directory, not to the configured root", fieldVarOf(fa).Name())
					}
				}
			}
			if ok {
				c.Pass(key, s.call.Pos(), "composed of allowed components only")
			} else {
				c.Fail(key, s.call.Pos(), "the path given to %s at %s contains %s: not one of the components that keep storage access inside the repository's directory", s.name, c.P.Pos(s.call.Pos()), why)
			}
		}
	}
	// PV-SESSION: session id parameters are map keys only — they never reach a path component (any
	// failure above names its source; here the positive statement per BlobSession implementation)
	c.SetTags("session")
	for _, fam := range r.Families {
		fn := getLock(c).MethodOf(fam.Repo, "BlobSession")
		if fn == nil || len(fn.Params) < 2 {
			continue
		}
		idp := fn.Params[1]
		// (used directly, or handed to a lookup step of the store package — possibly generic — that uses it the same way;
		// appearing in an error text is no path either)
		var keyOnly func(v ssa.Value, depth int) bool
		keyOnly = func(v ssa.Value, depth int) bool {
			if v.Referrers() == nil || depth > 3 {
				return depth <= 3
			}
			for _, ref := range *v.Referrers() {
				switch x := ref.(type) {
				case *ssa.Call:
					if an.IsMethod(x, r.CachePath, "Cache", "Get") {
						continue
					}
					h := x.Call.StaticCallee()
					if h != nil && len(h.Blocks) > 0 && core.FuncPkgPath(h) == r.StorePath && !x.Call.IsInvoke() {
						okArgs := true
						for i, a := range x.Call.Args {
							if a == v && (i >= len(h.Params) || !keyOnly(h.Params[i], depth+1)) {
								okArgs = false
							}
						}
						if okArgs {
							continue
						}
					}
					return false
				case *ssa.MakeInterface:
					// formatted into an error or log text
					if !keyOnlyText(x) {
						return false
					}
				case *ssa.DebugRef:
				default:
					return false
				}
			}
			return true
		}
		onlyKey := keyOnly(idp, 0)
		c.Check(onlyKey, "session-id:"+kn(c.P.FuncName(fn)), fn.Pos(), "the session id is used as a cache key only: %v", onlyKey)
	}
}

// usesDigest: a component of the path derives from a digest value (its type is Digest / Algorithm, or a
// conversion of one).
func usesDigest(v ssa.Value) bool {
	found := false
	seen := map[ssa.Value]bool{}
	var walk func(v ssa.Value, d int)
	walk = func(v ssa.Value, d int) {
		if v == nil || seen[v] || d > 12 || found {
			return
		}
		seen[v] = true
		if isNamed(v.Type(), digestPkg, "Digest") || isNamed(v.Type(), digestPkg, "Algorithm") {
			found = true
			return
		}
		if sl, ok := v.(*ssa.Slice); ok {
			if elems, ok := variadicElems(sl); ok {
				for _, e := range elems {
					walk(e, d+1)
				}
			}
		}
		if in, ok := v.(ssa.Instruction); ok {
			if _, isPhi := v.(*ssa.Phi); isPhi && d > 6 {
				return
			}
			for _, op := range in.Operands(nil) {
				if *op != nil {
					walk(*op, d+1)
				}
			}
		}
	}
	walk(v, 0)
	return found
}

// sinkInUploadCreator: the call creates a file (Create / CreateTemp / OpenFile) in a function that also
// registers an upload session (the session's temporary file).
func sinkInUploadCreator(s fsSink) bool {
	switch s.name {
	case "os.Create", "os.CreateTemp", "os.OpenFile":
	default:
		return false
	}
	found := false
	an.Calls(s.fn, func(call ssa.CallInstruction) {
		if f := an.FuncObj(call); f != nil && f.Name() == "genSessionID" {
			found = true
		}
	})
	return found
}

func init() {
	register(&Rule{ID: "PV-CACHEKEY", Floor: 2,
		Doc: "a cache that belongs to the server (not to one repository) is shared by all repositories: the key of every access made by a handler that addresses a repository either contains the repository name (the value passed to RepoGet) and, for the referrers page cache, the subject the request names, or its content-address component is read from that repository's own index — never a key made only of request-supplied values (`cache=<digest>`), which selects pages built for another repository or subject",
		Run: func(c *core.Ctx) {
			r := requireRoles(c)
			if r == nil {
				return
			}
			subjAnnot := constValue(c, "types", "AnnotReferrerSubject")
			n := 0
			for _, fn := range serverFuncs(c) {
				// accesses of a server-level cache in this function
				var accesses []ssa.CallInstruction
				an.Calls(fn, func(call ssa.CallInstruction) {
					if _, isDefer := call.(*ssa.Defer); isDefer {
						return
					}
					if !an.IsMethod(call, c.P.Module+"/internal/cache", "Cache", "Get") && !an.IsMethod(call, c.P.Module+"/internal/cache", "Cache", "Set") && !an.IsMethod(call, c.P.Module+"/internal/cache", "Cache", "Delete") {
						return
					}
					recv, _ := an.CallArgs(call)
					root, p := accessPath(an.Strip(recv))
					if len(p) != 1 || root == nil {
						return
					}
					if nt := an.NamedOf(an.Deref(an.Origin(root).Type())); nt == nil || nt != r.Server {
						return
					}
					accesses = append(accesses, call)
				})
				if len(accesses) == 0 {
					continue
				}
				// the repository this function addresses, and the subject it looks up
				var repoName, subject ssa.Value
				an.Calls(fn, func(call ssa.CallInstruction) {
					if r.IsAPI(call, "Store", "RepoGet") {
						_, args := an.CallArgs(call)
						if len(args) >= 2 {
							repoName = an.Origin(args[1])
						}
					}
					if an.IsMethod(call, r.TypesPath, "Index", "GetByAnnotation") {
						_, args := an.CallArgs(call)
						if len(args) >= 2 {
							if s, ok := an.ConstString(args[0]); ok && s == subjAnnot {
								subject = an.Origin(args[1])
							}
						}
					}
				})
				if repoName == nil {
					continue // not a function that addresses a repository (e.g. the rate limiter, keyed by client address)
				}
				// values read from the addressed repository's own state: results of calls on the index it returned
				fromRepoState := func(v ssa.Value) bool {
					root, _ := accessPath(an.Strip(v))
					if al, ok := root.(*ssa.Alloc); ok {
						if s := an.SingleStore(al); s != nil {
							root = s
						}
					}
					ex, ok := an.Origin(root).(*ssa.Extract)
					if !ok {
						return false
					}
					call, ok := ex.Tuple.(*ssa.Call)
					return ok && (an.IsMethod(call, r.TypesPath, "Index", "GetByAnnotation") || an.IsMethod(call, r.TypesPath, "Index", "GetDesc"))
				}
				// the fields the producers (Set) fill in: every other access must fill the same ones
				produced := map[string]bool{}
				for _, call := range accesses {
					if an.IsMethod(call, c.P.Module+"/internal/cache", "Cache", "Set") {
						if _, args := an.CallArgs(call); len(args) > 0 {
							for f := range keyFields(args[0]) {
								produced[f] = true
							}
						}
					}
				}
				for i, call := range accesses {
					n++
					_, args := an.CallArgs(call)
					key := fmt.Sprintf("key:%s#%d", kn(c.P.FuncName(fn)), i+1)
					if len(args) == 0 {
						continue
					}
					fields := keyFields(args[0])
					var lacking []string
					for f := range produced {
						if _, ok := fields[f]; !ok {
							lacking = append(lacking, f)
						}
					}
					sort.Strings(lacking)
					if len(lacking) > 0 && len(fields) > 0 {
						c.SetTags("agreement")
						c.Fail(key+":fields", call.Pos(), "the key of the cache access at %s leaves %v at the zero value while the entries are stored with those fields set: the lookup selects an entry stored for a different %v (for the page cache: the pages of another filter)", c.P.Pos(call.Pos()), lacking, lacking)
					}
					c.SetTags("isolation")
					hasRepo, hasSubj := false, false
					var names, foreign []string
					for f, vals := range fields {
						names = append(names, f)
						for _, v := range vals {
							if an.Origin(v) == repoName {
								hasRepo = true
							}
							if subject != nil && an.Origin(v) == subject {
								hasSubj = true
							}
							// a digest-typed component that does not come from the repository's own index
							if strings.HasSuffix(v.Type().String(), "go-digest.Digest") && !fromRepoState(v) {
								foreign = append(foreign, f)
							}
						}
					}
					sort.Strings(names)
					sort.Strings(foreign)
					switch {
					case hasRepo && (subject == nil || hasSubj):
						c.Pass(key, call.Pos(), "key fields %v include the addressed repository%s", names, map[bool]string{true: " and the requested subject", false: ""}[subject != nil])
					case len(foreign) == 0 && len(fields) > 0:
						c.Pass(key, call.Pos(), "the content-address in the key (fields %v) is read from the addressed repository's own index", names)
					case len(fields) == 0:
						c.Undecided(key, call.Pos(), "the key of the server-level cache access at %s is not a struct of components (a string assembled from parts?): whether distinct (repository, subject, digest, filter) tuples always give distinct keys cannot be decided — repository names contain ‘/’ and the filter is free-form, so a joined string is ambiguous unless every part is escaped", c.P.Pos(call.Pos()))
					default:
						c.Fail(key, call.Pos(), "the key of the server-level cache access at %s (fields %v) contains neither the repository the handler addresses nor the requested subject, and its component(s) %v do not come from that repository's index but from the request: pages built for one repository or subject are served to requests for another", c.P.Pos(call.Pos()), names, foreign)
					}
				}
			}
			if n == 0 {
				c.Unresolved("server-cache", "no access of a server-level cache found in the handlers")
			}
		}})
}

// keyFields decomposes a struct-valued cache key into its field values: a composite literal at the call, or the
// struct a local helper / closure builds and returns (its parameters standing for the call's arguments and its free
// variables for the variables it captured).
func keyFields(arg ssa.Value) map[string][]ssa.Value {
	if f := structStores(an.Strip(arg)); len(f) > 0 {
		return f
	}
	hr := an.HelperReturns(an.Origin(arg), nil)
	if len(hr) != 1 {
		return map[string][]ssa.Value{}
	}
	x := hr[0]
	out := map[string][]ssa.Value{}
	for f, vals := range structStores(an.Strip(x.Val)) {
		for _, v := range vals {
			o := an.Origin(v)
			switch y := o.(type) {
			case *ssa.Parameter:
				for i, q := range x.Callee.Params {
					if q == y && i < len(x.Call.Call.Args) {
						o = x.Call.Call.Args[i]
					}
				}
			case *ssa.FreeVar:
				if b := an.FreeVarBinding(y); b != nil {
					o = b
				}
			case *ssa.UnOp:
				// a captured variable: *freevar
				if fv, ok := y.X.(*ssa.FreeVar); ok {
					if b := an.FreeVarBinding(fv); b != nil {
						if st := an.SingleStore(b); st != nil {
							o = st
						}
					}
				}
			}
			out[f] = append(out[f], o)
		}
	}
	return out
}

// leftmostComponent: the first component of a path built with filepath.Join / path.Join or string concatenation.
func leftmostComponent(p ssa.Value) ssa.Value {
	for i := 0; i < 8; i++ {
		switch x := an.Strip(p).(type) {
		case *ssa.Call:
			if (an.IsFunc(x, "path/filepath", "Join") || an.IsFunc(x, "path", "Join")) && len(x.Call.Args) == 1 {
				elems, ok := variadicElemsOrdered(x.Call.Args[0])
				if !ok || len(elems) == 0 {
					return nil
				}
				p = elems[0]
				continue
			}
			return x
		case *ssa.BinOp:
			if x.Op == token.ADD {
				p = x.X
				continue
			}
			return x
		default:
			return x
		}
	}
	return nil
}

func fieldAddrOf(v ssa.Value) *ssa.FieldAddr {
	if u, ok := an.Strip(v).(*ssa.UnOp); ok && u.Op == token.MUL {
		if fa, ok := u.X.(*ssa.FieldAddr); ok {
			return fa
		}
	}
	return nil
}

func fieldVarOf(fa *ssa.FieldAddr) *types.Var {
	if st, ok := an.Deref(fa.X.Type()).Underlying().(*types.Struct); ok && fa.Field < st.NumFields() {
		return st.Field(fa.Field)
	}
	return nil
}

func isStringType(t types.Type) bool {
	b, ok := t.Underlying().(*types.Basic)
	return ok && b.Kind() == types.String
}
