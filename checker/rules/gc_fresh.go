package rules

import (
	"fmt"
	"go/token"

	"golang.org/x/tools/go/ssa"

	"olacheck/an"
	"olacheck/core"
)

// TS-GC-FRESH: the per-repository collector replaces the repository's index with what the shared collection returns.
// That is a read-modify-write of the index, so the index it is given must be the live one: the repository's own index
// field, read in the function that calls the collection (after the collector has taken the token, waited for the
// requests in flight and locked the repository — LK-TOKEN and LK-GUARD decide that part), with no unlock between the read
// and the call.  A snapshot obtained earlier — through the locking accessor, say, before the wait — lacks the updates of
// the very requests the collector waits for; writing the pruned snapshot back then drops acknowledged tags.

func init() {
	register(&Rule{ID: "TS-GC-FRESH", Floor: 2,
		Doc: "every call of the shared collection that a repository's collector makes is given the repository's own index field, loaded in the calling function (directly or through its Copy method), with no mutex release between the load and the call: the collector's write-back never replaces the live index with a pruned stale snapshot",
		Run: func(c *core.Ctx) {
			r := requireRoles(c)
			if r == nil {
				return
			}
			n := 0
			for _, fn := range c.P.Funcs("internal/store") {
				fam := r.FamilyOfFunc(fn)
				if fam == nil {
					continue
				}
				k := 0
				an.Calls(fn, func(call ssa.CallInstruction) {
					cc, ok := call.(*ssa.Call)
					if !ok {
						return
					}
					h := cc.Call.StaticCallee()
					if h == nil || h.Signature.Recv() != nil || r.FamilyOfFunc(h) != nil || core.FuncPkgPath(h) != r.StorePath {
						return
					}
					// the shared collection: takes the index by value and reports an error last (its other results carry the pruned
					// index and the ‘modified’ verdict, as separate values or in a record)
					res := h.Signature.Results()
					if res.Len() < 2 || !an.IsErrorType(res.At(res.Len()-1).Type()) {
						return
					}
					var arg ssa.Value
					for _, a := range cc.Call.Args {
						if isNamed(a.Type(), r.TypesPath, "Index") {
							arg = a
						}
					}
					if arg == nil {
						return
					}
					n++
					k++
					key := fmt.Sprintf("live-index:%s#%d", kn(c.P.FuncName(fn)), k)
					// the load of the repository's index field
					v := an.Strip(arg)
					if cp, _ := an.CallOf(v); cp != nil && cp.Call.StaticCallee() != nil && cp.Call.StaticCallee().Name() == "Copy" && len(cp.Call.Args) == 1 {
						v = an.Strip(cp.Call.Args[0])
					}
					ld, isLoad := v.(*ssa.UnOp)
					var fa *ssa.FieldAddr
					if isLoad && ld.Op == token.MUL {
						fa, _ = ld.X.(*ssa.FieldAddr)
					}
					if fa == nil || an.NamedOf(an.Deref(fa.X.Type())) != fam.Repo || ld.Parent() != fn {
						c.Fail(key, cc.Pos(), "%s hands the collection at %s an index that is not the repository's own index field read there (a copy obtained earlier, through an accessor or before the wait for the requests in flight): the updates of those requests are missing from it, and when the pass prunes anything the stale index replaces the live one — acknowledged tags and manifests disappear", c.P.FuncName(fn), c.P.Pos(cc.Pos()))
						return
					}
					released := token.NoPos
					an.Calls(fn, func(u ssa.CallInstruction) {
						if _, isDefer := u.(*ssa.Defer); isDefer {
							return
						}
						if !(an.IsMethod(u, "sync", "Mutex", "Unlock") || an.IsMethod(u, "sync", "RWMutex", "Unlock") || an.IsMethod(u, "sync", "RWMutex", "RUnlock")) {
							return
						}
						if an.Reaches(ld, u) && an.Reaches(u, cc) {
							released = u.Pos()
						}
					})
					c.Check(released == token.NoPos, key, cc.Pos(), "the collection called at %s works on the repository's index as loaded at %s with no mutex release in between: %v (release at %s)", c.P.Pos(cc.Pos()), c.P.Pos(ld.Pos()), released == token.NoPos, c.P.Pos(released))
				})
			}
			if n == 0 {
				c.Unresolved("live-index", "no call of the shared collection found in the store families")
			}
		}})
}
