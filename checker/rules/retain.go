package rules

import (
	"fmt"
	"go/token"
	"go/types"
	"sort"

	"golang.org/x/tools/go/ssa"

	"olacheck/an"
	"olacheck/core"
)

// LK-RETAIN: the shared index keeps what it is given. Index.AddDesc stores its descriptor parameter — and
// with it the parameter's annotation map — into the entry list; from then on that map is shared state that
// other requests change under the repository mutex (RmDesc deletes the tag from it in place). The function
// that handed the descriptor over therefore must not read it once the mutex is released: a read after the
// unlock (formatting the descriptor for a log line is enough) races with the in-place delete.
//
// The rule computes which (function, parameter) pairs retain — a parameter of a type with reference fields
// that is stored below the receiver, or passed on to a retaining callee (store API methods are resolved
// within the module) — and then, at every call of a retaining function with a local descriptor variable,
// looks for reads of that variable's reference parts after the point the protection ends: the non-deferred
// Unlock that follows the call, or the return of a callee that takes and releases the mutex itself.
func init() {
	register(&Rule{ID: "LK-RETAIN", Floor: 3,
		Doc: "a value with reference fields (a descriptor and its annotation map) handed to a function that stores it into the shared index is not read after the repository mutex is released — after the non-deferred Unlock that follows the call, or after the return of a store method that locks by itself: the index shares the map with the caller, and a concurrent in-place change under the mutex (RmDesc deleting a tag) races with such a read",
		Run: func(c *core.Ctx) {
			r := requireRoles(c)
			if r == nil {
				return
			}
			type pk struct {
				fn  *ssa.Function
				idx int // index into fn.Params
			}
			hasRef := func(t types.Type) bool {
				st, ok := t.Underlying().(*types.Struct)
				if !ok {
					return false
				}
				for i := 0; i < st.NumFields(); i++ {
					if isRefType(st.Field(i).Type()) != "" {
						return true
					}
				}
				return false
			}
			// the value of parameter p inside its function: the parameter itself or a load of the local it was spilled to
			isParamVal := func(fn *ssa.Function, p *ssa.Parameter, v ssa.Value) bool {
				v = an.Strip(v)
				if v == ssa.Value(p) {
					return true
				}
				if ld, ok := v.(*ssa.UnOp); ok && ld.Op == token.MUL {
					if al, isAl := ld.X.(*ssa.Alloc); isAl {
						if sv := an.SingleStore(al); sv != nil && an.Strip(sv) == ssa.Value(p) {
							return true
						}
					}
				}
				return false
			}
			// address below the receiver: FieldAddr / IndexAddr / loads starting at Params[0]
			var belowRecv func(fn *ssa.Function, addr ssa.Value, depth int) bool
			belowRecv = func(fn *ssa.Function, addr ssa.Value, depth int) bool {
				if depth > 8 || len(fn.Params) == 0 || fn.Signature.Recv() == nil {
					return false
				}
				switch x := an.Strip(addr).(type) {
				case *ssa.Parameter:
					return x == fn.Params[0]
				case *ssa.FieldAddr:
					return belowRecv(fn, x.X, depth+1)
				case *ssa.IndexAddr:
					return belowRecv(fn, x.X, depth+1)
				case *ssa.UnOp:
					return x.Op == token.MUL && belowRecv(fn, x.X, depth+1)
				case *ssa.Slice:
					return belowRecv(fn, x.X, depth+1)
				}
				return false
			}
			retains := map[pk]bool{}
			var modFns []*ssa.Function
			for _, fn := range c.P.ModFuncs {
				if len(fn.Blocks) > 0 {
					modFns = append(modFns, fn)
				}
			}
			// base: parameter stored below the receiver, directly or through the variadic array of an append whose
			// result is stored below the receiver
			for _, fn := range modFns {
				if fn.Signature.Recv() == nil {
					continue
				}
				for pi, p := range fn.Params {
					if pi == 0 || !hasRef(p.Type()) {
						continue
					}
					found := false
					an.Instrs(fn, func(in ssa.Instruction) {
						st, ok := in.(*ssa.Store)
						if !ok || found || !isParamVal(fn, p, st.Val) {
							return
						}
						if belowRecv(fn, st.Addr, 0) {
							found = true
							return
						}
						// store into the variadic array of an append
						if ia, isIA := st.Addr.(*ssa.IndexAddr); isIA {
							if al, isAl := ia.X.(*ssa.Alloc); isAl {
								for _, ref := range *al.Referrers() {
									sl, isSl := ref.(*ssa.Slice)
									if !isSl {
										continue
									}
									for _, sref := range *sl.Referrers() {
										call, isCall := sref.(*ssa.Call)
										if !isCall {
											continue
										}
										if b, isB := call.Call.Value.(*ssa.Builtin); !isB || b.Name() != "append" {
											continue
										}
										for _, cref := range *call.Referrers() {
											if st2, isSt := cref.(*ssa.Store); isSt && belowRecv(fn, st2.Addr, 0) {
												found = true
											}
										}
									}
								}
							}
						}
					})
					if found {
						retains[pk{fn, pi}] = true
					}
				}
			}
			nBase := len(retains)
			// the module's functions a call may reach: static callee, or for an interface call the module's methods of that name
			byName := map[string][]*ssa.Function{}
			for _, fn := range modFns {
				if fn.Signature.Recv() != nil {
					byName[fn.Name()] = append(byName[fn.Name()], fn)
				}
			}
			calleesOf := func(call ssa.CallInstruction) []*ssa.Function {
				cc := call.Common()
				if cc.IsInvoke() {
					var out []*ssa.Function
					for _, f := range byName[cc.Method.Name()] {
						if types.Identical(f.Signature.Params(), cc.Signature().Params()) {
							out = append(out, f)
						}
					}
					return out
				}
				if f := cc.StaticCallee(); f != nil {
					return []*ssa.Function{f}
				}
				return nil
			}
			// argument position → parameter index of the callee
			paramIdx := func(call ssa.CallInstruction, callee *ssa.Function, argPos int) int {
				if call.Common().IsInvoke() {
					return argPos + 1 // Params[0] is the receiver
				}
				return argPos
			}
			retainingArg := func(call ssa.CallInstruction) (argPos int, callee *ssa.Function, ok bool) {
				for _, f := range calleesOf(call) {
					for ai := range call.Common().Args {
						pi := paramIdx(call, f, ai)
						if pi < len(f.Params) && retains[pk{f, pi}] {
							return ai, f, true
						}
					}
				}
				return 0, nil, false
			}
			for changed := true; changed; {
				changed = false
				for _, fn := range modFns {
					for pi, p := range fn.Params {
						if retains[pk{fn, pi}] || !hasRef(p.Type()) {
							continue
						}
						an.Calls(fn, func(call ssa.CallInstruction) {
							if retains[pk{fn, pi}] {
								return
							}
							ai, _, ok := retainingArg(call)
							if ok && isParamVal(fn, p, call.Common().Args[ai]) {
								retains[pk{fn, pi}] = true
								changed = true
							}
						})
					}
				}
			}
			if nBase == 0 {
				c.Unresolved("retaining-methods", "no method that stores a parameter with reference fields below its receiver found (Index.AddDesc expected)")
				return
			}
			selfLocking := func(fn *ssa.Function) bool {
				locks := false
				an.Calls(fn, func(call ssa.CallInstruction) {
					if an.IsMethod(call, "sync", "Mutex", "Lock") || an.IsMethod(call, "sync", "RWMutex", "Lock") {
						locks = true
					}
				})
				return locks
			}
			isUnlock := func(in ssa.Instruction) bool {
				call, ok := in.(*ssa.Call)
				return ok && (an.IsMethod(call, "sync", "Mutex", "Unlock") || an.IsMethod(call, "sync", "RWMutex", "Unlock"))
			}
			// reads of the reference parts of variable v (a parameter or a local) by instruction in
			readsRef := func(fn *ssa.Function, v ssa.Value, in ssa.Instruction) bool {
				isV := func(x ssa.Value) bool {
					x = an.Strip(x)
					if x == v {
						return true
					}
					if p, isP := v.(*ssa.Parameter); isP {
						return isParamVal(fn, p, x)
					}
					if ld, ok := x.(*ssa.UnOp); ok && ld.Op == token.MUL && ld.X == v {
						return true
					}
					return false
				}
				switch x := in.(type) {
				case *ssa.MakeInterface:
					return isV(x.X)
				case *ssa.Call:
					for _, a := range x.Call.Args {
						if isV(a) {
							return true
						}
					}
				case *ssa.Go:
					for _, a := range x.Call.Args {
						if isV(a) {
							return true
						}
					}
				case *ssa.Field:
					return isV(x.X) && isRefType(x.Type()) != ""
				case *ssa.UnOp:
					// load of a reference field of the local
					if x.Op == token.MUL {
						if fa, ok := x.X.(*ssa.FieldAddr); ok && isRefType(x.Type()) != "" {
							base := an.Strip(fa.X)
							if base == v {
								return true
							}
							if p, isP := v.(*ssa.Parameter); isP {
								if al, isAl := base.(*ssa.Alloc); isAl {
									if sv := an.SingleStore(al); sv != nil && an.Strip(sv) == ssa.Value(p) {
										return true
									}
								}
							}
						}
					}
				}
				return false
			}
			n := 0
			sort.Slice(modFns, func(i, j int) bool { return c.P.FuncName(modFns[i]) < c.P.FuncName(modFns[j]) })
			for _, fn := range modFns {
				if core.FuncPkgPath(fn) == r.TypesPath {
					continue // the index type itself: its methods run under the caller's lock
				}
				k := 0
				an.Calls(fn, func(call ssa.CallInstruction) {
					if _, isDefer := call.(*ssa.Defer); isDefer {
						return
					}
					ai, callee, ok := retainingArg(call)
					if !ok {
						return
					}
					// the variable handed over
					arg := an.Strip(call.Common().Args[ai])
					var v ssa.Value
					switch x := arg.(type) {
					case *ssa.Parameter:
						v = x
					case *ssa.UnOp:
						if al, isAl := x.X.(*ssa.Alloc); isAl && x.Op == token.MUL {
							v = al
							if sv := an.SingleStore(al); sv != nil {
								if p, isP := an.Strip(sv).(*ssa.Parameter); isP {
									v = p
								}
							}
						}
					}
					if v == nil {
						return // a temporary: nothing to read afterwards
					}
					n++
					k++
					key := fmt.Sprintf("retain:%s|%s#%d", kn(c.P.FuncName(fn)), callee.Name(), k)
					// where the protection ends
					var ends []ssa.Instruction
					if selfLocking(callee) && !selfLocking(fn) {
						ends = append(ends, call)
					}
					an.ReachFrom(call, func(in ssa.Instruction) bool {
						if isUnlock(in) {
							ends = append(ends, in)
							return false
						}
						return true
					})
					bad := token.NoPos
					for _, e := range ends {
						an.ReachFrom(e, func(in ssa.Instruction) bool {
							if bad == token.NoPos && readsRef(fn, v, in) {
								bad = in.Pos()
								if bad == token.NoPos {
									bad = e.Pos()
								}
							}
							return bad == token.NoPos
						})
					}
					c.Check(bad == token.NoPos, key, call.Pos(), "the descriptor handed to %s at %s is not read after the repository mutex is released: %v%s", callee.Name(), c.P.Pos(call.Pos()), bad == token.NoPos, map[bool]string{true: "", false: fmt.Sprintf(" (read at %s) — the index now shares its annotation map, which a concurrent tag delete changes in place under the mutex: the read races with it", c.P.Pos(bad))}[bad == token.NoPos])
				})
			}
			if n == 0 {
				c.Unresolved("retaining-calls", "no call hands a local descriptor to a retaining method")
			}
		}})
}
