package rules

import (
	"fmt"
	"go/token"
	"go/types"
	"sort"
	"strings"

	"golang.org/x/tools/go/ssa"

	"olacheck/an"
	"olacheck/core"
)

// serverFuncs returns the functions of the server package including closures.
func serverFuncs(c *core.Ctx) []*ssa.Function { return c.P.Funcs("") }

// sharedStoreFuncs returns the functions of the store package that are not methods of a family type
// (the ingest, the collector, helpers) including their closures.
func sharedStoreFuncs(c *core.Ctx) []*ssa.Function {
	r := getRoles(c)
	var out []*ssa.Function
	for _, fn := range c.P.Funcs("internal/store") {
		if r.FamilyOfFunc(fn) == nil {
			out = append(out, fn)
		}
	}
	return out
}

var repoMutators = []string{"BlobCreate", "IndexInsert", "IndexRemove", "BlobDelete"}

// repoMutatorCall: a direct call of a repository-level mutator of the store API.
func repoMutatorCall(r *Roles, call ssa.CallInstruction) bool {
	return r.IsAPI(call, "Repo", repoMutators...) || isBlobCreate(r, call)
}

// sessionMutatorCall: a call that changes an upload session or commits it (Cancel excluded).
func sessionMutatorCall(r *Roles, call ssa.CallInstruction) bool {
	if r.IsAPI(call, "BlobCreator", "Write", "Close", "ChangeAlgorithm") {
		return true
	}
	return isSessionWrite(r, call)
}

// mutates reports whether fn (transitively through static calls and immediately called closures inside
// the server package) performs a mutating store call.
func mutates(c *core.Ctx, fn *ssa.Function, repoLevelOnly bool) bool {
	key := fmt.Sprintf("mutates/%v", repoLevelOnly)
	memo := core.Memo(c, key, func() map[*ssa.Function]int { return map[*ssa.Function]int{} })
	return mutatesRec(c, fn, repoLevelOnly, memo, 0)
}

func mutatesRec(c *core.Ctx, fn *ssa.Function, repoLevelOnly bool, memo map[*ssa.Function]int, depth int) bool {
	if v, ok := memo[fn]; ok {
		return v == 2
	}
	if depth > 8 || fn.Blocks == nil {
		return false
	}
	memo[fn] = 1
	r := getRoles(c)
	res := false
	an.Calls(fn, func(call ssa.CallInstruction) {
		if res {
			return
		}
		if repoMutatorCall(r, call) || (!repoLevelOnly && sessionMutatorCall(r, call)) {
			res = true
			return
		}
		if callee := localCallee(c, call); callee != nil && mutatesRec(c, callee, repoLevelOnly, memo, depth+1) {
			res = true
		}
	})
	if res {
		memo[fn] = 2
	}
	return res
}

// localCallee resolves a static call, or the call of a closure created in the same function, to a
// function of the server package.
func localCallee(c *core.Ctx, call ssa.CallInstruction) *ssa.Function {
	cc := call.Common()
	if cc.IsInvoke() {
		return nil
	}
	var fn *ssa.Function
	if sc := cc.StaticCallee(); sc != nil {
		fn = sc
	} else if mc, ok := cc.Value.(*ssa.MakeClosure); ok {
		fn, _ = mc.Fn.(*ssa.Function)
	}
	if fn == nil || core.FuncPkgPath(fn) != c.P.Module {
		return nil
	}
	return fn
}

type whSite struct {
	call   ssa.CallInstruction
	status int
}

func writeHeaders(fn *ssa.Function) []whSite {
	var out []whSite
	an.Calls(fn, func(call ssa.CallInstruction) {
		if _, isDefer := call.(*ssa.Defer); isDefer {
			return
		}
		if s, ok := writeHeaderStatus(call); ok {
			out = append(out, whSite{call, s})
		}
	})
	return out
}

func init() {
	register(&Rule{ID: "TS-REFUSE", Floor: 40,
		Doc: "once a handler has written a status header — any status — no mutating store call (BlobCreate, IndexInsert, IndexRemove, BlobDelete, session Write/Close/ChangeAlgorithm, or a helper containing one; Cancel excepted) is reachable, and after a status ≥ 400 no second status is written; helpers that write the response return nil afterwards and their callers stop",
		Run: runRefuse})
	register(&Rule{ID: "TS-ACK", Floor: 20,
		Doc: "no acknowledgement (2xx status, or `return nil` in a helper) is reachable on a path on which the error of a commit call (BlobCreate other than ‘already exists’, session Write/io.Copy, Verify, Close, Cancel, IndexInsert, IndexRemove, BlobDelete, helper containing one) is non-nil, untested or discarded; the abstract value of that error (nil / exists / other) is tracked along every path",
		Run: runAck})
	register(&Rule{ID: "TS-VERIFY", Floor: 5,
		Doc: "every commit (Close) of an upload session outside the stores is either dominated by the ok-edge of Verify on the same session against a digest obtained from digest.Parse, or the session was created in the same function with a BlobWithDigest option (the store then compares the digest itself)",
		Run: runVerify})
	register(&Rule{ID: "TS-CANCEL", Floor: 2,
		Doc: "(a) on the failure edge of Verify the session is cancelled before the handler answers or returns; (b) every exit of each store's commit method (Close of the upload type), failing or not, has unregistered the session from the session cache",
		Run: runCancel})
	register(&Rule{ID: "TS-RANGE", Floor: 2,
		Doc: "every write into an existing session (obtained through BlobSession) is dominated by the accepting edge of the Content-Range check against Size() and by the equality edge of the decoded state offset against Size(); the range checker returns true only for an empty header or on the equality edge of the parsed start against its size parameter",
		Run: runRange})
	register(&Rule{ID: "TS-ROGUARD", Floor: 6,
		Doc: "every call of a repository-level mutator (BlobCreate, IndexInsert, IndexRemove, BlobDelete) in the server package is dominated by the false edge of a test of the read-only setting whose true edge answers 4xx and returns — in the same function or at every call site of it",
		Run: runROGuard})
	register(&Rule{ID: "TB-ROUTE", Floor: 8,
		Doc: "in the router, each call that constructs a handler is guarded by the true edge of the switch the documentation assigns to it: handlers that reach IndexRemove/BlobDelete by DeleteEnabled (BlobDelete also by Blob.DeleteEnabled), other mutating handlers by PushEnabled, the referrers handler by Referrer.Enabled",
		Run: runRoute})
}

func runRefuse(c *core.Ctx) {
	r := requireRoles(c)
	if r == nil {
		return
	}
	isM := func(call ssa.CallInstruction) string {
		if _, isDefer := call.(*ssa.Defer); isDefer {
			return ""
		}
		if repoMutatorCall(r, call) || sessionMutatorCall(r, call) {
			_, m, _ := r.API(call)
			if m == "" {
				m = "io.Copy into a session"
			}
			return m
		}
		if callee := localCallee(c, call); callee != nil && mutates(c, callee, false) {
			return "helper " + c.P.FuncName(callee)
		}
		return ""
	}
	for _, fn := range serverFuncs(c) {
		sites := writeHeaders(fn)
		count := map[int]int{}
		name := kn(c.P.FuncName(fn))
		ftags := handlerTags(c, r, fn)
		for _, s := range sites {
			count[s.status]++
			key := fmt.Sprintf("after:%s#%d#%d", name, s.status, count[s.status])
			tags := append([]string{}, ftags...)
			if s.status == 403 {
				tags = append(tags, "ro")
			}
			c.SetTags(tags...)
			bad := ""
			an.ReachFrom(s.call, func(in ssa.Instruction) bool {
				if bad != "" {
					return false
				}
				if call, ok := in.(ssa.CallInstruction); ok {
					if m := isM(call); m != "" {
						bad = fmt.Sprintf("mutating call %s at %s is reachable after the status %d written at %s", m, c.P.Pos(call.Pos()), s.status, c.P.Pos(s.call.Pos()))
						return false
					}
					if st2, ok := writeHeaderStatus(call); ok && s.status >= 400 {
						if _, isDefer := call.(*ssa.Defer); !isDefer {
							bad = fmt.Sprintf("a second status (%d at %s) is reachable after the refusal %d written at %s: the refusal does not end the request", st2, c.P.Pos(call.Pos()), s.status, c.P.Pos(s.call.Pos()))
							return false
						}
					}
				}
				return true
			})
			if bad != "" {
				c.Fail(key, s.call.Pos(), "%s", bad)
			} else {
				c.Pass(key, s.call.Pos(), "nothing mutating reachable after status %d", s.status)
			}
		}
		c.SetTags(ftags...)
		// helpers that write the response: named functions with a ResponseWriter parameter returning error
		if fn.Parent() == nil && len(sites) > 0 && fn.Signature.Results().Len() == 1 && an.IsErrorType(fn.Signature.Results().At(0).Type()) {
			okRet := true
			for _, s := range sites {
				an.ReachFrom(s.call, func(in ssa.Instruction) bool {
					if ret, ok := in.(*ssa.Return); ok {
						if !retErrNil(ret) {
							okRet = false
						}
					}
					return true
				})
			}
			c.Check(okRet, "helper-returns-nil:"+name, fn.Pos(), "helper %s returns nil on every path on which it has written the response", name)
			// callers stop on the nil edge
			for _, site := range c.P.Callers(fn) {
				call, ok := site.(*ssa.Call)
				if !ok || core.FuncPkgPath(site.Parent()) != c.P.Module {
					continue
				}
				key := fmt.Sprintf("caller-stops:%s←%s", name, kn(c.P.FuncName(site.Parent())))
				bad := ""
				found := false
				for _, b := range site.Parent().Blocks {
					ifi := an.BlockIf(b)
					if ifi == nil {
						continue
					}
					x, nilSucc, ok := an.NilTest(ifi)
					if !ok {
						continue
					}
					if cl, _ := an.CallOf(x); cl != call {
						continue
					}
					found = true
					tgt := b.Succs[nilSucc]
					if len(tgt.Instrs) > 0 {
						first := tgt.Instrs[0]
						visit := func(in ssa.Instruction) bool {
							if cl2, ok := in.(ssa.CallInstruction); ok {
								if m := isM(cl2); m != "" {
									bad = "mutating call " + m + " reachable after the helper answered"
								}
								if _, ok := writeHeaderStatus(cl2); ok {
									bad = "a second status is written after the helper answered"
								}
							}
							return bad == ""
						}
						visit(first)
						an.ReachFrom(first, visit)
					}
				}
				if !found {
					bad = "the helper's result is not tested against nil"
				}
				c.Check(bad == "", key, site.Pos(), "caller of %s after a nil result: %s", name, map[bool]string{true: "stops", false: bad}[bad == ""])
			}
		}
	}
}

// ---- TS-ACK ----

type ackState struct {
	active bool
	v      an.ErrVal
}

// ackExceptions: commit calls whose failure deliberately does not abort the request.
var ackExceptions = map[string]string{
	"(*olareg.Server).blobUploadPost$fn|helper (*olareg.Server).blobUploadMount": "a failed mount falls back to a regular upload session (documented on blobUploadMount: errors are returned without writing the response)",
}

func runAck(c *core.Ctx) {
	r := requireRoles(c)
	if r == nil {
		return
	}
	funcs := append(append([]*ssa.Function{}, serverFuncs(c)...), sharedStoreFuncs(c)...)
	for _, fn := range funcs {
		name := kn(c.P.FuncName(fn))
		returnsErr := fn.Signature.Results().Len() > 0 && an.IsErrorType(fn.Signature.Results().At(fn.Signature.Results().Len()-1).Type())
		hasAck := len(writeHeaders(fn)) > 0 || returnsErr
		if !hasAck {
			continue
		}
		count := map[string]int{}
		an.Calls(fn, func(call ssa.CallInstruction) {
			if _, isCall := call.(*ssa.Call); !isCall {
				return
			}
			what := ""
			existsOK := false
			switch {
			case isBlobCreate(r, call):
				what = "BlobCreate"
				if ds, ok := withDigestArgs(r, call); !ok || len(ds) > 0 {
					existsOK = true
				}
			case r.IsAPI(call, "Repo", "IndexInsert", "IndexRemove", "BlobDelete"):
				_, what, _ = r.API(call)
			case r.IsAPI(call, "BlobCreator", "Write", "Close", "Verify", "Cancel"):
				_, what, _ = r.API(call)
			case isSessionWrite(r, call):
				what = "io.Copy into a session"
			default:
				if callee := localCallee(c, call); callee != nil && callee.Parent() == nil && mutates(c, callee, false) {
					res := callee.Signature.Results()
					if res.Len() > 0 && an.IsErrorType(res.At(res.Len()-1).Type()) {
						what = "helper " + c.P.FuncName(callee)
						// a helper that hands out the error of its BlobCreate with a digest: ‘already exists’ is no failure
						if returnsCreateErr(r, callee) != nil {
							existsOK = true
						}
					}
				}
			}
			if what == "" {
				return
			}
			count[what]++
			key := fmt.Sprintf("ack:%s|%s#%d", name, kn(what), count[what])
			if reason, ok := ackExceptions[c.P.FuncName(fn)+"|"+what]; ok || ackExceptions[name+"|"+kn(what)] != "" {
				if !ok {
					reason = ackExceptions[name+"|"+kn(what)]
				}
				c.Exception(key, call.Pos(), "%s", reason)
				return
			}
			errv := an.ErrResult(call)
			tracked := map[ssa.Value]int{}
			if errv != nil {
				an.TrackSlots(tracked, errv, 0)
			}
			bad := ""
			an.Paths(an.PathSpec[ackState]{Fn: fn, Init: ackState{},
				Instr: func(s ackState, in ssa.Instruction) []ackState {
					if in == ssa.Instruction(call.(*ssa.Call)) {
						return []ackState{{active: true, v: an.EU}}
					}
					if !s.active || bad != "" {
						return []ackState{s}
					}
					failing := s.v == an.EU || s.v == an.EX || s.v == an.EO || s.v == an.ENO || (s.v == an.EE && !existsOK)
					if !failing {
						return []ackState{s}
					}
					how := map[an.ErrVal]string{an.EU: "was never tested", an.EX: "is non-nil", an.EO: "is non-nil", an.ENO: "was not tested against nil", an.EE: "reports ‘exists’"}[s.v]
					switch x := in.(type) {
					case *ssa.Call:
						if st, ok := writeHeaderStatus(x); ok && st >= 200 && st < 300 {
							// the failure of a helper makes the acknowledgement of a push (201) false; a handler that
							// acknowledges a removal (202) isolates the failure of its auxiliary updates on purpose — in
							// the code base as an immediately invoked closure whose error is only logged — and is held
							// to its own commit calls
							if strings.HasPrefix(what, "helper ") && st != 201 {
								break
							}
							bad = fmt.Sprintf("status %d at %s is reachable although the error of %s at %s %s", st, c.P.Pos(x.Pos()), what, c.P.Pos(call.Pos()), how)
						}
					case *ssa.Return:
						if returnsErr && fn.Signature.Results().Len() > 0 {
							if retErrNil(x) {
								bad = fmt.Sprintf("`return nil` at %s is reachable although the error of %s at %s %s", c.P.Pos(x.Pos()), what, c.P.Pos(call.Pos()), how)
							}
						}
					}
					return []ackState{s}
				},
				Edge: func(s ackState, from *ssa.BasicBlock, succ int) (ackState, bool) {
					if !s.active {
						return s, true
					}
					vals, ok := an.TrackErrEdge([]an.ErrVal{s.v}, tracked, r.TypesPath, "ErrBlobExists", from, succ)
					if !ok {
						return s, false
					}
					s.v = vals[0]
					return s, true
				}})
			if bad != "" {
				c.Fail(key, call.Pos(), "%s", bad)
			} else {
				c.Pass(key, call.Pos(), "every acknowledgement lies on the success edge of %s", what)
			}
		})
	}
}

// ---- TS-VERIFY ----

func runVerify(c *core.Ctx) {
	r := requireRoles(c)
	if r == nil {
		return
	}
	funcs := append(append([]*ssa.Function{}, serverFuncs(c)...), sharedStoreFuncs(c)...)
	for _, fn := range funcs {
		n := 0
		an.Calls(fn, func(call ssa.CallInstruction) {
			if _, isDefer := call.(*ssa.Defer); isDefer {
				return
			}
			if !r.IsAPI(call, "BlobCreator", "Close") {
				return
			}
			n++
			key := fmt.Sprintf("close:%s#%d", kn(c.P.FuncName(fn)), n)
			sess := an.Origin(call.Common().Value)
			// (2) created here with a digest option
			if cr, _ := an.CallOf(sess); cr != nil && isBlobCreate(r, cr) {
				if ds, ok := withDigestArgs(r, cr); ok && len(ds) > 0 {
					c.Pass(key, call.Pos(), "session created in this function with BlobWithDigest: the store compares the digest on commit")
					return
				}
			}
			// (1) dominated by the ok-edge of Verify on the same session
			ok := false
			for _, g := range an.GuardingEdges(call.Block()) {
				x, nilSucc, isNil := an.NilTest(g.If())
				if !isNil || g.Succ != nilSucc {
					continue
				}
				vc, _ := an.CallOf(x)
				if vc == nil || !r.IsAPI(vc, "BlobCreator", "Verify") || an.Origin(vc.Call.Value) != sess {
					continue
				}
				// (the digest may be a parameter of a commit step: then what every call of the step passes)
				leaves, complete := originsAcross(c, vc.Call.Args[0], 0)
				parsed := complete && len(leaves) > 0
				for _, o := range leaves {
					if _, isConst := o.(*ssa.Const); isConst {
						continue // the zero digest of an unset variable never verifies
					}
					pc, idx := an.CallOf(o)
					if pc == nil || idx != 0 || !an.IsFunc(pc, "github.com/opencontainers/go-digest", "Parse") {
						parsed = false
					}
				}
				if parsed {
					ok = true
				}
			}
			if !ok {
				// the session is a parameter of a helper: every caller passes a session it created with a digest option
				if p, isParam := sess.(*ssa.Parameter); isParam && p.Parent() == fn {
					pi := -1
					for i, q := range fn.Params {
						if q == p {
							pi = i
						}
					}
					sites := c.P.Callers(fn)
					all := len(sites) > 0 && pi >= 0
					for _, site := range sites {
						cc := site.Common()
						if cc.StaticCallee() != fn || pi >= len(cc.Args) {
							all = false
							break
						}
						withDigest := func(v ssa.Value) bool {
							cr, _ := an.CallOf(an.Origin(v))
							if cr == nil || !isBlobCreate(r, cr) {
								return false
							}
							ds, okd := withDigestArgs(r, cr)
							return okd && len(ds) > 0
						}
						if withDigest(cc.Args[pi]) {
							continue
						}
						// the session comes out of a helper every return of which hands out a session created with a digest
						hr := an.HelperReturns(an.Origin(cc.Args[pi]), func(h *ssa.Function) bool { return core.FuncPkgPath(h) == c.P.Module })
						okH := len(hr) > 0
						for _, x := range hr {
							if an.IsNilConst(an.Strip(x.Val)) {
								continue
							}
							if !withDigest(x.Val) {
								okH = false
							}
						}
						if !okH {
							all = false
							break
						}
					}
					if all {
						c.Pass(key, call.Pos(), "the session is handed in by callers that created it with BlobWithDigest: the store compares the digest on commit")
						return
					}
				}
			}
			if ok {
				c.Pass(key, call.Pos(), "dominated by the ok-edge of Verify against a parsed request digest")
			} else {
				c.Fail(key, call.Pos(), "the session committed at %s is neither verified against a parsed digest on every path (no dominating ok-edge of Verify on the same session) nor created with BlobWithDigest: content could be stored under a digest it does not hash to", c.P.Pos(call.Pos()))
			}
		})
	}
}

// rangeRecordParser: v is the record a function of the module parsed from the Content-Range header (rng, err :=
// parseRange(r.Header.Get("content-range"))): that function.
func rangeRecordParser(c *core.Ctx, v ssa.Value) *ssa.Function {
	x := an.Strip(v)
	if ld, ok := x.(*ssa.UnOp); ok && ld.Op == token.MUL {
		if whole := an.SingleStore(ld.X); whole != nil {
			x = an.Strip(whole)
		}
	}
	if _, isStruct := x.Type().Underlying().(*types.Struct); !isStruct {
		return nil
	}
	pc, idx := an.CallOf(an.Origin(x))
	if pc == nil || idx > 0 || len(pc.Call.Args) != 1 || !headerGet(pc.Call.Args[0], "content-range") {
		return nil
	}
	h := pc.Call.StaticCallee()
	if h == nil || len(h.Blocks) == 0 || core.FuncPkgPath(h) != c.P.Module {
		return nil
	}
	return h
}

// rangeRecordProblem: "" when the pair (predicate, parser) is a sound range check.  The parser hands out, on its
// non-error returns, either the zero record on the ‘header is empty’ edge or a record whose boolean field is true and
// whose integer field is the result of strconv.ParseInt/Atoi on the ok-edge of that parse.  The predicate, evaluated
// under ‘the boolean field is true’ and ‘integer field ≠ size’, is false on every return.
func rangeRecordProblem(pred, parser *ssa.Function) string {
	res := parser.Signature.Results()
	if res.Len() != 2 || !an.IsErrorType(res.At(1).Type()) || len(parser.Params) != 1 {
		return "the parser does not have the form (header) (record, error)"
	}
	rec, ok := res.At(0).Type().Underlying().(*types.Struct)
	if !ok {
		return "the parser does not return a record"
	}
	setF, startF := -1, -1
	for i := 0; i < rec.NumFields(); i++ {
		if bt, ok := rec.Field(i).Type().Underlying().(*types.Basic); ok {
			switch {
			case bt.Kind() == types.Bool:
				setF = i
			case bt.Info()&types.IsInteger != 0:
				startF = i
			}
		}
	}
	if setF < 0 || startF < 0 {
		return "the record does not hold a ‘range given’ flag and a start position"
	}
	hdr := parser.Params[0]
	why := ""
	an.Instrs(parser, func(in ssa.Instruction) {
		ret, isRet := in.(*ssa.Return)
		if !isRet || len(ret.Results) != 2 || why != "" {
			return
		}
		if an.DefiniteError(ret.Results[1]) || an.ReturnNonNilGuarded(ret, ret.Results[1]) {
			return
		}
		ss := structStores(an.Origin(ret.Results[0]))
		if len(ss) == 0 {
			if u, ok := an.Strip(ret.Results[0]).(*ssa.UnOp); ok {
				ss = structStores(u.X)
			}
		}
		setVals := ss[rec.Field(setF).Name()]
		given := false
		for _, sv := range setVals {
			if b, isC := an.ConstBool(sv); !isC || !b {
				why = "the ‘range given’ flag is not a constant"
				return
			}
			given = true
		}
		if !given {
			// ‘no range’: only for an empty header
			if len(ss) > 0 && len(ss[rec.Field(startF).Name()]) > 0 {
				why = "a record without the flag carries a start position"
				return
			}
			if len(ss) == 0 && !isZeroStruct(ret.Results[0]) {
				why = "a returned record could not be read"
				return
			}
			onEmpty := false
			for _, g := range an.GuardingEdges(ret.Block()) {
				x, y, op, isCmp := an.CmpTest(g.If())
				if !isCmp {
					continue
				}
				for _, pr := range [][2]ssa.Value{{x, y}, {y, x}} {
					if an.Origin(pr[0]) == ssa.Value(hdr) {
						if s0, isS := an.ConstString(pr[1]); isS && s0 == "" && ((op == token.EQL && g.Succ == 0) || (op == token.NEQ && g.Succ == 1)) {
							onEmpty = true
						}
					}
				}
			}
			if !onEmpty {
				why = "‘no range’ is handed out for a header that is not empty (a malformed range would be taken for none)"
			}
			return
		}
		// the start: the parsed integer, on the ok-edge of the parse
		starts := ss[rec.Field(startF).Name()]
		if len(starts) != 1 {
			why = "the start position of a returned record could not be read"
			return
		}
		pc, idx := an.CallOf(an.Origin(starts[0]))
		if pc == nil || idx != 0 || !(an.IsFunc(pc, "strconv", "ParseInt") || an.IsFunc(pc, "strconv", "ParseUint") || an.IsFunc(pc, "strconv", "Atoi")) {
			why = "the start position is not the result of a strconv parse"
			return
		}
		perr := an.ErrResult(pc)
		okEdge := false
		for _, g := range an.GuardingEdges(ret.Block()) {
			if x, nilSucc, isNil := an.NilTest(g.If()); isNil && g.Succ == nilSucc && perr != nil {
				for _, o := range append([]ssa.Value{x}, an.Origins(x)...) {
					if o == perr {
						okEdge = true
					}
				}
			}
		}
		if !okEdge {
			why = "the start position is handed out without the ok-edge of its parse"
		}
	})
	if why != "" {
		return why
	}
	// the predicate
	if pred.Signature.Results().Len() != 1 {
		return "the predicate does not return one boolean"
	}
	var sizeParam *ssa.Parameter
	var recParam *ssa.Parameter
	for _, p := range pred.Params {
		if bt, ok := p.Type().Underlying().(*types.Basic); ok && bt.Info()&types.IsInteger != 0 {
			sizeParam = p
		}
		if types.Identical(an.Deref(p.Type()).Underlying(), rec) {
			recParam = p
		}
	}
	if sizeParam == nil || recParam == nil {
		return "the predicate does not take (record, size)"
	}
	isField := func(v ssa.Value, f int) bool {
		switch x := an.Strip(v).(type) {
		case *ssa.Field:
			return x.Field == f && an.Origin(x.X) == ssa.Value(recParam)
		case *ssa.UnOp:
			if fa, ok := x.X.(*ssa.FieldAddr); ok && x.Op == token.MUL && fa.Field == f {
				if fa.X == ssa.Value(recParam) {
					return true
				}
				if al, ok := fa.X.(*ssa.Alloc); ok {
					return an.SingleStore(al) == ssa.Value(recParam)
				}
			}
		}
		return false
	}
	an.Instrs(pred, func(in ssa.Instruction) {
		ret, isRet := in.(*ssa.Return)
		if !isRet || len(ret.Results) != 1 || why != "" {
			return
		}
		v, known := evalAssumingLeaf(ret.Results[0], func(bo *ssa.BinOp) (bool, bool) {
			if bo.Op != token.EQL && bo.Op != token.NEQ {
				return false, false
			}
			for _, pr := range [][2]ssa.Value{{bo.X, bo.Y}, {bo.Y, bo.X}} {
				if isField(pr[0], startF) && an.Origin(pr[1]) == ssa.Value(sizeParam) {
					return bo.Op == token.NEQ, true // assume start ≠ size
				}
			}
			return false, false
		}, func(leaf ssa.Value) (bool, bool) {
			if isField(leaf, setF) {
				return true, true // assume a range was given
			}
			return false, false
		}, 0)
		if !known || v {
			why = "the predicate can accept a range whose start differs from the size"
		}
	})
	return why
}

// startEqSize: the comparison is ‘integer parsed from a string == the size parameter’.
func startEqSize(v *ssa.BinOp, sizeParam *ssa.Parameter) bool {
	if v.Op != token.EQL {
		return false
	}
	for _, pair := range [][2]ssa.Value{{v.X, v.Y}, {v.Y, v.X}} {
		if pair[0] == ssa.Value(sizeParam) {
			if pc, idx := an.CallOf(pair[1]); pc != nil && idx == 0 && (an.IsFunc(pc, "strconv", "ParseInt") || an.IsFunc(pc, "strconv", "ParseUint") || an.IsFunc(pc, "strconv", "Atoi")) {
				return true
			}
		}
	}
	return false
}

// mustPassBefore: starting at block b, every path reaches an instruction satisfying goal before one satisfying stop.
func mustPassBefore(b *ssa.BasicBlock, goal, stop func(ssa.Instruction) bool) bool {
	seen := map[*ssa.BasicBlock]bool{}
	var walk func(b *ssa.BasicBlock) bool
	walk = func(b *ssa.BasicBlock) bool {
		if seen[b] {
			return true
		}
		seen[b] = true
		for _, in := range b.Instrs {
			if goal(in) {
				return true
			}
			if stop(in) {
				return false
			}
		}
		if len(b.Succs) == 0 {
			return false
		}
		for _, s := range b.Succs {
			if !walk(s) {
				return false
			}
		}
		return true
	}
	return walk(b)
}

func runCancel(c *core.Ctx) {
	r := requireRoles(c)
	if r == nil {
		return
	}
	// (a)
	for _, fn := range serverFuncs(c) {
		n := 0
		an.Calls(fn, func(call ssa.CallInstruction) {
			if !r.IsAPI(call, "BlobCreator", "Verify") {
				return
			}
			n++
			key := fmt.Sprintf("verify-fail:%s#%d", kn(c.P.FuncName(fn)), n)
			sess := an.Origin(call.Common().Value)
			errv := an.ErrResult(call)
			found, ok := false, true
			for _, b := range fn.Blocks {
				ifi := an.BlockIf(b)
				if ifi == nil {
					continue
				}
				x, nilSucc, isNil := an.NilTest(ifi)
				if !isNil || x != errv {
					continue
				}
				found = true
				cancels := func(of ssa.Value) func(in ssa.Instruction) bool {
					return func(in ssa.Instruction) bool {
						cl, isCall := in.(ssa.CallInstruction)
						return isCall && r.IsAPI(cl, "BlobCreator", "Cancel") && an.Origin(cl.Common().Value) == of
					}
				}
				answers := func(in ssa.Instruction) bool {
					if _, isRet := in.(*ssa.Return); isRet {
						return true
					}
					if cl, isCall := in.(ssa.CallInstruction); isCall {
						if _, isWH := writeHeaderStatus(cl); isWH {
							return true
						}
					}
					return false
				}
				if mustPassBefore(b.Succs[1-nilSucc], cancels(sess), answers) {
					continue
				}
				// a commit step that hands the failure to its caller (an error, or a record naming the step that failed):
				// the caller cancels on the edges that outcome takes it to, before it answers
				inCaller := false
				if sp, isParam := sess.(*ssa.Parameter); isParam {
					if site, edges, okc := callerEdgesOfOutcome(c, fn, b, 1-nilSucc); okc {
						for k, q := range fn.Params {
							if q != sp || k >= len(site.Call.Args) {
								continue
							}
							csess := an.Origin(site.Call.Args[k])
							inCaller = true
							for _, e := range edges {
								if !mustPassBefore(e.From.Succs[e.Succ], cancels(csess), answers) {
									inCaller = false
								}
							}
						}
					}
				}
				if !inCaller {
					ok = false
				}
			}
			if !found {
				c.Fail(key, call.Pos(), "the result of Verify is not tested")
				return
			}
			c.Check(ok, key, call.Pos(), "on the failure edge of Verify the session is cancelled before the handler answers: %v (otherwise the failed upload stays open and its temporary file remains)", ok)
		})
	}
	// (b)
	e := getLock(c)
	for _, fam := range r.Families {
		fn := e.MethodOf(fam.Upload, "Close")
		key := "commit-unregisters:" + fam.Upload.Obj().Name()
		if fn == nil {
			c.Unresolved(key, "commit method not found")
			continue
		}
		bad := ""
		nret := 0
		// unregisters: the cache removal itself, or a closure / method of the upload type that performs it on all its paths
		var always func(f *ssa.Function, d int) bool
		always = func(f *ssa.Function, d int) bool {
			if f == nil || d > 2 || len(f.Blocks) == 0 {
				return false
			}
			ok := true
			n := 0
			an.Paths(an.PathSpec[bool]{Fn: f, Init: false,
				Instr: func(s bool, in ssa.Instruction) []bool {
					switch x := in.(type) {
					case *ssa.Call:
						if an.IsMethod(x, r.CachePath, "Cache", "Delete") {
							return []bool{true}
						}
						// a further method of the upload type that does (sessionEnd → sessionDrop → Delete)
						if sc := x.Call.StaticCallee(); sc != nil && sc != f && sc.Signature.Recv() != nil && an.NamedOf(an.Deref(sc.Signature.Recv().Type())) == fam.Upload && always(sc, d+1) {
							return []bool{true}
						}
					case *ssa.Return:
						n++
						if !s {
							ok = false
						}
					}
					return []bool{s}
				}})
			return ok && n > 0
		}
		unregisters := func(x *ssa.Call) bool {
			if an.IsMethod(x, r.CachePath, "Cache", "Delete") {
				return true
			}
			if mc, ok := x.Call.Value.(*ssa.MakeClosure); ok {
				cf, _ := mc.Fn.(*ssa.Function)
				return always(cf, 1)
			}
			// a closure held in a local variable
			if ld := an.Origin(x.Call.Value); ld != nil {
				if mc, ok := ld.(*ssa.MakeClosure); ok {
					cf, _ := mc.Fn.(*ssa.Function)
					return always(cf, 1)
				}
			}
			if sc := x.Call.StaticCallee(); sc != nil && sc != fn && sc.Signature.Recv() != nil && an.NamedOf(an.Deref(sc.Signature.Recv().Type())) == fam.Upload {
				return always(sc, 1)
			}
			return false
		}
		an.Paths(an.PathSpec[bool]{Fn: fn, Init: false,
			Instr: func(s bool, in ssa.Instruction) []bool {
				switch x := in.(type) {
				case *ssa.Call:
					if unregisters(x) {
						return []bool{true}
					}
				case *ssa.Return:
					nret++
					if !s && bad == "" {
						bad = fmt.Sprintf("exit at %s is reached without removing the session from the session cache", c.P.Pos(x.Pos()))
					}
				}
				return []bool{s}
			}})
		if nret == 0 {
			bad = "no exit found"
		}
		c.Check(bad == "", key, fn.Pos(), "every exit of %s.Close has unregistered the session%s", fam.Upload.Obj().Name(), map[bool]string{true: "", false: ": " + bad + " — after a failed commit the session would linger (status query still answers) although its content is gone"}[bad == ""])
	}
}

// ---- TS-RANGE ----

func headerGet(v ssa.Value, name string) bool {
	call, _ := an.CallOf(an.Origin(v))
	if call == nil || !an.IsMethod(call, "net/http", "Header", "Get") {
		return false
	}
	_, args := an.CallArgs(call)
	if len(args) != 1 {
		return false
	}
	s, ok := an.ConstString(args[0])
	return ok && strings.EqualFold(s, name)
}

func isSizeOf(r *Roles, v ssa.Value, sess ssa.Value) bool {
	call, _ := an.CallOf(an.Strip(v))
	return call != nil && r.IsAPI(call, "BlobCreator", "Size") && an.Origin(call.Call.Value) == sess
}

// isExistingSession: the value is an upload session looked up by its id — the result of BlobSession, or of a
// helper of the server package every non-nil result of which is one.
func isExistingSession(c *core.Ctx, r *Roles, sess ssa.Value) bool {
	if sc, _ := an.CallOf(sess); sc != nil && r.IsAPI(sc, "Repo", "BlobSession") {
		return true
	}
	hr := an.HelperReturns(sess, func(h *ssa.Function) bool { return core.FuncPkgPath(h) == c.P.Module })
	found := false
	for _, x := range hr {
		if an.IsNilConst(an.Strip(x.Val)) {
			continue
		}
		sc, _ := an.CallOf(an.Origin(x.Val))
		if sc == nil || !r.IsAPI(sc, "Repo", "BlobSession") {
			return false
		}
		found = true
	}
	return found
}

func runRange(c *core.Ctx) {
	r := requireRoles(c)
	if r == nil {
		return
	}
	checkers := map[*ssa.Function]bool{}
	recordCheckers := map[[2]*ssa.Function]bool{} // (predicate on the parsed record, parser of the header)
	for _, fn := range serverFuncs(c) {
		n := 0
		an.Calls(fn, func(call ssa.CallInstruction) {
			if !isSessionWrite(r, call) {
				return
			}
			var dst ssa.Value
			if r.IsAPI(call, "BlobCreator", "Write") {
				dst = call.Common().Value
			} else {
				dst = call.Common().Args[0]
			}
			sess := an.Origin(dst)
			if !isExistingSession(c, r, sess) {
				return
			}
			n++
			key := fmt.Sprintf("write:%s#%d", kn(c.P.FuncName(fn)), n)
			rangeOK, stateOK := false, false
			for _, g := range an.GuardingEdges(call.Block()) {
				ifi := g.If()
				if bc, trueSucc, ok := an.BoolCallTest(ifi); ok && g.Succ == trueSucc {
					hasHdr, hasSize, viaRecord := false, false, false
					for _, a := range bc.Call.Args {
						if headerGet(a, "content-range") {
							hasHdr = true
						}
						if isSizeOf(r, a, sess) {
							hasSize = true
						}
						if parser := rangeRecordParser(c, a); parser != nil && bc.Call.StaticCallee() != nil {
							hasHdr, viaRecord = true, true
							recordCheckers[[2]*ssa.Function{bc.Call.StaticCallee(), parser}] = true
						}
					}
					if hasHdr && hasSize {
						rangeOK = true
						if callee := bc.Call.StaticCallee(); callee != nil && !viaRecord {
							checkers[callee] = true
						}
					}
				}
				if x, y, op, ok := an.CmpTest(ifi); ok {
					eqSucc := -1
					switch op {
					case token.EQL:
						eqSucc = 0
					case token.NEQ:
						eqSucc = 1
					}
					if eqSucc == g.Succ {
						for _, pair := range [][2]ssa.Value{{x, y}, {y, x}} {
							if isSizeOf(r, pair[1], sess) && decodedField(pair[0]) {
								stateOK = true
							}
						}
					}
				}
				// the checks may have been made by a helper whose verdict this edge tests: the branch edges inside the helper
				// that its accepting result implies, with the helper's parameters standing for the handler's arguments
				for _, fe := range an.ImpliedHelperEdges(g) {
					sizeOfSess := func(v ssa.Value) bool {
						call, _ := an.CallOf(an.Strip(v))
						if call == nil || !r.IsAPI(call, "BlobCreator", "Size") {
							return false
						}
						arg, _ := fe.ArgOf(call.Call.Value)
						return an.Origin(arg) == sess
					}
					if x, y, op, ok := an.CmpTest(fe.If()); ok {
						eqSucc := -1
						switch op {
						case token.EQL:
							eqSucc = 0
						case token.NEQ:
							eqSucc = 1
						}
						if eqSucc == fe.Succ {
							for _, pair := range [][2]ssa.Value{{x, y}, {y, x}} {
								if sizeOfSess(pair[1]) && decodedField(pair[0]) {
									stateOK = true
								}
							}
						}
					}
					if bc, trueSucc, ok := an.BoolCallTest(fe.If()); ok && fe.Succ == trueSucc {
						hasHdr, hasSize, viaRecord := false, false, false
						for _, a := range bc.Call.Args {
							if headerGet(a, "content-range") {
								hasHdr = true
							}
							if sizeOfSess(a) {
								hasSize = true
							}
							// the header parsed into a small record first (rng, err := parseRange(header); rng.follows(size))
							if parser := rangeRecordParser(c, a); parser != nil && bc.Call.StaticCallee() != nil {
								hasHdr, viaRecord = true, true
								recordCheckers[[2]*ssa.Function{bc.Call.StaticCallee(), parser}] = true
							}
						}
						if hasHdr && hasSize {
							rangeOK = true
							if callee := bc.Call.StaticCallee(); callee != nil && !viaRecord {
								checkers[callee] = true
							}
						}
					}
				}
			}
			switch {
			case !rangeOK:
				c.Fail(key, call.Pos(), "the write into the existing session at %s is not dominated by the accepting edge of a Content-Range check against the session's Size(): an out-of-order chunk would be appended", c.P.Pos(call.Pos()))
			case !stateOK:
				c.Fail(key, call.Pos(), "the write into the existing session at %s is not dominated by the equality edge of the decoded state offset against the session's Size(): a stale or future state token would be accepted", c.P.Pos(call.Pos()))
			default:
				c.Pass(key, call.Pos(), "dominated by the Content-Range check and by state offset == Size()")
			}
		})
	}
	for pair := range recordCheckers {
		pred, parser := pair[0], pair[1]
		key := "checker:" + kn(c.P.FuncName(pred)) + "+" + kn(c.P.FuncName(parser))
		if why := rangeRecordProblem(pred, parser); why != "" {
			c.Fail(key, pred.Pos(), "the range check made of %s and %s is not sound: %s — an out-of-order chunk would be appended", c.P.FuncName(parser), c.P.FuncName(pred), why)
		} else {
			c.Pass(key, pred.Pos(), "%s hands out ‘no range’ only for an empty header and the parsed start otherwise; %s accepts only ‘no range’ or start == size", c.P.FuncName(parser), c.P.FuncName(pred))
		}
	}
	for fn := range checkers {
		key := "checker:" + kn(c.P.FuncName(fn))
		// the size parameter: the integer parameter
		var sizeParam *ssa.Parameter
		var hdrParam *ssa.Parameter
		for _, p := range fn.Params {
			if b, ok := p.Type().Underlying().(*types.Basic); ok {
				if b.Info()&types.IsInteger != 0 {
					sizeParam = p
				} else if b.Kind() == types.String {
					hdrParam = p
				}
			}
		}
		if sizeParam == nil || hdrParam == nil {
			c.Undecided(key, fn.Pos(), "range checker does not have the (header string, size integer) form")
			continue
		}
		ok := true
		msg := "returns true only for an empty header or when the parsed start equals the size"
		an.Instrs(fn, func(in ssa.Instruction) {
			ret, isRet := in.(*ssa.Return)
			if !isRet || len(ret.Results) != 1 {
				return
			}
			// collect the blocks from which `true` is returned (through phis)
			var trueBlocks []*ssa.BasicBlock
			switch v := ret.Results[0].(type) {
			case *ssa.Const:
				if v.Value != nil && v.Value.String() == "true" {
					trueBlocks = append(trueBlocks, ret.Block())
				}
			case *ssa.Phi:
				for i, e := range v.Edges {
					if k, isC := e.(*ssa.Const); isC && k.Value != nil && k.Value.String() == "true" {
						trueBlocks = append(trueBlocks, v.Block().Preds[i])
					} else if !isC {
						// `return err == nil && start == size`: the computed operand is true only when the parsed
						// start equals the size
						if bo, isB := e.(*ssa.BinOp); !isB || !startEqSize(bo, sizeParam) {
							ok, msg = false, "returns a computed value"
						}
					}
				}
			case *ssa.BinOp:
				// `return start == size`
				good := startEqSize(v, sizeParam)
				if !good {
					ok, msg = false, "returns a computed value that is not the equality of the parsed start and the size"
				}
			default:
				ok, msg = false, "returns a computed value"
			}
			for _, tb := range trueBlocks {
				good := false
				for _, g := range an.GuardingEdges(tb) {
					x, y, op, isCmp := an.CmpTest(g.If())
					if !isCmp {
						continue
					}
					eqSucc := -1
					switch op {
					case token.EQL:
						eqSucc = 0
					case token.NEQ:
						eqSucc = 1
					}
					if eqSucc != g.Succ {
						continue
					}
					for _, pair := range [][2]ssa.Value{{x, y}, {y, x}} {
						if pair[0] == ssa.Value(hdrParam) {
							if s, isS := an.ConstString(pair[1]); isS && s == "" {
								good = true
							}
						}
						if pair[0] == ssa.Value(sizeParam) {
							if pc, idx := an.CallOf(pair[1]); pc != nil && idx == 0 && (an.IsFunc(pc, "strconv", "ParseInt") || an.IsFunc(pc, "strconv", "ParseUint") || an.IsFunc(pc, "strconv", "Atoi")) {
								good = true
							}
						}
					}
				}
				if !good {
					ok, msg = false, fmt.Sprintf("`return true` in block %d is neither on the empty-header edge nor on the equality edge of the parsed start against the size parameter", tb.Index)
				}
			}
		})
		c.Check(ok, key, fn.Pos(), "range checker %s: %s", c.P.FuncName(fn), msg)
	}
}

// decodedField: v is a field of a local struct that was filled by json.Unmarshal / a json Decoder.
func decodedField(v ssa.Value) bool {
	return decodedFieldDepth(v, 0)
}

// decodedFieldDepth: v is a field of a struct value that was filled by a JSON decode — in this function, or in a
// helper whose result the struct is (the helper's returned struct is the one it decoded into).
func decodedFieldDepth(v ssa.Value, depth int) bool {
	if depth > 2 {
		return false
	}
	var structV ssa.Value
	switch x := an.Strip(v).(type) {
	case *ssa.UnOp:
		if x.Op != token.MUL {
			return false
		}
		fa, ok := x.X.(*ssa.FieldAddr)
		if !ok {
			return false
		}
		structV = fa.X
	case *ssa.Field:
		structV = x.X
	default:
		return false
	}
	decodedInto := func(al *ssa.Alloc) bool {
		if al.Referrers() == nil {
			return false
		}
		for _, ref := range *al.Referrers() {
			if mi, ok := ref.(*ssa.MakeInterface); ok && mi.Referrers() != nil {
				for _, rr := range *mi.Referrers() {
					if call, ok := rr.(*ssa.Call); ok && (an.IsFunc(call, "encoding/json", "Unmarshal") || an.IsMethod(call, "encoding/json", "Decoder", "Decode")) {
						return true
					}
				}
			}
		}
		return false
	}
	if al, ok := structV.(*ssa.Alloc); ok {
		if decodedInto(al) {
			return true
		}
		// a local that holds the struct a helper returned
		if sv := an.SingleStore(al); sv != nil {
			structV = sv
		} else {
			return false
		}
	}
	// the struct is the result of a helper: every non-error return returns a struct it decoded into
	hr := an.HelperReturns(structV, nil)
	if len(hr) == 0 {
		return false
	}
	for _, x := range hr {
		ok := false
		val := an.Strip(x.Val)
		if ld, isLoad := val.(*ssa.UnOp); isLoad && ld.Op == token.MUL {
			if al, isAl := ld.X.(*ssa.Alloc); isAl && decodedInto(al) {
				ok = true
			}
		}
		if !ok {
			return false
		}
	}
	return true
}

// ---- TS-ROGUARD / TB-ROUTE ----

// fieldPath returns the field names selected from the root object, e.g. [conf Storage ReadOnly] for
// *s.conf.Storage.ReadOnly (loads and address computations are looked through).
func fieldPath(v ssa.Value) []string {
	var rev []string
	for i := 0; i < 16; i++ {
		switch x := v.(type) {
		case *ssa.UnOp:
			if x.Op != token.MUL {
				return nil
			}
			v = x.X
		case *ssa.FieldAddr:
			st := an.Deref(x.X.Type()).Underlying().(*types.Struct)
			rev = append(rev, st.Field(x.Field).Name())
			v = x.X
		case *ssa.Field:
			st := x.X.Type().Underlying().(*types.Struct)
			rev = append(rev, st.Field(x.Field).Name())
			v = x.X
		case *ssa.Call:
			// a small accessor of the analysed program that hands out a setting (dr.readOnly()): every return is the read of one
			// and the same path
			if len(rev) == 0 {
				if p := accessorPath(x); p != nil {
					return p
				}
			}
			return nil
		case *ssa.Alloc:
			// a local copy of a part of the configuration (api := s.conf.API) that is only read afterwards
			if src := readOnlyCopy(x); src != nil {
				v = src
				continue
			}
			out := make([]string, len(rev))
			for i := range rev {
				out[i] = rev[len(rev)-1-i]
			}
			return out
		default:
			out := make([]string, len(rev))
			for i := range rev {
				out[i] = rev[len(rev)-1-i]
			}
			return out
		}
	}
	return nil
}

// accessorPath: call is a static call, without arguments besides the receiver, of a function with a body whose returns
// all read the same field path: that path.
func accessorPath(call *ssa.Call) []string {
	h := call.Call.StaticCallee()
	if h == nil || len(h.Blocks) == 0 || len(h.Blocks) > 2 || h.Signature.Results().Len() != 1 || len(call.Call.Args) > 1 || isStdlib(core.FuncPkgPath(h)) {
		return nil
	}
	var path []string
	n := 0
	for _, b := range h.Blocks {
		if len(b.Instrs) == 0 {
			continue
		}
		ret, ok := b.Instrs[len(b.Instrs)-1].(*ssa.Return)
		if !ok || len(ret.Results) != 1 {
			continue
		}
		if _, isCall := ret.Results[0].(*ssa.Call); isCall {
			return nil
		}
		p := fieldPath(ret.Results[0])
		if len(p) == 0 || (n > 0 && strings.Join(p, ".") != strings.Join(path, ".")) {
			return nil
		}
		path = p
		n++
	}
	if n == 0 {
		return nil
	}
	return path
}

// readOnlyCopy: the local struct variable is assigned exactly once, as a whole, from a load, and afterwards only read
// (its fields loaded, possibly through nested field addresses): the value it was copied from.
func readOnlyCopy(al *ssa.Alloc) ssa.Value {
	if _, isStruct := an.Deref(al.Type()).Underlying().(*types.Struct); !isStruct {
		return nil
	}
	src := an.SingleStore(al)
	if src == nil {
		return nil
	}
	if ld, ok := src.(*ssa.UnOp); !ok || ld.Op != token.MUL {
		return nil
	}
	var onlyRead func(v ssa.Value, depth int) bool
	onlyRead = func(v ssa.Value, depth int) bool {
		if v.Referrers() == nil || depth > 6 {
			return false
		}
		for _, ref := range *v.Referrers() {
			switch x := ref.(type) {
			case *ssa.FieldAddr:
				if !onlyRead(x, depth+1) {
					return false
				}
			case *ssa.UnOp:
				if x.Op != token.MUL {
					return false
				}
			case *ssa.DebugRef:
			case *ssa.Store:
				if x.Addr != ssa.Value(al) || v != ssa.Value(al) {
					return false
				}
			default:
				return false
			}
		}
		return true
	}
	if !onlyRead(al, 0) {
		return nil
	}
	return src
}

func pathEndsWith(p []string, suffix ...string) bool {
	if len(p) < len(suffix) {
		return false
	}
	for i := range suffix {
		if p[len(p)-len(suffix)+i] != suffix[i] {
			return false
		}
	}
	return true
}

// settingGuards returns the settings (dotted path below conf) whose true / false edge dominates block b.
func settingGuards(b *ssa.BasicBlock) (trueOf, falseOf map[string]bool) {
	trueOf, falseOf = map[string]bool{}, map[string]bool{}
	for _, g := range an.GuardingEdges(b) {
		ifi := g.If()
		base, neg := an.CondBase(ifi.Cond)
		p := fieldPath(base)
		if len(p) < 2 {
			continue
		}
		// drop everything up to and including the configuration field
		idx := -1
		for i, s := range p {
			if s == "conf" {
				idx = i
			}
		}
		name := strings.Join(p[idx+1:], ".")
		isTrue := (g.Succ == 0) != neg
		if isTrue {
			trueOf[name] = true
		} else {
			falseOf[name] = true
		}
	}
	return
}

func runROGuard(c *core.Ctx) {
	r := requireRoles(c)
	if r == nil {
		return
	}
	// guardedAt: the call site is dominated by the false edge of the read-only test, whose true edge refuses
	var guardedAt func(site ssa.Instruction, depth int) (bool, string)
	guardedAt = func(site ssa.Instruction, depth int) (bool, string) {
		fn := site.Parent()
		for _, g := range an.GuardingEdges(site.Block()) {
			ifi := g.If()
			base, neg := an.CondBase(ifi.Cond)
			if !pathEndsWith(fieldPath(base), "Storage", "ReadOnly") {
				continue
			}
			falseSucc := 1
			if neg {
				falseSucc = 0
			}
			if g.Succ != falseSucc {
				continue
			}
			// the true edge answers 4xx and returns
			refuses := false
			tb := g.From.Succs[1-falseSucc]
			for _, in := range tb.Instrs {
				if call, ok := in.(ssa.CallInstruction); ok {
					if st, ok := writeHeaderStatus(call); ok && st >= 400 && st < 500 {
						refuses = true
					}
				}
			}
			_, endsInReturn := tb.Instrs[len(tb.Instrs)-1].(*ssa.Return)
			if refuses && endsInReturn {
				return true, "guarded in " + c.P.FuncName(fn)
			}
		}
		if depth > 3 {
			return false, "call depth exceeded"
		}
		// every call site of this function must be guarded
		var sites []ssa.Instruction
		if fn.Parent() != nil {
			// closure: called where it is created (immediately invoked) — otherwise it is an http handler: a root
			par := fn.Parent()
			an.Instrs(par, func(in ssa.Instruction) {
				if call, ok := in.(*ssa.Call); ok {
					if mc, ok := call.Call.Value.(*ssa.MakeClosure); ok && mc.Fn == fn {
						sites = append(sites, call)
					}
					// the handler is handed to a wrapper of the package (middleware): it runs where the wrapper calls
					// the function it was given
					if w := call.Call.StaticCallee(); w != nil && core.FuncPkgPath(w) == c.P.Module && len(w.Blocks) > 0 {
						for i, a := range call.Call.Args {
							mc, ok := an.Strip(a).(*ssa.MakeClosure)
							if !ok || mc.Fn != fn || i >= len(w.Params) {
								continue
							}
							param := w.Params[i]
							found := false
							clean := true
							for _, wf := range an.WithAnon(w) {
								an.Instrs(wf, func(in2 ssa.Instruction) {
									ci, ok := in2.(ssa.CallInstruction)
									if !ok {
										return
									}
									isParam := func(v ssa.Value) bool {
										o := an.Origin(v)
										if fv, ok := o.(*ssa.FreeVar); ok {
											if b := an.FreeVarBinding(fv); b != nil {
												o = an.Origin(b)
											}
										}
										return o == ssa.Value(param)
									}
									if isParam(ci.Common().Value) {
										if _, isCall := ci.(*ssa.Call); isCall {
											sites = append(sites, ci)
											found = true
										} else {
											clean = false // go / defer of the handler
										}
										return
									}
									for _, ca := range ci.Common().Args {
										if isParam(ca) {
											clean = false // handed on: where it runs is not known
										}
									}
								})
							}
							if !found || !clean {
								sites = append(sites, call) // not decided: judged at the (unguarded) hand-over
							}
						}
					}
				}
			})
		} else {
			for _, s := range c.P.Callers(fn) {
				if core.FuncPkgPath(s.Parent()) == c.P.Module {
					sites = append(sites, s)
				}
			}
		}
		if len(sites) == 0 {
			return false, fmt.Sprintf("%s has no read-only guard in front of the call and is entered directly", c.P.FuncName(fn))
		}
		for _, s := range sites {
			if ok, why := guardedAt(s, depth+1); !ok {
				return false, why
			}
		}
		return true, "guarded at every call site of " + c.P.FuncName(fn)
	}
	for _, fn := range serverFuncs(c) {
		n := 0
		an.Calls(fn, func(call ssa.CallInstruction) {
			if !repoMutatorCall(r, call) {
				return
			}
			n++
			_, m, _ := r.API(call)
			key := fmt.Sprintf("mutator:%s|%s#%d", kn(c.P.FuncName(fn)), m, n)
			ok, why := guardedAt(call, 0)
			if ok {
				c.Pass(key, call.Pos(), "%s", why)
			} else {
				c.Fail(key, call.Pos(), "%s at %s can run with read-only storage: %s (the request must be refused with a 4xx before any store call)", m, c.P.Pos(call.Pos()), why)
			}
		})
	}
}

func runRoute(c *core.Ctx) {
	r := requireRoles(c)
	if r == nil {
		return
	}
	reaches := func(fn *ssa.Function, methods ...string) bool {
		seen := map[*ssa.Function]bool{}
		var walk func(f *ssa.Function, d int) bool
		walk = func(f *ssa.Function, d int) bool {
			if seen[f] || d > 8 || f.Blocks == nil {
				return false
			}
			seen[f] = true
			found := false
			an.Calls(f, func(call ssa.CallInstruction) {
				if r.IsAPI(call, "Repo", methods...) {
					found = true
				}
				if cal := localCallee(c, call); cal != nil && walk(cal, d+1) {
					found = true
				}
			})
			for _, a := range f.AnonFuncs {
				if walk(a, d+1) {
					found = true
				}
			}
			return found
		}
		return walk(fn, 0)
	}
	usesField := func(fn *ssa.Function, field string) bool {
		found := false
		for _, f := range an.WithAnon(fn) {
			an.Instrs(f, func(in ssa.Instruction) {
				if fa, ok := in.(*ssa.FieldAddr); ok {
					st := an.Deref(fa.X.Type()).Underlying().(*types.Struct)
					if st.Field(fa.Field).Name() == field && an.NamedOf(fa.X.Type()) == r.Server {
						found = true
					}
				}
			})
		}
		return found
	}
	n := 0
	// routing functions: the router and the methods of the server it hands the request on to (sub-routers); a sub-router
	// inherits the setting guards common to all the places the router calls it from
	type routeFn struct {
		fn        *ssa.Function
		inherited map[string]bool
	}
	routers := []routeFn{{r.Dispatch, map[string]bool{}}}
	subCalls := map[*ssa.Function][]ssa.CallInstruction{}
	an.Calls(r.Dispatch, func(call ssa.CallInstruction) {
		sc := call.Common().StaticCallee()
		if sc == nil || sc == r.Dispatch || core.FuncPkgPath(sc) != c.P.Module || sc.Signature.Recv() == nil || an.NamedOf(an.Deref(sc.Signature.Recv().Type())) != r.Server {
			return
		}
		// a routing step of its own: it answers itself (takes the response writer, returns nothing), or it picks the handler
		// for one kind of resource (returns an http.Handler — not the HandlerFunc a handler constructor returns)
		if sc.Signature.Results().Len() == 1 && isNamed(sc.Signature.Results().At(0).Type(), "net/http", "Handler") {
			subCalls[sc] = append(subCalls[sc], call)
			return
		}
		if sc.Signature.Results().Len() != 0 {
			return
		}
		hasW := false
		for _, p := range sc.Params {
			if isNamed(p.Type(), "net/http", "ResponseWriter") {
				hasW = true
			}
		}
		if hasW {
			subCalls[sc] = append(subCalls[sc], call)
		}
	})
	var subs []*ssa.Function
	for f := range subCalls {
		subs = append(subs, f)
	}
	sort.Slice(subs, func(i, j int) bool { return subs[i].Name() < subs[j].Name() })
	for _, f := range subs {
		var inh map[string]bool
		for _, site := range subCalls[f] {
			t, _ := settingGuards(site.Block())
			if inh == nil {
				inh = t
				continue
			}
			for k := range inh {
				if !t[k] {
					delete(inh, k)
				}
			}
		}
		routers = append(routers, routeFn{f, inh})
	}
	for _, rf := range routers {
		rf := rf
		an.Calls(rf.fn, func(call ssa.CallInstruction) {
			callee := call.Common().StaticCallee()
			if callee == nil || core.FuncPkgPath(callee) != c.P.Module || callee.Signature.Recv() == nil {
				return
			}
			res := callee.Signature.Results()
			if res.Len() != 1 || !isNamed(res.At(0).Type(), "net/http", "HandlerFunc") {
				return
			}
			n++
			var need []string
			switch {
			case reaches(callee, "BlobDelete"):
				need = []string{"API.DeleteEnabled", "API.Blob.DeleteEnabled"}
			case reaches(callee, "IndexRemove"):
				need = []string{"API.DeleteEnabled"}
			case mutates(c, callee, false) || anyAnonMutates(c, callee):
				need = []string{"API.PushEnabled"}
			case usesField(callee, "referrerCache"):
				need = []string{"API.Referrer.Enabled"}
			}
			key := "route:" + kn(c.P.FuncName(callee))
			trueOf, _ := settingGuards(call.Block())
			for k := range rf.inherited {
				trueOf[k] = true
			}
			var missing []string
			for _, s := range need {
				if !trueOf[s] {
					missing = append(missing, s)
				}
			}
			var have []string
			for s := range trueOf {
				have = append(have, s)
			}
			sort.Strings(have)
			if len(missing) > 0 {
				c.Fail(key, call.Pos(), "the router reaches %s without the true edge of %v (guards present: %v): the handler runs although the documented switch is off", c.P.FuncName(callee), missing, have)
			} else {
				c.Pass(key, call.Pos(), "requires %v; guarded by %v", need, have)
			}
		})
	}
	if n == 0 {
		c.Unresolved("router", "no handler constructor calls found in the router")
	}
}

func anyAnonMutates(c *core.Ctx, fn *ssa.Function) bool {
	for _, a := range an.WithAnon(fn) {
		if mutates(c, a, false) {
			return true
		}
	}
	return false
}

func init() {
	register(&Rule{ID: "TS-SHUTDOWN", Floor: 1,
		Doc: "in the server's Shutdown every return on the ok-edge of the HTTP server's Shutdown has closed the store (or the store field was nil)",
		Run: func(c *core.Ctx) {
			r := requireRoles(c)
			if r == nil {
				return
			}
			n := 0
			for _, fn := range serverFuncs(c) {
				var hs *ssa.Call
				an.Calls(fn, func(call ssa.CallInstruction) {
					if cc, ok := call.(*ssa.Call); ok && an.IsMethod(call, "net/http", "Server", "Shutdown") {
						hs = cc
					}
				})
				if hs == nil {
					continue
				}
				n++
				type st struct{ ok, closed, nilStore bool }
				bad := ""
				// closesStore: every return of the function has closed the store or found the store field nil
				var closesStore func(f *ssa.Function, depth int) bool
				closesStore = func(f *ssa.Function, depth int) bool {
					if f == nil || len(f.Blocks) == 0 || depth > 2 {
						return false
					}
					good, nret := true, 0
					an.Paths(an.PathSpec[st]{Fn: f, Init: st{},
						Instr: func(s st, in ssa.Instruction) []st {
							switch x := in.(type) {
							case *ssa.Call:
								if r.IsAPI(x, "Store", "Close") {
									s.closed = true
								}
								if sc := x.Call.StaticCallee(); sc != nil && sc != f && core.FuncPkgPath(sc) == c.P.Module && closesStore(sc, depth+1) {
									s.closed = true
								}
							case *ssa.Return:
								nret++
								if !s.closed && !s.nilStore {
									good = false
								}
							}
							return []st{s}
						},
						Edge: func(s st, from *ssa.BasicBlock, succ int) (st, bool) {
							if ifi := an.BlockIf(from); ifi != nil {
								if x, nilSucc, ok := an.NilTest(ifi); ok {
									if _, p := accessPath(an.Strip(x)); len(p) > 0 && p[len(p)-1] == "store" && succ == nilSucc {
										s.nilStore = true
									}
								}
							}
							return s, true
						}})
					return good && nret > 0
				}
				an.Paths(an.PathSpec[st]{Fn: fn, Init: st{},
					Instr: func(s st, in ssa.Instruction) []st {
						switch x := in.(type) {
						case *ssa.Call:
							if r.IsAPI(x, "Store", "Close") {
								s.closed = true
							}
							if sc := x.Call.StaticCallee(); sc != nil && sc != fn && sc.Parent() == nil && core.FuncPkgPath(sc) == c.P.Module && closesStore(sc, 0) {
								s.closed = true
							}
						case *ssa.Return:
							if s.ok && !s.closed && !s.nilStore && bad == "" {
								bad = fmt.Sprintf("the return at %s is reachable after a successful HTTP shutdown without closing the store: background collection keeps running and upload sessions are not cleaned up", c.P.Pos(x.Pos()))
							}
						}
						return []st{s}
					},
					Edge: func(s st, from *ssa.BasicBlock, succ int) (st, bool) {
						if ifi := an.BlockIf(from); ifi != nil {
							if x, nilSucc, ok := an.NilTest(ifi); ok {
								if x == ssa.Value(hs) && succ == nilSucc {
									s.ok = true
								}
								if _, p := accessPath(an.Strip(x)); len(p) > 0 && p[len(p)-1] == "store" && succ == nilSucc {
									s.nilStore = true
								}
							}
						}
						return s, true
					}})
				c.Check(bad == "", "shutdown-closes-store:"+kn(c.P.FuncName(fn)), hs.Pos(), "%s", map[bool]string{true: "the store is closed on every path after a successful HTTP shutdown", false: bad}[bad == ""])
			}
			if n == 0 {
				c.Unresolved("shutdown", "no function calling (*http.Server).Shutdown found")
			}
		}})
}

// handlerTags classifies a function of the server package by role: "push" (the manifest push handler and
// what it contains), "upload" (functions that create, look up or feed upload sessions), "delete"
// (functions reaching IndexRemove / BlobDelete), "referrer" (the referrers update helpers), "read".
func handlerTags(c *core.Ctx, r *Roles, fn *ssa.Function) []string {
	top := fn
	var tags []string
	if ph := findPushHandler(c); ph != nil {
		for f := fn; f != nil; f = f.Parent() {
			if f == ph.hs.fn {
				tags = append(tags, "push")
			}
		}
	}
	for _, h := range referrerHelpers(c) {
		if h == top {
			tags = append(tags, "referrer")
			continue
		}
		// the step of a referrers update that stores the response, split out of the helper
		// (directly, or through at most two more steps of the same package)
		isCallee := false
		var walkCallees func(f *ssa.Function, depth int, seen map[*ssa.Function]bool)
		walkCallees = func(f *ssa.Function, depth int, seen map[*ssa.Function]bool) {
			if seen[f] || depth > 3 || isCallee {
				return
			}
			seen[f] = true
			an.Calls(f, func(call ssa.CallInstruction) {
				g := call.Common().StaticCallee()
				if g == nil {
					return
				}
				if g == top {
					isCallee = true
					return
				}
				if g.Pkg == h.Pkg && len(g.Blocks) > 0 && g.Parent() == nil {
					walkCallees(g, depth+1, seen)
				}
			})
		}
		walkCallees(h, 1, map[*ssa.Function]bool{})
		storesBlob := false
		if isCallee {
			an.Calls(top, func(call ssa.CallInstruction) {
				if isBlobCreate(r, call) {
					storesBlob = true
				}
			})
		}
		if isCallee && top.Parent() == nil && (storesBlob || reachesAPI(c, r, top, "Repo", "IndexInsert", 0, map[*ssa.Function]bool{})) {
			dup := false
			for _, t := range tags {
				if t == "referrer" {
					dup = true
				}
			}
			if !dup {
				tags = append(tags, "referrer")
			}
		}
	}
	session, del := false, false
	an.Calls(fn, func(call ssa.CallInstruction) {
		if r.IsAPI(call, "Repo", "BlobSession") || r.IsAPI(call, "BlobCreator", "Verify", "Cancel", "ChangeAlgorithm") {
			session = true
		}
		if r.IsAPI(call, "Repo", "IndexRemove", "BlobDelete") {
			del = true
		}
	})
	hasTag := func(t string) bool {
		for _, x := range tags {
			if x == t {
				return true
			}
		}
		return false
	}
	if !hasTag("push") && !hasTag("referrer") {
		an.Calls(fn, func(call ssa.CallInstruction) {
			if isBlobCreate(r, call) {
				session = true
			}
		})
	}
	if session {
		tags = append(tags, "upload")
	}
	if del {
		tags = append(tags, "delete")
	}
	if len(tags) == 0 {
		tags = append(tags, "read")
	}
	return tags
}

func init() {
	register(&Rule{ID: "TS-CONF-LIST", Floor: 1,
		Doc: "every list-valued configuration setting that the server turns into response headers is applied element by element with an accumulating call: in the loop over the list the header is written with Header.Add, never with Header.Set under a loop-invariant key (Set keeps only the last element, so all but one configured value lose their effect)",
		Run: func(c *core.Ctx) {
			n := 0
			for _, fn := range c.P.Funcs("") {
				for _, b := range fn.Blocks {
					for _, in := range b.Instrs {
						ia, ok := in.(*ssa.IndexAddr)
						if !ok {
							continue
						}
						// the list: a field of the configuration, or a parameter of a step that is handed one
						// (`setCommonHeaders(h, s.conf.API.Warnings)`)
						list := ia.X
						if _, isParam := an.Origin(list).(*ssa.Parameter); isParam {
							list = resolveAcross(c, list, 0)
						}
						root, pth := accessPath(an.Strip(list))
						if len(pth) == 0 || root == nil {
							continue
						}
						// the slice is a field of a struct declared in the config package
						fieldName := pth[len(pth)-1]
						if fieldName == "[]" || !fieldOfConfig(c, list) {
							continue
						}
						h := loopHeader(b)
						if h == nil {
							continue
						}
						// element value and everything derived from it
						derived := map[ssa.Value]bool{}
						var flow func(v ssa.Value, d int)
						flow = func(v ssa.Value, d int) {
							if derived[v] || d > 8 || v.Referrers() == nil {
								return
							}
							derived[v] = true
							for _, ref := range *v.Referrers() {
								switch x := ref.(type) {
								case *ssa.UnOp:
									flow(x, d+1)
								case *ssa.BinOp:
									flow(x, d+1)
								case *ssa.Convert:
									flow(x, d+1)
								case *ssa.ChangeType:
									flow(x, d+1)
								case *ssa.Phi:
									flow(x, d+1)
								case *ssa.MakeInterface:
									flow(x, d+1)
								}
							}
						}
						flow(ia, 0)
						var adds, sets []ssa.CallInstruction
						for _, lb := range fn.Blocks {
							if !(an.BlockReaches(h, lb) && an.BlockReaches(lb, h)) {
								continue
							}
							for _, li := range lb.Instrs {
								call, ok := li.(ssa.CallInstruction)
								if !ok {
									continue
								}
								isAdd := an.IsMethod(call, "net/http", "Header", "Add")
								isSet := an.IsMethod(call, "net/http", "Header", "Set")
								if !isAdd && !isSet {
									continue
								}
								_, args := an.CallArgs(call)
								if len(args) != 2 || !derived[args[1]] {
									continue
								}
								if isAdd {
									adds = append(adds, call)
								} else if _, constKey := an.Strip(args[0]).(*ssa.Const); constKey || !derived[args[0]] {
									sets = append(sets, call)
								}
							}
						}
						if len(adds)+len(sets) == 0 {
							continue
						}
						n++
						key := fmt.Sprintf("list:%s|%s", fieldName, kn(c.P.FuncName(fn)))
						if len(sets) > 0 {
							c.Fail(key, sets[0].Pos(), "the loop over the configured list %s in %s writes the header with Set at %s: each element overwrites the previous one and only the last configured value is sent", fieldName, c.P.FuncName(fn), c.P.Pos(sets[0].Pos()))
						} else {
							c.Pass(key, adds[0].Pos(), "every element of the configured list %s is added to the response headers (Header.Add in the loop at %s)", fieldName, c.P.Pos(adds[0].Pos()))
						}
					}
				}
			}
			if n == 0 {
				c.Unresolved("lists", "no loop turning a list-valued configuration setting into response headers was found")
			}
		}})
}

// fieldOfConfig: v is (a load of) a field of a struct type declared in the config package.
func fieldOfConfig(c *core.Ctx, v ssa.Value) bool {
	v = an.Strip(v)
	for i := 0; i < 6; i++ {
		switch x := v.(type) {
		case *ssa.UnOp:
			v = x.X
			continue
		case *ssa.FieldAddr:
			n := an.NamedOf(an.Deref(x.X.Type()))
			return n != nil && n.Obj().Pkg() != nil && n.Obj().Pkg().Path() == c.P.Module+"/config"
		case *ssa.Field:
			n := an.NamedOf(x.X.Type())
			return n != nil && n.Obj().Pkg() != nil && n.Obj().Pkg().Path() == c.P.Module+"/config"
		}
		return false
	}
	return false
}

func init() {
	register(&Rule{ID: "SH-RANGE-HDR", Floor: 4,
		Doc: "every Range header an upload handler writes reports the bytes received: its value is formatted from the session's Size() minus one (end offsets are inclusive), at every site alike (sibling agreement of the status, chunk and refusal answers)",
		Run: func(c *core.Ctx) {
			r := requireRoles(c)
			if r == nil {
				return
			}
			// a number reported after bytes were written into the session is read after that write
			staleAt := func(fn *ssa.Function, site ssa.Instruction, size *ssa.Call) bool {
				stale := false
				an.Calls(fn, func(w ssa.CallInstruction) {
					if isSessionWrite(r, w) && an.Reaches(w, site) && !an.Reaches(w, size) {
						stale = true
					}
				})
				return stale
			}
			n := 0
			for _, fn := range serverFuncs(c) {
				k := 0
				an.Calls(fn, func(call ssa.CallInstruction) {
					if !an.IsMethod(call, "net/http", "Header", "Add") && !an.IsMethod(call, "net/http", "Header", "Set") {
						return
					}
					_, args := an.CallArgs(call)
					if len(args) != 2 {
						return
					}
					key, ok := an.ConstString(args[0])
					if !ok || !strings.EqualFold(key, "range") {
						return
					}
					n++
					k++
					okey := fmt.Sprintf("range:%s#%d", kn(c.P.FuncName(fn)), k)
					sp, _ := an.CallOf(args[1])
					if sp == nil || !an.IsFunc(sp, "fmt", "Sprintf") || len(sp.Call.Args) != 2 {
						c.Undecided(okey, call.Pos(), "the Range header written at %s is not built by a single Sprintf", c.P.Pos(call.Pos()))
						return
					}
					vals := orderedVariadic(sp.Call.Args[1])
					good := false
					if len(vals) == 1 {
						v := an.Strip(vals[0])
						if mi, ok := v.(*ssa.MakeInterface); ok {
							v = an.Strip(mi.X)
						}
						if bo, ok := v.(*ssa.BinOp); ok && bo.Op == token.SUB {
							if one, isC := an.ConstInt(bo.Y); isC && one == 1 {
								if sz, _ := an.CallOf(an.Origin(bo.X)); sz != nil && r.IsAPI(sz, "BlobCreator", "Size") {
									good = !staleAt(fn, call, sz)
								}
							}
						}
					}
					c.Check(good, okey, call.Pos(), "the Range header written at %s reports ‘0-’ + (session Size() − 1), read after any write of this request: %v — any other value tells the client a different number of bytes than the session holds", c.P.Pos(call.Pos()), good)
				})
			}
			if n == 0 {
				c.Unresolved("range-headers", "no Range header written by the handlers")
			}
			// the state token handed out with a Location carries the same number: every state value that is marshalled
			// has its Offset set to the session's Size() (or to the constant 0 of a session just created)
			for _, fn := range serverFuncs(c) {
				k := 0
				an.Calls(fn, func(call ssa.CallInstruction) {
					if !an.IsFunc(call, "encoding/json", "Marshal") || len(call.Common().Args) != 1 {
						return
					}
					mi, ok := call.Common().Args[0].(*ssa.MakeInterface)
					if !ok {
						return
					}
					st, ok := mi.X.Type().Underlying().(*types.Struct)
					if !ok || st.NumFields() == 0 {
						return
					}
					hasOffset := false
					for i := 0; i < st.NumFields(); i++ {
						if st.Field(i).Name() == "Offset" {
							hasOffset = true
						}
					}
					if !hasOffset || core.FuncPkgPath(fn) != c.P.Module {
						return
					}
					if nt := an.NamedOf(mi.X.Type()); nt == nil || nt.Obj().Pkg() == nil || nt.Obj().Pkg().Path() != c.P.Module {
						return
					}
					k++
					okey := fmt.Sprintf("state:%s#%d", kn(c.P.FuncName(fn)), k)
					// the struct is a parameter of an encoding helper: what every caller passes
					if p, isParam := an.Origin(mi.X).(*ssa.Parameter); isParam && p.Parent() == fn {
						pi := -1
						for i, q := range fn.Params {
							if q == p {
								pi = i
							}
						}
						// every caller passes a state whose Offset is the session's size; a caller that is itself a helper handing
						// on its own parameter is followed to its callers
						var goodAt func(h *ssa.Function, pi, depth int) bool
						goodAt = func(h *ssa.Function, pi, depth int) bool {
							sites := c.P.Callers(h)
							if len(sites) == 0 || pi < 0 || depth > 3 {
								return false
							}
							for _, site := range sites {
								cc := site.Common()
								// the pointer-receiver wrapper go/ssa synthesises for a value method is no caller unless something calls it
								if site.Parent().Synthetic != "" && len(c.P.Callers(site.Parent())) == 0 {
									continue
								}
								if cc.StaticCallee() != h || pi >= len(cc.Args) {
									return false
								}
								if q, isP := an.Origin(cc.Args[pi]).(*ssa.Parameter); isP && q.Parent() == site.Parent() {
									qi := -1
									for i, x := range site.Parent().Params {
										if x == q {
											qi = i
										}
									}
									if !goodAt(site.Parent(), qi, depth+1) {
										return false
									}
									continue
								}
								vals := structStores(an.Strip(cc.Args[pi]))["Offset"]
								if len(vals) != 1 {
									return false
								}
								for _, v := range vals {
									if z, isC := an.ConstInt(v); isC && z == 0 {
										continue
									}
									if sz, _ := an.CallOf(an.Origin(v)); sz != nil && r.IsAPI(sz, "BlobCreator", "Size") && !staleAt(site.Parent(), site, sz) {
										continue
									}
									return false
								}
							}
							return true
						}
						good := goodAt(fn, pi, 0)
						c.Check(good, okey, call.Pos(), "the state token marshalled at %s (in a helper) carries, at every call site, Offset = the session's Size() (or 0 for a new session): %v — the next chunk is checked against that number", c.P.Pos(call.Pos()), good)
						return
					}
					vals := structStores(an.Strip(mi.X))["Offset"]
					good := len(vals) == 1
					for _, v := range vals {
						if z, isC := an.ConstInt(v); isC && z == 0 {
							continue
						}
						if sz, _ := an.CallOf(an.Origin(v)); sz != nil && r.IsAPI(sz, "BlobCreator", "Size") {
							if !staleAt(fn, call, sz) {
								continue
							}
						}
						good = false
					}
					c.Check(good, okey, call.Pos(), "the state token marshalled at %s carries Offset = the session's Size() (or 0 for a new session): %v — the next chunk is checked against that number", c.P.Pos(call.Pos()), good)
				})
			}
		}})
}
