package rules

import (
	"go/token"
	"go/types"
	"strings"

	"golang.org/x/tools/go/ssa"

	"olacheck/an"
	"olacheck/core"
)

// TS-OPT-GUARD: the limits of the caches the stores build (the age after which an idle upload session or an unused
// repository is dropped, the number of sessions kept) are taken from settings, each behind a test of a setting being
// positive.  The test and the value must be the same setting: a limit applied when some other setting is positive is
// silently absent in the configurations where the two differ in sign.
func init() {
	register(&Rule{ID: "TS-OPT-GUARD", Floor: 2,
		Doc: "where a store assigns a setting to a limit of a cache it builds (Opts.Age, Opts.Count) behind a comparison of a setting with zero, the setting compared is the setting assigned: the limit is in force exactly when the operator configured it",
		Run: func(c *core.Ctx) {
			r := requireRoles(c)
			if r == nil {
				return
			}
			confPath := func(v ssa.Value) string {
				p := fieldPath(an.Strip(v))
				idx := -1
				for i, s := range p {
					if s == "conf" {
						idx = i
					}
				}
				if idx >= 0 && idx+1 < len(p) {
					return strings.Join(p[idx+1:], ".")
				}
				if idx >= 0 || len(p) == 0 {
					return ""
				}
				// the configuration (or a part of it) handed to a shared step as a parameter: the path below that value
				root := an.Strip(v)
				for i := 0; i < 16; i++ {
					switch x := root.(type) {
					case *ssa.UnOp:
						root = x.X
						continue
					case *ssa.FieldAddr:
						root = x.X
						continue
					case *ssa.Field:
						root = x.X
						continue
					case *ssa.Alloc:
						if src := readOnlyCopy(x); src != nil {
							root = src
							continue
						}
					}
					break
				}
				if named := an.NamedOf(an.Deref(root.Type())); named != nil && named.Obj().Pkg() != nil && named.Obj().Pkg().Path() == r.ConfigPath {
					return named.Obj().Name() + ":" + strings.Join(p, ".")
				}
				return ""
			}
			for _, fn := range c.P.Funcs("internal/store") {
				n := 0
				an.Instrs(fn, func(in ssa.Instruction) {
					st, ok := in.(*ssa.Store)
					if !ok {
						return
					}
					fa, ok := st.Addr.(*ssa.FieldAddr)
					if !ok {
						return
					}
					named := an.NamedOf(an.Deref(fa.X.Type()))
					if named == nil || named.Obj().Pkg() == nil || named.Obj().Pkg().Path() != r.CachePath || named.Obj().Name() != "Opts" {
						return
					}
					sst, ok := named.Underlying().(*types.Struct)
					if !ok {
						return
					}
					field := sst.Field(fa.Field).Name()
					val := st.Val
					if cv, isConv := an.Strip(val).(*ssa.Convert); isConv {
						val = cv.X
					}
					assigned := confPath(val)
					if assigned == "" {
						return
					}
					var compared []string
					for _, g := range an.GuardingEdges(st.Block()) {
						x, y, op, isCmp := an.CmpTest(g.If())
						if !isCmp {
							continue
						}
						if _, isC := an.Strip(x).(*ssa.Const); isC {
							x, y = y, x
						}
						if _, isC := an.Strip(y).(*ssa.Const); !isC {
							continue
						}
						switch op {
						case token.GTR, token.LSS, token.GEQ, token.LEQ, token.NEQ, token.EQL:
						default:
							continue
						}
						if cv, isConv := an.Strip(x).(*ssa.Convert); isConv {
							x = cv.X
						}
						if q := confPath(x); q != "" {
							compared = append(compared, q)
						}
					}
					if len(compared) == 0 {
						return
					}
					n++
					agrees := false
					for _, q := range compared {
						if q == assigned {
							agrees = true
						}
					}
					key := "limit:" + kn(c.P.FuncName(fn)) + "|" + field
					c.Check(agrees, key, st.Pos(), "the cache limit %s is taken from the setting %s behind a test of %s: %v — with another setting tested the limit is missing whenever the two settings differ in sign (idle upload sessions then never expire, or the session count is unbounded)", field, assigned, strings.Join(compared, ", "), agrees)
				})
				_ = n
			}
		}})
}
