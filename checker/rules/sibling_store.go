package rules

import (
	"fmt"
	"go/token"
	"go/types"
	"sort"
	"strings"

	"golang.org/x/tools/go/ssa"

	"olacheck/an"
	"olacheck/core"
)

// SH-SIBLING-STORE: the two stores implement one interface; for every method both implement, a small
// vector of structural features must agree, except where the difference is a confirmed consequence of
// the stores being of different kinds (frozen table, one line of reason each).

func init() {
	register(&Rule{ID: "SH-SIBLING-STORE", Floor: 60,
		Doc: "cross-check of the directory and memory store: for every method of the store, repository and upload types that both stores implement, the features ‘validates its digest argument’, ‘refuses when read-only’, ‘set of sentinel errors it can return’, ‘tests the stop channel’ agree, except for the frozen list of differences that follow from one store persisting and the other not",
		Run: runSiblingStore})
}

// siblingExceptions: method|feature -> reason. Confirmed by reading both implementations.
var siblingExceptions = map[string]string{
	"repo.IndexGet|sentinels":          "dir=ErrNotFound mem= — only the directory store loads the index from disk on demand and can find that the repository does not exist",
	"repo.BlobCreate|validates-digest": "dir=true mem=false — as for blobCreate, when the exported method contains the implementation",
	"repo.blobCreate|validates-digest": "dir=true mem=false — only the directory store turns the announced digest into a file name before any content exists; the memory store uses it as a map key",
	"store.Close|read-only-guard":      "dir=true mem=false — only the directory store's session cleanup removes files, which a read-only store must not do",
	"repo.repoInit|read-only-guard":    "dir=true mem=false — only the directory store's initialiser writes (the layout files), which it refuses on a read-only store; the memory store's initialiser only reads its backing directory",
	"repo.repoInit|sentinels":          "dir=ErrReadOnly mem= — as above",
	"store.RepoGet|sentinels":          "dir=ErrRepoNotAllowed mem= — only the directory store reserves the names of its layout files as path components",
}

func storeFeatures(c *core.Ctx, r *Roles, fn *ssa.Function) map[string]string {
	f := map[string]string{}
	sent := map[string]bool{}
	validates, ro, stop := false, false, false
	isHelper := func(sc *ssa.Function) bool {
		if sc == nil || len(sc.Blocks) == 0 || core.FuncPkgPath(sc) != core.FuncPkgPath(fn) {
			return false
		}
		if sc.Signature.Recv() != nil && (r.APIMethods["Store"][sc.Name()] || r.APIMethods["Repo"][sc.Name()] || r.APIMethods["BlobCreator"][sc.Name()]) {
			return false
		}
		if r.FamilyOfFunc(sc) == nil && sc.Signature.Recv() == nil {
			return false // shared code (ingest, collector): common to both stores
		}
		return true
	}
	// scanEffects: digest validation and the stop test, wherever the method's own code (incl. helpers) does them
	var scanEffects func(f *ssa.Function, d int, seen map[*ssa.Function]bool)
	scanEffects = func(f *ssa.Function, d int, seen map[*ssa.Function]bool) {
		if f == nil || seen[f] || d > 2 {
			return
		}
		seen[f] = true
		an.Instrs(f, func(in ssa.Instruction) {
			switch x := in.(type) {
			case *ssa.UnOp:
				if x.Op == token.ARROW {
					_, p := accessPath(an.Strip(x.X))
					if len(p) == 1 && p[0] == "stop" {
						stop = true
					}
				}
			case *ssa.Select:
				for _, s := range x.States {
					_, p := accessPath(an.Strip(s.Chan))
					if len(p) == 1 && p[0] == "stop" {
						stop = true
					}
				}
			case ssa.CallInstruction:
				if an.IsMethod(x, "github.com/opencontainers/go-digest", "Digest", "Validate") {
					validates = true
				}
				if sc := x.Common().StaticCallee(); isHelper(sc) {
					scanEffects(sc, d+1, seen)
				}
			}
		})
		for _, af := range f.AnonFuncs {
			scanEffects(af, d, seen)
		}
	}
	scanEffects(fn, 0, map[*ssa.Function]bool{})
	// scanRefusals: the sentinel errors the method can hand to its caller and the read-only refusal — in the method
	// and in the helpers whose error result it returns
	var scanRefusals func(f *ssa.Function, d int, seen map[*ssa.Function]bool)
	scanRefusals = func(f *ssa.Function, d int, seen map[*ssa.Function]bool) {
		if f == nil || seen[f] || d > 1 {
			return
		}
		seen[f] = true
		returned := map[ssa.Value]bool{}
		an.Instrs(f, func(in ssa.Instruction) {
			if ret, ok := in.(*ssa.Return); ok {
				for _, rv := range ret.Results {
					if an.IsErrorType(rv.Type()) {
						for _, o := range an.Origins(rv) {
							returned[o] = true
							if ex, ok := o.(*ssa.Extract); ok {
								returned[ex.Tuple] = true
							}
						}
					}
				}
			}
		})
		an.Instrs(f, func(in ssa.Instruction) {
			switch x := in.(type) {
			case *ssa.UnOp:
				if g, ok := x.X.(*ssa.Global); ok && x.Op == token.MUL && an.IsErrorType(an.Deref(g.Type())) && g.Pkg != nil && g.Pkg.Pkg.Path() == c.P.Module+"/types" {
					sent[g.Name()] = true
					if g.Name() == "ErrReadOnly" {
						ro = true
					}
				}
			case *ssa.Call:
				if sc := x.Call.StaticCallee(); isHelper(sc) && returned[x] {
					scanRefusals(sc, d+1, seen)
				}
			}
		})
		for _, af := range f.AnonFuncs {
			scanRefusals(af, d, seen)
		}
	}
	scanRefusals(fn, 0, map[*ssa.Function]bool{})
	var ss []string
	for s := range sent {
		ss = append(ss, s)
	}
	sort.Strings(ss)
	f["sentinels"] = strings.Join(ss, ",")
	f["validates-digest"] = fmt.Sprint(validates)
	f["read-only-guard"] = fmt.Sprint(ro)
	f["tests-stop"] = fmt.Sprint(stop)
	return f
}

func runSiblingStore(c *core.Ctx) {
	r := requireRoles(c)
	if r == nil {
		return
	}
	if len(r.Families) != 2 {
		c.Unresolved("families", "expected two store families, found %d", len(r.Families))
		return
	}
	a, b := r.Families[0], r.Families[1]
	for _, pair := range []struct {
		role string
		x, y *types.Named
	}{{"store", a.Store, b.Store}, {"repo", a.Repo, b.Repo}, {"upload", a.Upload, b.Upload}} {
		mx := methodsOf(c, pair.x)
		my := methodsOf(c, pair.y)
		var names []string
		for n := range mx {
			if my[n] != nil {
				names = append(names, n)
			}
		}
		sort.Strings(names)
		for _, n := range names {
			// only the methods of the store interfaces: same-named private helpers are free to divide the work differently
			if !(r.APIMethods["Store"][n] || r.APIMethods["Repo"][n] || r.APIMethods["BlobCreator"][n]) {
				continue
			}
			fx, fy := storeFeatures(c, r, mx[n]), storeFeatures(c, r, my[n])
			var feats []string
			for k := range fx {
				feats = append(feats, k)
			}
			sort.Strings(feats)
			for _, k := range feats {
				key := fmt.Sprintf("%s.%s|%s", pair.role, n, k)
				c.SetTags(k)
				switch {
				case fx[k] == fy[k]:
					c.Pass(key, mx[n].Pos(), "%s: both stores agree (%s)", k, fx[k])
				case siblingExceptions[key] != "":
					want := siblingExceptions[key]
					got := fmt.Sprintf("%s=%s %s=%s", a.Name, fx[k], b.Name, fy[k])
					if strings.HasPrefix(want, got+" — ") {
						c.Exception(key, mx[n].Pos(), "%s", want)
					} else {
						c.Fail(key, mx[n].Pos(), "the stores differ on ‘%s’ of %s in a way other than the confirmed one: now %s; confirmed: %s", k, n, got, want)
					}
				default:
					c.Fail(key, my[n].Pos(), "the two stores disagree on ‘%s’ of %s.%s: %s has %s, %s has %s — one of them lost (or never had) a check its sibling makes", k, pair.role, n, c.P.FuncName(mx[n]), fx[k], c.P.FuncName(my[n]), fy[k])
				}
			}
		}
	}
}

func methodsOf(c *core.Ctx, n *types.Named) map[string]*ssa.Function {
	out := map[string]*ssa.Function{}
	ms := c.P.SSA.MethodSets.MethodSet(types.NewPointer(n))
	for i := 0; i < ms.Len(); i++ {
		if fn := c.P.SSA.MethodValue(ms.At(i)); fn != nil && len(fn.Blocks) > 0 && fn.Synthetic == "" {
			out[ms.At(i).Obj().Name()] = fn
		}
	}
	return out
}
