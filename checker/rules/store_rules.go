package rules

import (
	"fmt"
	"go/token"
	"go/types"
	"sort"
	"strings"

	"golang.org/x/tools/go/ssa"

	"olacheck/an"
	"olacheck/core"
)

func init() {
	register(&Rule{ID: "TS-CLEANUP", Floor: 3,
		Doc: "for every removal of a cache entry (delete on the entries map): on every path from the function entry — or from the point where the loop picks the key — to the removal, either the cleanup callback is nil, or the entry is absent, or the callback was called with that same key and the removal lies on its ok-edge",
		Run: runCleanup})
	register(&Rule{ID: "SH-IDEMPOTENT", Floor: 3,
		Doc: "creating a content-addressed blob is idempotent: every BlobCreate that passes a BlobWithDigest option tests its error against ErrBlobExists (sibling agreement across all call sites), so that repeating an interrupted operation does not fail on its own earlier output",
		Run: runIdempotent})
	register(&Rule{ID: "SH-PASS-LOOP", Floor: 2,
		Doc: "in each store's store-wide collection pass no path from the failure edge of one repository's collection leaves the per-repository loop: a failing repository does not end the pass",
		Run: runPassLoop})
	register(&Rule{ID: "TS-SAVE", Floor: 3,
		Doc: "directory store: after IndexInsert/IndexRemove mutate the in-memory index every path to a return passes the save and returns its result; an index replaced by the collector is saved on all paths; the ingest's ‘modified’ result leads to a save guarded only by the read-only setting",
		Run: runSave})
	register(&Rule{ID: "SH-DIGESTER", Floor: 6,
		Doc: "in each upload implementation every assignment of the digester field is paired, in the same function, with an assignment of the writer field to io.MultiWriter(<storage>, <that digester>.Hash()) — storage first, hash last, since MultiWriter stops at the first writer that fails; the commit compares the current digester's digest with the expected digest and its mismatch edge does not reach the rename / map insert; the blob's final name or key is derived from that digester",
		Run: runDigester})
}

// ---- TS-CLEANUP ----

type cleanState struct {
	nilFn, absent, called bool
	errv                  an.ErrVal
}

func runCleanup(c *core.Ctx) {
	r := requireRoles(c)
	if r == nil {
		return
	}
	type verdict struct {
		bad string
		pos token.Pos
		n   int
	}
	res := map[string]*verdict{}
	for _, fn := range c.P.Funcs("internal/cache") {
		if fn.TypeParams().Len() > 0 && len(fn.TypeArgs()) == 0 {
			continue
		}
		isEntries := func(v ssa.Value) bool {
			_, p := accessPath(v)
			return len(p) > 0 && p[len(p)-1] == "entries"
		}
		isPruneFn := func(v ssa.Value) bool {
			_, p := accessPath(v)
			return len(p) > 0 && p[len(p)-1] == "pruneFn"
		}
		type remSite struct {
			call *ssa.Call
			key  ssa.Value
		}
		var removals []remSite
		an.Calls(fn, func(call ssa.CallInstruction) {
			if cc, ok := call.(*ssa.Call); ok {
				if bi, ok := cc.Call.Value.(*ssa.Builtin); ok && bi.Name() == "delete" && isEntries(cc.Call.Args[0]) {
					// a step that removes the entry under the key it is told, without any cleanup of its own, is judged
					// where it is called
					if _, isStep := removalStep(fn, isPruneFn); isStep && removalStepCalled(c, fn) {
						return
					}
					removals = append(removals, remSite{cc, cc.Call.Args[1]})
				} else if h := cc.Call.StaticCallee(); h != nil && h != fn && len(h.Blocks) > 0 && core.FuncPkgPath(h) == core.FuncPkgPath(fn) {
					if pi, isStep := removalStep(h, isPruneFn); isStep && pi < len(cc.Call.Args) {
						removals = append(removals, remSite{cc, cc.Call.Args[pi]})
					}
				}
			}
		})
		// replacing the whole entries map drops every entry it holds: allowed only on a freshly allocated
		// cache (constructor) or on the ‘map is empty’ edge
		an.Instrs(fn, func(in ssa.Instruction) {
			st, ok := in.(*ssa.Store)
			if !ok {
				return
			}
			fa, ok := st.Addr.(*ssa.FieldAddr)
			if !ok || !isEntries(fa) {
				return
			}
			if _, p := accessPath(fa); len(p) != 1 {
				return
			}
			name := c.P.FuncName(fn)
			if fn.Origin() != nil {
				name = c.P.FuncName(fn.Origin())
			}
			key := "replace-map:" + kn(name)
			v := res[key]
			if v == nil {
				v = &verdict{pos: st.Pos()}
				res[key] = v
			}
			v.n++
			if _, fresh := an.Origin(fa.X).(*ssa.Alloc); fresh {
				return
			}
			emptyEdge := false
			for _, g := range an.GuardingEdges(st.Block()) {
				x, y, op, ok := an.CmpTest(g.If())
				if !ok {
					continue
				}
				lx := lenOf(x)
				if n, isC := an.ConstInt(y); lx != nil && isEntries(lx) && isC && n == 0 {
					if (op == token.EQL && g.Succ == 0) || (op == token.NEQ && g.Succ == 1) || (op == token.GTR && g.Succ == 1) {
						emptyEdge = true
					}
				}
			}
			if !emptyEdge {
				v.bad = fmt.Sprintf("%s replaces the entries map at %s although it may still hold entries (for instance ones added while the lock was released around a callback): they disappear without their cleanup", name, c.P.Pos(st.Pos()))
			}
		})
		for i, rs := range removals {
			d := rs.call
			name := c.P.FuncName(fn)
			if fn.Origin() != nil {
				name = c.P.FuncName(fn.Origin())
			}
			key := fmt.Sprintf("remove:%s#%d", kn(name), i+1)
			K := an.Origin(rs.key)
			bad := ""
			tracked := map[ssa.Value]int{}
			var pruneCalls []*ssa.Call
			// keyArg: the key argument of a cleanup call — the callback itself, or a method of the cache that
			// wraps it (calls it with one of its own parameters as key and returns its error)
			keyArg := map[*ssa.Call]ssa.Value{}
			an.Calls(fn, func(call ssa.CallInstruction) {
				cc, ok := call.(*ssa.Call)
				if !ok || cc.Call.IsInvoke() {
					return
				}
				if cc.Call.StaticCallee() == nil && isPruneFn(cc.Call.Value) {
					pruneCalls = append(pruneCalls, cc)
					if len(cc.Call.Args) > 0 {
						keyArg[cc] = cc.Call.Args[0]
					}
				} else if h := cc.Call.StaticCallee(); h != nil && h != fn && len(h.Blocks) > 0 {
					if pi, ok := pruneWrapper(h, isPruneFn); ok && pi < len(cc.Call.Args) {
						pruneCalls = append(pruneCalls, cc)
						keyArg[cc] = cc.Call.Args[pi]
					} else if ka := appliedCleanupKey(fn, cc, isPruneFn); ka != nil {
						// the callback run inside a function literal handed to a step that applies it and hands its error
						// back (`err := c.unlocked(func() error { return c.pruneFn(key, val) })`)
						pruneCalls = append(pruneCalls, cc)
						keyArg[cc] = ka
					}
				}
				if ka := keyArg[cc]; ka != nil && an.Origin(ka) == K {
					an.TrackSlots(tracked, cc, 0)
				}
			})
			an.Paths(an.PathSpec[cleanState]{Fn: fn, Init: cleanState{},
				Instr: func(s cleanState, in ssa.Instruction) []cleanState {
					if v, ok := in.(ssa.Value); ok && v == K {
						return []cleanState{{}} // the loop picks a new key
					}
					if ex, ok := in.(*ssa.Next); ok {
						_ = ex
						if _, isExtract := K.(*ssa.Extract); isExtract {
							return []cleanState{{}}
						}
					}
					for _, pc := range pruneCalls {
						if in == ssa.Instruction(pc) {
							if ka := keyArg[pc]; ka != nil && an.Origin(ka) == K {
								s.called, s.errv = true, an.EU
							}
							return []cleanState{s}
						}
					}
					if in == ssa.Instruction(d) {
						ok := s.nilFn || s.absent || (s.called && s.errv == an.EN)
						if !ok && bad == "" {
							switch {
							case !s.called:
								bad = "the entry can be removed on a path on which the cleanup callback was not called with this key although a callback may be configured and the entry may be present"
							default:
								bad = "the entry can be removed although the cleanup callback's error was not checked to be nil on that path"
							}
						}
					}
					return []cleanState{s}
				},
				Edge: func(s cleanState, from *ssa.BasicBlock, succ int) (cleanState, bool) {
					if ifi := an.BlockIf(from); ifi != nil {
						// the lookup of this key in the entries map: plain, or the comma-ok form (value / found flag)
						keyLookup := func(v ssa.Value, part int) bool {
							if lk, isLk := v.(*ssa.Lookup); isLk && !lk.CommaOk && part == 0 {
								return isEntries(lk.X) && an.Origin(lk.Index) == K
							}
							if ex, isEx := v.(*ssa.Extract); isEx && ex.Index == part {
								if lk, isLk := ex.Tuple.(*ssa.Lookup); isLk && lk.CommaOk {
									return isEntries(lk.X) && an.Origin(lk.Index) == K
								}
							}
							return false
						}
						if x, nilSucc, ok := an.NilTest(ifi); ok && succ == nilSucc {
							if isPruneFn(x) {
								s.nilFn = true
							}
							if keyLookup(x, 0) {
								s.absent = true
							}
						}
						if base, neg := an.CondBase(ifi.Cond); keyLookup(base, 1) && (succ == 0) == neg {
							s.absent = true // the ‘not found’ edge of `e, found := entries[key]`
						}
					}
					vals, ok := an.TrackErrEdge([]an.ErrVal{s.errv}, tracked, "", "", from, succ)
					if !ok {
						return s, false
					}
					s.errv = vals[0]
					return s, true
				}})
			v := res[key]
			if v == nil {
				v = &verdict{pos: d.Pos()}
				res[key] = v
			}
			v.n++
			if bad != "" {
				v.bad = bad
			}
		}
	}
	var keys []string
	for k := range res {
		keys = append(keys, k)
	}
	sort.Strings(keys)
	for _, k := range keys {
		v := res[k]
		if v.bad != "" {
			c.Fail(k, v.pos, "%s: an entry would be dropped without (successful) cleanup — for upload sessions the temporary file and for repositories the pending collection are lost", v.bad)
		} else if strings.HasPrefix(k, "replace-map:") {
			c.Pass(k, v.pos, "the entries map is assigned only on a freshly allocated cache or on the ‘map is empty’ edge (%d instantiation(s))", v.n)
		} else {
			c.Pass(k, v.pos, "callback nil, entry absent, or callback(key) returned nil on every path (%d instantiation(s))", v.n)
		}
	}
}

// ---- SH-IDEMPOTENT ----

func runIdempotent(c *core.Ctx) {
	r := requireRoles(c)
	if r == nil {
		return
	}
	funcs := append(append([]*ssa.Function{}, serverFuncs(c)...), sharedStoreFuncs(c)...)
	for _, fn := range funcs {
		n := 0
		an.Calls(fn, func(call ssa.CallInstruction) {
			if !isBlobCreate(r, call) {
				return
			}
			ds, known := withDigestArgs(r, call)
			if known && len(ds) == 0 {
				return
			}
			if !known {
				// options assembled elsewhere: relevant when the function passes BlobWithDigest at all
				has := false
				an.Calls(fn, func(c2 ssa.CallInstruction) {
					if an.IsFunc(c2, r.StorePath, "BlobWithDigest") {
						has = true
					}
				})
				if !has {
					return
				}
			}
			n++
			key := fmt.Sprintf("create:%s#%d", kn(c.P.FuncName(fn)), n)
			errv := an.ErrResult(call)
			tested := false
			if errv != nil {
				for _, b := range fn.Blocks {
					if ifi := an.BlockIf(b); ifi != nil {
						if x, tgt, _, ok := an.ErrIsTest(ifi); ok && x == errv && an.IsGlobalLoad(tgt, r.TypesPath, "ErrBlobExists") {
							tested = true
						}
					}
				}
			}
			if !tested && returnsCreateErr(r, fn) == call {
				// the error is handed to the callers as it is: they recognise it
				sites := c.P.Callers(fn)
				all := len(sites) > 0
				for _, site := range sites {
					ce := an.ErrResult(site)
					ok := false
					if ce != nil && site.Common().StaticCallee() == fn {
						for _, b := range site.Parent().Blocks {
							if ifi := an.BlockIf(b); ifi != nil {
								if x, tgt, _, isT := an.ErrIsTest(ifi); isT && x == ce && an.IsGlobalLoad(tgt, r.TypesPath, "ErrBlobExists") {
									ok = true
								}
							}
						}
					}
					if !ok {
						all = false
					}
				}
				tested = all
			}
			if tested {
				c.Pass(key, call.Pos(), "‘already exists’ is recognised")
			} else {
				c.Fail(key, call.Pos(), "the BlobCreate with a digest option at %s does not recognise ErrBlobExists (its sibling call sites do): an operation interrupted after storing this blob fails on every retry", c.P.Pos(call.Pos()))
			}
		})
	}
}

// ---- SH-PASS-LOOP ----

// loopHeader returns the header of the innermost natural loop containing b: the closest dominator d of
// b that has a back edge (a predecessor it dominates) from which... b can reach d again.
func loopHeader(b *ssa.BasicBlock) *ssa.BasicBlock {
	for d := b; d != nil; d = d.Idom() {
		back := false
		for _, p := range d.Preds {
			if d.Dominates(p) && (p == b || an.BlockReaches(b, p) || b == d) {
				back = true
			}
		}
		if back && (d == b || an.BlockReaches(b, d)) {
			return d
		}
	}
	return nil
}

// mustReachBlockBefore: every path from start reaches block goal before an instruction satisfying stop.
func mustReachBlockBefore(start, goal *ssa.BasicBlock, stop func(ssa.Instruction) bool) bool {
	seen := map[*ssa.BasicBlock]bool{}
	var walk func(b *ssa.BasicBlock) bool
	walk = func(b *ssa.BasicBlock) bool {
		if b == goal {
			return true
		}
		if seen[b] {
			return true
		}
		seen[b] = true
		for _, in := range b.Instrs {
			if stop(in) {
				return false
			}
		}
		if len(b.Succs) == 0 {
			return false
		}
		for _, s := range b.Succs {
			if !walk(s) {
				return false
			}
		}
		return true
	}
	return walk(start)
}

// repoCollectorCall: the call runs the per-repository collector of the family: the repository's gc method itself, or a
// step of the store (a method of the store type other than the calling one) that calls it and hands back its error.
func repoCollectorCall(fam *Family, caller *ssa.Function, call ssa.CallInstruction) (step *ssa.Function, ok bool) {
	isRepoGC := func(f *ssa.Function) bool {
		return f != nil && f.Signature.Recv() != nil && an.NamedOf(f.Signature.Recv().Type()) == fam.Repo && f.Name() == "gc"
	}
	callee := call.Common().StaticCallee()
	if isRepoGC(callee) {
		return nil, true
	}
	if callee == nil || callee == caller || len(callee.Blocks) == 0 || callee.Signature.Recv() == nil || an.NamedOf(callee.Signature.Recv().Type()) != fam.Store {
		return nil, false
	}
	res := callee.Signature.Results()
	if res.Len() != 1 || !an.IsErrorType(res.At(0).Type()) {
		return nil, false
	}
	// the step returns the collector's error on the path on which it ran it
	handsBack := false
	an.Calls(callee, func(inner ssa.CallInstruction) {
		if !isRepoGC(inner.Common().StaticCallee()) {
			return
		}
		errv := an.ErrResult(inner)
		if errv == nil {
			return
		}
		tracked := an.ErrAliases(errv)
		an.Instrs(callee, func(in ssa.Instruction) {
			if ret, isRet := in.(*ssa.Return); isRet && len(ret.Results) == 1 {
				for _, o := range append([]ssa.Value{ret.Results[0]}, an.Origins(ret.Results[0])...) {
					if tracked[o] || o == errv {
						handsBack = true
					}
				}
			}
		})
	})
	if !handsBack {
		return nil, false
	}
	return callee, true
}

func runPassLoop(c *core.Ctx) {
	r := requireRoles(c)
	if r == nil {
		return
	}
	for _, fam := range r.Families {
		found := false
		for _, fn := range c.P.Funcs("internal/store") {
			if fn.Signature.Recv() == nil || an.NamedOf(fn.Signature.Recv().Type()) != fam.Store {
				continue
			}
			an.Calls(fn, func(call ssa.CallInstruction) {
				if _, isCollector := repoCollectorCall(fam, fn, call); !isCollector {
					return
				}
				h := loopHeader(call.Block())
				if h == nil {
					return
				}
				found = true
				key := "pass:" + kn(c.P.FuncName(fn))
				errv := an.ErrResult(call)
				ok := true
				if errv != nil {
					tracked := an.ErrAliases(errv)
					for _, b := range fn.Blocks {
						ifi := an.BlockIf(b)
						if ifi == nil {
							continue
						}
						x, nilSucc, isNil := an.NilTest(ifi)
						if !isNil || !tracked[x] {
							continue
						}
						if !mustReachBlockBefore(b.Succs[1-nilSucc], h, func(in ssa.Instruction) bool {
							_, isRet := in.(*ssa.Return)
							return isRet
						}) {
							ok = false
						}
					}
				}
				if ok {
					c.Pass(key, call.Pos(), "the failure edge of the per-repository collection returns to the loop")
				} else {
					c.Fail(key, call.Pos(), "in %s a failing repository collection (call at %s) ends the store-wide pass: the remaining repositories are not collected in that pass", c.P.FuncName(fn), c.P.Pos(call.Pos()))
				}
				passSince(c, fn, h)
			})
		}
		if !found {
			c.Unresolved("pass:"+fam.Name, "no loop calling the per-repository collector found in the %s store", fam.Name)
		}
	}
}

// ---- TS-SAVE ----

func runSave(c *core.Ctx) {
	r := requireRoles(c)
	if r == nil {
		return
	}
	for _, fam := range r.Families {
		if !fam.Mutating {
			continue
		}
		isIndexPtr := func(v ssa.Value) bool {
			fa, ok := v.(*ssa.FieldAddr)
			return ok && isNamedType(an.Deref(fa.Type()), r.TypesPath, "Index") && an.NamedOf(fa.X.Type()) == fam.Repo
		}
		isSave := func(in ssa.Instruction) *ssa.Call {
			call, ok := in.(*ssa.Call)
			if !ok {
				return nil
			}
			sc := call.Call.StaticCallee()
			if sc == nil || sc.Signature.Recv() == nil || an.NamedOf(sc.Signature.Recv().Type()) != fam.Repo {
				return nil
			}
			if strings.Contains(strings.ToLower(sc.Name()), "load") {
				return nil // a load that may save as a side effect is not the save of this mutation
			}
			if reachesRename(c, sc) {
				return call
			}
			return nil
		}
		for _, fn := range c.P.Funcs("internal/store") {
			top := fn
			for top.Parent() != nil {
				top = top.Parent()
			}
			if top.Signature.Recv() == nil || an.NamedOf(top.Signature.Recv().Type()) != fam.Repo {
				continue
			}
			name := kn(c.P.FuncName(fn))
			// (a) API mutators and (b) collector result stores
			type st struct {
				dirty bool
				saved bool
			}
			var muts []ssa.Instruction
			an.Instrs(fn, func(in ssa.Instruction) {
				switch x := in.(type) {
				case *ssa.Call:
					if sc := x.Call.StaticCallee(); sc != nil && sc.Signature.Recv() != nil && len(x.Call.Args) > 0 && isIndexPtr(x.Call.Args[0]) {
						if _, isPtr := sc.Signature.Recv().Type().(*types.Pointer); isPtr && core.FuncPkgPath(sc) == r.TypesPath {
							muts = append(muts, x)
						}
					} else if x.Call.StaticCallee() == nil && !x.Call.IsInvoke() {
						// the address of the index handed to a function value (a `change func(*Index)` parameter): a mutation
						for _, a := range x.Call.Args {
							if isIndexPtr(a) {
								muts = append(muts, x)
								break
							}
						}
					}
				case *ssa.Store:
					if isIndexPtr(x.Addr) {
						// whole-index store of a value produced by a shared store function (the collector)
						if call, _ := an.CallOf(an.Origin(fieldBase(x.Val))); call != nil {
							if sc := call.Call.StaticCallee(); sc != nil && r.FamilyOfFunc(sc) == nil && core.FuncPkgPath(sc) == r.StorePath {
								// …that works on an index it is given (a function that only builds a fresh, empty index is a constructor)
								takesIndex := false
								for _, p := range sc.Params {
									if isNamedType(an.Deref(p.Type()), r.TypesPath, "Index") {
										takesIndex = true
									}
								}
								if takesIndex {
									muts = append(muts, x)
								}
							}
						}
					}
				}
			})
			if len(muts) > 0 {
				isAPI := r.APIMethods["Repo"][fn.Name()]
				if !isAPI && fn.Parent() != nil && r.APIMethods["Repo"][top.Name()] && (top.Name() == "IndexInsert" || top.Name() == "IndexRemove") {
					// the critical section of an API mutator written as a function literal (`return dr.withLock(func() error {…})`)
					isAPI = true
				}
				if !isAPI && fn.Parent() == nil {
					// a helper the API mutators delegate to (their whole body is `return helper(…)`) stands for them
					for _, site := range c.P.Callers(fn) {
						if pf := site.Parent(); pf != nil && pf.Signature.Recv() != nil && r.APIMethods["Repo"][pf.Name()] && (pf.Name() == "IndexInsert" || pf.Name() == "IndexRemove") {
							isAPI = true
						}
					}
				}
				bad := ""
				var saveCalls []*ssa.Call
				an.Paths(an.PathSpec[st]{Fn: fn, Init: st{},
					Instr: func(s st, in ssa.Instruction) []st {
						for _, m := range muts {
							if in == m {
								return []st{{dirty: true}}
							}
						}
						if sc := isSave(in); sc != nil {
							saveCalls = append(saveCalls, sc)
							s.saved = true
							return []st{s}
						}
						// an API mutator that reports success has applied the mutation: `return nil` in front of it (an ‘already
						// listed’ shortcut) acknowledges an insert or removal that never reached the index
						if ret, ok := in.(*ssa.Return); ok && !s.dirty && bad == "" && isAPI && fn.Parent() == nil && (fn.Name() == "IndexInsert" || fn.Name() == "IndexRemove") && retErrNil(ret) {
							bad = fmt.Sprintf("the return at %s reports success although the index was not changed on this path: the mutation the caller was acknowledged for is skipped (an entry known only as a child is never promoted to index.json, a tag is never recorded)", c.P.Pos(ret.Pos()))
						}
						if ret, ok := in.(*ssa.Return); ok && s.dirty && bad == "" {
							if !s.saved {
								bad = fmt.Sprintf("the return at %s is reachable after the in-memory index was changed without saving it: the change is lost on restart and index.json no longer equals the API state", c.P.Pos(ret.Pos()))
							} else if isAPI && len(ret.Results) > 0 {
								// the save's result is what is returned
								rv := ret.Results[len(ret.Results)-1]
								okRes := false
								for _, o := range an.Origins(rv) {
									if call, _ := an.CallOf(o); call != nil && isSave(call) != nil {
										okRes = true
									}
									// defer-spilled results
									if u, isLoad := o.(*ssa.UnOp); isLoad && u.Op == token.MUL {
										if sts, unk := an.CellStores(u.X); !unk {
											for _, sx := range sts {
												if call, _ := an.CallOf(sx.Val); call != nil && isSave(call) != nil {
													okRes = true
												}
											}
										}
									}
								}
								if !okRes {
									bad = fmt.Sprintf("the return at %s does not return the result of the save: a failed save would be acknowledged", c.P.Pos(ret.Pos()))
								}
							}
						}
						return []st{s}
					}})
				if isAPI {
					c.SetTags("api")
				} else {
					c.SetTags("collector")
				}
				c.Check(bad == "", "mutation-saved:"+name, fn.Pos(), "%s", map[bool]string{true: fmt.Sprintf("%d mutation site(s); every later return passes the save", len(muts)), false: bad}[bad == ""])
			}
			// (c) ingest result
			an.Calls(fn, func(call ssa.CallInstruction) {
				cc, ok := call.(*ssa.Call)
				if !ok {
					return
				}
				sc := cc.Call.StaticCallee()
				if sc == nil || r.FamilyOfFunc(sc) != nil || core.FuncPkgPath(sc) != r.StorePath {
					return
				}
				hasIdx := false
				for _, a := range cc.Call.Args {
					if isIndexPtr(a) {
						hasIdx = true
					}
				}
				res := sc.Signature.Results()
				if !hasIdx || res.Len() != 2 {
					return
				}
				if b, ok := res.At(0).Type().Underlying().(*types.Basic); !ok || b.Kind() != types.Bool {
					return
				}
				key := "ingest-saved:" + name
				okSave := false
				an.Instrs(fn, func(in ssa.Instruction) {
					s := isSave(in)
					if s == nil {
						return
					}
					modOK, others := false, true
					for _, g := range an.GuardingEdges(s.Block()) {
						ifi := g.If()
						base, neg := an.CondBase(ifi.Cond)
						isTrue := (g.Succ == 0) != neg
						if ex, isEx := base.(*ssa.Extract); isEx && ex.Tuple == ssa.Value(cc) && ex.Index == 0 {
							if isTrue {
								modOK = true
							}
							continue
						}
						if pathEndsWith(fieldPath(base), "Storage", "ReadOnly") && !isTrue {
							continue
						}
						// error tests of the ingest itself and of earlier steps are fine; anything else narrows the save
						if _, _, isNil := an.NilTest(ifi); isNil {
							continue
						}
						if reachesCallBefore(g.From, cc) {
							continue // guards that precede the ingest apply to the ingest as well
						}
						others = false
					}
					if modOK && others {
						okSave = true
					}
				})
				c.SetTags("ingest")
				c.Check(okSave, key, call.Pos(), "the ingest's ‘modified’ result leads to a save guarded only by the read-only setting: %v (otherwise a conversion or repair of the index is redone on every start or never persisted)", okSave)
			})
		}
	}
}

// reachesCallBefore: block b executes before the call (it dominates the call's block).
func reachesCallBefore(b *ssa.BasicBlock, call *ssa.Call) bool {
	return b.Dominates(call.Block()) && b != call.Block()
}

// ---- SH-DIGESTER ----

func runDigester(c *core.Ctx) {
	r := requireRoles(c)
	if r == nil {
		return
	}
	e := getLock(c)
	for _, fam := range r.Families {
		st := fam.Upload.Underlying().(*types.Struct)
		dField, wField, eField := -1, -1, -1
		for i := 0; i < st.NumFields(); i++ {
			f := st.Field(i)
			switch {
			case isNamed(f.Type(), digestPkg, "Digester"):
				dField = i
			case isNamed(f.Type(), "io", "Writer"):
				wField = i
			case isNamed(f.Type(), digestPkg, "Digest"):
				eField = i
			}
		}
		un := fam.Upload.Obj().Name()
		// digester and writer may be grouped in a record of the store package (hash blobHash{d, w}) built by a constructor
		hashField := -1
		var hashStruct *types.Struct
		hd, hw := -1, -1
		if (dField < 0 || wField < 0) && eField >= 0 {
			for i := 0; i < st.NumFields(); i++ {
				ht := st.Field(i).Type()
				if pt, ok := ht.(*types.Pointer); ok {
					ht = pt.Elem()
				}
				hn, ok := ht.(*types.Named)
				if !ok || hn.Obj().Pkg() == nil || hn.Obj().Pkg().Path() != r.StorePath {
					continue
				}
				hs, ok := hn.Underlying().(*types.Struct)
				if !ok {
					continue
				}
				d2, w2 := -1, -1
				for k := 0; k < hs.NumFields(); k++ {
					switch {
					case isNamed(hs.Field(k).Type(), digestPkg, "Digester"):
						d2 = k
					case isNamed(hs.Field(k).Type(), "io", "Writer"):
						w2 = k
					}
				}
				if d2 >= 0 && w2 >= 0 {
					hashField, hashStruct, hd, hw = i, hs, d2, w2
				}
			}
		}
		if (dField < 0 || wField < 0 || eField < 0) && hashField < 0 {
			c.Unresolved("digester-fields:"+un, "upload type lacks digester / writer / expected-digest fields")
			continue
		}
		dName := ""
		if hashField >= 0 {
			dName = hashStruct.Field(hd).Name()
		} else {
			dName = st.Field(dField).Name()
		}
		// pairedLiteral: a record literal whose writer is MultiWriter(…, <its own digester>.Hash())
		pairedLiteral := func(v ssa.Value) bool {
			ss := structStores(an.Origin(v))
			if len(ss) == 0 {
				if u, ok := an.Strip(v).(*ssa.UnOp); ok {
					ss = structStores(u.X)
				}
			}
			if hashStruct == nil {
				return false
			}
			dvs, wvs := ss[hashStruct.Field(hd).Name()], ss[hashStruct.Field(hw).Name()]
			if len(dvs) != 1 || len(wvs) != 1 {
				return false
			}
			mw, _ := an.CallOf(an.Origin(wvs[0]))
			if mw == nil || !an.IsFunc(mw, "io", "MultiWriter") {
				return false
			}
			elems, _ := variadicElems(mw.Call.Args[0])
			for _, el := range elems {
				if hc, _ := an.CallOf(an.Origin(el)); hc != nil && hc.Call.IsInvoke() && hc.Call.Method.Name() == "Hash" && an.Origin(hc.Call.Value) == an.Origin(dvs[0]) {
					return true
				}
			}
			return false
		}
		// (1) pairing
		for _, fn := range c.P.Funcs("internal/store") {
			if r.FamilyOfFunc(fn) != fam {
				continue
			}
			var dStores, wStores []*ssa.Store
			nRec := 0
			an.Instrs(fn, func(in ssa.Instruction) {
				s, ok := in.(*ssa.Store)
				if !ok {
					return
				}
				fa, ok := s.Addr.(*ssa.FieldAddr)
				if !ok {
					return
				}
				if hashField >= 0 {
					// the record assigned as a whole: every value that can arrive is a paired literal (of the constructor)
					if an.NamedOf(fa.X.Type()) == fam.Upload && fa.Field == hashField {
						nRec++
						key := fmt.Sprintf("pair:%s#r%d", kn(c.P.FuncName(fn)), nRec)
						okAll := true
						hr := an.HelperReturns(an.Origin(s.Val), func(h *ssa.Function) bool { return core.FuncPkgPath(h) == r.StorePath })
						if len(hr) == 0 {
							okAll = pairedLiteral(s.Val)
						}
						for _, x := range hr {
							if !pairedLiteral(x.Val) {
								okAll = false
							}
						}
						c.Check(okAll, key, s.Pos(), "the hash record assigned at %s pairs its digester with writer = MultiWriter(storage, that digester.Hash()): %v — otherwise later bytes are hashed by another digester (or not at all) and the digest no longer describes the stored content", c.P.Pos(s.Pos()), okAll)
						return
					}
					// a field of the record assigned on its own
					if inner, ok := fa.X.(*ssa.FieldAddr); ok && an.NamedOf(inner.X.Type()) == fam.Upload && inner.Field == hashField {
						switch fa.Field {
						case hd:
							dStores = append(dStores, s)
						case hw:
							wStores = append(wStores, s)
						}
					}
					return
				}
				if an.NamedOf(fa.X.Type()) != fam.Upload {
					return
				}
				switch fa.Field {
				case dField:
					dStores = append(dStores, s)
				case wField:
					wStores = append(wStores, s)
				}
			})
			for i, ds := range dStores {
				key := fmt.Sprintf("pair:%s#%d", kn(c.P.FuncName(fn)), i+1)
				dv := an.Origin(ds.Val)
				paired := false
				for _, ws := range wStores {
					mw, _ := an.CallOf(an.Origin(ws.Val))
					if mw == nil || !an.IsFunc(mw, "io", "MultiWriter") {
						continue
					}
					elems, _ := variadicElems(mw.Call.Args[0])
					for _, el := range elems {
						if hc, _ := an.CallOf(an.Origin(el)); hc != nil && hc.Call.IsInvoke() && hc.Call.Method.Name() == "Hash" {
							hv := an.Origin(hc.Call.Value)
							if hv == dv {
								paired = true
							}
							// the digester read back from the field just assigned
							if _, p := accessPath(hc.Call.Value); len(p) > 0 && p[len(p)-1] == dName {
								if an.Reaches(ds, hc) {
									paired = true
								}
							}
						}
					}
				}
				if paired {
					c.Pass(key, ds.Pos(), "digester assignment paired with writer = MultiWriter(storage, digester.Hash())")
				} else {
					c.Fail(key, ds.Pos(), "in %s the digester field is assigned at %s without re-creating the writer as MultiWriter(<storage>, <that digester>.Hash()): later bytes are hashed by the old digester (or not at all) and the digest no longer describes the stored content", c.P.FuncName(fn), c.P.Pos(ds.Pos()))
				}
			}
		}
		// (1b) order: io.MultiWriter writes to its writers in turn and stops at the first that fails or writes short, so the
		// storage comes first and the hash last — the hash then never runs ahead of what the storage accepted, and a write
		// that failed part-way ends in a digest mismatch at the commit instead of a truncated blob under the full digest
		nOrder := 0
		for _, fn := range c.P.Funcs("internal/store") {
			if r.FamilyOfFunc(fn) != fam {
				continue
			}
			an.Calls(fn, func(call ssa.CallInstruction) {
				mw, ok := call.(*ssa.Call)
				if !ok || !an.IsFunc(mw, "io", "MultiWriter") || len(mw.Call.Args) == 0 {
					return
				}
				elems, known := variadicElemsOrdered(mw.Call.Args[0])
				if !known {
					return
				}
				hashAt := -1
				for i, el := range elems {
					if hc, _ := an.CallOf(an.Origin(el)); hc != nil && hc.Call.IsInvoke() && hc.Call.Method.Name() == "Hash" {
						hashAt = i
					}
				}
				if hashAt < 0 {
					return
				}
				nOrder++
				okO := hashAt == len(elems)-1
				c.Check(okO, fmt.Sprintf("order:%s#%d", kn(c.P.FuncName(fn)), nOrder), mw.Pos(), "in the writer built at %s the storage precedes the hash: %v — io.MultiWriter stops at the first writer that fails, so with the hash first it has digested bytes the storage never took: a write that fails part-way (disk full, quota) still commits, and a truncated blob is stored under the digest of the full content", c.P.Pos(mw.Pos()), okO)
			})
		}
		// (2) commit: expected-digest comparison and final name
		fn := e.MethodOf(fam.Upload, "Close")
		if fn == nil {
			c.Unresolved("commit:"+un, "commit method not found")
			continue
		}
		var commitOp ssa.Instruction
		var nameVal ssa.Value
		an.Instrs(fn, func(in ssa.Instruction) {
			switch x := in.(type) {
			case *ssa.Call:
				if an.IsFunc(x, "os", "Rename") {
					commitOp, nameVal = x, x.Call.Args[1]
				}
			case *ssa.MapUpdate:
				if _, p := accessPath(x.Map); len(p) > 0 && p[len(p)-1] == "blobs" {
					commitOp, nameVal = x, x.Key
				}
			}
		})
		var commitBlock *ssa.BasicBlock
		if commitOp != nil {
			commitBlock = commitOp.Block()
		} else {
			// the insert may sit in a closure the commit method hands to a wrapper that runs it under the repository lock
			// (mr.withLock(func() {…})): the hand-over is then the commit's place in the method
			for _, af := range fn.AnonFuncs {
				an.Instrs(af, func(in ssa.Instruction) {
					switch x := in.(type) {
					case *ssa.Call:
						if an.IsFunc(x, "os", "Rename") {
							commitOp, nameVal = x, x.Call.Args[1]
						}
					case *ssa.MapUpdate:
						if _, p := accessPath(x.Map); len(p) > 0 && p[len(p)-1] == "blobs" {
							commitOp, nameVal = x, x.Key
						}
					}
				})
				if commitOp != nil && commitBlock == nil {
					an.Calls(fn, func(call ssa.CallInstruction) {
						for _, a := range call.Common().Args {
							if mc, ok := an.Strip(a).(*ssa.MakeClosure); ok && mc.Fn == ssa.Value(af) {
								commitBlock = call.Block()
								// a name the literal captured from the method (`d := mru.d.Digest()` … `mr.blobs[d] = …`): the
								// value the method gave that variable
								if ld, isLd := an.Strip(nameVal).(*ssa.UnOp); isLd && ld.Op == token.MUL {
									if fv, isFV := ld.X.(*ssa.FreeVar); isFV {
										for k, f := range af.FreeVars {
											if f == fv && k < len(mc.Bindings) {
												if al, isAl := mc.Bindings[k].(*ssa.Alloc); isAl {
													if sv := an.SingleStore(al); sv != nil {
														nameVal = sv
													}
												}
											}
										}
									}
								}
							}
						}
					})
				}
			}
		}
		// … or in a step of the family the commit method calls (dru.blobMove(), mr.blobPut(digest, blob)): the call is then the
		// commit's place in the method, and the step a second frame in which the comparison may be made
		var stepFn *ssa.Function
		var stepBlock *ssa.BasicBlock
		if commitOp == nil {
			an.Calls(fn, func(call ssa.CallInstruction) {
				h := call.Common().StaticCallee()
				if h == nil || h == fn || len(h.Blocks) == 0 || r.FamilyOfFunc(h) != fam || commitOp != nil {
					return
				}
				if _, isCall := call.(*ssa.Call); !isCall {
					return
				}
				an.Instrs(h, func(in ssa.Instruction) {
					switch x := in.(type) {
					case *ssa.Call:
						if an.IsFunc(x, "os", "Rename") {
							commitOp, nameVal = x, x.Call.Args[1]
						}
					case *ssa.MapUpdate:
						if _, p := accessPath(x.Map); len(p) > 0 && p[len(p)-1] == "blobs" {
							commitOp, nameVal = x, x.Key
						}
					}
				})
				if commitOp != nil {
					commitBlock = call.Block()
					stepFn, stepBlock = h, commitOp.Block()
					// a name handed to the step as a parameter is the caller's argument
					if p, isP := an.Origin(nameVal).(*ssa.Parameter); isP {
						for i, hp := range h.Params {
							if hp == p && i < len(call.Common().Args) {
								nameVal = call.Common().Args[i]
							}
						}
					}
				}
			})
		}
		if commitOp == nil || commitBlock == nil {
			c.Fail("commit:"+un, fn.Pos(), "no rename / blob-map insert found in the commit method")
			continue
		}
		var isDigestOfField func(v ssa.Value) bool
		isDigestOfField = func(v ssa.Value) bool {
			call, _ := an.CallOf(an.Strip(v))
			if call == nil {
				return false
			}
			if !call.Call.IsInvoke() {
				// an accessor of the hash record: every return is the digester field's Digest()
				if h := call.Call.StaticCallee(); h != nil && hashStruct != nil && h.Signature.Recv() != nil && core.FuncPkgPath(h) == r.StorePath && len(h.Blocks) > 0 {
					if rs, ok := an.Deref(h.Signature.Recv().Type()).Underlying().(*types.Struct); ok && rs == hashStruct {
						all, n := true, 0
						an.Instrs(h, func(in ssa.Instruction) {
							if ret, ok := in.(*ssa.Return); ok && len(ret.Results) == 1 {
								n++
								if !isDigestOfField(ret.Results[0]) {
									all = false
								}
							}
						})
						return all && n > 0
					}
				}
				return false
			}
			if call.Call.Method.Name() != "Digest" {
				return false
			}
			_, p := accessPath(call.Call.Value)
			return len(p) > 0 && p[len(p)-1] == dName
		}
		cmpOK := false
		type cmpFrame struct {
			fn *ssa.Function
			cb *ssa.BasicBlock
		}
		frames := []cmpFrame{{fn, commitBlock}}
		if stepFn != nil {
			frames = append(frames, cmpFrame{stepFn, stepBlock})
		}
		for _, fr := range frames {
			for _, b := range fr.fn.Blocks {
				ifi := an.BlockIf(b)
				if ifi == nil {
					continue
				}
				x, y, op, ok := an.CmpTest(ifi)
				if !ok || (op != token.EQL && op != token.NEQ) {
					continue
				}
				for _, pair := range [][2]ssa.Value{{x, y}, {y, x}} {
					_, p := accessPath(pair[1])
					if isDigestOfField(an.Origin(pair[0])) && len(p) > 0 && p[len(p)-1] == st.Field(eField).Name() {
						neqSucc := 0
						if op == token.EQL {
							neqSucc = 1
						}
						tb := b.Succs[neqSucc]
						if tb != fr.cb && !an.BlockReaches(tb, fr.cb) {
							cmpOK = true
						}
					}
				}
			}
		}
		if !cmpOK {
			// the comparison may be made by a helper of the upload type whose success the commit is guarded by
			for _, g := range an.GuardingEdges(commitBlock) {
				for _, fe := range an.RefusedHelperEdges(g) {
					x, y, op, ok := an.CmpTest(fe.If())
					if !ok || (op != token.EQL && op != token.NEQ) {
						continue
					}
					for _, pair := range [][2]ssa.Value{{x, y}, {y, x}} {
						// (a parameter of the helper stands for what the commit passes)
						a, b := pair[0], pair[1]
						if arg, ok := fe.ArgOf(an.Origin(a)); ok {
							a = arg
						}
						if arg, ok := fe.ArgOf(an.Origin(b)); ok {
							b = arg
						}
						_, p := accessPath(an.Strip(b))
						if isDigestOfField(an.Origin(a)) && len(p) > 0 && p[len(p)-1] == st.Field(eField).Name() {
							neqSucc := 0
							if op == token.EQL {
								neqSucc = 1
							}
							if fe.Succ == neqSucc {
								cmpOK = true // the mismatch edge inside the helper leads to no successful return
							}
						}
					}
				}
			}
		}
		c.Check(cmpOK, "commit-compares:"+un, commitOp.Pos(), "the commit compares the current digester's digest with the expected digest and the mismatch edge does not reach the rename / map insert: %v", cmpOK)
		// final name from the digester
		derived := false
		seen := map[ssa.Value]bool{}
		var walk func(v ssa.Value, d int)
		walk = func(v ssa.Value, d int) {
			if v == nil || seen[v] || d > 12 {
				return
			}
			seen[v] = true
			if isDigestOfField(v) {
				derived = true
				return
			}
			// the name comes out of a helper of the store package: what it returns
			for _, hr := range an.HelperReturns(v, func(h *ssa.Function) bool { return core.FuncPkgPath(h) == core.FuncPkgPath(fn) }) {
				walk(hr.Val, d+1)
			}
			if in, ok := v.(ssa.Instruction); ok {
				for _, op := range in.Operands(nil) {
					if *op != nil {
						walk(*op, d+1)
					}
				}
			}
			if sl, ok := v.(*ssa.Slice); ok {
				if elems, ok := variadicElems(sl); ok {
					for _, el := range elems {
						walk(el, d+1)
					}
				}
			}
		}
		walk(nameVal, 0)
		c.Check(derived, "commit-name:"+un, commitOp.Pos(), "the blob's final name / key is derived from the digester's digest: %v", derived)
	}
}

func init() {
	register(&Rule{ID: "TS-LRU-TOUCH", Floor: 2,
		Doc: "in the cache's lookup every return of a found entry is preceded, on all paths, by a store to that entry's last-use field, and every insertion initialises it: eviction order and expiry are computed from that field, so a use that does not refresh it makes a recently used entry the first to go",
		Run: func(c *core.Ctx) {
			r := requireRoles(c)
			if r == nil {
				return
			}
			type verdict struct {
				bad string
				pos token.Pos
			}
			res := map[string]*verdict{}
			for _, fn := range c.P.Funcs("internal/cache") {
				if fn.TypeParams().Len() > 0 && len(fn.TypeArgs()) == 0 {
					continue
				}
				if fn.Signature.Recv() == nil || fn.Signature.Results().Len() != 2 || !an.IsErrorType(fn.Signature.Results().At(1).Type()) || len(fn.Params) != 2 {
					continue
				}
				// a lookup: reads entries[key] with the key parameter and returns (value, error)
				var lk *ssa.Lookup
				an.Instrs(fn, func(in ssa.Instruction) {
					if l, ok := in.(*ssa.Lookup); ok && l.CommaOk {
						if _, p := accessPath(l.X); len(p) > 0 && p[len(p)-1] == "entries" && an.Origin(l.Index) == ssa.Value(fn.Params[1]) {
							lk = l
						}
					}
				})
				if lk == nil {
					continue
				}
				name := c.P.FuncName(fn)
				if fn.Origin() != nil {
					name = c.P.FuncName(fn.Origin())
				}
				key := "lookup-refreshes:" + kn(name)
				bad := ""
				type st struct{ found, touched bool }
				an.Paths(an.PathSpec[st]{Fn: fn, Init: st{},
					Instr: func(s st, in ssa.Instruction) []st {
						switch x := in.(type) {
						case *ssa.Store:
							if _, p := accessPath(x.Addr); len(p) > 0 && isTimeType(an.Deref(x.Addr.Type())) {
								s.touched = true
							}
						case *ssa.Return:
							if s.found && !s.touched && retErrNil(x) && bad == "" {
								bad = fmt.Sprintf("the found entry is returned at %s on a path that did not refresh its last-use time", c.P.Pos(x.Pos()))
							}
						}
						return []st{s}
					},
					Edge: func(s st, from *ssa.BasicBlock, succ int) (st, bool) {
						if ifi := an.BlockIf(from); ifi != nil {
							base, neg := an.CondBase(ifi.Cond)
							if ex, ok := base.(*ssa.Extract); ok && ex.Tuple == ssa.Value(lk) && ex.Index == 1 {
								if (succ == 0) != neg {
									s.found = true
								}
							}
						}
						return s, true
					}})
				v := res[key]
				if v == nil {
					v = &verdict{pos: fn.Pos()}
					res[key] = v
				}
				if bad != "" {
					v.bad = bad
				}
			}
			// insertions initialise the field
			for _, fn := range c.P.Funcs("internal/cache") {
				if fn.TypeParams().Len() > 0 && len(fn.TypeArgs()) == 0 {
					continue
				}
				an.Instrs(fn, func(in ssa.Instruction) {
					mu, ok := in.(*ssa.MapUpdate)
					if !ok {
						return
					}
					if _, p := accessPath(mu.Map); len(p) == 0 || p[len(p)-1] != "entries" {
						return
					}
					name := c.P.FuncName(fn)
					if fn.Origin() != nil {
						name = c.P.FuncName(fn.Origin())
					}
					key := "insert-initialises:" + kn(name)
					okInit := false
					stale := token.NoPos
					for f, vals := range structStores(an.Origin(mu.Value)) {
						_ = f
						for _, v := range vals {
							if isTimeType(v.Type()) {
								okInit = true
								// the clock is read while the cache mutex is held: a stamp taken before the lock is older than the
								// insertion by however long the lock was waited for (callbacks run under it), and the entry expires early
								if now, _ := an.CallOf(an.Origin(v)); now != nil && an.IsFunc(now, "time", "Now") {
									if held, reached := mustHeldAt(getLock(c), now); reached && held == 0 {
										stale = now.Pos()
									}
								}
							}
						}
					}
					v := res[key]
					if v == nil {
						v = &verdict{pos: mu.Pos()}
						res[key] = v
					}
					if !okInit {
						// the time may be written right after the insertion, into the entry just inserted or found (`e.used = now`
						// behind the `if !ok { … c.entries[key] = e }`): every path from the insertion to a return passes such a store
						stamp := map[*ssa.BasicBlock]bool{}
						an.Instrs(fn, func(i2 ssa.Instruction) {
							if st, isSt := i2.(*ssa.Store); isSt && isTimeType(st.Val.Type()) {
								if fa, isFA := st.Addr.(*ssa.FieldAddr); isFA {
									if mt, isM := mu.Map.Type().Underlying().(*types.Map); isM && types.Identical(an.Deref(fa.X.Type()), an.Deref(mt.Elem())) {
										stamp[st.Block()] = true
									}
								}
							}
						})
						seenB := map[*ssa.BasicBlock]bool{}
						var leaks func(b *ssa.BasicBlock) bool
						leaks = func(b *ssa.BasicBlock) bool {
							if seenB[b] || stamp[b] {
								return false
							}
							seenB[b] = true
							if _, isRet := b.Instrs[len(b.Instrs)-1].(*ssa.Return); isRet {
								return true
							}
							for _, sc := range b.Succs {
								if leaks(sc) {
									return true
								}
							}
							return false
						}
						if len(stamp) > 0 && !leaks(mu.Block()) {
							okInit = true
						}
					}
					if !okInit {
						v.bad = "a new entry is inserted without setting its last-use time"
					} else if stale != token.NoPos {
						v.bad = fmt.Sprintf("the last-use time of a new entry is read from the clock at %s, before the cache mutex is taken (the entry is as much older than its insertion as the lock was waited for)", c.P.Pos(stale))
					}
				})
			}
			// storing a value is a use: in the function that inserts into the entries map, every path that writes the value
			// of an entry (a fresh one or one it found under the key) also writes that entry's last-use time
			for _, fn := range c.P.Funcs("internal/cache") {
				if fn.TypeParams().Len() > 0 && len(fn.TypeArgs()) == 0 || len(fn.Blocks) == 0 {
					continue
				}
				var entryT types.Type
				an.Instrs(fn, func(in ssa.Instruction) {
					if mu, ok := in.(*ssa.MapUpdate); ok {
						if _, p := accessPath(mu.Map); len(p) > 0 && p[len(p)-1] == "entries" {
							if mt, isM := mu.Map.Type().Underlying().(*types.Map); isM {
								entryT = an.Deref(mt.Elem())
							}
						}
					}
				})
				if entryT == nil {
					continue
				}
				refresh := map[*ssa.BasicBlock]bool{}
				var writes []*ssa.Store
				an.Instrs(fn, func(in ssa.Instruction) {
					st, ok := in.(*ssa.Store)
					if !ok {
						return
					}
					fa, ok := st.Addr.(*ssa.FieldAddr)
					if !ok || !types.Identical(an.Deref(fa.X.Type()), entryT) {
						return
					}
					if isTimeType(st.Val.Type()) {
						refresh[st.Block()] = true
					} else {
						writes = append(writes, st)
					}
				})
				if len(writes) == 0 {
					continue
				}
				name := c.P.FuncName(fn)
				if fn.Origin() != nil {
					name = c.P.FuncName(fn.Origin())
				}
				key := "store-refreshes:" + kn(name)
				v := res[key]
				if v == nil {
					v = &verdict{pos: fn.Pos()}
					res[key] = v
				}
				avoid := func(from, to *ssa.BasicBlock, toReturn bool) bool {
					seen := map[*ssa.BasicBlock]bool{}
					var walk func(b *ssa.BasicBlock) bool
					walk = func(b *ssa.BasicBlock) bool {
						if seen[b] || (refresh[b] && b != from) {
							return false
						}
						seen[b] = true
						if toReturn {
							if _, isRet := b.Instrs[len(b.Instrs)-1].(*ssa.Return); isRet && b != from {
								return true
							}
							if _, isRet := b.Instrs[len(b.Instrs)-1].(*ssa.Return); isRet && b == from {
								return true
							}
						} else if b == to {
							return true
						}
						for _, sc := range b.Succs {
							if walk(sc) {
								return true
							}
						}
						return false
					}
					return walk(from)
				}
				for _, w := range writes {
					if refresh[w.Block()] {
						continue
					}
					if avoid(fn.Blocks[0], w.Block(), false) && avoid(w.Block(), nil, true) {
						v.bad = fmt.Sprintf("%s stores the value of an entry at %s on a path on which that entry's last-use time is not written: replacing the value under an existing key is not counted as a use", name, c.P.Pos(w.Pos()))
						v.pos = w.Pos()
					}
				}
			}
			var keys []string
			for k := range res {
				keys = append(keys, k)
			}
			sort.Strings(keys)
			for _, k := range keys {
				if res[k].bad != "" {
					c.Fail(k, res[k].pos, "%s: a count-limited cache then evicts by insertion order instead of least-recently-used, and age expiry ignores recent use", res[k].bad)
				} else {
					c.Pass(k, res[k].pos, "last-use time set on every path")
				}
			}
		}})
	register(&Rule{ID: "TS-GETDESC", Floor: 2,
		Doc: "Index.GetDesc keeps tag and digest lookups apart: on the tag-grammar edge it returns the (copied) annotated entry, on the digest edge a descriptor built without annotations — the delete handler relies on this to remove only the tag in the first case and every reference in the second",
		Run: func(c *core.Ctx) {
			r := requireRoles(c)
			if r == nil {
				return
			}
			var fn *ssa.Function
			for _, f := range c.P.Funcs("types") {
				if f.Name() == "GetDesc" && f.Signature.Recv() != nil {
					fn = f
				}
			}
			if fn == nil {
				c.Unresolved("types.Index.GetDesc", "GetDesc not found")
				return
			}
			tagOK, digOK := true, true
			nTag, nDig := 0, 0
			sideOf := func(b *ssa.BasicBlock) (onTag, onDigest bool) {
				for _, g := range an.GuardingEdges(b) {
					if call, trueSucc, ok := an.BoolCallTest(g.If()); ok && an.IsMethod(call, "regexp", "Regexp", "MatchString") && an.IsGlobalLoad(call.Call.Args[0], r.TypesPath, "RefTagRE") {
						if g.Succ == trueSucc {
							onTag = true
						} else {
							onDigest = true
						}
					}
				}
				return
			}
			judge := func(ret *ssa.Return, onTag, onDigest bool) {
				v := ret.Results[0]
				if u, isLoad := v.(*ssa.UnOp); isLoad && u.Op == token.MUL {
					// defer-free function: the value is a load of a composite literal or a call result
					v = u
				}
				switch {
				case onTag:
					nTag++
					call, _ := an.CallOf(an.Origin(v))
					if call == nil || !an.IsMethod(call, r.TypesPath, "Descriptor", "Copy") {
						tagOK = false
					}
				case onDigest:
					nDig++
					ss := structStores(an.Origin(v))
					if len(ss) == 0 {
						if u, ok := v.(*ssa.UnOp); ok {
							ss = structStores(u)
						}
					}
					if len(ss) == 0 {
						// built by a function of the package: every descriptor it returns is built without annotations
						if hr := an.HelperReturns(an.Origin(v), func(h *ssa.Function) bool { return core.FuncPkgPath(h) == r.TypesPath }); len(hr) > 0 {
							bare := true
							for _, x := range hr {
								hs := structStores(an.Origin(x.Val))
								if len(hs) == 0 {
									if u, ok := x.Val.(*ssa.UnOp); ok {
										hs = structStores(u)
									}
								}
								if len(hs) == 0 && isZeroStruct(x.Val) {
									continue // the zero descriptor of a ‘not found’ return carries no annotations either
								}
								if _, has := hs["Annotations"]; has || len(hs) == 0 {
									bare = false
								}
							}
							if bare {
								return
							}
						}
					}
					if _, has := ss["Annotations"]; has || len(ss) == 0 {
						digOK = false
					}
				}
			}
			an.Instrs(fn, func(in ssa.Instruction) {
				ret, ok := in.(*ssa.Return)
				if !ok || len(ret.Results) != 2 {
					return
				}
				if retErrNil(ret) {
					t, d := sideOf(ret.Block())
					judge(ret, t, d)
					return
				}
				// the whole answer of a step of the package handed on (`return i.getDescByTag(arg)`): judged at the step's own
				// successful returns, on the side this return is on
				e0, ok0 := ret.Results[0].(*ssa.Extract)
				e1, ok1 := ret.Results[1].(*ssa.Extract)
				if !ok0 || !ok1 || e0.Tuple != e1.Tuple {
					return
				}
				call, isCall := e0.Tuple.(*ssa.Call)
				if !isCall {
					return
				}
				h := call.Call.StaticCallee()
				if h == nil || core.FuncPkgPath(h) != r.TypesPath || len(h.Blocks) == 0 {
					return
				}
				t, d := sideOf(ret.Block())
				an.Instrs(h, func(hin ssa.Instruction) {
					if hr, isRet := hin.(*ssa.Return); isRet && len(hr.Results) == 2 && retErrNil(hr) {
						judge(hr, t, d)
					}
				})
			})
			c.Check(tagOK && nTag > 0, "tag-lookup-returns-annotated-copy", fn.Pos(), "a tag lookup returns Copy() of the annotated index entry (%d return site(s)): %v", nTag, tagOK && nTag > 0)
			// the digest side searches every descriptor list the index keeps (top-level entries and children of nested indexes)
			if recv := fn.Signature.Recv(); recv != nil {
				if st, isSt := an.Deref(recv.Type()).Underlying().(*types.Struct); isSt {
					for fi := 0; fi < st.NumFields(); fi++ {
						sl, isSl := st.Field(fi).Type().Underlying().(*types.Slice)
						if !isSl || !isNamed(sl.Elem(), r.TypesPath, "Descriptor") {
							continue
						}
						// the list is searched on the digest side: there — in the lookup itself or in a method of the index it
						// calls there — the field is read for more than a nil / length test (indexed or ranged over, put into
						// a list of lists, handed to a helper)
						scanned := false
						onDigestSide := func(b *ssa.BasicBlock) bool {
							for _, g := range an.GuardingEdges(b) {
								if call, trueSucc, ok := an.BoolCallTest(g.If()); ok && an.IsMethod(call, "regexp", "Regexp", "MatchString") && g.Succ != trueSucc {
									return true
								}
							}
							return false
						}
						var scanIn func(f *ssa.Function, all bool, depth int)
						scanIn = func(f *ssa.Function, all bool, depth int) {
							if f == nil || depth > 2 || scanned {
								return
							}
							for _, b := range f.Blocks {
								if !all && !onDigestSide(b) {
									continue
								}
								for _, in := range b.Instrs {
									switch x := in.(type) {
									case *ssa.UnOp:
										fa, isFA := x.X.(*ssa.FieldAddr)
										if x.Op != token.MUL || !isFA || fa.Field != fi || !isNamedType(an.Deref(fa.X.Type()), r.TypesPath, "Index") || x.Referrers() == nil {
											continue
										}
										for _, ref := range *x.Referrers() {
											switch u := ref.(type) {
											case *ssa.BinOp, *ssa.DebugRef:
											case *ssa.Call:
												if bi, isB := u.Call.Value.(*ssa.Builtin); isB && bi.Name() == "len" {
													continue
												}
												scanned = true
											default:
												scanned = true
											}
										}
									case *ssa.Field:
										// value receiver copied into a register: i.childManifests as a field of the loaded struct
										if x.Field == fi && isNamedType(x.X.Type(), r.TypesPath, "Index") && x.Referrers() != nil {
											for _, ref := range *x.Referrers() {
												if _, isCmp := ref.(*ssa.BinOp); !isCmp {
													scanned = true
												}
											}
										}
									case *ssa.Call:
										if callee := x.Call.StaticCallee(); callee != nil && callee != f && core.FuncPkgPath(callee) == r.TypesPath && callee.Signature.Recv() != nil && isNamedType(callee.Signature.Recv().Type(), r.TypesPath, "Index") {
											scanIn(callee, true, depth+1)
										}
									}
								}
							}
						}
						scanIn(fn, false, 0)
						c.Check(scanned, "digest-lookup-scans:"+st.Field(fi).Name(), fn.Pos(), "a digest lookup searches the list %s: %v — otherwise a digest recorded there cannot be fetched or deleted by digest although it is stored", st.Field(fi).Name(), scanned)
					}
				}
			}
			c.Check(digOK && nDig > 0, "digest-lookup-returns-bare-descriptor", fn.Pos(), "a digest lookup returns a descriptor built without annotations (%d return site(s)): %v — otherwise deleting by digest only removes one tag", nDig, digOK && nDig > 0)
		}})
	register(&Rule{ID: "LK-GLOBALS", Floor: 1,
		Doc: "package-level variables of the module are only written by package initialisation: a store to one from any other function would be an unsynchronised write visible to every request",
		Run: func(c *core.Ctx) {
			n, bad := 0, 0
			for _, fn := range c.P.ModFuncs {
				if fn.Name() == "init" || strings.HasPrefix(fn.Name(), "init#") || strings.HasPrefix(core.FuncPkgPath(fn), c.P.Module+"/cmd/") || strings.HasSuffix(core.FuncPkgPath(fn), "/internal/copy") {
					continue
				}
				top := fn
				for top.Parent() != nil {
					top = top.Parent()
				}
				if top.Name() == "init" || strings.HasPrefix(top.Name(), "init#") {
					continue
				}
				an.Instrs(fn, func(in ssa.Instruction) {
					st, ok := in.(*ssa.Store)
					if !ok {
						return
					}
					root := baseGlobal(st.Addr)
					if root == nil || root.Pkg == nil || !strings.HasPrefix(root.Pkg.Pkg.Path(), c.P.Module) {
						return
					}
					bad++
					c.Fail(fmt.Sprintf("global-write:%s.%s|%s", root.Pkg.Pkg.Name(), root.Name(), kn(c.P.FuncName(fn))), st.Pos(), "package-level variable %s.%s is written in %s, outside package initialisation: concurrent requests race on it", root.Pkg.Pkg.Name(), root.Name(), c.P.FuncName(fn))
				})
				n++
			}
			if bad == 0 {
				c.Pass("globals", token.NoPos, "%d functions scanned: no package-level variable of the module is written outside initialisation", n)
			}
		}})
}

func isTimeType(t types.Type) bool { return isNamed(t, "time", "Time") }

func baseGlobal(v ssa.Value) *ssa.Global {
	for i := 0; i < 8; i++ {
		switch x := v.(type) {
		case *ssa.Global:
			return x
		case *ssa.FieldAddr:
			v = x.X
		case *ssa.IndexAddr:
			v = x.X
		default:
			return nil
		}
	}
	return nil
}

func init() {
	register(&Rule{ID: "TS-TIMER", Floor: 1,
		Doc: "the cache arms its expiry timer only when its timer field is nil (premise, checked); hence ‘field non-nil ⇒ timer pending’ must be kept: after every Stop() of that timer the field is set to nil (or the timer re-armed) on all paths before the function returns — a stopped timer left in the field is never re-armed and nothing in the cache expires again",
		Run: func(c *core.Ctx) {
			isTimerField := func(addr ssa.Value) bool {
				fa, ok := addr.(*ssa.FieldAddr)
				if !ok {
					return false
				}
				pt, ok := an.Deref(fa.Type()).(*types.Pointer)
				if !ok {
					return false
				}
				n := an.NamedOf(pt.Elem())
				return n != nil && n.Obj().Pkg() != nil && n.Obj().Pkg().Path() == "time" && n.Obj().Name() == "Timer"
			}
			timerFromField := func(v ssa.Value) bool {
				ld, ok := an.Strip(v).(*ssa.UnOp)
				return ok && ld.Op == token.MUL && isTimerField(ld.X)
			}
			// premise: an arming store guarded by the field's nil edge
			premise := false
			type verdict struct {
				bad string
				pos token.Pos
			}
			res := map[string]*verdict{}
			callbacks := map[*ssa.Function]bool{}
			for _, fn := range c.P.Funcs("internal/cache") {
				if fn.TypeParams().Len() > 0 && len(fn.TypeArgs()) == 0 {
					continue
				}
				name := c.P.FuncName(fn)
				if fn.Origin() != nil {
					name = c.P.FuncName(fn.Origin())
				}
				an.Instrs(fn, func(in ssa.Instruction) {
					st, ok := in.(*ssa.Store)
					if !ok || !isTimerField(st.Addr) {
						return
					}
					call, ok := an.Strip(st.Val).(*ssa.Call)
					if !ok || !an.IsFunc(call, "time", "AfterFunc") {
						return
					}
					if len(call.Call.Args) == 2 {
						if mc, isMC := an.Strip(call.Call.Args[1]).(*ssa.MakeClosure); isMC {
							if cb, isFn := mc.Fn.(*ssa.Function); isFn {
								callbacks[timerCallbackTarget(cb)] = true
							}
						} else if cb, isFn := an.Strip(call.Call.Args[1]).(*ssa.Function); isFn {
							callbacks[timerCallbackTarget(cb)] = true
						}
					}
					for _, g := range an.GuardingEdges(st.Block()) {
						if x, nilSucc, ok := an.NilTest(g.If()); ok && timerFromField(x) && g.Succ == nilSucc {
							premise = true
						}
					}
					// the arming step as a helper (`armTimer(d)`): the nil test sits at a call of it
					if !premise {
						for _, site := range c.P.Callers(fn) {
							if site.Common().StaticCallee() != fn {
								continue
							}
							for _, g := range an.GuardingEdges(site.Block()) {
								if x, nilSucc, ok := an.NilTest(g.If()); ok && timerFromField(x) && g.Succ == nilSucc {
									premise = true
								}
							}
						}
					}
				})
				nStop := 0
				an.Calls(fn, func(call ssa.CallInstruction) {
					if an.IsMethod(call, "time", "Timer", "Stop") {
						if recv, _ := an.CallArgs(call); timerFromField(recv) {
							nStop++
						}
					}
				})
				if nStop == 0 {
					continue
				}
				bad := ""
				// loads of the field are numbered; a load is valid until the next store to the field: stopping a
				// timer read through a valid load leaves a stopped timer in the field
				loadNo := map[ssa.Value]uint{}
				an.Instrs(fn, func(in ssa.Instruction) {
					if u, ok := in.(*ssa.UnOp); ok && u.Op == token.MUL && isTimerField(u.X) && len(loadNo) < 30 {
						loadNo[u] = uint(len(loadNo))
					}
				})
				type tst struct {
					valid uint32
					bad   bool
				}
				recvLoad := func(call ssa.CallInstruction) (uint, bool) {
					recv, _ := an.CallArgs(call)
					n, ok := loadNo[an.Strip(recv)]
					if !ok {
						n, ok = loadNo[an.Origin(recv)]
					}
					return n, ok
				}
				an.Paths(an.PathSpec[tst]{Fn: fn, Init: tst{},
					Instr: func(s tst, in ssa.Instruction) []tst {
						switch x := in.(type) {
						case *ssa.UnOp:
							if n, ok := loadNo[x]; ok {
								s.valid |= 1 << n
							}
						case *ssa.Store:
							if isTimerField(x.Addr) {
								return []tst{{}}
							}
						case ssa.CallInstruction:
							if an.IsMethod(x, "time", "Timer", "Stop") {
								if n, ok := recvLoad(x); ok && s.valid&(1<<n) != 0 {
									s.bad = true
								}
							}
							if an.IsMethod(x, "time", "Timer", "Reset") {
								if n, ok := recvLoad(x); ok && s.valid&(1<<n) != 0 {
									s.bad = false
								}
							}
						case *ssa.Return:
							if s.bad && bad == "" {
								bad = fmt.Sprintf("%s returns at %s with the stopped timer still in the field", name, c.P.Pos(x.Pos()))
							}
						}
						return []tst{s}
					}})
				key := "stop-forgets:" + kn(name)
				v := res[key]
				if v == nil {
					v = &verdict{pos: fn.Pos()}
					res[key] = v
				}
				if bad != "" {
					v.bad = bad
				}
			}
			// the function the timer runs: when it is entered the timer in the field has fired. Once it has gone through the
			// entries, every path to a return re-arms the timer (Reset, or a new timer stored in the field), clears the field,
			// or has found the field nil — a fired timer left in the field is never re-armed by Set, which arms only on nil
			for cb := range callbacks {
				if cb == nil || len(cb.Blocks) == 0 {
					continue
				}
				name := c.P.FuncName(cb)
				if cb.Origin() != nil {
					name = c.P.FuncName(cb.Origin())
				}
				var scan ssa.Instruction
				an.Instrs(cb, func(in ssa.Instruction) {
					if rg, ok := in.(*ssa.Range); ok && scan == nil {
						if _, isMap := rg.X.Type().Underlying().(*types.Map); isMap {
							scan = in
						}
					}
				})
				key := "callback-rearms:" + kn(name)
				v := res[key]
				if v == nil {
					v = &verdict{pos: cb.Pos()}
					res[key] = v
				}
				if scan == nil {
					continue
				}
				// leaks: a return of f is reachable from (b, start) without the field having been re-armed, cleared or found nil
				// — directly or in a helper of the package every path of which does so.  The walk is path-sensitive: it keeps the
				// outcome of the comparisons it has passed (the same comparison, or the emptiness of the same map field of the
				// receiver, tested again — also inside a helper called on the same receiver — has the same outcome until the map
				// is changed) and resolves a materialised && / || through the predecessor the path came by.
				type factSet map[string]bool
				factStr := func(fs factSet) string {
					ks := make([]string, 0, len(fs))
					for k, v := range fs {
						ks = append(ks, fmt.Sprintf("%s=%v", k, v))
					}
					sort.Strings(ks)
					return strings.Join(ks, ";")
				}
				recvField := func(f *ssa.Function, v ssa.Value) (string, bool) {
					ld, ok := an.Strip(v).(*ssa.UnOp)
					if !ok || ld.Op != token.MUL || len(f.Params) == 0 {
						return "", false
					}
					fa, ok := ld.X.(*ssa.FieldAddr)
					if !ok || an.Strip(fa.X) != ssa.Value(f.Params[0]) {
						return "", false
					}
					st, ok := an.Deref(fa.X.Type()).Underlying().(*types.Struct)
					if !ok {
						return "", false
					}
					return st.Field(fa.Field).Name(), true
				}
				// factOf: the fact a condition value establishes when it is true (key, value), if it is one the walk tracks
				factOf := func(f *ssa.Function, cond ssa.Value) (string, bool, bool) {
					bo, ok := an.Strip(cond).(*ssa.BinOp)
					if !ok {
						return "", false, false
					}
					x, y, op := bo.X, bo.Y, bo.Op
					if l := lenOf(y); l != nil && lenOf(x) == nil {
						x, y = y, x
						op = flipCmp(op)
					}
					if l := lenOf(x); l != nil {
						if fld, isF := recvField(f, l); isF {
							if k, isK := an.ConstInt(y); isK {
								switch {
								case (op == token.EQL && k == 0) || (op == token.LEQ && k == 0) || (op == token.LSS && k == 1):
									return "empty:" + fld, true, true
								case (op == token.NEQ && k == 0) || (op == token.GTR && k == 0) || (op == token.GEQ && k == 1):
									return "empty:" + fld, false, true
								}
							}
						}
					}
					name := func(v ssa.Value) string {
						if cst, isC := v.(*ssa.Const); isC {
							return "c" + cst.Name()
						}
						return fmt.Sprintf("%p", v)
					}
					return "bin:" + bo.Op.String() + ":" + name(an.Strip(bo.X)) + ":" + name(an.Strip(bo.Y)), true, true
				}
				memo := map[string]int{} // 1 = settles on all paths, 2 = may leak, 3 = in progress
				var leaks func(f *ssa.Function, b *ssa.BasicBlock, start int, depth int, facts factSet) token.Pos
				settles := func(f *ssa.Function, depth int, facts factSet) bool {
					if f == nil || len(f.Blocks) == 0 || depth > 3 || !strings.HasSuffix(core.FuncPkgPath(f), "/internal/cache") {
						return false
					}
					mk := fmt.Sprintf("%p|%s", f, factStr(facts))
					switch memo[mk] {
					case 1:
						return true
					case 2, 3:
						return false
					}
					memo[mk] = 3
					if leaks(f, f.Blocks[0], 0, depth+1, facts) == token.NoPos {
						memo[mk] = 1
						return true
					}
					memo[mk] = 2
					return false
				}
				leaks = func(f *ssa.Function, b0 *ssa.BasicBlock, start0 int, depth int, facts0 factSet) token.Pos {
					bad := token.NoPos
					seen := map[string]bool{}
					var walk func(b, pred *ssa.BasicBlock, start int, facts factSet)
					walk = func(b, pred *ssa.BasicBlock, start int, facts factSet) {
						if bad != token.NoPos {
							return
						}
						for _, in := range b.Instrs[start:] {
							switch x := in.(type) {
							case *ssa.Store:
								if isTimerField(x.Addr) {
									return
								}
							case *ssa.MapUpdate:
								if fld, ok := recvField(f, x.Map); ok {
									facts = copyFacts(facts)
									delete(facts, "empty:"+fld)
								}
							case ssa.CallInstruction:
								if _, isDefer := x.(*ssa.Defer); isDefer {
									continue
								}
								if bi, isB := x.Common().Value.(*ssa.Builtin); isB && bi.Name() == "delete" && len(x.Common().Args) > 0 {
									if fld, ok := recvField(f, x.Common().Args[0]); ok {
										facts = copyFacts(facts)
										delete(facts, "empty:"+fld)
									}
									continue
								}
								if an.IsMethod(x, "time", "Timer", "Reset") {
									if recv, _ := an.CallArgs(x); timerFromField(recv) {
										return
									}
								}
								if callee := x.Common().StaticCallee(); callee != nil && callee != f {
									cf := factSet{}
									if len(x.Common().Args) > 0 && len(f.Params) > 0 && an.Strip(x.Common().Args[0]) == ssa.Value(f.Params[0]) && callee.Signature.Recv() != nil {
										for k, v := range facts {
											if strings.HasPrefix(k, "empty:") {
												cf[k] = v
											}
										}
									}
									if settles(callee, depth, cf) {
										return
									}
								}
							case *ssa.Return:
								bad = x.Pos()
								if bad == token.NoPos {
									bad = f.Pos()
								}
								return
							}
						}
						ifi := an.BlockIf(b)
						if ifi == nil {
							for _, sc := range b.Succs {
								k := fmt.Sprintf("%d<%d|%s", sc.Index, b.Index, factStr(facts))
								if !seen[k] {
									seen[k] = true
									walk(sc, b, 0, facts)
								}
							}
							return
						}
						cond, neg := an.CondBase(ifi.Cond)
						// a materialised && / ||: the value the predecessor the path came by put into the φ
						for hops := 0; hops < 3; hops++ {
							ph, isPhi := cond.(*ssa.Phi)
							if !isPhi || ph.Block() != b || pred == nil {
								break
							}
							found := false
							for pi, p := range b.Preds {
								if p == pred {
									c2, n2 := an.CondBase(ph.Edges[pi])
									cond, neg = c2, neg != n2
									found = true
									break
								}
							}
							if !found {
								break
							}
						}
						for i, sc := range b.Succs {
							truth := (i == 0) != neg
							if cv, isC := an.ConstBool(cond); isC && cv != truth {
								continue // constant outcome merged in by the φ
							}
							if bo, isBo := an.Strip(cond).(*ssa.BinOp); isBo && (bo.Op == token.EQL || bo.Op == token.NEQ) {
								other := bo.X
								isNil := an.IsNilConst(bo.Y)
								if an.IsNilConst(bo.X) {
									other, isNil = bo.Y, true
								}
								if isNil && timerFromField(other) && ((bo.Op == token.EQL) == truth) {
									continue // the field is nil on this edge: nothing is left in it
								}
							}
							nf := facts
							if key, val, ok := factOf(f, cond); ok {
								want := val == truth
								if cur, has := facts[key]; has && cur != want {
									continue // contradicts a comparison the path has already passed
								}
								nf = copyFacts(facts)
								nf[key] = want
							}
							k := fmt.Sprintf("%d<%d|%s", sc.Index, b.Index, factStr(nf))
							if !seen[k] {
								seen[k] = true
								walk(sc, b, 0, nf)
							}
						}
					}
					walk(b0, nil, start0, facts0)
					return bad
				}
				if pos := leaks(cb, scan.Block(), an.InstrIndex(scan)+1, 0, map[string]bool{}); pos != token.NoPos && v.bad == "" {
					v.bad = fmt.Sprintf("%s, which the expiry timer runs, can return at %s after going through the entries without re-arming the timer or clearing the field (the fired timer stays in it)", name, c.P.Pos(pos))
				}
			}
			if !premise {
				if len(res) > 0 {
					c.Undecided("premise", token.NoPos, "the cache stops its expiry timer but no arming site guarded by ‘timer field is nil’ was found: the re-arming discipline is not the one this rule knows")
				} else {
					c.Unresolved("premise", "no expiry timer field armed under a nil test found in internal/cache")
				}
				return
			}
			var keys []string
			for k := range res {
				keys = append(keys, k)
			}
			sort.Strings(keys)
			for _, k := range keys {
				if res[k].bad != "" {
					c.Fail(k, res[k].pos, "%s: Set arms a timer only when the field is nil, so no later entry of this cache ever expires (abandoned upload sessions and their temporary files stay)", res[k].bad)
				} else {
					if strings.HasPrefix(k, "callback-rearms:") {
						c.Pass(k, res[k].pos, "the function the expiry timer runs leaves the field re-armed, cleared or nil on every path after it went through the entries")
					} else {
						c.Pass(k, res[k].pos, "after Stop() the timer field is cleared or re-armed on every path to a return")
					}
				}
			}
		}})
}

func init() {
	register(&Rule{ID: "SH-MODSTAMP", Floor: 3,
		Doc: "premise (checked per store): the store-wide pass skips a repository on a comparison of a time field of the repository with the start of the window; hence every operation that adds a blob to a repository or changes its index stores to that field — in the same function or in what it calls (incl. deferred calls, callbacks and goroutines, resolved through the call graph) — otherwise content that became garbage in a repository nobody touches again is never visited by a pass",
		Run: func(c *core.Ctx) {
			r := requireRoles(c)
			if r == nil {
				return
			}
			for _, fam := range r.Families {
				// premise: the skip test in the pass loop
				stampField := ""
				for _, fn := range c.P.Funcs("internal/store") {
					if fn.Signature.Recv() == nil || an.NamedOf(fn.Signature.Recv().Type()) != fam.Store {
						continue
					}
					callsGC := false
					var steps []*ssa.Function
					an.Calls(fn, func(call ssa.CallInstruction) {
						if step, isCollector := repoCollectorCall(fam, fn, call); isCollector && loopHeader(call.Block()) != nil {
							callsGC = true
							if step != nil {
								steps = append(steps, step)
							}
						}
					})
					if !callsGC {
						continue
					}
					scan := func(f *ssa.Function) {
						an.Calls(f, func(call ssa.CallInstruction) {
							if !an.IsMethod(call, "time", "Time", "Before") && !an.IsMethod(call, "time", "Time", "After") {
								return
							}
							for _, a := range call.Common().Args {
								root, p := accessPath(an.Strip(a))
								if len(p) == 1 && root != nil && an.NamedOf(an.Deref(root.Type())) == fam.Repo {
									stampField = p[0]
								}
							}
						})
					}
					// the comparison may sit in the per-repository step the loop calls, or in a small method of the repository
					// type the pass (or that step) calls
					for _, frame := range append([]*ssa.Function{fn}, steps...) {
						scan(frame)
						an.Calls(frame, func(call ssa.CallInstruction) {
							if sc := call.Common().StaticCallee(); sc != nil && sc.Name() != "gc" && sc.Signature.Recv() != nil && an.NamedOf(an.Deref(sc.Signature.Recv().Type())) == fam.Repo && len(sc.Blocks) > 0 {
								scan(sc)
							}
						})
					}
				}
				if stampField == "" {
					c.Pass("premise:"+fam.Name, token.NoPos, "the %s store's pass does not skip repositories on a modification stamp: nothing to keep fresh", fam.Name)
					continue
				}
				isStampStore := func(in ssa.Instruction) bool {
					st, ok := in.(*ssa.Store)
					if !ok {
						return false
					}
					fa, ok := st.Addr.(*ssa.FieldAddr)
					if !ok || an.NamedOf(an.Deref(fa.X.Type())) != fam.Repo {
						return false
					}
					return an.Deref(fa.X.Type()).Underlying().(*types.Struct).Field(fa.Field).Name() == stampField
				}
				var stamps func(fn *ssa.Function, depth int, seen map[*ssa.Function]bool) bool
				stamps = func(fn *ssa.Function, depth int, seen map[*ssa.Function]bool) bool {
					if fn == nil || seen[fn] || depth > 6 || len(fn.Blocks) == 0 {
						return false
					}
					seen[fn] = true
					found := false
					an.Instrs(fn, func(in ssa.Instruction) {
						if isStampStore(in) {
							found = true
						}
					})
					if found {
						return true
					}
					for _, b := range fn.Blocks {
						for _, in := range b.Instrs {
							switch x := in.(type) {
							case ssa.CallInstruction:
								for _, callee := range c.P.Callees(x) {
									if core.FuncPkgPath(callee) != "" && strings.HasPrefix(core.FuncPkgPath(callee), c.P.Module) && stamps(callee, depth+1, seen) {
										return true
									}
								}
							case *ssa.MakeClosure:
								if cf, ok := x.Fn.(*ssa.Function); ok && stamps(cf, depth+1, seen) {
									return true
								}
							}
						}
					}
					return false
				}
				// content-changing operations in the family's functions
				type op struct {
					what string
					at   ssa.Instruction
				}
				n := 0
				for _, fn := range c.P.Funcs("internal/store") {
					if r.FamilyOfFunc(fn) != fam {
						continue
					}
					if fn.Name() == "gc" || (fn.Parent() != nil && fn.Parent().Name() == "gc") {
						continue // the collector itself
					}
					var ops []op
					an.Instrs(fn, func(in ssa.Instruction) {
						switch x := in.(type) {
						case *ssa.MapUpdate:
							// a blob entered into the repository's blob map
							// (only the commit of an upload session counts: the memory store also fills the map with
							// blobs it loads lazily from its backing directory, which adds nothing to the repository)
							root, p := accessPath(an.Strip(x.Map))
							inUpload := fn.Signature.Recv() != nil && an.NamedOf(an.Deref(fn.Signature.Recv().Type())) == fam.Upload
							if inUpload && len(p) >= 1 && root != nil && an.NamedOf(an.Deref(fieldOwnerType(x.Map))) == fam.Repo {
								if _, isDigest := x.Map.Type().Underlying().(*types.Map); isDigest && strings.HasSuffix(x.Map.Type().Underlying().(*types.Map).Key().String(), "go-digest.Digest") {
									ops = append(ops, op{"adds a blob to the repository", in})
								}
							}
						case ssa.CallInstruction:
							if _, isDefer := x.(*ssa.Defer); isDefer {
								return
							}
							if an.IsMethod(x, r.TypesPath, "Index", "AddDesc") || an.IsMethod(x, r.TypesPath, "Index", "RmDesc") {
								recv, _ := an.CallArgs(x)
								if fa, ok := an.Strip(recv).(*ssa.FieldAddr); ok && an.NamedOf(an.Deref(fa.X.Type())) == fam.Repo {
									ops = append(ops, op{"changes the repository's index", in})
								}
							} else if x.Common().StaticCallee() == nil && !x.Common().IsInvoke() {
								for _, a := range x.Common().Args {
									if fa, ok := a.(*ssa.FieldAddr); ok && isNamedType(an.Deref(fa.Type()), r.TypesPath, "Index") && an.NamedOf(an.Deref(fa.X.Type())) == fam.Repo {
										ops = append(ops, op{"hands the repository's index to a function that changes it", in})
										break
									}
								}
							}
							if an.IsFunc(x, "os", "Rename") && fn.Signature.Recv() != nil && an.NamedOf(an.Deref(fn.Signature.Recv().Type())) == fam.Upload {
								ops = append(ops, op{"commits an uploaded blob", in})
							}
						}
					})
					for i, o := range ops {
						n++
						key := fmt.Sprintf("stamp:%s#%d", kn(c.P.FuncName(fn)), i+1)
						ok := stamps(fn, 0, map[*ssa.Function]bool{})
						if !ok {
							// the operation may be a step (dru.blobMove()) of an API method that does the refreshing: every call of the
							// unexported step sits in a function of the family that refreshes the stamp
							if obj, _ := fn.Object().(*types.Func); obj != nil && !obj.Exported() {
								sites := c.P.Callers(fn)
								all := len(sites) > 0
								for _, site := range sites {
									if site.Parent() == nil || r.FamilyOfFunc(site.Parent()) != fam || site.Common().StaticCallee() != fn || !stamps(site.Parent(), 0, map[*ssa.Function]bool{}) {
										all = false
									}
								}
								ok = all
							}
						}
						c.Check(ok, key, o.at.Pos(), "%s %s at %s and refreshes the repository's %s (directly or through what it calls): %v — the store-wide pass skips repositories whose %s is old, so garbage created here would never be collected if nothing else touches the repository", c.P.FuncName(fn), o.what, c.P.Pos(o.at.Pos()), stampField, ok, stampField)
					}
				}
				if n == 0 {
					c.Unresolved("ops:"+fam.Name, "no content-changing operation found in the %s store", fam.Name)
				}
			}
		}})
}

// isZeroStruct: the value is the zero value of a struct type: the constant, or the load of a local that is never written.
func isZeroStruct(v ssa.Value) bool {
	v = an.Strip(v)
	if k, ok := v.(*ssa.Const); ok {
		_, isStruct := k.Type().Underlying().(*types.Struct)
		return isStruct && k.Value == nil
	}
	if ld, ok := v.(*ssa.UnOp); ok && ld.Op == token.MUL {
		if al, ok := ld.X.(*ssa.Alloc); ok && al.Referrers() != nil {
			for _, ref := range *al.Referrers() {
				switch ref.(type) {
				case *ssa.UnOp, *ssa.DebugRef:
				default:
					return false
				}
			}
			return true
		}
	}
	return false
}

// fieldOwnerType: for a value loaded from x.f returns the type of x.
func fieldOwnerType(v ssa.Value) types.Type {
	v = an.Strip(v)
	if u, ok := v.(*ssa.UnOp); ok {
		v = u.X
	}
	if fa, ok := v.(*ssa.FieldAddr); ok {
		return fa.X.Type()
	}
	return types.Typ[types.Invalid]
}

func init() {
	register(&Rule{ID: "TS-COMMIT-FRESH", Floor: 2,
		Doc: "the commit of an upload session gives the blob the age of the upload: the operation that enters the blob into the repository (store into the blob map / rename of the temporary file onto the blob's name) is not skipped on an existence test of its own target unless that path refreshes the existing blob's modification time — the grace period of the collector is judged from that time, so a blob uploaded moments ago must never keep the age of an older copy",
		Run: func(c *core.Ctx) {
			r := requireRoles(c)
			if r == nil {
				return
			}
			for _, fam := range r.Families {
				fn := methodOfNamed(c, fam.Upload, "Close")
				key := "commit:" + fam.Upload.Obj().Name()
				if fn == nil {
					c.Unresolved(key, "Close of %s not found", fam.Upload.Obj().Name())
					continue
				}
				// the commit operation and its target
				var commit ssa.Instruction
				var target ssa.Value // map (memory) or destination path (directory)
				var tkey ssa.Value   // map key
				find := func(f *ssa.Function) {
					an.Instrs(f, func(in ssa.Instruction) {
						switch x := in.(type) {
						case *ssa.MapUpdate:
							if an.NamedOf(an.Deref(fieldOwnerType(x.Map))) == fam.Repo {
								commit, target, tkey = in, x.Map, x.Key
							}
						case ssa.CallInstruction:
							if _, isDefer := x.(*ssa.Defer); !isDefer && an.IsFunc(x, "os", "Rename") {
								commit, target = in, x.Common().Args[1]
							}
						}
					})
				}
				find(fn)
				if commit == nil {
					// the commit may sit in a closure handed to a wrapper that runs it under the repository lock: the
					// closure is then the frame in which the commit and any test of its target are looked at
					for _, af := range fn.AnonFuncs {
						if commit == nil {
							find(af)
							if commit != nil {
								fn = af
							}
						}
					}
				}
				if commit == nil {
					// … or in a step of the family the commit method calls: that step is then the frame
					an.Calls(fn, func(call ssa.CallInstruction) {
						h := call.Common().StaticCallee()
						if commit != nil || h == nil || h == fn || len(h.Blocks) == 0 || r.FamilyOfFunc(h) != fam {
							return
						}
						if _, isCall := call.(*ssa.Call); !isCall {
							return
						}
						find(h)
						if commit != nil {
							fn = h
						}
					})
				}
				if commit == nil {
					c.Fail(key, fn.Pos(), "%s neither stores the blob into the repository's blob map nor renames the temporary file onto the blob's name: a completed upload does not become a blob", c.P.FuncName(fn))
					continue
				}
				samePath := func(a, b ssa.Value) bool {
					ra, pa := accessPath(an.Strip(a))
					rb, pb := accessPath(an.Strip(b))
					return an.Origin(a) == an.Origin(b) || (ra == rb && len(pa) > 0 && strings.Join(pa, ".") == strings.Join(pb, "."))
				}
				// existence tests of the target: conditions derived from a lookup in the same map / a Stat, Lstat or Open of the same path
				var derives func(v ssa.Value, d int) bool
				derives = func(v ssa.Value, d int) bool {
					if v == nil || d > 6 {
						return false
					}
					switch x := an.Strip(v).(type) {
					case *ssa.Lookup:
						return tkey != nil && samePath(x.X, target)
					case *ssa.Extract:
						return derives(x.Tuple, d+1)
					case *ssa.Call:
						if an.IsFunc(x, "os", "Stat") || an.IsFunc(x, "os", "Lstat") || an.IsFunc(x, "os", "Open") {
							return tkey == nil && an.Origin(x.Call.Args[0]) == an.Origin(target)
						}
					case *ssa.BinOp:
						return derives(x.X, d+1) || derives(x.Y, d+1)
					case *ssa.UnOp:
						return derives(x.X, d+1)
					case *ssa.Phi:
						for _, e := range x.Edges {
							if derives(e, d+1) {
								return true
							}
						}
					}
					return false
				}
				refreshes := func(b *ssa.BasicBlock) bool {
					for _, in := range b.Instrs {
						if in == commit {
							return true
						}
						switch x := in.(type) {
						case *ssa.Store:
							if fa, ok := x.Addr.(*ssa.FieldAddr); ok && isTimeType(an.Deref(fa.Type())) && an.NamedOf(an.Deref(fa.X.Type())) != fam.Repo {
								return true // the modification time of a blob's metadata
							}
						case ssa.CallInstruction:
							if an.IsFunc(x, "os", "Chtimes") {
								return true
							}
						}
					}
					return false
				}
				var definiteErr func(v ssa.Value, d int) bool
				definiteErr = func(v ssa.Value, d int) bool {
					if v == nil || d > 4 {
						return false
					}
					switch x := an.Strip(v).(type) {
					case *ssa.Call:
						if an.IsFunc(x, "fmt", "Errorf") || an.IsFunc(x, "errors", "New") {
							return true
						}
						if an.IsFunc(x, "errors", "Join") {
							if elems, ok := variadicElems(x.Call.Args[0]); ok {
								for _, e := range elems {
									if definiteErr(e, d+1) {
										return true
									}
								}
							}
						}
					case *ssa.UnOp:
						if g, ok := x.X.(*ssa.Global); ok && an.IsErrorType(an.Deref(g.Type())) {
							return true
						}
					case *ssa.MakeInterface:
						return definiteErr(x.X, d+1)
					}
					return false
				}
				bad := ""
				for _, b := range fn.Blocks {
					ifi := an.BlockIf(b)
					if ifi == nil || !derives(ifi.Cond, 0) {
						continue
					}
					for _, s := range b.Succs {
						seen := map[*ssa.BasicBlock]bool{}
						var walk func(x *ssa.BasicBlock) bool
						walk = func(x *ssa.BasicBlock) bool {
							if seen[x] {
								return false
							}
							seen[x] = true
							if refreshes(x) {
								return false
							}
							if len(x.Instrs) > 0 {
								if ret, ok := x.Instrs[len(x.Instrs)-1].(*ssa.Return); ok {
									if len(ret.Results) > 0 && definiteErr(ret.Results[len(ret.Results)-1], 0) {
										return false
									}
									return true
								}
							}
							for _, y := range x.Succs {
								if walk(y) {
									return true
								}
							}
							return false
						}
						if walk(s) && bad == "" {
							bad = c.P.Pos(ifi.Cond.Pos())
						}
					}
				}
				c.Check(bad == "", key, commit.Pos(), "%s enters the blob into the repository at %s on every path that can acknowledge the upload, or refreshes the existing blob's time (a path decided by an existence test of the target at %s skips both): %v — otherwise a blob uploaded moments ago keeps the age of an older copy and the collector removes it inside the grace period", c.P.FuncName(fn), c.P.Pos(commit.Pos()), bad, bad == "")
			}
		}})
}

func methodOfNamed(c *core.Ctx, n *types.Named, name string) *ssa.Function {
	for _, t := range []types.Type{types.NewPointer(n), n} {
		ms := c.P.SSA.MethodSets.MethodSet(t)
		for i := 0; i < ms.Len(); i++ {
			if ms.At(i).Obj().Name() == name {
				if fn := c.P.SSA.MethodValue(ms.At(i)); fn != nil && len(fn.Blocks) > 0 {
					return fn
				}
			}
		}
	}
	return nil
}

func init() {
	register(&Rule{ID: "TS-EXPIRE-ATOMIC", Floor: 1,
		Doc: "in the cache's prune functions the decision that an entry is to go (its last-use time compared with the cut-off, or the sort by last use) and the removal of that entry are one critical section: on no path is the cache's mutex released after the decision and the entry deleted without the decision having been made again — otherwise a Get that succeeds in between refreshes the entry and still loses it",
		Run: func(c *core.Ctx) {
			isCacheMu := func(call ssa.CallInstruction, names ...string) bool {
				for _, n := range names {
					if an.IsMethod(call, "sync", "Mutex", n) || an.IsMethod(call, "sync", "RWMutex", n) {
						if len(call.Common().Args) > 0 {
							if fa, ok := call.Common().Args[0].(*ssa.FieldAddr); ok {
								if nt := an.NamedOf(an.Deref(fa.X.Type())); nt != nil && nt.Obj().Pkg() != nil && strings.HasSuffix(nt.Obj().Pkg().Path(), "/internal/cache") {
									return true
								}
							}
						}
					}
				}
				return false
			}
			isUsedCompare := func(v ssa.Value) bool {
				call, _ := an.CallOf(an.Strip(v))
				if call == nil || !(an.IsMethod(call, "time", "Time", "Before") || an.IsMethod(call, "time", "Time", "After")) {
					return false
				}
				for _, a := range call.Call.Args {
					if _, p := deepAccessPath(a); len(p) > 0 && p[len(p)-1] == "used" {
						return true
					}
				}
				return false
			}
			seen := map[string]bool{}
			for _, fn := range c.P.Funcs("internal/cache") {
				if fn.TypeParams().Len() > 0 && len(fn.TypeArgs()) == 0 {
					continue
				}
				deletes := cacheDeleteSites(fn, 0)
				decides := false
				for _, b := range fn.Blocks {
					if ifi := an.BlockIf(b); ifi != nil {
						base, _ := an.CondBase(ifi.Cond)
						if isUsedCompare(base) {
							decides = true
						}
					}
				}
				an.Calls(fn, func(call ssa.CallInstruction) {
					if an.IsFunc(call, "sort", "Sort") || an.IsFunc(call, "sort", "Slice") || an.IsFunc(call, "sort", "SliceStable") || an.IsFunc(call, "slices", "SortFunc") {
						decides = true
					}
				})
				if len(deletes) == 0 || !decides {
					continue
				}
				name := c.P.FuncName(fn)
				if fn.Origin() != nil {
					name = c.P.FuncName(fn.Origin())
				}
				key := "decide-and-remove:" + kn(name)
				if seen[key] {
					continue
				}
				seen[key] = true
				type st struct{ decided, released bool }
				bad := ""
				an.Paths(an.PathSpec[st]{Fn: fn, Init: st{},
					Instr: func(s st, in ssa.Instruction) []st {
						if call, ok := in.(ssa.CallInstruction); ok {
							if _, isDefer := in.(*ssa.Defer); isDefer {
								return []st{s}
							}
							switch {
							case an.IsFunc(call, "sort", "Sort") || an.IsFunc(call, "sort", "Slice") || an.IsFunc(call, "sort", "SliceStable") || an.IsFunc(call, "slices", "SortFunc"):
								return []st{{decided: true}}
							case isCacheMu(call, "Unlock", "RUnlock"):
								if s.decided {
									s.released = true
								}
							}
							for _, d := range deletes {
								if in == d && s.decided && s.released && bad == "" {
									bad = fmt.Sprintf("the entry is deleted at %s although the cache's mutex was released after the decision to remove it and the decision was not made again", c.P.Pos(in.Pos()))
								}
							}
						}
						return []st{s}
					},
					Edge: func(s st, from *ssa.BasicBlock, succ int) (st, bool) {
						if ifi := an.BlockIf(from); ifi != nil {
							base, _ := an.CondBase(ifi.Cond)
							if isUsedCompare(base) {
								return st{decided: true}, true // the decision, made (again) now
							}
						}
						return s, true
					}})
				c.Check(bad == "", key, fn.Pos(), "%s", map[bool]string{true: "decision and removal lie in one hold of the cache's mutex", false: bad + ": a Get that succeeded while the mutex was free refreshed the entry and loses it all the same"}[bad == ""])
			}
			if len(seen) == 0 {
				c.Unresolved("prune-functions", "no function of the cache package that decides on last use and deletes entries found")
			}
		}})
	register(&Rule{ID: "TS-PRUNE-TRIGGER", Floor: 1,
		Doc: "an insertion beyond the count limit starts the count pruner: in the cache's insert function the start of the pruner (go statement or call of a cache method that deletes entries) depends only on the count comparison (limit fields and len(entries)); a further condition on a boolean ‘pruner busy’ field is accepted only if the pruner clears that field on every path to each of its returns (or in a deferred function) — a flag left set by an early return disables count pruning for good",
		Run: func(c *core.Ctx) {
			// the field of the cache a value is read from; limits may be grouped in a sub-struct (c.lim.maxCount)
			fieldName := func(v ssa.Value) (string, bool) {
				_, p := accessPath(an.Strip(v))
				if len(p) >= 1 && len(p) <= 2 {
					return p[len(p)-1], true
				}
				return "", false
			}
			type verdict struct {
				bad string
				pos token.Pos
				n   int
			}
			res := map[string]*verdict{}
			for _, fn := range c.P.Funcs("internal/cache") {
				if fn.TypeParams().Len() > 0 && len(fn.TypeArgs()) == 0 {
					continue
				}
				inserts := false
				an.Instrs(fn, func(in ssa.Instruction) {
					if mu, ok := in.(*ssa.MapUpdate); ok {
						if f, ok := fieldName(mu.Map); ok && f == "entries" {
							inserts = true
						}
					}
				})
				if !inserts {
					continue
				}
				// the start of the pruner sits in the insert function itself or in a step of the cache it calls (‘schedule the
				// pruning’): then the conditions on the way are those of the call in the insert function and those inside the step
				type frame struct {
					fn    *ssa.Function
					outer []*ssa.BasicBlock // blocks of the calls that lead here, with the function each belongs to
				}
				frames := []frame{{fn, nil}}
				an.Calls(fn, func(call ssa.CallInstruction) {
					if _, isCall := call.(*ssa.Call); !isCall {
						return
					}
					if h := call.Common().StaticCallee(); h != nil && h != fn && len(h.Blocks) > 0 && core.FuncPkgPath(h) == core.FuncPkgPath(fn) && h.Signature.Recv() != nil {
						frames = append(frames, frame{h, []*ssa.BasicBlock{call.Block()}})
					}
				})
				for _, fr := range frames {
					for _, b := range fr.fn.Blocks {
						for _, in := range b.Instrs {
							var callee *ssa.Function
							switch x := in.(type) {
							case *ssa.Go:
								callee = x.Call.StaticCallee()
								if callee == nil {
									if mc, ok := x.Call.Value.(*ssa.MakeClosure); ok {
										callee, _ = mc.Fn.(*ssa.Function)
									}
								}
							}
							if callee == nil {
								continue
							}
							// the pruner deletes entries
							if len(cacheDeleteSites(callee, 0)) == 0 {
								continue
							}
							name := c.P.FuncName(fn)
							if fn.Origin() != nil {
								name = c.P.FuncName(fn.Origin())
							}
							key := "trigger:" + kn(name)
							v := res[key]
							if v == nil {
								v = &verdict{pos: in.Pos()}
								res[key] = v
							}
							v.n++
							// count comparison: operands are limit fields, len(entries) or constants; a materialised
							// `a && b` (a φ of booleans) is one when every operand is
							bind := map[ssa.Value]ssa.Value{} // parameters of the predicates entered → the arguments they were given
							var countCond func(v ssa.Value, depth int) bool
							countCond = func(v ssa.Value, depth int) bool {
								base, _ := an.CondBase(v)
								switch x := base.(type) {
								case *ssa.Const:
									return true
								case *ssa.Call:
									// a predicate of the cache (c.overCount()): every return is a count comparison
									h := x.Call.StaticCallee()
									if h == nil || len(h.Blocks) == 0 || depth > 3 || core.FuncPkgPath(h) != core.FuncPkgPath(fn) || h.Signature.Results().Len() != 1 {
										return false
									}
									for k, hp := range h.Params {
										if k < len(x.Call.Args) {
											bind[hp] = x.Call.Args[k]
										}
									}
									okAll, nRet := true, 0
									an.Instrs(h, func(in ssa.Instruction) {
										if ret, isRet := in.(*ssa.Return); isRet && len(ret.Results) == 1 {
											nRet++
											if !countCond(ret.Results[0], depth+1) {
												okAll = false
											}
										}
									})
									// the branches inside the predicate are of the same kind
									for _, hb := range h.Blocks {
										if hi := an.BlockIf(hb); hi != nil && !countCond(hi.Cond, depth+1) {
											okAll = false
										}
									}
									return okAll && nRet > 0
								case *ssa.Phi:
									if depth > 4 {
										return false
									}
									for _, e := range x.Edges {
										if !countCond(e, depth+1) {
											return false
										}
									}
									// the operands were evaluated under conditions of the same kind
									for _, p := range x.Block().Preds {
										for _, g := range an.GuardingEdges(p) {
											if g.Synthetic() || an.EdgeDominates(g.From, g.Succ, x.Block()) {
												continue
											}
											if !countCond(g.If().Cond, depth+1) {
												return false
											}
										}
									}
									return true
								case *ssa.BinOp:
									for _, o := range []ssa.Value{x.X, x.Y} {
										if a, bound := bind[an.Strip(o)]; bound {
											o = a
										}
										if _, isC := an.Strip(o).(*ssa.Const); isC {
											continue
										}
										if l := lenOf(o); l != nil {
											if f, ok := fieldName(l); ok && f == "entries" {
												continue
											}
										}
										if f, ok := fieldName(o); ok && (strings.Contains(strings.ToLower(f), "count") || strings.Contains(strings.ToLower(f), "max") || strings.Contains(strings.ToLower(f), "min")) {
											continue
										}
										return false
									}
									return true
								}
								return false
							}
							guards := an.GuardingEdges(b)
							for _, ob := range fr.outer {
								guards = append(guards, an.GuardingEdges(ob)...)
							}
							for _, g := range guards {
								cond := g.If().Cond
								base, _ := an.CondBase(cond)
								// the receiver nil test at the top of the function
								if x, _, isNil := an.NilTest(g.If()); isNil {
									if gf := g.From.Parent(); gf != nil && len(gf.Params) > 0 && x == ssa.Value(gf.Params[0]) {
										continue
									}
								}
								if countCond(cond, 0) {
									continue
								}
								// a busy flag: boolean field of the cache
								if f, ok := fieldName(base); ok {
									if bt, isB := base.Type().Underlying().(*types.Basic); isB && bt.Kind() == types.Bool {
										if why := busyFlagLeak(c, callee, f); why != "" {
											v.bad = fmt.Sprintf("the start of the count pruner in %s depends on the flag %s, and %s", name, f, why)
										}
										continue
									}
								}
								// a materialised conjunction whose atoms are judged one by one
								if _, isPhi := base.(*ssa.Phi); isPhi && !g.Synthetic() && an.Decomposes(g) {
									continue
								}
								v.bad = fmt.Sprintf("the start of the count pruner in %s at %s depends on a condition (%s) other than the count comparison", name, c.P.Pos(in.Pos()), c.P.Pos(cond.Pos()))
							}
						}
					}
				}
			}
			var keys []string
			for k := range res {
				keys = append(keys, k)
			}
			sort.Strings(keys)
			for _, k := range keys {
				if res[k].bad != "" {
					c.Fail(k, res[k].pos, "%s: an insertion beyond the limit is then not followed by pruning", res[k].bad)
				} else {
					c.Pass(k, res[k].pos, "the count pruner is started on the count comparison alone (%d instantiation(s))", res[k].n)
				}
			}
			if len(res) == 0 {
				c.Unresolved("trigger", "no insert function that starts a count pruner found in the cache package")
			}
		}})
}

// busyFlagLeak: the worker must store false to the flag field on every path to every return, or in a deferred closure.
func busyFlagLeak(c *core.Ctx, worker *ssa.Function, flag string) string {
	clears := func(in ssa.Instruction) bool {
		st, ok := in.(*ssa.Store)
		if !ok {
			return false
		}
		fa, ok := st.Addr.(*ssa.FieldAddr)
		if !ok {
			return false
		}
		if an.Deref(fa.X.Type()).Underlying().(*types.Struct).Field(fa.Field).Name() != flag {
			return false
		}
		bv, isC := an.ConstBool(st.Val)
		return isC && !bv
	}
	// deferred closure that clears it
	deferred := false
	an.Instrs(worker, func(in ssa.Instruction) {
		if d, ok := in.(*ssa.Defer); ok {
			if mc, ok := d.Call.Value.(*ssa.MakeClosure); ok {
				if cf, ok := mc.Fn.(*ssa.Function); ok {
					an.Instrs(cf, func(i2 ssa.Instruction) {
						if clears(i2) {
							deferred = true
						}
					})
				}
			}
		}
	})
	if deferred {
		return ""
	}
	leak := ""
	an.Paths(an.PathSpec[bool]{Fn: worker, Init: false,
		Instr: func(s bool, in ssa.Instruction) []bool {
			if clears(in) {
				return []bool{true}
			}
			if ret, ok := in.(*ssa.Return); ok && !s && leak == "" {
				leak = fmt.Sprintf("%s returns at %s without clearing it", c.P.FuncName(worker), c.P.Pos(ret.Pos()))
			}
			return []bool{s}
		}})
	return leak
}

// pruneWrapper: h calls the cleanup callback with one of its own parameters as key and every return of h
// returns that call's error. Returns the index of the key parameter.
// removalStep: h deletes from the entries map under a key that is one of its parameters and neither calls the cleanup
// callback nor a wrapper of it — a `remove(key)` step; returns the key's position in the argument list.
func removalStep(h *ssa.Function, isPruneFn func(ssa.Value) bool) (int, bool) {
	if len(h.Blocks) == 0 || len(h.Blocks) > 8 {
		return 0, false
	}
	pi, cleans := -1, false
	an.Calls(h, func(call ssa.CallInstruction) {
		cc, ok := call.(*ssa.Call)
		if !ok {
			return
		}
		if bi, isB := cc.Call.Value.(*ssa.Builtin); isB && bi.Name() == "delete" {
			if _, pth := accessPath(cc.Call.Args[0]); len(pth) > 0 && pth[len(pth)-1] == "entries" {
				for k, p := range h.Params {
					if an.Origin(cc.Call.Args[1]) == ssa.Value(p) {
						pi = k
					}
				}
			}
			return
		}
		if cc.Call.StaticCallee() == nil && !cc.Call.IsInvoke() && isPruneFn(cc.Call.Value) {
			cleans = true
		}
		if g := cc.Call.StaticCallee(); g != nil && len(g.Blocks) > 0 {
			if _, isW := pruneWrapper(g, isPruneFn); isW {
				cleans = true
			}
		}
	})
	return pi, pi >= 0 && !cleans
}

// removalStepCalled: some function of the cache package calls the step
func removalStepCalled(c *core.Ctx, h *ssa.Function) bool {
	called := false
	for _, fn := range c.P.Funcs("internal/cache") {
		if fn == h || len(fn.Blocks) == 0 {
			continue
		}
		an.Calls(fn, func(call ssa.CallInstruction) {
			if g := call.Common().StaticCallee(); g != nil && (g == h || (g.Origin() != nil && g.Origin() == h.Origin())) {
				called = true
			}
		})
	}
	return called
}

func pruneWrapper(h *ssa.Function, isPruneFn func(ssa.Value) bool) (int, bool) {
	if h.Signature.Results().Len() != 1 || !an.IsErrorType(h.Signature.Results().At(0).Type()) {
		return 0, false
	}
	var inner *ssa.Call
	n := 0
	an.Calls(h, func(call ssa.CallInstruction) {
		if cc, ok := call.(*ssa.Call); ok && !cc.Call.IsInvoke() && cc.Call.StaticCallee() == nil && isPruneFn(cc.Call.Value) {
			inner = cc
			n++
		}
	})
	if n != 1 || len(inner.Call.Args) == 0 {
		return 0, false
	}
	pi := -1
	for i, p := range h.Params {
		if an.Origin(inner.Call.Args[0]) == ssa.Value(p) {
			pi = i
		}
	}
	if pi < 0 {
		return 0, false
	}
	ok := true
	an.Instrs(h, func(in ssa.Instruction) {
		if ret, isRet := in.(*ssa.Return); isRet {
			if len(ret.Results) == 1 && an.Origin(ret.Results[0]) == ssa.Value(inner) {
				return
			}
			// `return nil` on the ‘no callback configured’ edge
			if len(ret.Results) == 1 && an.IsNilConst(ret.Results[0]) {
				for _, g := range an.GuardingEdges(ret.Block()) {
					if x, nilSucc, isNil := an.NilTest(g.If()); isNil && g.Succ == nilSucc && isPruneFn(x) {
						return
					}
					// … or on the ‘no entry under this key’ edge: nothing to clean up
					if x, nilSucc, isNil := an.NilTest(g.If()); isNil && g.Succ == nilSucc {
						if lk, isLk := an.Strip(x).(*ssa.Lookup); isLk && !lk.CommaOk && an.Origin(lk.Index) == ssa.Value(h.Params[pi]) {
							if _, pth := accessPath(lk.X); len(pth) > 0 && pth[len(pth)-1] == "entries" {
								return
							}
						}
					}
				}
			}
			ok = false
		}
	})
	return pi, ok
}

// passSince: the pass skips repositories that were not modified since a threshold.  Where the pass is handed the time
// of the tick that started it and the time of the tick before (d.gc(cur, prev) in a loop that receives cur from the
// ticker and carries prev over), the threshold must not be derived from the tick just received: measured from the
// current tick the window a repository has to be collected in shrinks from a whole tick interval to the slack, and a
// repository whose garbage comes of age between two ticks is never visited again.  Judged only when the pass has one
// static call, in a loop, and the arguments can be told apart (fresh receive from a channel / anything else).
func passSince(c *core.Ctx, fn *ssa.Function, h *ssa.BasicBlock) {
	isTime := func(t types.Type) bool { return isNamed(t, "time", "Time") }
	var timeParams []*ssa.Parameter
	for _, p := range fn.Params {
		if isTime(p.Type()) {
			timeParams = append(timeParams, p)
		}
	}
	if len(timeParams) == 0 {
		return
	}
	sites := c.P.Callers(fn)
	if len(sites) != 1 || sites[0].Common().StaticCallee() != fn || sites[0].Common().IsInvoke() {
		return
	}
	site := sites[0]
	if loopHeader(site.Block()) == nil {
		return
	}
	fresh := map[*ssa.Parameter]bool{}
	for k, p := range fn.Params {
		if !isTime(p.Type()) || k >= len(site.Common().Args) {
			continue
		}
		switch x := an.Strip(site.Common().Args[k]).(type) {
		case *ssa.UnOp:
			if x.Op == token.ARROW {
				fresh[p] = true
			}
		case *ssa.Extract:
			if _, isSel := x.Tuple.(*ssa.Select); isSel {
				fresh[p] = true
			}
		}
	}
	if len(fresh) == 0 {
		return
	}
	var derive func(v ssa.Value, seen map[ssa.Value]bool, out map[*ssa.Parameter]bool)
	derive = func(v ssa.Value, seen map[ssa.Value]bool, out map[*ssa.Parameter]bool) {
		if v == nil || seen[v] || len(seen) > 200 {
			return
		}
		seen[v] = true
		switch x := v.(type) {
		case *ssa.Parameter:
			out[x] = true
		case *ssa.Phi:
			for _, e := range x.Edges {
				derive(e, seen, out)
			}
		case *ssa.Call:
			// start.Add(-grace), prev.Truncate(…): a time derived from its receiver
			if sc := x.Call.StaticCallee(); sc != nil && sc.Signature.Recv() != nil && isTime(sc.Signature.Recv().Type()) && isTime(x.Type()) && len(x.Call.Args) > 0 {
				derive(x.Call.Args[0], seen, out)
			}
		case *ssa.UnOp:
			if x.Op == token.MUL {
				for _, o := range an.Origins(x) {
					if o != ssa.Value(x) {
						derive(o, seen, out)
					}
				}
				if al, isAl := x.X.(*ssa.Alloc); isAl && al.Referrers() != nil {
					for _, ref := range *al.Referrers() {
						if st, isSt := ref.(*ssa.Store); isSt && st.Addr == ssa.Value(al) {
							derive(st.Val, seen, out)
						}
					}
				}
			}
		default:
			if o := an.Origin(v); o != v {
				derive(o, seen, out)
			}
		}
	}
	// the carried time is the time of the tick that started the previous pass — a value that existed before that pass ran.
	// A time taken after the pass returned (time.Now() behind the call) moves the window past everything that was
	// modified while the pass was running: a repository written to after the pass had visited it is older than every
	// later threshold and is never collected again.
	siteInstr, _ := site.(ssa.Instruction)
	for k, p := range fn.Params {
		if !isTime(p.Type()) || fresh[p] || k >= len(site.Common().Args) || siteInstr == nil {
			continue
		}
		var carried []ssa.Value
		switch x := an.Strip(site.Common().Args[k]).(type) {
		case *ssa.Phi:
			for i, pred := range x.Block().Preds {
				if x.Block().Dominates(pred) {
					carried = append(carried, x.Edges[i])
				}
			}
		case *ssa.UnOp:
			if al, isAl := x.X.(*ssa.Alloc); isAl && x.Op == token.MUL && al.Referrers() != nil {
				for _, ref := range *al.Referrers() {
					if st, isSt := ref.(*ssa.Store); isSt && st.Addr == ssa.Value(al) && loopHeader(st.Block()) != nil {
						carried = append(carried, st.Val)
					}
				}
			}
		}
		if len(carried) == 0 {
			continue
		}
		late := token.NoPos
		var visit func(v ssa.Value, depth int)
		visit = func(v ssa.Value, depth int) {
			if depth > 6 || late != token.NoPos {
				return
			}
			switch y := an.Strip(v).(type) {
			case *ssa.Phi:
				for _, e := range y.Edges {
					visit(e, depth+1)
				}
			case *ssa.Call:
				if isTime(y.Type()) && !dominatesInstr(y, siteInstr) {
					// a method of time.Time applied to an earlier time (prev.Add(…)) is as old as its receiver
					if sc := y.Call.StaticCallee(); sc != nil && sc.Signature.Recv() != nil && isTime(sc.Signature.Recv().Type()) && len(y.Call.Args) > 0 {
						visit(y.Call.Args[0], depth+1)
						return
					}
					late = y.Pos()
				}
			}
		}
		for _, v := range carried {
			visit(v, 0)
		}
		wkey := "window:" + kn(c.P.FuncName(site.Parent()))
		c.Check(late == token.NoPos, wkey, site.Pos(), "the time carried from one pass to the next in %s was taken before the pass ran (the tick that started it): %v%s", c.P.FuncName(site.Parent()), late == token.NoPos, map[bool]string{true: "", false: fmt.Sprintf(" (taken at %s, after the pass returned) — whatever is modified while a pass runs, after the pass has visited that repository, is older than every later threshold: its garbage is never collected", c.P.Pos(late))}[late == token.NoPos])
	}
	judged, bad := false, false
	var where token.Pos
	an.Calls(fn, func(call ssa.CallInstruction) {
		cc, isCall := call.(*ssa.Call)
		if !isCall || !(an.IsMethod(cc, "time", "Time", "Before") || an.IsMethod(cc, "time", "Time", "After") || an.IsMethod(cc, "time", "Time", "Compare")) {
			return
		}
		if b := cc.Block(); b != h && !(an.BlockReaches(h, b) && an.BlockReaches(b, h)) {
			return
		}
		for _, a := range cc.Call.Args {
			out := map[*ssa.Parameter]bool{}
			derive(a, map[ssa.Value]bool{}, out)
			for p := range out {
				if !isTime(p.Type()) {
					continue
				}
				judged = true
				if fresh[p] {
					bad = true
					where = cc.Pos()
				}
			}
		}
	})
	if !judged {
		return
	}
	key := "since:" + kn(c.P.FuncName(fn))
	if bad {
		c.Fail(key, where, "in %s the ‘not modified since’ threshold a repository is skipped on (comparison at %s) is derived from the tick the ticker has just delivered, not from the tick before: a repository whose garbage comes of age between two ticks is skipped on every later pass", c.P.FuncName(fn), c.P.Pos(where))
	} else {
		c.Pass(key, fn.Pos(), "the ‘not modified since’ threshold of the pass is derived from the time of the tick before, not from the tick just received")
	}
}

// timerCallbackTarget: the function a timer callback value runs — the method behind a bound-method wrapper, the
// function called by a one-call closure, or the function itself.
func timerCallbackTarget(cb *ssa.Function) *ssa.Function {
	if cb == nil {
		return nil
	}
	var calls []*ssa.Function
	n := 0
	an.Instrs(cb, func(in ssa.Instruction) {
		if _, isDbg := in.(*ssa.DebugRef); !isDbg {
			n++
		}
		if call, ok := in.(ssa.CallInstruction); ok {
			if f := call.Common().StaticCallee(); f != nil {
				calls = append(calls, f)
			}
		}
	})
	if len(calls) == 1 && n <= 6 && len(cb.Blocks) == 1 {
		return calls[0]
	}
	return cb
}

func copyFacts(m map[string]bool) map[string]bool {
	out := make(map[string]bool, len(m)+1)
	for k, v := range m {
		out[k] = v
	}
	return out
}

// appliedCleanupKey: cc calls a step that applies a function-valued argument and returns what it returns, and the
// argument is a function literal that calls the cleanup callback; the result is the key of that callback call as a
// value of the calling function fn (a load of the captured variable), nil when cc is not of that form.
func appliedCleanupKey(fn *ssa.Function, cc *ssa.Call, isPruneFn func(ssa.Value) bool) ssa.Value {
	h := cc.Call.StaticCallee()
	if h == nil || len(h.Blocks) == 0 {
		return nil
	}
	// which parameter the step applies
	applied := -1
	an.Calls(h, func(call ssa.CallInstruction) {
		for i, p := range h.Params {
			if _, isSig := p.Type().Underlying().(*types.Signature); isSig && an.Strip(call.Common().Value) == ssa.Value(p) {
				applied = i
			}
		}
	})
	if applied < 0 || applied >= len(cc.Call.Args) {
		return nil
	}
	// and hands its error back: some return of the step yields the applied call's result
	handsBack := false
	an.Instrs(h, func(in ssa.Instruction) {
		if ret, ok := in.(*ssa.Return); ok {
			for _, rv := range ret.Results {
				for _, o := range append([]ssa.Value{an.Origin(rv)}, an.Origins(rv)...) {
					if call, _ := an.CallOf(o); call != nil && an.Strip(call.Call.Value) == ssa.Value(h.Params[applied]) {
						handsBack = true
					}
				}
			}
		}
	})
	if !handsBack {
		return nil
	}
	mc, ok := an.Strip(cc.Call.Args[applied]).(*ssa.MakeClosure)
	if !ok {
		return nil
	}
	lit, ok := mc.Fn.(*ssa.Function)
	if !ok {
		return nil
	}
	var key ssa.Value
	an.Calls(lit, func(call ssa.CallInstruction) {
		pc, ok := call.(*ssa.Call)
		if !ok || pc.Call.StaticCallee() != nil || pc.Call.IsInvoke() || !isPruneFn(pc.Call.Value) || len(pc.Call.Args) == 0 {
			return
		}
		// the key argument: a captured variable of the calling function
		ka := an.Strip(pc.Call.Args[0])
		if ld, isLd := ka.(*ssa.UnOp); isLd && ld.Op == token.MUL {
			ka = ld.X
		}
		fv, isFV := ka.(*ssa.FreeVar)
		if !isFV {
			return
		}
		for i, f := range lit.FreeVars {
			if f == fv && i < len(mc.Bindings) {
				cell := mc.Bindings[i]
				// a load of that cell in the calling function stands for the key
				an.Instrs(fn, func(in ssa.Instruction) {
					if l2, isLd := in.(*ssa.UnOp); isLd && l2.Op == token.MUL && l2.X == cell && key == nil {
						key = l2
					}
				})
				if key == nil {
					key = cell
				}
			}
		}
	})
	return key
}

// cacheDeleteSites: the instructions of fn that delete from a map — the delete builtin, or a call of a function of the
// same package that does (an `evict(key, e)` step), two levels deep.
func cacheDeleteSites(fn *ssa.Function, depth int) []ssa.Instruction {
	var out []ssa.Instruction
	if fn == nil || depth > 2 {
		return nil
	}
	an.Calls(fn, func(call ssa.CallInstruction) {
		if _, isDefer := call.(*ssa.Defer); isDefer {
			return
		}
		if bi, ok := call.Common().Value.(*ssa.Builtin); ok && bi.Name() == "delete" {
			out = append(out, call)
			return
		}
		if h := call.Common().StaticCallee(); h != nil && h != fn && len(h.Blocks) > 0 && core.FuncPkgPath(h) == core.FuncPkgPath(fn) {
			if _, isGo := call.(*ssa.Go); !isGo && len(cacheDeleteSites(h, depth+1)) > 0 {
				out = append(out, call)
			}
		}
	})
	return out
}
