package rules

import (
	"fmt"
	"go/token"
	"go/types"

	"golang.org/x/tools/go/ssa"

	"olacheck/an"
	"olacheck/core"
)

// TS-TOMBSTONE: the memory store backed by a directory never modifies that directory; a lookup of a digest that is
// absent from its blob map falls through to the directory.  The only record of a deletion is therefore an entry that
// stays in the map (a nil tombstone).  Premise (checked): some function of the family reads the blob map with the
// comma-ok form and opens or stats a file on a path on which the key is absent.  Then every removal of a key from that
// map lies on the ‘no backing directory’ edge (`path == ""`): with a backing directory, dropping the key lets the
// directory copy be served again after a delete that was acknowledged — to the manifest existence check as well.

func init() {
	register(&Rule{ID: "TS-TOMBSTONE", Floor: 1,
		Doc: "in the store family that reads blobs through to a backing directory when its blob map has no entry (premise, checked on the comma-ok lookups), every delete(…blobs, key) lies on the true edge of the ‘no backing directory’ test of the same repository: with a backing directory a deletion must leave the key in the map, otherwise the deleted blob is served again from the directory",
		Run: func(c *core.Ctx) {
			r := requireRoles(c)
			if r == nil {
				return
			}
			n := 0
			for _, fam := range r.Families {
				if fam.Repo == nil {
					continue
				}
				st, ok := fam.Repo.Underlying().(*types.Struct)
				if !ok {
					continue
				}
				// the blob map: a map field of the repository keyed by a digest
				blobField := -1
				for i := 0; i < st.NumFields(); i++ {
					if m, ok := st.Field(i).Type().Underlying().(*types.Map); ok && isNamed(m.Key(), digestPkg, "Digest") {
						blobField = i
					}
				}
				if blobField < 0 {
					continue
				}
				isBlobMap := func(v ssa.Value) (ssa.Value, bool) {
					ld, ok := an.Strip(v).(*ssa.UnOp)
					if !ok || ld.Op != token.MUL {
						return nil, false
					}
					fa, ok := ld.X.(*ssa.FieldAddr)
					if !ok || fa.Field != blobField || an.NamedOf(an.Deref(fa.X.Type())) != fam.Repo {
						return nil, false
					}
					return fa.X, true
				}
				var funcs []*ssa.Function
				for _, fn := range c.P.Funcs("internal/store") {
					if r.FamilyOfFunc(fn) == fam {
						funcs = append(funcs, fn)
					}
				}
				// premise: the family reads its blob map with the comma-ok form somewhere (in the accessors themselves or in a
				// lookup step they share) and opens / stats files
				lookup, file := false, false
				for _, fn := range funcs {
					an.Instrs(fn, func(in ssa.Instruction) {
						if lk, ok := in.(*ssa.Lookup); ok && lk.CommaOk {
							if _, isB := isBlobMap(lk.X); isB {
								lookup = true
							}
						}
						if call, ok := in.(ssa.CallInstruction); ok {
							if an.IsFunc(call, "os", "Open") || an.IsFunc(call, "os", "Stat") || an.IsFunc(call, "os", "ReadFile") || an.IsFunc(call, "os", "OpenFile") {
								file = true
							}
						}
					})
				}
				fallsThrough := lookup && file
				if !fallsThrough {
					continue
				}
				for _, fn := range funcs {
					k := 0
					an.Calls(fn, func(call ssa.CallInstruction) {
						bi, ok := call.Common().Value.(*ssa.Builtin)
						if !ok || bi.Name() != "delete" || len(call.Common().Args) != 2 {
							return
						}
						repo, isB := isBlobMap(call.Common().Args[0])
						if !isB {
							return
						}
						n++
						k++
						key := fmt.Sprintf("remove:%s#%d", kn(c.P.FuncName(fn)), k)
						// on every feasible path to the removal the last ‘backing directory?’ test of this repository came out ‘none’
						// (branch outcomes of a condition tested twice are kept consistent: `case ok && path != "": … case ok: delete`)
						guarded := holdsOnAllPaths(fn, call, func(cond ssa.Value) (bool, bool) {
							bo, ok := cond.(*ssa.BinOp)
							if !ok || (bo.Op != token.EQL && bo.Op != token.NEQ) {
								return false, false
							}
							x, y := bo.X, bo.Y
							if _, isC := x.(*ssa.Const); isC {
								x, y = y, x
							}
							if s0, isS := an.ConstString(y); !isS || s0 != "" {
								return false, false
							}
							ld, ok := an.Strip(x).(*ssa.UnOp)
							if !ok || ld.Op != token.MUL {
								return false, false
							}
							fa, ok := ld.X.(*ssa.FieldAddr)
							if !ok || an.Origin(fa.X) != an.Origin(repo) {
								return false, false
							}
							if bt, isB := an.Deref(fa.Type()).Underlying().(*types.Basic); !isB || bt.Kind() != types.String {
								return false, false
							}
							return bo.Op == token.EQL, true
						})
						c.Check(guarded, key, call.Pos(), "the removal of a key from the blob map of %s at %s lies on the ‘no backing directory’ edge: %v — lookups of an absent key fall through to the backing directory, which this store never modifies: with a directory behind it a deleted blob must stay in the map as a tombstone, otherwise it is served again (and passes the manifest existence check) after the delete was acknowledged", fam.Name, c.P.Pos(call.Pos()), guarded)
					})
				}
			}
			if n == 0 {
				c.Unresolved("remove", "no store family with a read-through blob map and a removal from it found")
			}
		}})
}
