package rules

import (
	"fmt"
	"go/token"
	"go/types"
	"sort"
	"strings"

	"golang.org/x/tools/go/ssa"

	"olacheck/an"
	"olacheck/core"
)

// PV-NILFIELD: the optional parts of a decoded document are looked at before they are used. The document types of the
// module's types package (descriptors, manifests, indexes and the private structs the JSON of a request is decoded
// into) carry their optional parts as pointers to structs (a manifest's config or subject, a descriptor's platform);
// a client decides whether they are present. Every dereference of such a field's value — a field selection through it,
// a load of the struct it points to — in the module's production code lies behind the non-nil edge of a nil test of the
// same field of the same value, or follows a store of a freshly taken address into that field in the same function.
// Otherwise a well-formed document without the optional part (an index with a subject has no config) makes the handler
// panic instead of answering.
func init() {
	register(&Rule{ID: "PV-NILFIELD", Floor: 4,
		Doc: "every dereference of a pointer-to-struct field of a document type of the types package (a manifest's config / subject, a descriptor's platform, the fields of the private decode structs) lies behind the non-nil edge of a nil test of the same field of the same value, or after a store of a fresh address into that field in the same function — the client decides whether the optional part is present, and a dereference without the test is a panic on a well-formed document",
		Run: func(c *core.Ctx) {
			r := requireRoles(c)
			if r == nil {
				return
			}
			// a load of an optional field: (value, owner struct, field name)
			optField := func(v ssa.Value) (string, bool) {
				var st *types.Struct
				var idx int
				var owner types.Type
				switch x := v.(type) {
				case *ssa.UnOp:
					if x.Op != token.MUL {
						return "", false
					}
					fa, ok := x.X.(*ssa.FieldAddr)
					if !ok {
						return "", false
					}
					owner = an.Deref(fa.X.Type())
					st, _ = owner.Underlying().(*types.Struct)
					idx = fa.Field
				case *ssa.Field:
					owner = x.X.Type()
					st, _ = owner.Underlying().(*types.Struct)
					idx = x.Field
				default:
					return "", false
				}
				if st == nil {
					return "", false
				}
				nt, ok := owner.(*types.Named)
				if !ok || nt.Obj().Pkg() == nil || nt.Obj().Pkg().Path() != r.TypesPath {
					return "", false
				}
				pt, ok := st.Field(idx).Type().(*types.Pointer)
				if !ok {
					return "", false
				}
				if _, isSt := pt.Elem().Underlying().(*types.Struct); !isSt {
					return "", false
				}
				return nt.Obj().Name() + "." + st.Field(idx).Name(), true
			}
			fns := append([]*ssa.Function{}, c.P.ModFuncs...)
			sort.Slice(fns, func(i, j int) bool { return c.P.FuncName(fns[i]) < c.P.FuncName(fns[j]) })
			n := 0
			for _, fn := range fns {
				if len(fn.Blocks) == 0 || strings.HasSuffix(c.P.Pos(fn.Pos()), "_test.go") {
					continue
				}
				k := map[string]int{}
				an.Instrs(fn, func(in ssa.Instruction) {
					var p ssa.Value
					switch x := in.(type) {
					case *ssa.FieldAddr:
						p = x.X
					case *ssa.UnOp:
						if x.Op == token.MUL {
							if _, isPtr := x.X.Type().Underlying().(*types.Pointer); isPtr {
								p = x.X
							}
						}
					}
					if p == nil {
						return
					}
					name, ok := optField(p)
					if !ok {
						return
					}
					n++
					k[name]++
					key := fmt.Sprintf("deref:%s|%s#%d", kn(c.P.FuncName(fn)), name, k[name])
					guarded := false
					for _, g := range an.GuardingEdges(in.Block()) {
						x, nilSucc, isNil := an.NilTest(g.If())
						if !isNil || g.Succ == nilSucc {
							continue
						}
						if x == p || sameSource(x, p) {
							guarded = true
						}
					}
					if !guarded {
						// the test may be made by a predicate of the document the dereference is guarded by (`if !parsed.hasSubject() {
						// return }`): inside it, the non-nil edge of a test of the same field of the parameter the value was passed as
						pr, ppth := accessPath(an.Strip(p))
						for _, g := range an.GuardingEdges(in.Block()) {
							for _, fe := range an.ImpliedHelperEdges(g) {
								x, nilSucc, isNil := an.NilTest(fe.If())
								if !isNil || fe.Succ == nilSucc {
									continue
								}
								xr, xpth := accessPath(an.Strip(x))
								q, isParam := xr.(*ssa.Parameter)
								if !isParam || len(xpth) == 0 || len(ppth) < len(xpth) {
									continue
								}
								arg, okArg := fe.ArgOf(q)
								if !okArg {
									continue
								}
								ar, apth := accessPath(an.Strip(arg))
								full := append(append([]string{}, apth...), xpth...)
								if ar != nil && pr != nil && (ar == pr || an.Origin(ar) == an.Origin(pr)) && strings.Join(full, ".") == strings.Join(ppth, ".") {
									guarded = true
								}
							}
						}
					}
					if !guarded {
						// the field was given a fresh address earlier in this function
						pl, _ := p.(*ssa.UnOp)
						if pl != nil {
							if fa, isFA := pl.X.(*ssa.FieldAddr); isFA {
								an.Instrs(fn, func(i2 ssa.Instruction) {
									st, isSt := i2.(*ssa.Store)
									if !isSt || guarded {
										return
									}
									fa2, isFA2 := st.Addr.(*ssa.FieldAddr)
									if !isFA2 || fa2.Field != fa.Field || !(fa2.X == fa.X || an.Origin(fa2.X) == an.Origin(fa.X)) {
										return
									}
									if _, isAl := an.Strip(st.Val).(*ssa.Alloc); isAl && dominatesInstr(st, in) {
										guarded = true
									}
								})
							}
						}
					}
					pos := in.Pos()
					if pos == token.NoPos {
						pos = fn.Pos()
					}
					c.Check(guarded, key, pos, "the dereference of %s at %s lies behind a test that the field is not nil (or follows a store of a fresh address into it): %v — the part is optional in the document: a client that leaves it out makes this a nil-pointer panic instead of an answer", name, c.P.Pos(pos), guarded)
				})
			}
			if n == 0 {
				c.Unresolved("optional-fields", "no dereference of an optional document field found")
			}
		}})
}
