package rules

import (
	"fmt"
	"go/token"
	"go/types"
	"sort"

	"golang.org/x/tools/go/ssa"

	"olacheck/an"
	"olacheck/core"
)

// SH-INDEX-SCAN: the invariants of the repository index (a tag names one entry, a subject one referrers
// response, a removed digest is gone everywhere, a lookup finds what is there) are all kept by loops that
// examine the entry lists; each of them is a statement about *every* entry. A counting loop that starts one
// slot late or stops one slot early leaves one entry — the first or the last — outside the invariant for
// some history. The rule decides, for every loop in package types that indexes a descriptor list with its
// counter, that the counter ranges over the whole list: `range` loops by construction; upward loops start at
// 0 and continue while counter < len(list), the length re-read in the loop header whenever the loop shortens
// the list; downward loops start at len(list)-1 and continue while counter >= 0. Leaving early (break, return)
// is a decision taken on an examined entry and is not judged here.
func init() {
	register(&Rule{ID: "SH-INDEX-SCAN", Floor: 4,
		Doc: "every counting loop of package types that indexes a descriptor list (Index.Manifests, the child list, a list handed to a helper) with its counter ranges over the whole list: upward from 0 while counter < len(list) (length re-read in the header when the loop shortens the list), downward from len(list)-1 while counter >= 0, or a range loop — a scan that starts one slot late or stops one slot early exempts the first or last entry from the invariant the loop maintains (tag uniqueness, single referrers response, removal of every reference, lookup)",
		Run: func(c *core.Ctx) {
			r := requireRoles(c)
			if r == nil {
				return
			}
			n := 0
			fns := append([]*ssa.Function{}, c.P.Funcs("types")...)
			sort.Slice(fns, func(i, j int) bool { return c.P.FuncName(fns[i]) < c.P.FuncName(fns[j]) })
			for _, fn := range fns {
				if len(fn.Blocks) == 0 {
					continue
				}
				k := 0
				for _, h := range fn.Blocks {
					if !isLoopHead(h) {
						continue
					}
					for _, in := range h.Instrs {
						iv, ok := in.(*ssa.Phi)
						if !ok {
							break
						}
						if b, isB := iv.Type().Underlying().(*types.Basic); !isB || b.Info()&types.IsInteger == 0 {
							continue
						}
						list, viaInc := descListIndexedBy(fn, h, iv, r.TypesPath)
						if list == nil {
							continue
						}
						n++
						k++
						key := fmt.Sprintf("scan:%s#%d", kn(c.P.FuncName(fn)), k)
						why := scanCoversList(fn, h, iv, list, viaInc)
						c.Check(why == "", key, iv.Pos(), "loop over %s in %s ranges over the whole list: %v%s", listName(list), c.P.FuncName(fn), why == "", map[bool]string{true: "", false: " (" + why + ") — the entry it never examines is exempt from the invariant the loop maintains: a second entry for a tag or subject survives an insert, a reference survives a removal, a lookup misses an entry that is there"}[why == ""])
					}
				}
			}
			// removal of every reference: a method of the index that only removes from a descriptor list (never appends to it)
			// and removes inside a scan goes on scanning after a removal — leaving at the first match keeps a second record of
			// the digest (the child list can hold one: AddDesc's children option appends without looking) and the digest stays
			// resolvable after it was removed.  (The top-level list is judged by TS-TAGKEEP's remove-all clause.)
			for _, fn := range fns {
				if len(fn.Blocks) == 0 || fn.Signature.Recv() == nil || len(fn.Params) == 0 {
					continue
				}
				if _, isPtr := fn.Signature.Recv().Type().(*types.Pointer); !isPtr {
					continue
				}
				st, ok := an.Deref(fn.Params[0].Type()).Underlying().(*types.Struct)
				if !ok {
					continue
				}
				for fi := 0; fi < st.NumFields(); fi++ {
					sl, isSl := st.Field(fi).Type().Underlying().(*types.Slice)
					if !isSl || !isNamed(sl.Elem(), r.TypesPath, "Descriptor") || st.Field(fi).Name() == "Manifests" {
						continue
					}
					appends := false
					var shrinks []*ssa.Store
					an.Instrs(fn, func(in ssa.Instruction) {
						sto, ok := in.(*ssa.Store)
						if !ok {
							return
						}
						fa, ok := sto.Addr.(*ssa.FieldAddr)
						if !ok || fa.Field != fi || an.Strip(fa.X) != ssa.Value(fn.Params[0]) {
							return
						}
						switch v := stripChangeType(an.Strip(sto.Val)).(type) {
						case *ssa.Call:
							if bi, isB := v.Call.Value.(*ssa.Builtin); isB && bi.Name() == "append" {
								appends = true
							} else if _, _, isRm := listRemover(v.Call.StaticCallee()); isRm {
								shrinks = append(shrinks, sto)
							}
						case *ssa.Slice:
							if v.High != nil && v.Low == nil {
								shrinks = append(shrinks, sto)
							}
						}
					})
					if appends {
						continue
					}
					k := 0
					for _, sto := range shrinks {
						h := loopHeader(sto.Block())
						if h == nil {
							// a block that leaves the loop unconditionally (`break` after the removal) is not part of the loop:
							// find the loop through the counter the removed slot is indexed with
							for _, in := range sto.Block().Instrs {
								if s2, isSt := in.(*ssa.Store); isSt {
									if ia, isIA := s2.Addr.(*ssa.IndexAddr); isIA {
										if ph, isPhi := an.Strip(ia.Index).(*ssa.Phi); isPhi && isLoopHead(ph.Block()) {
											h = ph.Block()
										}
									}
								}
							}
						}
						if h == nil {
							continue
						}
						k++
						n++
						seen := map[*ssa.BasicBlock]bool{}
						var escapes func(b *ssa.BasicBlock) bool
						escapes = func(b *ssa.BasicBlock) bool {
							if b == h || seen[b] {
								return false
							}
							seen[b] = true
							if len(b.Succs) == 0 {
								return true
							}
							for _, x := range b.Succs {
								if escapes(x) {
									return true
								}
							}
							return false
						}
						esc := false
						for _, x := range sto.Block().Succs {
							if escapes(x) {
								esc = true
							}
						}
						c.Check(!esc, fmt.Sprintf("remove-all:%s:%s#%d", kn(c.P.FuncName(fn)), st.Field(fi).Name(), k), sto.Pos(), "after the removal from %s at %s the scan of %s goes on with the remaining entries: %v — leaving at the first match keeps any second record of the digest: it stays resolvable after it was removed", st.Field(fi).Name(), c.P.Pos(sto.Pos()), c.P.FuncName(fn), !esc)
					}
				}
			}
			if n == 0 {
				c.Unresolved("index-scans", "no counting loop over a descriptor list found in package types")
			}
		}})
}

func isLoopHead(h *ssa.BasicBlock) bool {
	for _, p := range h.Preds {
		if h.Dominates(p) {
			return true
		}
	}
	return false
}

// inLoop: b belongs to the natural loop of header h (it reaches a back edge of h without passing through h).
func inNatLoop(h, b *ssa.BasicBlock) bool {
	if b == h {
		return true
	}
	if !h.Dominates(b) {
		return false
	}
	seen := map[*ssa.BasicBlock]bool{h: true}
	var work []*ssa.BasicBlock
	for _, p := range h.Preds {
		if h.Dominates(p) && !seen[p] {
			seen[p] = true
			work = append(work, p)
		}
	}
	for len(work) > 0 {
		x := work[len(work)-1]
		work = work[:len(work)-1]
		if x == b {
			return true
		}
		for _, p := range x.Preds {
			if !seen[p] {
				seen[p] = true
				work = append(work, p)
			}
		}
	}
	return false
}

// descListIndexedBy: the slice of descriptors that the loop with header h indexes with its counter iv (or, in the
// lowered form of a range loop, with iv+1). viaInc reports the second form.
func descListIndexedBy(fn *ssa.Function, h *ssa.BasicBlock, iv *ssa.Phi, typesPath string) (list ssa.Value, viaInc bool) {
	isDescSlice := func(t types.Type) bool {
		s, ok := t.Underlying().(*types.Slice)
		return ok && isNamed(s.Elem(), typesPath, "Descriptor")
	}
	for _, b := range fn.Blocks {
		if !inNatLoop(h, b) {
			continue
		}
		for _, in := range b.Instrs {
			ia, ok := in.(*ssa.IndexAddr)
			if !ok || !isDescSlice(ia.X.Type()) {
				continue
			}
			idx := an.Strip(ia.Index)
			if idx == ssa.Value(iv) {
				return ia.X, false
			}
			if bo, isBo := idx.(*ssa.BinOp); isBo && bo.Op == token.ADD && an.Strip(bo.X) == ssa.Value(iv) {
				if one, isC := an.ConstInt(bo.Y); isC && one == 1 {
					return ia.X, true
				}
			}
		}
	}
	return nil, false
}

func listName(list ssa.Value) string {
	if ld, ok := an.Strip(list).(*ssa.UnOp); ok && ld.Op == token.MUL {
		if fa, isFA := ld.X.(*ssa.FieldAddr); isFA {
			if st, isSt := an.Deref(fa.X.Type()).Underlying().(*types.Struct); isSt {
				return "field " + st.Field(fa.Field).Name()
			}
		}
	}
	if p, ok := an.Strip(list).(*ssa.Parameter); ok {
		return "parameter " + p.Name()
	}
	return "a descriptor list"
}

// sameList: a and b read the same list (the same value, or loads of the same field of the same struct; a list variable
// reassigned in a loop — a φ in the loop header — is, at the loop's entry, the value that enters it).
func sameList(a, b ssa.Value) bool {
	a, b = an.Strip(a), an.Strip(b)
	if a == b || an.Origin(a) == an.Origin(b) {
		return true
	}
	for _, pr := range [][2]ssa.Value{{a, b}, {b, a}} {
		if ph, ok := pr[0].(*ssa.Phi); ok {
			for i, pred := range ph.Block().Preds {
				if !ph.Block().Dominates(pred) && an.Strip(ph.Edges[i]) == pr[1] {
					return true
				}
			}
		}
	}
	fieldOf := func(v ssa.Value) (ssa.Value, int, bool) {
		ld, ok := v.(*ssa.UnOp)
		if !ok || ld.Op != token.MUL {
			return nil, 0, false
		}
		fa, ok := ld.X.(*ssa.FieldAddr)
		if !ok {
			return nil, 0, false
		}
		return an.Origin(fa.X), fa.Field, true
	}
	xa, fa, oka := fieldOf(a)
	xb, fb, okb := fieldOf(b)
	return oka && okb && fa == fb && (xa == xb || an.Strip(xa) == an.Strip(xb))
}

// loopStoresList: the loop with header h assigns the field the list was read from (it shortens or replaces the list).
func loopStoresList(fn *ssa.Function, h *ssa.BasicBlock, list ssa.Value) bool {
	ld, ok := an.Strip(list).(*ssa.UnOp)
	if !ok || ld.Op != token.MUL {
		return false
	}
	fa, ok := ld.X.(*ssa.FieldAddr)
	if !ok {
		return false
	}
	found := false
	for _, b := range fn.Blocks {
		if !inNatLoop(h, b) {
			continue
		}
		for _, in := range b.Instrs {
			switch x := in.(type) {
			case *ssa.Store:
				if a, isFA := x.Addr.(*ssa.FieldAddr); isFA && a.Field == fa.Field && (an.Origin(a.X) == an.Origin(fa.X) || an.Strip(a.X) == an.Strip(fa.X)) {
					found = true
				}
			case *ssa.Call:
				// a method of the same receiver called in the loop may shorten the list as well
				if callee := x.Call.StaticCallee(); callee != nil && callee.Signature.Recv() != nil && len(x.Call.Args) > 0 {
					if _, isPtr := callee.Signature.Recv().Type().(*types.Pointer); isPtr && (an.Origin(x.Call.Args[0]) == an.Origin(fa.X) || an.Strip(x.Call.Args[0]) == an.Strip(fa.X)) {
						found = true
					}
				}
			}
		}
	}
	return found
}

// scanCoversList returns "" when the loop's counter provably ranges over the whole list, else what is wrong.
func scanCoversList(fn *ssa.Function, h *ssa.BasicBlock, iv *ssa.Phi, list ssa.Value, viaInc bool) string {
	var inits, backs []ssa.Value
	for i, p := range h.Preds {
		if h.Dominates(p) {
			backs = append(backs, iv.Edges[i])
		} else {
			inits = append(inits, iv.Edges[i])
		}
	}
	if len(inits) == 0 || len(backs) == 0 {
		return "loop form not recognised"
	}
	// the loop's continuation test: the conditional branch of the header (or of the block the header falls into)
	cb := h
	for steps := 0; steps < 3; steps++ {
		if _, isIf := cb.Instrs[len(cb.Instrs)-1].(*ssa.If); isIf {
			break
		}
		if len(cb.Succs) != 1 {
			return "continuation test not found"
		}
		cb = cb.Succs[0]
	}
	ifi, ok := cb.Instrs[len(cb.Instrs)-1].(*ssa.If)
	if !ok {
		return "continuation test not found"
	}
	cond, ok := an.Strip(ifi.Cond).(*ssa.BinOp)
	if !ok {
		return "continuation test is not a comparison of the counter"
	}
	// which successor stays in the loop
	in0, in1 := inNatLoop(h, cb.Succs[0]), inNatLoop(h, cb.Succs[1])
	if in0 == in1 {
		return "continuation test not found"
	}
	stayTrue := in0
	op, x, y := cond.Op, an.Strip(cond.X), an.Strip(cond.Y)
	if !stayTrue {
		op = negateCmp(op)
	}
	stepOf := func(v ssa.Value) (base ssa.Value, delta int64, ok bool) {
		bo, isBo := an.Strip(v).(*ssa.BinOp)
		if !isBo {
			return an.Strip(v), 0, true
		}
		d, isC := an.ConstInt(bo.Y)
		if !isC {
			return nil, 0, false
		}
		switch bo.Op {
		case token.ADD:
			return an.Strip(bo.X), d, true
		case token.SUB:
			return an.Strip(bo.X), -d, true
		}
		return nil, 0, false
	}
	isLenOfList := func(v ssa.Value) (ssa.Value, bool) {
		l := lenOf(v)
		if l == nil || !sameList(l, list) {
			return nil, false
		}
		return an.Strip(v), true
	}
	// values the counter is rebuilt from on a back edge: the counter itself, possibly clamped to the list's length
	var fromCounter func(v ssa.Value, seen map[ssa.Value]bool) bool
	fromCounter = func(v ssa.Value, seen map[ssa.Value]bool) bool {
		v = an.Strip(v)
		if v == ssa.Value(iv) {
			return true
		}
		if seen[v] {
			return true
		}
		seen[v] = true
		if _, isLen := isLenOfList(v); isLen {
			return true
		}
		if ph, isPhi := v.(*ssa.Phi); isPhi {
			for _, e := range ph.Edges {
				if !fromCounter(e, seen) {
					return false
				}
			}
			return true
		}
		// min(counter, len(list)): the counter clamped to the list
		if call, isCall := v.(*ssa.Call); isCall {
			if bi, isB := call.Call.Value.(*ssa.Builtin); isB && (bi.Name() == "min" || bi.Name() == "max") {
				for _, a := range call.Call.Args {
					if !fromCounter(a, seen) {
						return false
					}
				}
				return true
			}
		}
		return false
	}
	if viaInc {
		// lowered range loop: counter = phi[-1, counter+1]; test counter+1 < len(list)
		for _, in := range inits {
			if v, isC := an.ConstInt(in); !isC || v != -1 {
				return "range-loop counter does not start in front of the first entry"
			}
		}
		if op != token.LSS {
			return "range-loop test is not `< len`"
		}
		if _, isLen := isLenOfList(y); !isLen {
			return "range-loop bound is not the length of the list it indexes"
		}
		return ""
	}
	up, down := false, false
	for _, b := range backs {
		base, d, ok := stepOf(b)
		if !ok || !fromCounter(base, map[ssa.Value]bool{}) {
			// a φ of several steps (slot re-examined after a removal: counter or counter+1)
			if ph, isPhi := an.Strip(b).(*ssa.Phi); isPhi {
				for _, e := range ph.Edges {
					eb, ed, eok := stepOf(e)
					if !eok || !fromCounter(eb, map[ssa.Value]bool{}) {
						return "counter update not recognised"
					}
					if ed > 0 {
						up = true
					} else if ed < 0 {
						down = true
					}
				}
				continue
			}
			return "counter update not recognised"
		}
		if d > 1 || d < -1 {
			return fmt.Sprintf("counter moves by %d: entries are skipped", d)
		}
		if d > 0 {
			up = true
		} else if d < 0 {
			down = true
		}
	}
	if up == down {
		return "direction of the counter not recognised"
	}
	// normalise the test to `counter OP bound`
	if y == ssa.Value(iv) {
		x, y = y, x
		op = flipCmp(op)
	}
	if x != ssa.Value(iv) {
		return "continuation test does not compare the counter"
	}
	if up {
		for _, in := range inits {
			if v, isC := an.ConstInt(in); !isC || v != 0 {
				return "upward scan does not start at the first entry"
			}
		}
		lenCall, isLen := isLenOfList(y)
		if !isLen {
			return "upward scan is not bounded by the length of the list it indexes"
		}
		if op != token.LSS {
			if op == token.LEQ || op == token.NEQ {
				return "upward scan's test is not `counter < len(list)`"
			}
			return "upward scan's test is not `counter < len(list)`"
		}
		if lc, isCall := lenCall.(*ssa.Call); isCall && !inNatLoop(h, lc.Block()) && loopStoresList(fn, h, list) {
			return "the loop shortens the list but tests the counter against a length read before the loop"
		}
		return ""
	}
	// downward
	for _, in := range inits {
		base, d, ok := stepOf(in)
		if !ok || d != -1 {
			return "downward scan does not start at the last entry (len(list)-1)"
		}
		if _, isLen := isLenOfList(base); !isLen {
			return "downward scan does not start at the last entry of the list it indexes"
		}
	}
	if c0, isC := an.ConstInt(y); isC {
		if (op == token.GEQ && c0 == 0) || (op == token.GTR && c0 == -1) {
			return ""
		}
		return "downward scan stops before the first entry (test is not `counter >= 0`)"
	}
	return "downward scan's test is not `counter >= 0`"
}

func negateCmp(op token.Token) token.Token {
	switch op {
	case token.LSS:
		return token.GEQ
	case token.GEQ:
		return token.LSS
	case token.GTR:
		return token.LEQ
	case token.LEQ:
		return token.GTR
	case token.EQL:
		return token.NEQ
	case token.NEQ:
		return token.EQL
	}
	return op
}

func flipCmp(op token.Token) token.Token {
	switch op {
	case token.LSS:
		return token.GTR
	case token.GTR:
		return token.LSS
	case token.LEQ:
		return token.GEQ
	case token.GEQ:
		return token.LEQ
	}
	return op
}
