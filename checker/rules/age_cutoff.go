package rules

import (
	"fmt"
	"go/constant"
	"go/token"
	"go/types"

	"golang.org/x/tools/go/ssa"

	"olacheck/an"
	"olacheck/core"
)

// TS-AGE-CUTOFF: ‘an entry used within the configured age is never expired’. The age pruner removes what was last used
// before now − F, F a field of the cache; the rule finds F (the field whose negation is added to the current time in a
// function of the cache package) and requires every value the package stores into F to be the
// configured age itself or the configured age plus something non-negative: a field of a parameter struct, sums of it
// with quotients / products of it by positive constants, non-negative constants, φs of such values, and results of
// module helpers that return such values of their parameters. A difference, a quotient or a product at the top (0.9 ×
// age, age − age/10) makes the cutoff later than the setting says, and entries used within the age lose their cleanup
// guarantee: they are dropped although they were in use.
func init() {
	register(&Rule{ID: "TS-AGE-CUTOFF", Floor: 1,
		Doc: "the field whose negation the age pruner adds to the current time to get its cutoff is only ever given the configured age or more: a field of a parameter struct, that plus a non-negative term (quotients / products of the same setting by positive constants, non-negative constants), φs and helper results of such values — a smaller value (age − age/10, 0.9 × age) expires entries that were used within the configured age",
		Run: func(c *core.Ctx) {
			fns := []*ssa.Function{}
			for _, fn := range c.P.Funcs("internal/cache") {
				if fn.TypeParams().Len() > 0 && len(fn.TypeArgs()) == 0 {
					continue
				}
				if len(fn.Blocks) > 0 {
					fns = append(fns, fn)
				}
			}
			fieldLoad := func(v ssa.Value) (string, bool) {
				v = an.Strip(v)
				for {
					if cv, ok := v.(*ssa.Convert); ok {
						v = an.Strip(cv.X)
						continue
					}
					break
				}
				ld, ok := v.(*ssa.UnOp)
				if !ok || ld.Op != token.MUL {
					return "", false
				}
				fa, ok := ld.X.(*ssa.FieldAddr)
				if !ok {
					return "", false
				}
				st, ok := an.Deref(fa.X.Type()).Underlying().(*types.Struct)
				if !ok {
					return "", false
				}
				return st.Field(fa.Field).Name(), true
			}
			// the cutoff fields
			cutoff := map[string]token.Pos{}
			for _, fn := range fns {
				an.Calls(fn, func(call ssa.CallInstruction) {
					if !an.IsMethod(call, "time", "Time", "Add") || len(call.Common().Args) < 2 {
						return
					}
					arg := an.Strip(call.Common().Args[1])
					switch x := arg.(type) {
					case *ssa.BinOp:
						if x.Op == token.MUL {
							for _, pr := range [][2]ssa.Value{{x.X, x.Y}, {x.Y, x.X}} {
								if k, isC := an.ConstInt(pr[1]); isC && k == -1 {
									if f, isF := fieldLoad(pr[0]); isF {
										cutoff[f] = call.Pos()
									}
								}
							}
						}
						if x.Op == token.SUB {
							if k, isC := an.ConstInt(x.X); isC && k == 0 {
								if f, isF := fieldLoad(x.Y); isF {
									cutoff[f] = call.Pos()
								}
							}
						}
					case *ssa.UnOp:
						if x.Op == token.SUB {
							if f, isF := fieldLoad(x.X); isF {
								cutoff[f] = call.Pos()
							}
						}
					}
				})
			}
			if len(cutoff) == 0 {
				c.Unresolved("cutoff-field", "no ‘now.Add(-field)’ in the cache package: the age pruner's cutoff not found")
				return
			}
			// value judgement
			isSetting := func(v ssa.Value) bool {
				v = an.Strip(v)
				switch x := v.(type) {
				case *ssa.Field:
					_, isP := an.Strip(x.X).(*ssa.Parameter)
					return isP
				case *ssa.UnOp:
					if x.Op != token.MUL {
						return false
					}
					fa, ok := x.X.(*ssa.FieldAddr)
					if !ok {
						return false
					}
					switch b := an.Strip(fa.X).(type) {
					case *ssa.Parameter:
						return true
					case *ssa.Alloc:
						if sv := an.SingleStore(b); sv != nil {
							_, isP := an.Strip(sv).(*ssa.Parameter)
							return isP
						}
					}
				}
				return false
			}
			posConst := func(v ssa.Value) bool {
				cst, ok := an.Strip(v).(*ssa.Const)
				if !ok || cst.Value == nil {
					return false
				}
				return (cst.Value.Kind() == constant.Int || cst.Value.Kind() == constant.Float) && constant.Sign(cst.Value) > 0
			}
			var nonNeg func(v ssa.Value, d int) bool
			nonNeg = func(v ssa.Value, d int) bool {
				if d > 6 {
					return false
				}
				v = an.Strip(v)
				if cv, ok := v.(*ssa.Convert); ok {
					return nonNeg(cv.X, d+1)
				}
				if cst, ok := v.(*ssa.Const); ok && cst.Value != nil && (cst.Value.Kind() == constant.Int || cst.Value.Kind() == constant.Float) {
					return constant.Sign(cst.Value) >= 0
				}
				if isSetting(v) {
					return true // a duration setting; a negative age disables the pruner altogether
				}
				if bo, ok := v.(*ssa.BinOp); ok {
					switch bo.Op {
					case token.QUO:
						return nonNeg(bo.X, d+1) && posConst(bo.Y)
					case token.MUL:
						return (nonNeg(bo.X, d+1) && posConst(bo.Y)) || (nonNeg(bo.Y, d+1) && posConst(bo.X))
					case token.ADD:
						return nonNeg(bo.X, d+1) && nonNeg(bo.Y, d+1)
					}
				}
				return false
			}
			var notBelow func(fn *ssa.Function, v ssa.Value, d int, inHelper bool) bool
			notBelow = func(fn *ssa.Function, v ssa.Value, d int, inHelper bool) bool {
				if d > 8 {
					return false
				}
				v = an.Strip(v)
				if cv, ok := v.(*ssa.Convert); ok {
					if bt, isB := cv.Type().Underlying().(*types.Basic); isB && bt.Info()&types.IsInteger != 0 {
						if bx, isBX := cv.X.Type().Underlying().(*types.Basic); isBX && bx.Info()&types.IsInteger != 0 {
							return notBelow(fn, cv.X, d+1, inHelper)
						}
					}
					return false
				}
				if isSetting(v) {
					return true
				}
				if p, ok := v.(*ssa.Parameter); ok {
					if inHelper {
						return true
					}
					// a constructor step that is handed the age: judged at its call sites
					pi := -1
					for k, q := range fn.Params {
						if q == p {
							pi = k
						}
					}
					calls := 0
					okAll := true
					for _, caller := range fns {
						an.Calls(caller, func(call ssa.CallInstruction) {
							h := call.Common().StaticCallee()
							if h == nil || (h != fn && h.Origin() != fn && (fn.Origin() == nil || h.Origin() != fn.Origin())) || call.Common().IsInvoke() {
								return
							}
							if pi < 0 || pi >= len(call.Common().Args) {
								okAll = false
								return
							}
							calls++
							if !notBelow(caller, call.Common().Args[pi], d+1, false) {
								okAll = false
							}
						})
					}
					return calls > 0 && okAll
				}
				switch x := v.(type) {
				case *ssa.Const:
					return true // a fixed value is no function of the setting (0 = no expiry)
				case *ssa.BinOp:
					if x.Op == token.ADD {
						return (notBelow(fn, x.X, d+1, inHelper) && nonNeg(x.Y, 0)) || (notBelow(fn, x.Y, d+1, inHelper) && nonNeg(x.X, 0))
					}
				case *ssa.Phi:
					for _, e := range x.Edges {
						if !notBelow(fn, e, d+1, inHelper) {
							return false
						}
					}
					return true
				case *ssa.UnOp:
					// a local holding the value
					if al, ok := x.X.(*ssa.Alloc); ok && x.Op == token.MUL {
						if sv := an.SingleStore(al); sv != nil {
							return notBelow(fn, sv, d+1, inHelper)
						}
					}
				case *ssa.Call:
					if bi, isB := x.Call.Value.(*ssa.Builtin); isB && bi.Name() == "max" {
						for _, a := range x.Call.Args {
							if notBelow(fn, a, d+1, inHelper) {
								return true
							}
						}
						return false
					}
					h := x.Call.StaticCallee()
					if h == nil || len(h.Blocks) == 0 || len(h.Blocks) > 12 {
						return false
					}
					for _, a := range x.Call.Args {
						if _, isD := a.Type().Underlying().(*types.Basic); isD && !notBelow(fn, a, d+1, inHelper) {
							return false
						}
					}
					okAll, any := true, false
					for _, b := range h.Blocks {
						if ret, isRet := b.Instrs[len(b.Instrs)-1].(*ssa.Return); isRet && len(ret.Results) > 0 {
							any = true
							if !notBelow(h, ret.Results[0], d+1, true) {
								okAll = false
							}
						}
					}
					return any && okAll
				}
				return false
			}
			n := 0
			seen := map[string]bool{}
			for _, fn := range fns {
				k := 0
				an.Instrs(fn, func(in ssa.Instruction) {
					st, ok := in.(*ssa.Store)
					if !ok {
						return
					}
					fa, ok := st.Addr.(*ssa.FieldAddr)
					if !ok {
						return
					}
					stt, ok := an.Deref(fa.X.Type()).Underlying().(*types.Struct)
					if !ok {
						return
					}
					f := stt.Field(fa.Field).Name()
					if _, isCut := cutoff[f]; !isCut {
						return
					}
					k++
					name := c.P.FuncName(fn)
					if fn.Origin() != nil {
						name = c.P.FuncName(fn.Origin())
					}
					key := fmt.Sprintf("cutoff:%s|%s#%d", kn(name), f, k)
					if seen[key] {
						return
					}
					seen[key] = true
					n++
					ok2 := notBelow(fn, st.Val, 0, false)
					c.Check(ok2, key, st.Pos(), "the value stored into %s at %s (the age the pruner subtracts from the current time at %s) is the configured age or more: %v — a smaller value moves the cutoff past entries that were used within the configured age: they are expired (cleanup run, entry dropped) while still in use", f, c.P.Pos(st.Pos()), c.P.Pos(cutoff[f]), ok2)
				})
			}
			if n == 0 {
				c.Unresolved("cutoff-store", "no store into the age pruner's cutoff field found in the cache package")
			}
		}})
}
