package rules

import (
	"go/ast"
	"go/constant"
	"go/token"
	"go/types"
	"strings"

	"golang.org/x/tools/go/packages"

	"olacheck/core"
)

// funcDecls returns every function declaration of a package with its file.
func funcDecls(pk *packages.Package) []*ast.FuncDecl {
	var out []*ast.FuncDecl
	for _, f := range pk.Syntax {
		for _, d := range f.Decls {
			if fd, ok := d.(*ast.FuncDecl); ok && fd.Body != nil {
				out = append(out, fd)
			}
		}
	}
	return out
}

// recvTypeName returns the receiver type name of a method declaration ("" for functions).
func recvTypeName(fd *ast.FuncDecl) string {
	if fd.Recv == nil || len(fd.Recv.List) == 0 {
		return ""
	}
	t := fd.Recv.List[0].Type
	for {
		switch x := t.(type) {
		case *ast.StarExpr:
			t = x.X
		case *ast.IndexExpr:
			t = x.X
		case *ast.IndexListExpr:
			t = x.X
		case *ast.Ident:
			return x.Name
		default:
			return ""
		}
	}
}

func findFunc(pk *packages.Package, recv, name string) *ast.FuncDecl {
	for _, fd := range funcDecls(pk) {
		if fd.Name.Name == name && recvTypeName(fd) == recv {
			return fd
		}
	}
	return nil
}

// constOf returns the constant value of an expression, if the type checker computed one.
func constOf(pk *packages.Package, e ast.Expr) constant.Value {
	if tv, ok := pk.TypesInfo.Types[e]; ok && tv.Value != nil {
		return tv.Value
	}
	return nil
}

func constString(pk *packages.Package, e ast.Expr) (string, bool) {
	v := constOf(pk, e)
	if v == nil || v.Kind() != constant.String {
		return "", false
	}
	return constant.StringVal(v), true
}

// selPath renders a selector chain a.b.c as "a.b.c" ("" when e is not a pure chain of identifiers).
func selPath(e ast.Expr) string {
	switch x := e.(type) {
	case *ast.Ident:
		return x.Name
	case *ast.SelectorExpr:
		p := selPath(x.X)
		if p == "" {
			return ""
		}
		return p + "." + x.Sel.Name
	case *ast.ParenExpr:
		return selPath(x.X)
	case *ast.StarExpr:
		return selPath(x.X)
	}
	return ""
}

// dropRoot removes the first element of a dotted path.
func dropRoot(p string) string {
	if i := strings.Index(p, "."); i >= 0 {
		return p[i+1:]
	}
	return ""
}

func isNamedType(t types.Type, pkgPath, name string) bool {
	if p, ok := t.(*types.Pointer); ok {
		t = p.Elem()
	}
	n, ok := t.(*types.Named)
	return ok && n.Obj().Pkg() != nil && n.Obj().Pkg().Path() == pkgPath && n.Obj().Name() == name
}

func posOf(n ast.Node) token.Pos {
	if n == nil {
		return token.NoPos
	}
	return n.Pos()
}

// evalStringExpr evaluates a string expression made of literals, constants, + and package-level
// variables with such initialisers (constant evaluation only; nothing is executed).
func evalStringExpr(pk *packages.Package, e ast.Expr, depth int) (string, bool) {
	if depth > 10 {
		return "", false
	}
	if s, ok := constString(pk, e); ok {
		return s, true
	}
	switch x := e.(type) {
	case *ast.ParenExpr:
		return evalStringExpr(pk, x.X, depth+1)
	case *ast.BinaryExpr:
		if x.Op != token.ADD {
			return "", false
		}
		a, ok1 := evalStringExpr(pk, x.X, depth+1)
		b, ok2 := evalStringExpr(pk, x.Y, depth+1)
		return a + b, ok1 && ok2
	case *ast.CallExpr:
		// strconv.Itoa / strconv.FormatInt(…, 10) of an integer constant, string(constant string)
		if fn, ok := typeutilCallee(pk, x).(*types.Func); ok && fn.Pkg() != nil && fn.Pkg().Path() == "strconv" && len(x.Args) >= 1 {
			tv := pk.TypesInfo.Types[x.Args[0]]
			if tv.Value == nil || tv.Value.Kind() != constant.Int {
				return "", false
			}
			switch fn.Name() {
			case "Itoa":
				return tv.Value.ExactString(), true
			case "FormatInt", "FormatUint":
				if len(x.Args) == 2 {
					if b := pk.TypesInfo.Types[x.Args[1]]; b.Value != nil && b.Value.ExactString() == "10" {
						return tv.Value.ExactString(), true
					}
				}
			}
		}
		return "", false
	case *ast.Ident:
		obj := pk.TypesInfo.Uses[x]
		v, ok := obj.(*types.Var)
		if !ok || v.Parent() != pk.Types.Scope() {
			return "", false
		}
		if init := pkgVarInit(pk, v.Name()); init != nil {
			// the variable must never be reassigned
			if pkgVarAssigned(pk, v) {
				return "", false
			}
			return evalStringExpr(pk, init, depth+1)
		}
	}
	return "", false
}

// pkgVarInit returns the initialiser expression of a package-level variable.
func pkgVarInit(pk *packages.Package, name string) ast.Expr {
	for _, f := range pk.Syntax {
		for _, d := range f.Decls {
			gd, ok := d.(*ast.GenDecl)
			if !ok || gd.Tok != token.VAR {
				continue
			}
			for _, s := range gd.Specs {
				vs := s.(*ast.ValueSpec)
				for i, n := range vs.Names {
					if n.Name == name && i < len(vs.Values) {
						return vs.Values[i]
					}
				}
			}
		}
	}
	return nil
}

// pkgVarAssigned reports whether a package-level variable is assigned (or its address taken) anywhere in the package.
func pkgVarAssigned(pk *packages.Package, v *types.Var) bool {
	found := false
	for _, f := range pk.Syntax {
		ast.Inspect(f, func(n ast.Node) bool {
			switch x := n.(type) {
			case *ast.AssignStmt:
				for _, l := range x.Lhs {
					if id, ok := l.(*ast.Ident); ok && pk.TypesInfo.Uses[id] == v {
						found = true
					}
					// an element of the variable (map entry, slice element)
					if ie, ok := l.(*ast.IndexExpr); ok {
						if id, ok := ie.X.(*ast.Ident); ok && pk.TypesInfo.Uses[id] == v {
							found = true
						}
					}
				}
			case *ast.CallExpr:
				if fid, ok := x.Fun.(*ast.Ident); ok && (fid.Name == "delete" || fid.Name == "clear") && len(x.Args) > 0 {
					if id, ok := x.Args[0].(*ast.Ident); ok && pk.TypesInfo.Uses[id] == v {
						found = true
					}
				}
			case *ast.UnaryExpr:
				if x.Op == token.AND {
					if id, ok := x.X.(*ast.Ident); ok && pk.TypesInfo.Uses[id] == v {
						found = true
					}
				}
			case *ast.IncDecStmt:
				if id, ok := x.X.(*ast.Ident); ok && pk.TypesInfo.Uses[id] == v {
					found = true
				}
			}
			return true
		})
	}
	return found
}

func pkgOf(c *core.Ctx, rel string) *packages.Package { return c.P.Pkg(rel) }

// typeutilCallee resolves the object a call expression calls (function, method or builtin) through the type
// information, nil for calls of function values and conversions.
func typeutilCallee(pk *packages.Package, call *ast.CallExpr) types.Object {
	fun := ast.Unparen(call.Fun)
	switch f := fun.(type) {
	case *ast.IndexExpr:
		fun = f.X
	case *ast.IndexListExpr:
		fun = f.X
	}
	switch f := fun.(type) {
	case *ast.Ident:
		return pk.TypesInfo.Uses[f]
	case *ast.SelectorExpr:
		if sel := pk.TypesInfo.Selections[f]; sel != nil {
			return sel.Obj()
		}
		return pk.TypesInfo.Uses[f.Sel]
	}
	return nil
}
