package rules

import (
	"go/constant"
	"go/token"
	"go/types"
	"sort"
	"strings"

	"golang.org/x/tools/go/ssa"

	"olacheck/an"
	"olacheck/core"
)

// variadicElems returns the values stored into the backing array of a variadic argument built at the
// call site (nil, false when the slice comes from elsewhere).
// variadicElemsOrdered: the variadic arguments in argument order (by the constant index each was stored at).
func variadicElemsOrdered(v ssa.Value) ([]ssa.Value, bool) {
	if c, ok := v.(*ssa.Const); ok && c.Value == nil {
		return nil, true
	}
	sl, ok := v.(*ssa.Slice)
	if !ok {
		return nil, false
	}
	al, ok := sl.X.(*ssa.Alloc)
	if !ok || al.Referrers() == nil {
		return nil, false
	}
	byIdx := map[int64]ssa.Value{}
	max := int64(-1)
	for _, r := range *al.Referrers() {
		ia, ok := r.(*ssa.IndexAddr)
		if !ok || ia.Referrers() == nil {
			continue
		}
		k, isK := an.ConstInt(ia.Index)
		if !isK {
			return nil, false
		}
		for _, rr := range *ia.Referrers() {
			if st, ok := rr.(*ssa.Store); ok && st.Addr == ia {
				if _, dup := byIdx[k]; dup {
					return nil, false
				}
				byIdx[k] = st.Val
				if k > max {
					max = k
				}
			}
		}
	}
	out := make([]ssa.Value, 0, len(byIdx))
	for i := int64(0); i <= max; i++ {
		v, ok := byIdx[i]
		if !ok {
			return nil, false
		}
		out = append(out, v)
	}
	return out, true
}

func variadicElems(v ssa.Value) ([]ssa.Value, bool) {
	if c, ok := v.(*ssa.Const); ok && c.Value == nil {
		return nil, true // no variadic arguments
	}
	sl, ok := v.(*ssa.Slice)
	if !ok {
		return nil, false
	}
	al, ok := sl.X.(*ssa.Alloc)
	if !ok || al.Referrers() == nil {
		return nil, false
	}
	var out []ssa.Value
	for _, r := range *al.Referrers() {
		ia, ok := r.(*ssa.IndexAddr)
		if !ok || ia.Referrers() == nil {
			continue
		}
		for _, rr := range *ia.Referrers() {
			if st, ok := rr.(*ssa.Store); ok && st.Addr == ia {
				out = append(out, st.Val)
			}
		}
	}
	return out, true
}

// withDigestArgs returns the digests passed as BlobWithDigest options to a BlobCreate/blobCreate call,
// and whether the option list could be enumerated.
func withDigestArgs(r *Roles, call ssa.CallInstruction) ([]ssa.Value, bool) {
	cc := call.Common()
	if len(cc.Args) == 0 {
		return nil, true
	}
	elems, ok := variadicElems(cc.Args[len(cc.Args)-1])
	if !ok {
		return nil, false
	}
	var out []ssa.Value
	for _, e := range elems {
		if c, _ := an.CallOf(e); c != nil && an.IsFunc(c, r.StorePath, "BlobWithDigest") && len(c.Call.Args) == 1 {
			out = append(out, c.Call.Args[0])
		}
	}
	return out, true
}

// isBlobCreate: the public or the internal blob creation of a repository.
func isBlobCreate(r *Roles, call ssa.CallInstruction) bool {
	if r.IsAPI(call, "Repo", "BlobCreate") {
		return true
	}
	cc := call.Common()
	if cc.IsInvoke() && an.NamedOf(cc.Value.Type()) == r.IRepo && cc.Method.Name() == "blobCreate" {
		return true
	}
	return false
}

// structStores returns, for a struct value loaded from a local allocation (a composite literal or a
// local variable), the values stored into each of its fields (by field name).
func structStores(v ssa.Value) map[string][]ssa.Value {
	out := map[string][]ssa.Value{}
	// the struct's address: a local variable / literal, or the address of a struct-typed field or element of one
	// (&rec.desc, &arr[0]) that is filled in place
	var al ssa.Value
	isAddr := func(x ssa.Value) bool {
		switch x.(type) {
		case *ssa.Alloc, *ssa.FieldAddr, *ssa.IndexAddr:
			return true
		}
		return false
	}
	switch x := v.(type) {
	case *ssa.UnOp:
		if x.Op == token.MUL && isAddr(x.X) {
			al = x.X
		}
	default:
		if isAddr(v) {
			al = v
		}
	}
	if al == nil {
		return out
	}
	var collect func(a ssa.Value, depth int)
	collect = func(a ssa.Value, depth int) {
		if a.Referrers() == nil || depth > 2 {
			return
		}
		st, ok := an.Deref(a.Type()).Underlying().(*types.Struct)
		if !ok {
			return
		}
		for _, r := range *a.Referrers() {
			switch x := r.(type) {
			case *ssa.FieldAddr:
				if x.Referrers() == nil {
					continue
				}
				for _, rr := range *x.Referrers() {
					if s, ok := rr.(*ssa.Store); ok && s.Addr == x {
						out[st.Field(x.Field).Name()] = append(out[st.Field(x.Field).Name()], s.Val)
					}
				}
			case *ssa.Store:
				// whole-value initialisation from another local (composite literal copied into the variable)
				if x.Addr == a {
					if ld, ok := x.Val.(*ssa.UnOp); ok && ld.Op == token.MUL {
						if b, ok := ld.X.(*ssa.Alloc); ok {
							collect(b, depth+1)
						}
					}
				}
			}
		}
	}
	collect(al, 0)
	return out
}

// lenOf: v is (a conversion of) len(x); returns x.
func lenOf(v ssa.Value) ssa.Value {
	v = an.Strip(v)
	c, ok := v.(*ssa.Call)
	if !ok {
		return nil
	}
	if b, ok := c.Call.Value.(*ssa.Builtin); ok && b.Name() == "len" && len(c.Call.Args) == 1 {
		return c.Call.Args[0]
	}
	return nil
}

// constStatus returns the constant argument of a WriteHeader call.
func writeHeaderStatus(call ssa.CallInstruction) (int, bool) {
	cc := call.Common()
	if !cc.IsInvoke() || cc.Method.Name() != "WriteHeader" || len(cc.Args) != 1 {
		return 0, false
	}
	if !isNamed(cc.Value.Type(), "net/http", "ResponseWriter") {
		return 0, false
	}
	if k, ok := an.ConstInt(cc.Args[0]); ok {
		return int(k), true
	}
	return -1, true
}

func isNamed(t types.Type, pkg, name string) bool {
	n, ok := t.(*types.Named)
	if !ok || n.Obj().Pkg() == nil {
		return false
	}
	return n.Obj().Pkg().Path() == pkg && n.Obj().Name() == name
}

// fieldLoadOf: v is a load of field `name` of the struct held in allocation al (or of a value loaded from it).
func fieldLoadOf(v ssa.Value, name string) (base ssa.Value, ok bool) {
	switch x := v.(type) {
	case *ssa.UnOp:
		if x.Op != token.MUL {
			return nil, false
		}
		fa, isFA := x.X.(*ssa.FieldAddr)
		if !isFA {
			return nil, false
		}
		st, isStruct := an.Deref(fa.X.Type()).Underlying().(*types.Struct)
		if !isStruct || st.Field(fa.Field).Name() != name {
			return nil, false
		}
		return fa.X, true
	case *ssa.Field:
		st, isStruct := x.X.Type().Underlying().(*types.Struct)
		if !isStruct || st.Field(x.Field).Name() != name {
			return nil, false
		}
		return x.X, true
	}
	return nil, false
}

// accessPath follows field selections, loads and element accesses back to the root value:
// m.Layers[i].Digest -> (root m, [Layers [] Digest]).  A local copy of a parameter is replaced by the parameter.
func accessPath(v ssa.Value) (ssa.Value, []string) {
	var rev []string
	for i := 0; i < 24; i++ {
		switch x := v.(type) {
		case *ssa.UnOp:
			if x.Op != token.MUL {
				goto done
			}
			v = x.X
		case *ssa.FieldAddr:
			st := an.Deref(x.X.Type()).Underlying().(*types.Struct)
			rev = append(rev, st.Field(x.Field).Name())
			v = x.X
		case *ssa.Field:
			st := x.X.Type().Underlying().(*types.Struct)
			rev = append(rev, st.Field(x.Field).Name())
			v = x.X
		case *ssa.IndexAddr:
			rev = append(rev, "[]")
			v = x.X
		case *ssa.Index:
			rev = append(rev, "[]")
			v = x.X
		case *ssa.Extract:
			// element produced by a range over a slice (next) is not used by go/ssa for slices
			goto done
		case *ssa.Alloc:
			if s := an.SingleStore(x); s != nil {
				if _, isParam := s.(*ssa.Parameter); isParam {
					v = s
					continue
				}
				// a local holding a loaded element: `d := slice[i]`
				if _, isLoad := s.(*ssa.UnOp); isLoad {
					v = s
					continue
				}
			}
			goto done
		case *ssa.ChangeType:
			v = x.X
		case *ssa.Convert:
			v = x.X
		default:
			goto done
		}
	}
done:
	out := make([]string, len(rev))
	for i := range rev {
		out[i] = rev[len(rev)-1-i]
	}
	return v, out
}

func pathEq(p []string, q ...string) bool {
	if len(p) != len(q) {
		return false
	}
	for i := range p {
		if p[i] != q[i] {
			return false
		}
	}
	return true
}

// returnsCreateErr: fn hands the error of a BlobCreate with a digest option to its callers unchanged (some return
// of fn returns that error value itself): a thin ‘open the upload’ helper, whose callers then deal with ‘already
// exists’.
func returnsCreateErr(r *Roles, fn *ssa.Function) ssa.CallInstruction {
	if fn == nil || len(fn.Blocks) == 0 {
		return nil
	}
	res := fn.Signature.Results()
	if res.Len() == 0 || !an.IsErrorType(res.At(res.Len()-1).Type()) {
		return nil
	}
	var hit ssa.CallInstruction
	an.Calls(fn, func(call ssa.CallInstruction) {
		if !isBlobCreate(r, call) {
			return
		}
		if ds, known := withDigestArgs(r, call); known && len(ds) == 0 {
			return
		}
		errv := an.ErrResult(call)
		if errv == nil {
			return
		}
		an.Instrs(fn, func(in ssa.Instruction) {
			ret, ok := in.(*ssa.Return)
			if !ok || len(ret.Results) != res.Len() {
				return
			}
			for _, o := range an.Origins(ret.Results[res.Len()-1]) {
				if o == errv {
					hit = call
				}
			}
		})
	})
	return hit
}

// deepAccessPath is accessPath seen through local copies: a local variable that is assigned in one place (the copy of
// a range element, of a parameter, of a composite literal's element) stands for what was assigned to it.
func deepAccessPath(v ssa.Value) (ssa.Value, []string) {
	root, pth := accessPath(an.Strip(v))
	for i := 0; i < 6; i++ {
		al, ok := root.(*ssa.Alloc)
		if !ok {
			break
		}
		sv := an.SingleStore(al)
		if sv == nil {
			break
		}
		r2, p2 := accessPath(an.Strip(sv))
		if r2 == nil || r2 == root {
			break
		}
		root, pth = r2, append(append([]string{}, p2...), pth...)
	}
	return root, pth
}

// fieldBase peels field selections off a value: for `res.index` it returns res (the struct value the field is read
// from), also when the struct is kept in a local variable assigned once. Other values are returned unchanged.
func fieldBase(v ssa.Value) ssa.Value {
	for i := 0; i < 4; i++ {
		switch x := an.Strip(v).(type) {
		case *ssa.Field:
			v = x.X
			continue
		case *ssa.UnOp:
			if fa, ok := x.X.(*ssa.FieldAddr); ok && x.Op == token.MUL {
				if whole := an.SingleStore(fa.X); whole != nil && !fieldWritten(fa.X, fa.Field) {
					v = whole
					continue
				}
			}
		}
		break
	}
	return v
}

// returnsIndex: the function hands back an index: one of its results is types.Index, or a struct of its own
// package with a field of that type (a result record).
func returnsIndex(f *ssa.Function) bool {
	res := f.Signature.Results()
	for i := 0; i < res.Len(); i++ {
		t := res.At(i).Type()
		if n := an.NamedOf(t); n != nil && n.Obj().Name() == "Index" {
			return true
		}
		if n := an.NamedOf(t); n != nil && n.Obj().Pkg() != nil && f.Pkg != nil && n.Obj().Pkg() == f.Pkg.Pkg {
			if st, ok := n.Underlying().(*types.Struct); ok {
				for k := 0; k < st.NumFields(); k++ {
					if fn := an.NamedOf(st.Field(k).Type()); fn != nil && fn.Obj().Name() == "Index" {
						return true
					}
				}
			}
		}
	}
	return false
}

// ---- sets: a map used as a set, directly or through methods of a named map type ----

// setMethodSSA classifies a method of a named map type: "add" when it stores into recv[param], "has" when it returns the
// membership of its parameter in the receiver.
func setMethodSSA(f *ssa.Function) string {
	if f == nil || len(f.Blocks) == 0 || f.Signature.Recv() == nil || len(f.Params) != 2 {
		return ""
	}
	if _, isMap := f.Params[0].Type().Underlying().(*types.Map); !isMap {
		return ""
	}
	kind := ""
	an.Instrs(f, func(in ssa.Instruction) {
		switch x := in.(type) {
		case *ssa.MapUpdate:
			if x.Map == ssa.Value(f.Params[0]) && an.Strip(x.Key) == ssa.Value(f.Params[1]) {
				kind = "add"
			}
		case *ssa.Lookup:
			if x.X == ssa.Value(f.Params[0]) && an.Strip(x.Index) == ssa.Value(f.Params[1]) && kind == "" {
				if f.Signature.Results().Len() == 1 {
					if bt, ok := f.Signature.Results().At(0).Type().Underlying().(*types.Basic); ok && bt.Kind() == types.Bool {
						kind = "has"
					}
				}
			}
		}
	})
	return kind
}

// setLookup: v is a membership test — m[k] of a bool map, the ok of `_, ok := m[k]`, or m.has(k).
func setLookup(v ssa.Value) (m, k ssa.Value, ok bool) {
	switch x := v.(type) {
	case *ssa.Lookup:
		if _, isMap := x.X.Type().Underlying().(*types.Map); isMap && !x.CommaOk {
			return x.X, x.Index, true
		}
	case *ssa.Extract:
		if lk, isLk := x.Tuple.(*ssa.Lookup); isLk && lk.CommaOk && x.Index == 1 {
			return lk.X, lk.Index, true
		}
	case *ssa.Call:
		if setMethodSSA(x.Call.StaticCallee()) == "has" && len(x.Call.Args) == 2 {
			return x.Call.Args[0], x.Call.Args[1], true
		}
	}
	return nil, nil, false
}

type setInsert struct {
	key   ssa.Value
	at    ssa.Instruction
	block *ssa.BasicBlock
}

// setInserts: the insertions into the set m in its function: m[k] = … and m.add(k).
func setInserts(m ssa.Value) []setInsert {
	var out []setInsert
	if m == nil || m.Referrers() == nil {
		return nil
	}
	for _, ref := range *m.Referrers() {
		switch x := ref.(type) {
		case *ssa.MapUpdate:
			if x.Map == m {
				out = append(out, setInsert{x.Key, x, x.Block()})
			}
		case *ssa.Call:
			if setMethodSSA(x.Call.StaticCallee()) == "add" && len(x.Call.Args) == 2 && x.Call.Args[0] == m {
				out = append(out, setInsert{x.Call.Args[1], x, x.Block()})
			}
		}
	}
	return out
}

// holdsOnAllPaths: on every feasible path from the entry of fn to the instruction at, the most recent branch on a
// condition test recognises came out the way that makes the fact hold (test says whether the fact holds when the
// condition is true).  Paths are enumerated with (a) the outcomes of conditions branched on more than once kept
// consistent — the same SSA value cannot be true at one branch and false at a later one, which decides tag-less
// switches such as `case a && b: … case a: …` — and (b) a condition that is a φ of the branching block resolved to the
// operand of the predecessor the path came through (the form go/ssa gives a materialised `a && b`).
func holdsOnAllPaths(fn *ssa.Function, at ssa.Instruction, test func(cond ssa.Value) (holdsWhenTrue bool, ok bool)) bool {
	bases := func(v ssa.Value) []ssa.Value {
		base, _ := an.CondBase(v)
		out := []ssa.Value{base}
		if phi, ok := base.(*ssa.Phi); ok {
			for _, e := range phi.Edges {
				b2, _ := an.CondBase(e)
				out = append(out, b2)
			}
		}
		return out
	}
	count := map[ssa.Value]int{}
	var order []ssa.Value
	for _, b := range fn.Blocks {
		if ifi := an.BlockIf(b); ifi != nil {
			for _, base := range bases(ifi.Cond) {
				if _, isC := base.(*ssa.Const); isC {
					continue
				}
				if count[base] == 0 {
					order = append(order, base)
				}
				count[base]++
			}
		}
	}
	var tracked []ssa.Value
	for _, base := range order {
		if count[base] > 1 && len(tracked) < 6 {
			tracked = append(tracked, base)
		}
	}
	type ps struct {
		holds bool
		pred  int32   // index of the block the path entered the current block from (-1 at the entry)
		conds [6]int8 // 0 unknown, 1 false, 2 true
	}
	ok := true
	an.Paths(an.PathSpec[ps]{Fn: fn, Init: ps{pred: -1},
		Instr: func(s ps, in ssa.Instruction) []ps {
			if in == at && !s.holds {
				ok = false
			}
			return []ps{s}
		},
		Edge: func(s ps, from *ssa.BasicBlock, succ int) (ps, bool) {
			came := s.pred
			s.pred = int32(from.Index)
			ifi := an.BlockIf(from)
			if ifi == nil {
				return s, true
			}
			base, neg := an.CondBase(ifi.Cond)
			for depth := 0; depth < 3; depth++ {
				phi, isPhi := base.(*ssa.Phi)
				if !isPhi || phi.Block() != from || came < 0 {
					break
				}
				resolved := false
				for i, p := range from.Preds {
					if int32(p.Index) == came && i < len(phi.Edges) {
						b2, n2 := an.CondBase(phi.Edges[i])
						base, neg = b2, neg != n2
						resolved = true
						break
					}
				}
				if !resolved {
					break
				}
			}
			taken := (succ == 0) != neg // the truth value of base on this edge
			if k, isC := an.ConstBool(base); isC && k != taken {
				return s, false
			}
			for i, t := range tracked {
				if t != base {
					continue
				}
				val := int8(1)
				if taken {
					val = 2
				}
				if s.conds[i] != 0 && s.conds[i] != val {
					return s, false // contradicts an earlier branch on the same value
				}
				s.conds[i] = val
			}
			if hw, is := test(base); is {
				s.holds = taken == hw
			}
			return s, true
		}})
	return ok
}

// originsAcross: the values v can come from, followed out of the frame: a parameter stands for the arguments of every
// call of its function (statically resolved calls of the analysed module), the result of a helper of the module for what
// each of its non-error returns hands out.  complete is false when some origin could not be followed to the end
// (depth, a call through a function value, a function nobody calls).
func originsAcross(c *core.Ctx, v ssa.Value, depth int) (leaves []ssa.Value, complete bool) {
	complete = true
	if depth > 3 {
		return []ssa.Value{v}, false
	}
	for _, o := range append([]ssa.Value{an.Origin(v)}, an.Origins(v)...) {
		if _, isPhi := o.(*ssa.Phi); isPhi {
			continue
		}
		switch x := o.(type) {
		case *ssa.Parameter:
			fn := x.Parent()
			idx := -1
			for i, p := range fn.Params {
				if p == x {
					idx = i
				}
			}
			sites := c.P.Callers(fn)
			if idx < 0 || len(sites) == 0 || !strings.HasPrefix(core.FuncPkgPath(fn), c.P.Module) {
				leaves = append(leaves, o)
				complete = false
				continue
			}
			for _, site := range sites {
				if site.Common().StaticCallee() != fn || idx >= len(site.Common().Args) {
					leaves = append(leaves, o)
					complete = false
					continue
				}
				l, ok := originsAcross(c, site.Common().Args[idx], depth+1)
				leaves = append(leaves, l...)
				complete = complete && ok
			}
		default:
			if hr := an.HelperReturns(o, func(h *ssa.Function) bool { return strings.HasPrefix(core.FuncPkgPath(h), c.P.Module) }); len(hr) > 0 {
				for _, r := range hr {
					if an.IsNilConst(an.Strip(r.Val)) {
						continue
					}
					l, ok := originsAcross(c, r.Val, depth+1)
					leaves = append(leaves, l...)
					complete = complete && ok
				}
				continue
			}
			leaves = append(leaves, o)
		}
	}
	// de-duplicate
	seen := map[ssa.Value]bool{}
	var out []ssa.Value
	for _, l := range leaves {
		if !seen[l] {
			seen[l] = true
			out = append(out, l)
		}
	}
	return out, complete
}

// isCreateTempFile: v is, on every way it can be produced (across helper frames), the file result of os.CreateTemp.
func isCreateTempFile(c *core.Ctx, v ssa.Value) bool {
	leaves, complete := originsAcross(c, v, 0)
	if !complete || len(leaves) == 0 {
		return false
	}
	for _, l := range leaves {
		if ct, i := an.CallOf(l); ct == nil || i != 0 || !an.IsFunc(ct, "os", "CreateTemp") {
			return false
		}
	}
	return true
}

// literalStores: what the fields of the struct value v were filled with — v built in place (a literal, or a local filled
// field by field), or handed back by value (or by pointer) from a builder of the module whose parameters then stand for
// the arguments of the call.  Stores of all returns of the builder are merged.
func literalStores(c *core.Ctx, v ssa.Value) map[string][]ssa.Value {
	ss := structStores(an.Origin(v))
	if len(ss) == 0 {
		if u, ok := an.Strip(v).(*ssa.UnOp); ok {
			ss = structStores(u.X)
		}
	}
	if len(ss) > 0 {
		return ss
	}
	hr := an.HelperReturns(an.Origin(v), func(h *ssa.Function) bool { return strings.HasPrefix(core.FuncPkgPath(h), c.P.Module) })
	if len(hr) == 0 {
		if u, ok := an.Strip(v).(*ssa.UnOp); ok {
			hr = an.HelperReturns(an.Origin(u.X), func(h *ssa.Function) bool { return strings.HasPrefix(core.FuncPkgPath(h), c.P.Module) })
		}
	}
	out := map[string][]ssa.Value{}
	for _, r := range hr {
		var inner map[string][]ssa.Value
		switch x := an.Strip(r.Val).(type) {
		case *ssa.UnOp:
			inner = structStores(x.X)
		case *ssa.Alloc:
			inner = structStores(x)
		}
		for k, vs := range inner {
			for _, sv := range vs {
				if p, isP := an.Origin(sv).(*ssa.Parameter); isP {
					for i, hp := range r.Callee.Params {
						if hp == p && i < len(r.Call.Call.Args) {
							sv = r.Call.Call.Args[i]
						}
					}
				}
				out[k] = append(out[k], sv)
			}
		}
	}
	return out
}

// literalListElems: the elements of the literal list ia indexes into: a slice of a literal array (possibly held in a
// local variable assigned once), or a literal array indexed directly.
func literalListElems(ia *ssa.IndexAddr) ([]ssa.Value, bool) {
	x := ia.X
	if ld, ok := x.(*ssa.UnOp); ok && ld.Op == token.MUL {
		if o := an.Origin(ld); o != ssa.Value(ld) {
			x = o
		}
	}
	if sl, ok := x.(*ssa.Slice); ok {
		if elems, ok := variadicElems(sl); ok && len(elems) > 0 {
			return elems, true
		}
		return nil, false
	}
	al, ok := x.(*ssa.Alloc)
	if !ok || al.Referrers() == nil {
		return nil, false
	}
	if _, isArr := an.Deref(al.Type()).Underlying().(*types.Array); !isArr {
		return nil, false
	}
	var elems []ssa.Value
	for _, ref := range *al.Referrers() {
		if ia2, ok := ref.(*ssa.IndexAddr); ok && ia2.Referrers() != nil {
			for _, rr := range *ia2.Referrers() {
				if st, ok := rr.(*ssa.Store); ok && st.Addr == ssa.Value(ia2) {
					elems = append(elems, st.Val)
				}
			}
		}
	}
	return elems, len(elems) > 0
}

// fieldStoreAt: the value the field of a local struct variable holds at the instruction at, when that is decided by
// dominance: the store to the field that dominates at and is not followed, on a way to at, by another store to it.
func fieldStoreAt(al *ssa.Alloc, field string, at ssa.Instruction) ssa.Value {
	st, ok := an.Deref(al.Type()).Underlying().(*types.Struct)
	if !ok || al.Referrers() == nil {
		return nil
	}
	var stores []*ssa.Store
	for _, ref := range *al.Referrers() {
		fa, ok := ref.(*ssa.FieldAddr)
		if !ok || st.Field(fa.Field).Name() != field || fa.Referrers() == nil {
			continue
		}
		for _, rr := range *fa.Referrers() {
			if s, ok := rr.(*ssa.Store); ok && s.Addr == ssa.Value(fa) {
				stores = append(stores, s)
			}
		}
	}
	before := func(s *ssa.Store) bool {
		if s.Block() == at.Block() {
			return an.InstrIndex(s) < an.InstrIndex(at)
		}
		return s.Block().Dominates(at.Block())
	}
	var best *ssa.Store
	for _, s := range stores {
		if !before(s) {
			continue
		}
		if best == nil || an.Reaches(best, s) {
			best = s
		}
	}
	if best == nil {
		return nil
	}
	for _, s := range stores {
		if s == best || !an.Reaches(s, at) {
			continue
		}
		if an.Reaches(best, s) {
			return nil // a later store may intervene
		}
	}
	return best.Val
}

// resolveAcross: where the value comes from, followed out of the frame when that is unambiguous: a parameter of a
// function with exactly one (static) call stands for the argument of that call; a field read from a record stands for
// the single value the record's field was filled with — in place, or inside the builder of the module that handed the
// record out (marks := mark(…); marks.seen).  The value itself when it cannot be followed.
func resolveAcross(c *core.Ctx, v ssa.Value, depth int) ssa.Value {
	if v == nil || depth > 6 {
		return v
	}
	v = an.Origin(v)
	switch x := an.Strip(v).(type) {
	case *ssa.Parameter:
		fn := x.Parent()
		sites := c.P.Callers(fn)
		if len(sites) != 1 {
			return v
		}
		cc := sites[0].Common()
		if cc.IsInvoke() || cc.StaticCallee() != fn {
			return v
		}
		for k, q := range fn.Params {
			if q == x && k < len(cc.Args) {
				return resolveAcross(c, cc.Args[k], depth+1)
			}
		}
	case *ssa.Field:
		if st, ok := x.X.Type().Underlying().(*types.Struct); ok {
			if r := recordFieldAcross(c, x.X, st.Field(x.Field).Name(), depth); r != nil {
				return r
			}
		}
	case *ssa.UnOp:
		if fa, ok := x.X.(*ssa.FieldAddr); ok && x.Op == token.MUL {
			if st, ok := an.Deref(fa.X.Type()).Underlying().(*types.Struct); ok {
				base := fa.X
				// a by-value record parameter spilled into a cell, or a local assigned once as a whole
				if al, isAlloc := base.(*ssa.Alloc); isAlloc {
					if whole := an.SingleStore(al); whole != nil {
						if r := recordFieldAcross(c, whole, st.Field(fa.Field).Name(), depth); r != nil {
							return r
						}
					}
				}
			}
		}
	}
	return v
}

func recordFieldAcross(c *core.Ctx, rec ssa.Value, field string, depth int) ssa.Value {
	base := resolveAcross(c, rec, depth+1)
	vals := literalStores(c, base)[field]
	if len(vals) == 1 {
		return resolveAcross(c, vals[0], depth+1)
	}
	return nil
}

// callerEdgesOfOutcome: a step of the module that leaves through the edge (from, succ) — the failure edge of a test,
// say — without dealing with the outcome itself tells its caller: by an error result that is certainly non-nil on the
// returns behind that edge, or by a record result one field of which holds a constant there that no other return of the
// step gives it (return result{step: stepVerify, err: err}).  For a step with exactly one static call the function
// returns that call and the edges of the caller taken when the step left that way: the non-nil edge of the tests of
// the error result, the ‘field == constant’ edges of the tests of the record field.  ok is false when the step does
// not signal the outcome in one of these forms, or the caller never tests it.
func callerEdgesOfOutcome(c *core.Ctx, fn *ssa.Function, from *ssa.BasicBlock, succ int) (site *ssa.Call, edges []an.Edge, ok bool) {
	sites := c.P.Callers(fn)
	if len(sites) != 1 {
		return nil, nil, false
	}
	site, _ = sites[0].(*ssa.Call)
	if site == nil || site.Call.IsInvoke() || site.Call.StaticCallee() != fn {
		return nil, nil, false
	}
	var behind, others []*ssa.Return
	an.Instrs(fn, func(in ssa.Instruction) {
		if ret, isRet := in.(*ssa.Return); isRet {
			if an.EdgeDominates(from, succ, ret.Block()) || (from.Succs[succ] == ret.Block() && len(ret.Block().Preds) == 1) {
				behind = append(behind, ret)
			} else {
				others = append(others, ret)
			}
		}
	})
	if len(behind) == 0 {
		return nil, nil, false
	}
	// every block behind the edge ends in one of those returns
	for _, b := range fn.Blocks {
		if b != from.Succs[succ] && !an.EdgeDominates(from, succ, b) {
			continue
		}
		for _, s := range b.Succs {
			if s != from.Succs[succ] && !an.EdgeDominates(from, succ, s) {
				return nil, nil, false
			}
		}
	}
	caller := site.Parent()
	resultAt := func(i int) ssa.Value {
		if fn.Signature.Results().Len() == 1 {
			return site
		}
		if site.Referrers() != nil {
			for _, ref := range *site.Referrers() {
				if ex, isEx := ref.(*ssa.Extract); isEx && ex.Index == i {
					return ex
				}
			}
		}
		return nil
	}
	constOf := func(v ssa.Value) (constant.Value, bool) {
		k, isC := an.Strip(v).(*ssa.Const)
		if !isC || k.Value == nil {
			return nil, false
		}
		return k.Value, true
	}
	zeroOf := func(t types.Type) constant.Value {
		switch b := t.Underlying().(type) {
		case *types.Basic:
			switch {
			case b.Info()&types.IsBoolean != 0:
				return constant.MakeBool(false)
			case b.Info()&types.IsInteger != 0:
				return constant.MakeInt64(0)
			case b.Info()&types.IsString != 0:
				return constant.MakeString("")
			}
		}
		return nil
	}
	nres := fn.Signature.Results().Len()
	for i := 0; i < nres; i++ {
		rt := fn.Signature.Results().At(i).Type()
		// (1) an error result
		if types.Identical(rt, types.Universe.Lookup("error").Type()) {
			all := true
			for _, ret := range behind {
				if i >= len(ret.Results) || !an.DefiniteError(ret.Results[i]) {
					// the error tested on the edge itself
					if ifi := an.BlockIf(from); ifi != nil {
						if x, nilSucc, isNil := an.NilTest(ifi); isNil && nilSucc != succ && i < len(ret.Results) && an.Origin(ret.Results[i]) == an.Origin(x) {
							continue
						}
					}
					all = false
				}
			}
			rv := resultAt(i)
			if !all || rv == nil {
				continue
			}
			for _, b := range caller.Blocks {
				ifi := an.BlockIf(b)
				if ifi == nil {
					continue
				}
				if x, nilSucc, isNil := an.NilTest(ifi); isNil && an.Origin(x) == an.Origin(rv) {
					edges = append(edges, an.Edge{From: b, Succ: 1 - nilSucc})
				}
			}
			if len(edges) > 0 {
				return site, edges, true
			}
			continue
		}
		// (2) a record result
		st, isStruct := rt.Underlying().(*types.Struct)
		if !isStruct {
			continue
		}
		rv := resultAt(i)
		if rv == nil {
			continue
		}
		for fi := 0; fi < st.NumFields(); fi++ {
			fname := st.Field(fi).Name()
			zero := zeroOf(st.Field(fi).Type())
			if zero == nil {
				continue
			}
			fieldConst := func(ret *ssa.Return) (constant.Value, bool) {
				if i >= len(ret.Results) {
					return nil, false
				}
				vals := literalStores(c, ret.Results[i])[fname]
				switch len(vals) {
				case 0:
					// a literal that leaves the field out, or the zero record
					switch x := an.Strip(ret.Results[i]).(type) {
					case *ssa.UnOp:
						if _, isAl := x.X.(*ssa.Alloc); isAl && x.Op == token.MUL {
							return zero, true
						}
					case *ssa.Const:
						if x.Value == nil {
							return zero, true
						}
					}
					return nil, false
				case 1:
					return constOf(vals[0])
				}
				return nil, false
			}
			var k constant.Value
			good := true
			for _, ret := range behind {
				v, isC := fieldConst(ret)
				if !isC || (k != nil && !constant.Compare(k, token.EQL, v)) {
					good = false
					break
				}
				k = v
			}
			if !good || k == nil {
				continue
			}
			for _, ret := range others {
				v, isC := fieldConst(ret)
				if !isC || constant.Compare(k, token.EQL, v) {
					good = false
					break
				}
			}
			if !good {
				continue
			}
			// the caller's tests of that field
			isField := func(v ssa.Value) bool {
				switch x := an.Strip(v).(type) {
				case *ssa.Field:
					return x.Field == fi && an.Origin(x.X) == an.Origin(rv)
				case *ssa.UnOp:
					if fa, isFA := x.X.(*ssa.FieldAddr); isFA && x.Op == token.MUL && fa.Field == fi {
						if al, isAl := fa.X.(*ssa.Alloc); isAl {
							if whole := an.SingleStore(al); whole != nil && an.Origin(whole) == an.Origin(rv) {
								return true
							}
						}
					}
				}
				return false
			}
			for _, b := range caller.Blocks {
				ifi := an.BlockIf(b)
				if ifi == nil {
					continue
				}
				if x, y, op, isCmp := an.CmpTest(ifi); isCmp && (op == token.EQL || op == token.NEQ) {
					if !isField(x) {
						x, y = y, x
					}
					if kv, isC := constOf(y); isC && isField(x) && constant.Compare(k, token.EQL, kv) {
						if op == token.EQL {
							edges = append(edges, an.Edge{From: b, Succ: 0})
						} else {
							edges = append(edges, an.Edge{From: b, Succ: 1})
						}
					}
					continue
				}
				if base, neg := an.CondBase(ifi.Cond); isField(base) && k.Kind() == constant.Bool {
					if constant.BoolVal(k) != neg {
						edges = append(edges, an.Edge{From: b, Succ: 0})
					} else {
						edges = append(edges, an.Edge{From: b, Succ: 1})
					}
				}
			}
			if len(edges) > 0 {
				return site, edges, true
			}
		}
	}
	return nil, nil, false
}

func sortedKeys(m map[string]bool) []string {
	out := make([]string, 0, len(m))
	for k := range m {
		out = append(out, k)
	}
	sort.Strings(out)
	return out
}
