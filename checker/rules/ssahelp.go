package rules

import (
	"go/token"
	"go/types"

	"golang.org/x/tools/go/ssa"

	"olacheck/an"
)

// variadicElems returns the values stored into the backing array of a variadic argument built at the
// call site (nil, false when the slice comes from elsewhere).
func variadicElems(v ssa.Value) ([]ssa.Value, bool) {
	if c, ok := v.(*ssa.Const); ok && c.Value == nil {
		return nil, true // no variadic arguments
	}
	sl, ok := v.(*ssa.Slice)
	if !ok {
		return nil, false
	}
	al, ok := sl.X.(*ssa.Alloc)
	if !ok || al.Referrers() == nil {
		return nil, false
	}
	var out []ssa.Value
	for _, r := range *al.Referrers() {
		ia, ok := r.(*ssa.IndexAddr)
		if !ok || ia.Referrers() == nil {
			continue
		}
		for _, rr := range *ia.Referrers() {
			if st, ok := rr.(*ssa.Store); ok && st.Addr == ia {
				out = append(out, st.Val)
			}
		}
	}
	return out, true
}

// withDigestArgs returns the digests passed as BlobWithDigest options to a BlobCreate/blobCreate call,
// and whether the option list could be enumerated.
func withDigestArgs(r *Roles, call ssa.CallInstruction) ([]ssa.Value, bool) {
	cc := call.Common()
	if len(cc.Args) == 0 {
		return nil, true
	}
	elems, ok := variadicElems(cc.Args[len(cc.Args)-1])
	if !ok {
		return nil, false
	}
	var out []ssa.Value
	for _, e := range elems {
		if c, _ := an.CallOf(e); c != nil && an.IsFunc(c, r.StorePath, "BlobWithDigest") && len(c.Call.Args) == 1 {
			out = append(out, c.Call.Args[0])
		}
	}
	return out, true
}

// isBlobCreate: the public or the internal blob creation of a repository.
func isBlobCreate(r *Roles, call ssa.CallInstruction) bool {
	if r.IsAPI(call, "Repo", "BlobCreate") {
		return true
	}
	cc := call.Common()
	if cc.IsInvoke() && an.NamedOf(cc.Value.Type()) == r.IRepo && cc.Method.Name() == "blobCreate" {
		return true
	}
	return false
}

// structStores returns, for a struct value loaded from a local allocation (a composite literal or a
// local variable), the values stored into each of its fields (by field name).
func structStores(v ssa.Value) map[string][]ssa.Value {
	out := map[string][]ssa.Value{}
	// the struct's address: a local variable / literal, or the address of a struct-typed field or element of one
	// (&rec.desc, &arr[0]) that is filled in place
	var al ssa.Value
	isAddr := func(x ssa.Value) bool {
		switch x.(type) {
		case *ssa.Alloc, *ssa.FieldAddr, *ssa.IndexAddr:
			return true
		}
		return false
	}
	switch x := v.(type) {
	case *ssa.UnOp:
		if x.Op == token.MUL && isAddr(x.X) {
			al = x.X
		}
	default:
		if isAddr(v) {
			al = v
		}
	}
	if al == nil {
		return out
	}
	var collect func(a ssa.Value, depth int)
	collect = func(a ssa.Value, depth int) {
		if a.Referrers() == nil || depth > 2 {
			return
		}
		st, ok := an.Deref(a.Type()).Underlying().(*types.Struct)
		if !ok {
			return
		}
		for _, r := range *a.Referrers() {
			switch x := r.(type) {
			case *ssa.FieldAddr:
				if x.Referrers() == nil {
					continue
				}
				for _, rr := range *x.Referrers() {
					if s, ok := rr.(*ssa.Store); ok && s.Addr == x {
						out[st.Field(x.Field).Name()] = append(out[st.Field(x.Field).Name()], s.Val)
					}
				}
			case *ssa.Store:
				// whole-value initialisation from another local (composite literal copied into the variable)
				if x.Addr == a {
					if ld, ok := x.Val.(*ssa.UnOp); ok && ld.Op == token.MUL {
						if b, ok := ld.X.(*ssa.Alloc); ok {
							collect(b, depth+1)
						}
					}
				}
			}
		}
	}
	collect(al, 0)
	return out
}

// lenOf: v is (a conversion of) len(x); returns x.
func lenOf(v ssa.Value) ssa.Value {
	v = an.Strip(v)
	c, ok := v.(*ssa.Call)
	if !ok {
		return nil
	}
	if b, ok := c.Call.Value.(*ssa.Builtin); ok && b.Name() == "len" && len(c.Call.Args) == 1 {
		return c.Call.Args[0]
	}
	return nil
}

// constStatus returns the constant argument of a WriteHeader call.
func writeHeaderStatus(call ssa.CallInstruction) (int, bool) {
	cc := call.Common()
	if !cc.IsInvoke() || cc.Method.Name() != "WriteHeader" || len(cc.Args) != 1 {
		return 0, false
	}
	if !isNamed(cc.Value.Type(), "net/http", "ResponseWriter") {
		return 0, false
	}
	if k, ok := an.ConstInt(cc.Args[0]); ok {
		return int(k), true
	}
	return -1, true
}

func isNamed(t types.Type, pkg, name string) bool {
	n, ok := t.(*types.Named)
	if !ok || n.Obj().Pkg() == nil {
		return false
	}
	return n.Obj().Pkg().Path() == pkg && n.Obj().Name() == name
}

// fieldLoadOf: v is a load of field `name` of the struct held in allocation al (or of a value loaded from it).
func fieldLoadOf(v ssa.Value, name string) (base ssa.Value, ok bool) {
	switch x := v.(type) {
	case *ssa.UnOp:
		if x.Op != token.MUL {
			return nil, false
		}
		fa, isFA := x.X.(*ssa.FieldAddr)
		if !isFA {
			return nil, false
		}
		st, isStruct := an.Deref(fa.X.Type()).Underlying().(*types.Struct)
		if !isStruct || st.Field(fa.Field).Name() != name {
			return nil, false
		}
		return fa.X, true
	case *ssa.Field:
		st, isStruct := x.X.Type().Underlying().(*types.Struct)
		if !isStruct || st.Field(x.Field).Name() != name {
			return nil, false
		}
		return x.X, true
	}
	return nil, false
}

// accessPath follows field selections, loads and element accesses back to the root value:
// m.Layers[i].Digest -> (root m, [Layers [] Digest]).  A local copy of a parameter is replaced by the parameter.
func accessPath(v ssa.Value) (ssa.Value, []string) {
	var rev []string
	for i := 0; i < 24; i++ {
		switch x := v.(type) {
		case *ssa.UnOp:
			if x.Op != token.MUL {
				goto done
			}
			v = x.X
		case *ssa.FieldAddr:
			st := an.Deref(x.X.Type()).Underlying().(*types.Struct)
			rev = append(rev, st.Field(x.Field).Name())
			v = x.X
		case *ssa.Field:
			st := x.X.Type().Underlying().(*types.Struct)
			rev = append(rev, st.Field(x.Field).Name())
			v = x.X
		case *ssa.IndexAddr:
			rev = append(rev, "[]")
			v = x.X
		case *ssa.Index:
			rev = append(rev, "[]")
			v = x.X
		case *ssa.Extract:
			// element produced by a range over a slice (next) is not used by go/ssa for slices
			goto done
		case *ssa.Alloc:
			if s := an.SingleStore(x); s != nil {
				if _, isParam := s.(*ssa.Parameter); isParam {
					v = s
					continue
				}
				// a local holding a loaded element: `d := slice[i]`
				if _, isLoad := s.(*ssa.UnOp); isLoad {
					v = s
					continue
				}
			}
			goto done
		case *ssa.ChangeType:
			v = x.X
		case *ssa.Convert:
			v = x.X
		default:
			goto done
		}
	}
done:
	out := make([]string, len(rev))
	for i := range rev {
		out[i] = rev[len(rev)-1-i]
	}
	return v, out
}

func pathEq(p []string, q ...string) bool {
	if len(p) != len(q) {
		return false
	}
	for i := range p {
		if p[i] != q[i] {
			return false
		}
	}
	return true
}

// returnsCreateErr: fn hands the error of a BlobCreate with a digest option to its callers unchanged (some return
// of fn returns that error value itself): a thin ‘open the upload’ helper, whose callers then deal with ‘already
// exists’.
func returnsCreateErr(r *Roles, fn *ssa.Function) ssa.CallInstruction {
	if fn == nil || len(fn.Blocks) == 0 {
		return nil
	}
	res := fn.Signature.Results()
	if res.Len() == 0 || !an.IsErrorType(res.At(res.Len()-1).Type()) {
		return nil
	}
	var hit ssa.CallInstruction
	an.Calls(fn, func(call ssa.CallInstruction) {
		if !isBlobCreate(r, call) {
			return
		}
		if ds, known := withDigestArgs(r, call); known && len(ds) == 0 {
			return
		}
		errv := an.ErrResult(call)
		if errv == nil {
			return
		}
		an.Instrs(fn, func(in ssa.Instruction) {
			ret, ok := in.(*ssa.Return)
			if !ok || len(ret.Results) != res.Len() {
				return
			}
			for _, o := range an.Origins(ret.Results[res.Len()-1]) {
				if o == errv {
					hit = call
				}
			}
		})
	})
	return hit
}

// deepAccessPath is accessPath seen through local copies: a local variable that is assigned in one place (the copy of
// a range element, of a parameter, of a composite literal's element) stands for what was assigned to it.
func deepAccessPath(v ssa.Value) (ssa.Value, []string) {
	root, pth := accessPath(an.Strip(v))
	for i := 0; i < 6; i++ {
		al, ok := root.(*ssa.Alloc)
		if !ok {
			break
		}
		sv := an.SingleStore(al)
		if sv == nil {
			break
		}
		r2, p2 := accessPath(an.Strip(sv))
		if r2 == nil || r2 == root {
			break
		}
		root, pth = r2, append(append([]string{}, p2...), pth...)
	}
	return root, pth
}

// fieldBase peels field selections off a value: for `res.index` it returns res (the struct value the field is read
// from), also when the struct is kept in a local variable assigned once. Other values are returned unchanged.
func fieldBase(v ssa.Value) ssa.Value {
	for i := 0; i < 4; i++ {
		switch x := an.Strip(v).(type) {
		case *ssa.Field:
			v = x.X
			continue
		case *ssa.UnOp:
			if fa, ok := x.X.(*ssa.FieldAddr); ok && x.Op == token.MUL {
				if whole := an.SingleStore(fa.X); whole != nil && !fieldWritten(fa.X, fa.Field) {
					v = whole
					continue
				}
			}
		}
		break
	}
	return v
}

// returnsIndex: the function hands back an index: one of its results is types.Index, or a struct of its own
// package with a field of that type (a result record).
func returnsIndex(f *ssa.Function) bool {
	res := f.Signature.Results()
	for i := 0; i < res.Len(); i++ {
		t := res.At(i).Type()
		if n := an.NamedOf(t); n != nil && n.Obj().Name() == "Index" {
			return true
		}
		if n := an.NamedOf(t); n != nil && n.Obj().Pkg() != nil && f.Pkg != nil && n.Obj().Pkg() == f.Pkg.Pkg {
			if st, ok := n.Underlying().(*types.Struct); ok {
				for k := 0; k < st.NumFields(); k++ {
					if fn := an.NamedOf(st.Field(k).Type()); fn != nil && fn.Obj().Name() == "Index" {
						return true
					}
				}
			}
		}
	}
	return false
}

// ---- sets: a map used as a set, directly or through methods of a named map type ----

// setMethodSSA classifies a method of a named map type: "add" when it stores into recv[param], "has" when it returns the
// membership of its parameter in the receiver.
func setMethodSSA(f *ssa.Function) string {
	if f == nil || len(f.Blocks) == 0 || f.Signature.Recv() == nil || len(f.Params) != 2 {
		return ""
	}
	if _, isMap := f.Params[0].Type().Underlying().(*types.Map); !isMap {
		return ""
	}
	kind := ""
	an.Instrs(f, func(in ssa.Instruction) {
		switch x := in.(type) {
		case *ssa.MapUpdate:
			if x.Map == ssa.Value(f.Params[0]) && an.Strip(x.Key) == ssa.Value(f.Params[1]) {
				kind = "add"
			}
		case *ssa.Lookup:
			if x.X == ssa.Value(f.Params[0]) && an.Strip(x.Index) == ssa.Value(f.Params[1]) && kind == "" {
				if f.Signature.Results().Len() == 1 {
					if bt, ok := f.Signature.Results().At(0).Type().Underlying().(*types.Basic); ok && bt.Kind() == types.Bool {
						kind = "has"
					}
				}
			}
		}
	})
	return kind
}

// setLookup: v is a membership test — m[k] of a bool map, the ok of `_, ok := m[k]`, or m.has(k).
func setLookup(v ssa.Value) (m, k ssa.Value, ok bool) {
	switch x := v.(type) {
	case *ssa.Lookup:
		if _, isMap := x.X.Type().Underlying().(*types.Map); isMap && !x.CommaOk {
			return x.X, x.Index, true
		}
	case *ssa.Extract:
		if lk, isLk := x.Tuple.(*ssa.Lookup); isLk && lk.CommaOk && x.Index == 1 {
			return lk.X, lk.Index, true
		}
	case *ssa.Call:
		if setMethodSSA(x.Call.StaticCallee()) == "has" && len(x.Call.Args) == 2 {
			return x.Call.Args[0], x.Call.Args[1], true
		}
	}
	return nil, nil, false
}

type setInsert struct {
	key   ssa.Value
	at    ssa.Instruction
	block *ssa.BasicBlock
}

// setInserts: the insertions into the set m in its function: m[k] = … and m.add(k).
func setInserts(m ssa.Value) []setInsert {
	var out []setInsert
	if m == nil || m.Referrers() == nil {
		return nil
	}
	for _, ref := range *m.Referrers() {
		switch x := ref.(type) {
		case *ssa.MapUpdate:
			if x.Map == m {
				out = append(out, setInsert{x.Key, x, x.Block()})
			}
		case *ssa.Call:
			if setMethodSSA(x.Call.StaticCallee()) == "add" && len(x.Call.Args) == 2 && x.Call.Args[0] == m {
				out = append(out, setInsert{x.Call.Args[1], x, x.Block()})
			}
		}
	}
	return out
}
