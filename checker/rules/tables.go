package rules

import (
	"fmt"
	"go/ast"
	"go/constant"
	"go/token"
	"go/types"
	"regexp"
	"sort"
	"strings"

	"golang.org/x/tools/go/ssa"

	"olacheck/an"
	"olacheck/core"
)

// ociErrorTable is the error-code table of the OCI distribution specification (code -> message).
var ociErrorTable = map[string]string{
	"BLOB_UNKNOWN":          "blob unknown to registry",
	"BLOB_UPLOAD_INVALID":   "blob upload invalid",
	"BLOB_UPLOAD_UNKNOWN":   "blob upload unknown to registry",
	"DIGEST_INVALID":        "provided digest did not match uploaded content",
	"MANIFEST_BLOB_UNKNOWN": "manifest references a manifest or blob unknown to registry",
	"MANIFEST_INVALID":      "manifest invalid",
	"MANIFEST_UNKNOWN":      "manifest unknown to registry",
	"NAME_INVALID":          "invalid repository name",
	"NAME_UNKNOWN":          "repository name not known to registry",
	"SIZE_INVALID":          "provided length did not match content length",
	"UNAUTHORIZED":          "authentication required",
	"DENIED":                "requested access to the resource is denied",
	"UNSUPPORTED":           "the operation is unsupported",
	"TOOMANYREQUESTS":       "too many requests",
}

// errorConstructors maps every function of package types that builds an ErrorInfo literal to its (code, message).
func errorConstructors(c *core.Ctx) map[string][2]string {
	return core.Memo(c, "errctors", func() map[string][2]string {
		out := map[string][2]string{}
		pk := pkgOf(c, "types")
		if pk == nil {
			return out
		}
		// a shared builder fills Code / Message from its parameters (newErrorInfo(code, message, detail)); the constructors
		// are then the functions that call it with constants in those places
		type builder struct{ code, msg int } // parameter index, -1 when the literal holds a constant itself
		builders := map[*types.Func]builder{}
		builderConst := map[*types.Func][2]string{}
		paramIndex := func(fd *ast.FuncDecl, e ast.Expr) int {
			id, ok := ast.Unparen(e).(*ast.Ident)
			if !ok || fd.Type.Params == nil {
				return -1
			}
			obj := pk.TypesInfo.Uses[id]
			i := 0
			for _, f := range fd.Type.Params.List {
				for _, nm := range f.Names {
					if pk.TypesInfo.Defs[nm] == obj && obj != nil {
						return i
					}
					i++
				}
				if len(f.Names) == 0 {
					i++
				}
			}
			return -1
		}
		for _, fd := range funcDecls(pk) {
			ast.Inspect(fd.Body, func(n ast.Node) bool {
				cl, ok := n.(*ast.CompositeLit)
				if !ok {
					return true
				}
				tv, ok := pk.TypesInfo.Types[cl]
				if !ok || !isNamedType(tv.Type, pk.PkgPath, "ErrorInfo") {
					return true
				}
				code, msg := "?", "?"
				b := builder{-1, -1}
				for _, el := range cl.Elts {
					kv, ok := el.(*ast.KeyValueExpr)
					if !ok {
						continue
					}
					k, _ := kv.Key.(*ast.Ident)
					if k == nil {
						continue
					}
					if s, ok := constString(pk, kv.Value); ok {
						switch k.Name {
						case "Code":
							code = s
						case "Message":
							msg = s
						}
						continue
					}
					if pi := paramIndex(fd, kv.Value); pi >= 0 {
						switch k.Name {
						case "Code":
							b.code = pi
						case "Message":
							b.msg = pi
						}
					}
				}
				if f, isFn := pk.TypesInfo.Defs[fd.Name].(*types.Func); isFn && fd.Recv == nil && (b.code >= 0 || b.msg >= 0) {
					builders[f] = b
					builderConst[f] = [2]string{code, msg}
					return true
				}
				out[fd.Name.Name] = [2]string{code, msg}
				return true
			})
		}
		if len(builders) > 0 {
			for _, fd := range funcDecls(pk) {
				if f, isFn := pk.TypesInfo.Defs[fd.Name].(*types.Func); isFn {
					if _, isB := builders[f]; isB {
						continue
					}
				}
				ast.Inspect(fd.Body, func(n ast.Node) bool {
					call, ok := n.(*ast.CallExpr)
					if !ok {
						return true
					}
					f, ok := typeutilCallee(pk, call).(*types.Func)
					if !ok {
						return true
					}
					b, isB := builders[f]
					if !isB {
						return true
					}
					cm := builderConst[f]
					if b.code >= 0 && b.code < len(call.Args) {
						cm[0] = "?"
						if s, ok := constString(pk, call.Args[b.code]); ok {
							cm[0] = s
						}
					}
					if b.msg >= 0 && b.msg < len(call.Args) {
						cm[1] = "?"
						if s, ok := constString(pk, call.Args[b.msg]); ok {
							cm[1] = s
						}
					}
					out[fd.Name.Name] = cm
					return true
				})
			}
		}
		return out
	})
}

func init() {
	register(&Rule{ID: "TB-ERRCODE", Floor: 10,
		Doc: "every function of package types that builds an ErrorInfo literal uses a constant (Code, Message) pair that is a row of the OCI distribution-spec error table, and no two constructors share a code",
		Run: func(c *core.Ctx) {
			pk := pkgOf(c, "types")
			if pk == nil {
				c.Unresolved("pkg:types", "package types not found")
				return
			}
			ctors := errorConstructors(c)
			byCode := map[string][]string{}
			var names []string
			for n := range ctors {
				names = append(names, n)
			}
			sort.Strings(names)
			for _, n := range names {
				cm := ctors[n]
				fd := findFunc(pk, "", n)
				want, ok := ociErrorTable[cm[0]]
				switch {
				case !ok:
					c.Fail("ctor:"+n, posOf(fd), "code %q is not a registered OCI error code (message %q)", cm[0], cm[1])
				case want != cm[1]:
					c.Fail("ctor:"+n, posOf(fd), "code %q carries message %q, the OCI table says %q", cm[0], cm[1], want)
				default:
					c.Pass("ctor:"+n, posOf(fd), "(%s, %q) is a row of the OCI table", cm[0], cm[1])
				}
				byCode[cm[0]] = append(byCode[cm[0]], n)
			}
			for code, l := range byCode {
				if len(l) > 1 {
					c.Fail("dup:"+code, token.NoPos, "constructors %v build the same code", l)
				}
			}
		}})

	register(&Rule{ID: "TB-MEDIATYPE", Floor: 1,
		Doc: "every switch over manifest media types in the handlers accepts exactly MediaTypeImage ∪ MediaTypeIndex; the arm parsed as an image manifest lists exactly the image types and the arm parsed as an index exactly the index types",
		Run: runMediaType})

	register(&Rule{ID: "TB-DEEP", Floor: 3,
		Doc: "every Copy method of package types re-allocates each field of its struct whose type is a slice, map or pointer (read from the field list, so a new reference field without a copy is caught), and copies slice elements that themselves have a Copy method through it",
		Run: runDeepCopy})

	register(&Rule{ID: "TB-RESERVED", Floor: 3,
		Doc: "every constant name the stores use directly under a repository directory is either refused as a repository path component by the directory store or cannot match the repository-name grammar (decided by evaluating the grammar regexp on the constants)",
		Run: runReserved})
}

// mediaTypeSet returns the constants of the switch in types.<fn>.
func mediaTypeSet(c *core.Ctx, fn string) (map[string]bool, token.Pos) {
	pk := pkgOf(c, "types")
	fd := findFunc(pk, "", fn)
	if fd == nil {
		return nil, token.NoPos
	}
	set := map[string]bool{}
	ast.Inspect(fd.Body, func(n ast.Node) bool {
		switch x := n.(type) {
		case *ast.CaseClause:
			for _, e := range x.List {
				if s, ok := constString(pk, e); ok {
					set[s] = true
				}
			}
		case *ast.BinaryExpr:
			if x.Op != token.EQL {
				return true
			}
			for _, pair := range [][2]ast.Expr{{x.X, x.Y}, {x.Y, x.X}} {
				// mt == CONST
				if s, ok := constString(pk, pair[1]); ok {
					if _, isConst := constString(pk, pair[0]); !isConst {
						set[s] = true
					}
				}
				// table[mt] == KIND: the keys the package-level table (a literal, never changed) maps to that constant
				ie, ok := pair[0].(*ast.IndexExpr)
				if !ok {
					continue
				}
				id, ok := ie.X.(*ast.Ident)
				if !ok {
					continue
				}
				v, ok := pk.TypesInfo.Uses[id].(*types.Var)
				if !ok || v.Parent() != pk.Types.Scope() || pkgVarAssigned(pk, v) {
					continue
				}
				want := constOf(pk, pair[1])
				cl, isLit := pkgVarInit(pk, v.Name()).(*ast.CompositeLit)
				if want == nil || !isLit {
					continue
				}
				for _, el := range cl.Elts {
					kv, ok := el.(*ast.KeyValueExpr)
					if !ok {
						continue
					}
					if val := constOf(pk, kv.Value); val != nil && val.Kind() == want.Kind() && constant.Compare(val, token.EQL, want) {
						if s, ok := constString(pk, kv.Key); ok {
							set[s] = true
						}
					}
				}
			}
		}
		return true
	})
	if len(set) == 0 {
		// membership in a package-level set (a map literal that is never changed): `_, ok := set[mt]`, `set[mt]` with
		// bool values — the set is the keys of the literal (those mapped to true, for a bool-valued map)
		ast.Inspect(fd.Body, func(n ast.Node) bool {
			ie, ok := n.(*ast.IndexExpr)
			if !ok {
				return true
			}
			id, ok := ie.X.(*ast.Ident)
			if !ok {
				return true
			}
			v, ok := pk.TypesInfo.Uses[id].(*types.Var)
			if !ok || v.Parent() != pk.Types.Scope() || pkgVarAssigned(pk, v) {
				return true
			}
			mt, isMap := v.Type().Underlying().(*types.Map)
			cl, isLit := pkgVarInit(pk, v.Name()).(*ast.CompositeLit)
			if !isMap || !isLit {
				return true
			}
			boolVals := false
			if b, isB := mt.Elem().Underlying().(*types.Basic); isB && b.Kind() == types.Bool {
				boolVals = true
			} else if st, isSt := mt.Elem().Underlying().(*types.Struct); !isSt || st.NumFields() != 0 {
				return true
			}
			for _, el := range cl.Elts {
				kv, ok := el.(*ast.KeyValueExpr)
				if !ok {
					continue
				}
				if boolVals {
					if val := constOf(pk, kv.Value); val == nil || val.Kind() != constant.Bool || !constant.BoolVal(val) {
						continue
					}
				}
				if s, ok := constString(pk, kv.Key); ok {
					set[s] = true
				}
			}
			return true
		})
	}
	return set, fd.Pos()
}

func setString(m map[string]bool) string {
	var l []string
	for k := range m {
		l = append(l, k)
	}
	sort.Strings(l)
	return "{" + strings.Join(l, ", ") + "}"
}

func setEq(a, b map[string]bool) bool {
	if len(a) != len(b) {
		return false
	}
	for k := range a {
		if !b[k] {
			return false
		}
	}
	return true
}

func runMediaType(c *core.Ctx) {
	img, _ := mediaTypeSet(c, "MediaTypeImage")
	idx, _ := mediaTypeSet(c, "MediaTypeIndex")
	if len(img) == 0 || len(idx) == 0 {
		c.Unresolved("types.MediaTypeImage/Index", "media type predicates not found")
		return
	}
	all := map[string]bool{}
	for k := range img {
		all[k] = true
	}
	for k := range idx {
		all[k] = true
	}
	c.Pass("sets", token.NoPos, "image=%s index=%s", setString(img), setString(idx))
	pk := pkgOf(c, "")
	for _, fd := range funcDecls(pk) {
		n := 0
		ast.Inspect(fd.Body, func(nd ast.Node) bool {
			sw, ok := nd.(*ast.SwitchStmt)
			if !ok || sw.Tag == nil {
				return true
			}
			union := map[string]bool{}
			isMT := false
			type arm struct {
				set  map[string]bool
				body *ast.CaseClause
			}
			var arms []arm
			for _, st := range sw.Body.List {
				cc := st.(*ast.CaseClause)
				a := arm{set: map[string]bool{}, body: cc}
				for _, e := range cc.List {
					if s, ok := constString(pk, e); ok {
						if strings.HasPrefix(s, "application/") {
							isMT = true
						}
						if s != "" {
							union[s] = true
							a.set[s] = true
						}
					}
				}
				arms = append(arms, a)
			}
			if !isMT {
				return true
			}
			n++
			key := fmt.Sprintf("switch:%s#%d", fd.Name.Name, n)
			if setEq(union, all) {
				c.Pass(key, sw.Pos(), "accepts %s", setString(union))
			} else {
				c.Fail(key, sw.Pos(), "accepts %s, expected image ∪ index = %s", setString(union), setString(all))
			}
			// arms that parse into types.Manifest / types.Index
			for _, a := range arms {
				kind := ""
				ast.Inspect(a.body, func(x ast.Node) bool {
					if cl, ok := x.(*ast.CompositeLit); ok {
						if tv, ok := pk.TypesInfo.Types[cl]; ok {
							if isNamedType(tv.Type, c.P.Module+"/types", "Manifest") {
								kind = "image"
							} else if isNamedType(tv.Type, c.P.Module+"/types", "Index") && kind == "" {
								kind = "index"
							}
						}
					}
					return true
				})
				if kind == "" || len(a.set) == 0 {
					continue
				}
				want := img
				if kind == "index" {
					want = idx
				}
				c.Check(setEq(a.set, want), key+":arm:"+kind, a.body.Pos(), "arm parsed as %s lists %s, predicate says %s", kind, setString(a.set), setString(want))
			}
			return true
		})
	}
}

func isRefType(t types.Type) string {
	switch t.Underlying().(type) {
	case *types.Slice:
		return "slice"
	case *types.Map:
		return "map"
	case *types.Pointer:
		return "pointer"
	}
	return ""
}

func hasCopyMethod(t types.Type) bool {
	ms := types.NewMethodSet(t)
	for i := 0; i < ms.Len(); i++ {
		if ms.At(i).Obj().Name() == "Copy" {
			return true
		}
	}
	return false
}

func runDeepCopy(c *core.Ctx) {
	pk := pkgOf(c, "types")
	if pk == nil {
		c.Unresolved("pkg:types", "package types not found")
		return
	}
	for _, fd := range funcDecls(pk) {
		if fd.Name.Name != "Copy" || fd.Recv == nil {
			continue
		}
		tn := recvTypeName(fd)
		named := lookupNamed(pk.Types, tn)
		if named == nil {
			continue
		}
		st, ok := named.Underlying().(*types.Struct)
		if !ok {
			continue
		}
		recvName := ""
		if len(fd.Recv.List[0].Names) > 0 {
			recvName = fd.Recv.List[0].Names[0].Name
		}
		// the copy variable: the identifier returned by the method
		copyVar := ""
		ast.Inspect(fd.Body, func(n ast.Node) bool {
			if r, ok := n.(*ast.ReturnStmt); ok && len(r.Results) == 1 {
				if id, ok := r.Results[0].(*ast.Ident); ok {
					copyVar = id.Name
				}
			}
			return true
		})
		if copyVar == "" || recvName == "" {
			c.Undecided("copy:"+tn, fd.Pos(), "Copy method does not have the form `c := recv; …; return c`")
			continue
		}
		for i := 0; i < st.NumFields(); i++ {
			f := st.Field(i)
			kind := isRefType(f.Type())
			if kind == "" {
				continue
			}
			assigned, aliased, elemCopied := false, false, false
			condGuard := ""
			rangeVars := map[string]string{}
			ast.Inspect(fd.Body, func(n ast.Node) bool {
				switch x := n.(type) {
				case *ast.AssignStmt:
					for li, l := range x.Lhs {
						if selPath(l) == copyVar+"."+f.Name() {
							if _, isStar := l.(*ast.StarExpr); isStar {
								continue
							}
							assigned = true
							// the re-allocation may be skipped only when the original's field is nil (nothing to share): a test
							// of its length also skips an empty list that still owns a backing array, or an empty map
							for _, g := range enclosingConds(fd.Body, x) {
								if !isNilGuardOf(g.cond, recvName+"."+f.Name(), g.inElse) {
									condGuard = exprString(g.cond)
								}
							}
							if li < len(x.Rhs) && selPath(x.Rhs[li]) == recvName+"."+f.Name() {
								aliased = true
							}
							// copied by a helper of the package applied to the field (copyDescriptors(recv.F), recv.F.copyPtr()) whose
							// body calls Copy on what it is given
							if li < len(x.Rhs) {
								if call, ok := x.Rhs[li].(*ast.CallExpr); ok {
									mentions := false
									ast.Inspect(call, func(m ast.Node) bool {
										if e, ok := m.(ast.Expr); ok && selPath(e) == recvName+"."+f.Name() {
											mentions = true
										}
										return true
									})
									if hd := pkgFuncDecl(pk, call); hd != nil && hd.Body != nil && mentions {
										ast.Inspect(hd.Body, func(m ast.Node) bool {
											if hc, ok := m.(*ast.CallExpr); ok {
												if hs, ok := hc.Fun.(*ast.SelectorExpr); ok && hs.Sel.Name == "Copy" {
													elemCopied = true
												}
											}
											return true
										})
									}
								}
							}
						}
					}
				case *ast.CallExpr:
					if se, ok := x.Fun.(*ast.SelectorExpr); ok && se.Sel.Name == "Copy" {
						// recv.F[i].Copy() or recv.F.Copy()
						base := se.X
						if ie, ok := base.(*ast.IndexExpr); ok {
							base = ie.X
						}
						if selPath(base) == recvName+"."+f.Name() {
							elemCopied = true
						}
						// d.Copy() where d is the value variable of `for _, d := range recv.F`
						if id, isID := se.X.(*ast.Ident); isID && rangeVars[id.Name] == recvName+"."+f.Name() {
							elemCopied = true
						}
					}
				case *ast.RangeStmt:
					if v, isID := x.Value.(*ast.Ident); isID {
						if sp := selPath(x.X); sp != "" {
							rangeVars[v.Name] = sp
						}
					}
				}
				return true
			})
			key := fmt.Sprintf("copy:%s.%s", tn, f.Name())
			switch {
			case !assigned || aliased:
				c.Fail(key, fd.Pos(), "%s field %s of type %s is not re-allocated by %s.Copy: the copy shares it with the original", kind, f.Name(), c.P.TypeName(f.Type()), tn)
			case condGuard != "":
				c.Fail(key, fd.Pos(), "%s field %s of type %s is re-allocated by %s.Copy only under `%s`, which is not a nil test of the original's field: on the other edge the copy keeps the original's %s (an emptied list still owns its backing array, an empty map is still a map) and a later insertion into one shows up in the other", kind, f.Name(), c.P.TypeName(f.Type()), tn, condGuard, kind)
			default:
				needElem := false
				switch u := f.Type().Underlying().(type) {
				case *types.Slice:
					needElem = hasCopyMethod(u.Elem())
				case *types.Pointer:
					needElem = hasCopyMethod(u.Elem())
				}
				if needElem && !elemCopied {
					c.Fail(key, fd.Pos(), "elements of %s.%s have a Copy method that %s.Copy does not call: nested reference fields stay shared", tn, f.Name(), tn)
				} else {
					c.Pass(key, fd.Pos(), "%s field re-allocated", kind)
				}
			}
		}
	}
}

type condGuardT struct {
	cond   ast.Expr
	inElse bool
}

// enclosingConds: the conditions of the if statements of body that enclose target (with the branch it sits in).
func enclosingConds(body *ast.BlockStmt, target ast.Node) []condGuardT {
	var out []condGuardT
	var stack []ast.Node
	found := false
	ast.Inspect(body, func(n ast.Node) bool {
		if found {
			return false
		}
		if n == nil {
			stack = stack[:len(stack)-1]
			return true
		}
		stack = append(stack, n)
		if n == target {
			found = true
			for i := 0; i+1 < len(stack); i++ {
				is, ok := stack[i].(*ast.IfStmt)
				if !ok {
					continue
				}
				switch stack[i+1] {
				case ast.Node(is.Body):
					out = append(out, condGuardT{is.Cond, false})
				case is.Else:
					out = append(out, condGuardT{is.Cond, true})
				}
			}
			return false
		}
		return true
	})
	return out
}

// isNilGuardOf: in the given branch of `if cond`, the only thing known is that path (a selector chain) is not nil.
func isNilGuardOf(cond ast.Expr, path string, inElse bool) bool {
	for {
		p, ok := cond.(*ast.ParenExpr)
		if !ok {
			break
		}
		cond = p.X
	}
	be, ok := cond.(*ast.BinaryExpr)
	if !ok {
		return false
	}
	isNil := func(e ast.Expr) bool { id, ok := e.(*ast.Ident); return ok && id.Name == "nil" }
	var other ast.Expr
	switch {
	case isNil(be.Y):
		other = be.X
	case isNil(be.X):
		other = be.Y
	default:
		return false
	}
	if selPath(other) != path {
		return false
	}
	return (be.Op == token.NEQ && !inElse) || (be.Op == token.EQL && inElse)
}

// runReserved: names created under a repository directory vs. the repository grammar.
func runReserved(c *core.Ctx) {
	r := requireRoles(c)
	if r == nil {
		return
	}
	root := pkgOf(c, "")
	sp := pkgOf(c, "internal/store")
	// grammar: the regexp compiled into the package variable that the matcher applies to repository names
	init := pkgVarInit(root, "rePath")
	var reSrc string
	if call, ok := init.(*ast.CallExpr); ok && len(call.Args) == 1 {
		if s, ok := evalStringExpr(root, call.Args[0], 0); ok {
			reSrc = s
		}
	}
	if reSrc == "" {
		c.Unresolved("rePath", "repository grammar regexp could not be evaluated from the source")
		return
	}
	re, err := regexp.Compile(reSrc)
	if err != nil {
		c.Unresolved("rePath", "grammar does not compile: %v", err)
		return
	}
	// names used as the component right below the repository path: filepath.Join(<x>.path, NAME, ...)
	created := map[string]token.Pos{}
	reserved := map[string]bool{}
	for _, fd := range funcDecls(sp) {
		ast.Inspect(fd.Body, func(n ast.Node) bool {
			call, ok := n.(*ast.CallExpr)
			if !ok {
				return true
			}
			if se, ok := call.Fun.(*ast.SelectorExpr); ok && se.Sel.Name == "Join" && selPath(se.X) == "filepath" && len(call.Args) >= 2 {
				if strings.HasSuffix(selPath(call.Args[0]), ".path") {
					if s, ok := constString(sp, call.Args[1]); ok {
						if _, seen := created[s]; !seen {
							created[s] = call.Pos()
						}
					}
				}
			}
			return true
		})
	}
	// reserved names: constant arguments of the boolean call guarding the ErrRepoNotAllowed refusal in a RepoGet
	// (in RepoGet itself or in a step of the store package it hands the lookup-or-create to, two levels)
	declOf := map[*types.Func]*ast.FuncDecl{}
	for _, fd := range funcDecls(sp) {
		if f, ok := sp.TypesInfo.Defs[fd.Name].(*types.Func); ok {
			declOf[f] = fd
		}
	}
	badSplit, badSplitName, goodSplit := token.NoPos, "", false
	var frames []*ast.FuncDecl
	inFrames := map[*ast.FuncDecl]bool{}
	var addFrame func(fd *ast.FuncDecl, depth int)
	addFrame = func(fd *ast.FuncDecl, depth int) {
		if fd == nil || fd.Body == nil || inFrames[fd] || depth > 2 {
			return
		}
		inFrames[fd] = true
		frames = append(frames, fd)
		ast.Inspect(fd.Body, func(n ast.Node) bool {
			if call, ok := n.(*ast.CallExpr); ok {
				if f, ok := typeutilCallee(sp, call).(*types.Func); ok {
					addFrame(declOf[f], depth+1)
				}
			}
			return true
		})
	}
	for _, fd := range funcDecls(sp) {
		if fd.Name.Name == "RepoGet" {
			addFrame(fd, 0)
		}
	}
	for _, fd := range frames {
		mentionsRefusal := func(stmts []ast.Stmt) bool {
			m := false
			for _, st := range stmts {
				ast.Inspect(st, func(x ast.Node) bool {
					if se, ok := x.(*ast.SelectorExpr); ok && se.Sel.Name == "ErrRepoNotAllowed" {
						m = true
					}
					return true
				})
			}
			return m
		}
		// constants of an expression; a call of a function of the store package contributes the constants that
		// function compares with (a ‘is reserved’ predicate holding the list itself)
		var collect func(e ast.Node, depth int)
		collect = func(e ast.Node, depth int) {
			ast.Inspect(e, func(x ast.Node) bool {
				if ex, ok := x.(ast.Expr); ok {
					if s, ok := constString(sp, ex); ok {
						reserved[s] = true
					}
				}
				// the name is cut into its components: SplitAfter keeps the separator on every component but the last,
				// SplitN leaves the tail uncut — either way only part of the components can equal a reserved name
				if call, ok := x.(*ast.CallExpr); ok {
					if f, ok := typeutilCallee(sp, call).(*types.Func); ok && f.Pkg() != nil && f.Pkg().Path() == "strings" {
						switch f.Name() {
						case "SplitAfter", "SplitAfterN", "SplitN", "Cut", "Fields":
							if badSplit == token.NoPos {
								badSplit, badSplitName = call.Pos(), "strings."+f.Name()
							}
						case "Split":
							// the separator is the one the name's components are joined with in the path
							if sepv, isC := constString(sp, call.Args[len(call.Args)-1]); len(call.Args) == 2 && isC && sepv == "/" {
								goodSplit = true
							} else if badSplit == token.NoPos {
								badSplit, badSplitName = call.Pos(), "strings.Split on a separator other than \"/\""
							}
						}
					} else if ok && f.Pkg() != nil && f.Pkg() != sp.Types {
						// any other library function that hands back a list of strings (filepath.SplitList cuts at the
						// path-list separator ‘:’, not at ‘/’: the whole name stays one component)
						if sig, isSig := f.Type().(*types.Signature); isSig && sig.Results().Len() == 1 {
							if sl, isSl := sig.Results().At(0).Type().Underlying().(*types.Slice); isSl {
								if bt, isB := sl.Elem().Underlying().(*types.Basic); isB && bt.Kind() == types.String && badSplit == token.NoPos {
									badSplit, badSplitName = call.Pos(), f.Pkg().Name()+"."+f.Name()
								}
							}
						}
					}
				}
				if call, ok := x.(*ast.CallExpr); ok && depth < 2 {
					if id, ok := call.Fun.(*ast.Ident); ok {
						if hd := findFunc(sp, "", id.Name); hd != nil && hd.Body != nil {
							ast.Inspect(hd.Body, func(y ast.Node) bool {
								switch z := y.(type) {
								case *ast.BinaryExpr:
									if z.Op == token.EQL || z.Op == token.NEQ {
										collect(z, depth+1)
									}
								case *ast.CaseClause:
									for _, le := range z.List {
										collect(le, depth+1)
									}
								case *ast.IndexExpr:
									collect(z.X, depth+1)
								}
								return true
							})
						}
					}
				}
				// a package-level set or list of the store that is never reassigned: its literal's keys / elements
				if id, ok := x.(*ast.Ident); ok {
					if v, ok := sp.TypesInfo.Uses[id].(*types.Var); ok && v.Parent() == sp.Types.Scope() && !pkgVarAssigned(sp, v) {
						if cl, ok := pkgVarInit(sp, v.Name()).(*ast.CompositeLit); ok {
							for _, el := range cl.Elts {
								k := el
								if kv, ok := el.(*ast.KeyValueExpr); ok {
									k = kv.Key
								}
								if s, ok := constString(sp, k); ok {
									reserved[s] = true
								}
							}
						}
					}
				}
				return true
			})
		}
		ast.Inspect(fd.Body, func(n ast.Node) bool {
			switch x := n.(type) {
			case *ast.IfStmt:
				if mentionsRefusal(x.Body.List) {
					collect(x.Cond, 0)
					if x.Init != nil {
						collect(x.Init, 0)
					}
				}
			case *ast.CaseClause:
				// switch el { case indexFile, layoutFile, blobsDir: refuse }
				if mentionsRefusal(x.Body) {
					for _, le := range x.List {
						collect(le, 0)
					}
				}
			}
			return true
		})
	}
	if badSplit != token.NoPos {
		c.Fail("components", badSplit, "the repository name is cut with %s before its components are compared with the reserved names: not every component is compared as it is used in the path (a reserved name in the middle of a nested repository name passes)", badSplitName)
	} else if goodSplit {
		c.Pass("components", token.NoPos, "the repository name is cut into its components with strings.Split before they are compared with the reserved names")
	}
	if len(created) == 0 {
		c.Unresolved("created-names", "no filepath.Join(<repo>.path, CONST, …) found in the store")
		return
	}
	var names []string
	for n := range created {
		names = append(names, n)
	}
	sort.Strings(names)
	for _, n := range names {
		switch {
		case reserved[n]:
			c.Pass("name:"+n, created[n], "refused as a repository path component by the directory store")
		case !re.MatchString(n) && !re.MatchString("x/"+n):
			c.Pass("name:"+n, created[n], "cannot be a component of a name matching %s", reSrc)
		default:
			c.Fail("name:"+n, created[n], "the store creates %q inside a repository directory, a repository may be named %q (grammar %s) and the name is not reserved: nested repository and store data collide", n, n, reSrc)
		}
	}
}

// ---- flags and defaults ----

type flagRow struct {
	path string
	def  string // frozen documented default, rendered with constant.Value.String() / ExactString
}

// flagTable is the documented flag -> configuration path table (help texts of `olareg serve`, README, config comments).
var flagTable = map[string]flagRow{
	"addr":                 {"HTTP.Addr", `""`},
	"port":                 {"HTTP.Addr", `5000`},
	"tls-cert":             {"HTTP.CertFile", `""`},
	"tls-key":              {"HTTP.KeyFile", `""`},
	"dir":                  {"Storage.RootDir", `"."`},
	"store-type":           {"Storage.StoreType", `"dir"`},
	"store-ro":             {"Storage.ReadOnly", `false`},
	"api-push":             {"API.PushEnabled", `true`},
	"api-delete":           {"API.DeleteEnabled", `false`},
	"api-blob-delete":      {"API.Blob.DeleteEnabled", `false`},
	"api-referrer":         {"API.Referrer.Enabled", `true`},
	"rate-limit":           {"API.RateLimit", `0`},
	"gc-frequency":         {"Storage.GC.Frequency", `900000000000`},
	"gc-grace-period":      {"Storage.GC.GracePeriod", `3600000000000`},
	"gc-untagged":          {"Storage.GC.Untagged", `false`},
	"gc-referrer-dangling": {"Storage.GC.ReferrersDangling", `false`},
	"gc-referrer-subject":  {"Storage.GC.ReferrersWithSubj", `true`},
	"warning":              {"API.Warnings", `[]`},
}

// setDefaultsTable parses config.SetDefaults: path -> default constant; it also reports assignments that are not guarded.
type defaultsInfo struct {
	def map[string]constant.Value
	// conditional: the assignment of the path is made under a condition on another setting (a switch on the store
	// type, an `if` that names a different path): the default applies to one mode only
	conditional map[string]bool
	unguarded   []string // findings
	topLevel    map[string]bool
	pos         map[string]token.Pos
	boolHelper  bool
}

func parseSetDefaults(c *core.Ctx) *defaultsInfo {
	return core.Memo(c, "setdefaults", func() *defaultsInfo {
		pk := pkgOf(c, "config")
		di := &defaultsInfo{def: map[string]constant.Value{}, topLevel: map[string]bool{}, pos: map[string]token.Pos{}, conditional: map[string]bool{}}
		if pk == nil {
			return nil
		}
		fd := findFunc(pk, "Config", "SetDefaults")
		if fd == nil {
			return nil
		}
		// local pointers to sub-structs (`api := &c.API`): name -> path it stands for
		alias := map[string]string{}
		resolve := func(e ast.Expr) string {
			if u, ok := e.(*ast.UnaryExpr); ok && u.Op == token.AND {
				e = u.X
			}
			if pe, ok := e.(*ast.ParenExpr); ok {
				e = pe.X
			}
			sp := selPath(e)
			if sp == "" {
				return ""
			}
			root := sp
			rest := ""
			if i := strings.Index(sp, "."); i >= 0 {
				root, rest = sp[:i], sp[i:]
			}
			for k := 0; k < 4; k++ {
				a, ok := alias[root]
				if !ok {
					break
				}
				sp = a + rest
				root, rest = sp, ""
				if i := strings.Index(sp, "."); i >= 0 {
					root, rest = sp[:i], sp[i:]
				}
			}
			return sp
		}
		// setter helpers: func f(field *T, def T) { if *field == <nil|zero> { *field = <&def|def> } }
		setterKind := func(name string) string {
			fdecl := findFunc(pk, "", name)
			if fdecl == nil || fdecl.Type.Params == nil || len(fdecl.Type.Params.List) < 1 || len(fdecl.Type.Params.List[0].Names) == 0 {
				return ""
			}
			first := fdecl.Type.Params.List[0].Names[0].Name
			var ifs *ast.IfStmt
			for _, st := range fdecl.Body.List {
				switch x := st.(type) {
				case *ast.IfStmt:
					ifs = x
				case *ast.DeclStmt:
				default:
					return ""
				}
			}
			if ifs == nil || ifs.Else != nil || len(ifs.Body.List) != 1 {
				return ""
			}
			be, ok := ifs.Cond.(*ast.BinaryExpr)
			if !ok || be.Op != token.EQL {
				return ""
			}
			star, ok := be.X.(*ast.StarExpr)
			if !ok || selPath(star.X) != first {
				return ""
			}
			as, ok := ifs.Body.List[0].(*ast.AssignStmt)
			if !ok || len(as.Lhs) != 1 {
				return ""
			}
			ls, ok := as.Lhs[0].(*ast.StarExpr)
			if !ok || selPath(ls.X) != first {
				return ""
			}
			if selPath(be.Y) == "nil" {
				return "nil"
			}
			return "zero"
		}
		// markConditional: the assignment of p is made under a condition that names another setting
		markConditional := func(p string, guards []ast.Expr) {
			for _, g := range guards {
				other := false
				ast.Inspect(g, func(n ast.Node) bool {
					if e, ok := n.(ast.Expr); ok {
						if gp := dropRoot(resolve(e)); gp != "" && gp != p && !strings.HasPrefix(p, gp+".") && !strings.HasPrefix(gp, p+".") {
							if _, isSel := e.(*ast.SelectorExpr); isSel {
								other = true
							}
						}
					}
					return true
				})
				if other {
					di.conditional[p] = true
				}
			}
		}
		depthLeft := 4
		var walk func(stmts []ast.Stmt, guards []ast.Expr, top bool)
		walk = func(stmts []ast.Stmt, guards []ast.Expr, top bool) {
			for _, st := range stmts {
				switch x := st.(type) {
				case *ast.ExprStmt:
					call, ok := x.X.(*ast.CallExpr)
					if !ok {
						continue
					}
					// the defaults of a sub-struct applied by a method of its type: c.API.setDefaults()
					if se, isSel := call.Fun.(*ast.SelectorExpr); isSel && len(call.Args) == 0 && depthLeft > 0 {
						if target := resolve(se.X); target != "" {
							if tv, ok := pk.TypesInfo.Types[se.X]; ok {
								t := tv.Type
								if pt, ok := t.(*types.Pointer); ok {
									t = pt.Elem()
								}
								if n, ok := t.(*types.Named); ok && n.Obj().Pkg() == pk.Types {
									if md := findFunc(pk, n.Obj().Name(), se.Sel.Name); md != nil && md.Body != nil && md.Recv != nil && len(md.Recv.List) == 1 && len(md.Recv.List[0].Names) == 1 {
										rn := md.Recv.List[0].Names[0].Name
										old, had := alias[rn]
										alias[rn] = target
										depthLeft--
										walk(md.Body.List, guards, top)
										depthLeft++
										if had {
											alias[rn] = old
										} else {
											delete(alias, rn)
										}
										continue
									}
								}
							}
						}
					}
					if len(call.Args) != 2 {
						continue
					}
					var fname string
					switch f := call.Fun.(type) {
					case *ast.Ident:
						fname = f.Name
					case *ast.IndexExpr:
						if id, ok := f.X.(*ast.Ident); ok {
							fname = id.Name
						}
					}
					kind := setterKind(fname)
					if kind == "" {
						continue
					}
					if _, isAddr := call.Args[0].(*ast.UnaryExpr); !isAddr {
						continue
					}
					p := dropRoot(resolve(call.Args[0]))
					if p == "" {
						continue
					}
					di.pos[p] = x.Pos()
					markConditional(p, guards)
					if v := constOf(pk, call.Args[1]); v != nil {
						di.def[p] = v
					}
					if top && kind == "nil" {
						di.topLevel[p] = true
					}
					if kind == "nil" {
						di.boolHelper = true
					}
				case *ast.AssignStmt:
					// a local pointer to a sub-struct
					if x.Tok == token.DEFINE && len(x.Lhs) == 1 && len(x.Rhs) == 1 {
						if id, ok := x.Lhs[0].(*ast.Ident); ok {
							if u, ok := x.Rhs[0].(*ast.UnaryExpr); ok && u.Op == token.AND {
								if rp := resolve(u.X); rp != "" {
									alias[id.Name] = rp
									continue
								}
							}
						}
					}
					for i, l := range x.Lhs {
						p := dropRoot(resolve(l))
						if p == "" || i >= len(x.Rhs) {
							continue
						}
						di.pos[p] = x.Pos()
						rhs := x.Rhs[i]
						if call, ok := rhs.(*ast.CallExpr); ok && len(call.Args) == 2 {
							// x = keepOrDefault(x, const): a helper of the package that returns its first argument unless that is
							// nil / the zero value, and its second argument (or a pointer to it) otherwise
							if hf, ok := typeutilCallee(pk, call).(*types.Func); ok && hf.Pkg() == pk.Types {
								if kind := keepOrDefault(c, hf); kind != "" {
									ap := dropRoot(resolve(call.Args[0]))
									if ap != p {
										di.unguarded = append(di.unguarded, fmt.Sprintf("%s = %s(%s, …): the default of another setting is applied", p, hf.Name(), ap))
									}
									if v := constOf(pk, call.Args[1]); v != nil {
										di.def[p] = v
									}
									if kind == "nil" {
										di.boolHelper = true
										if top {
											di.topLevel[p] = true
										}
									}
									continue
								}
							}
						}
						// must be guarded by a zero test of the same path
						guarded := false
						for _, g := range guards {
							if be, ok := g.(*ast.BinaryExpr); ok {
								if dropRoot(resolve(be.X)) == p {
									if v := constOf(pk, be.Y); v != nil && (v.String() == "0" || v.String() == `""`) {
										switch be.Op {
										case token.EQL, token.LEQ, token.LSS:
											guarded = true
										}
									}
								}
							}
						}
						if !guarded {
							di.unguarded = append(di.unguarded, fmt.Sprintf("%s is assigned without a zero-value test of %s: an explicitly set value is overwritten", p, p))
						}
						markConditional(p, guards)
						for _, g := range guards[:0] {
							other := false
							ast.Inspect(g, func(n ast.Node) bool {
								if e, ok := n.(ast.Expr); ok {
									if gp := dropRoot(resolve(e)); gp != "" && gp != p && !strings.HasPrefix(p, gp+".") && !strings.HasPrefix(gp, p+".") {
										if _, isSel := e.(*ast.SelectorExpr); isSel {
											other = true
										}
									}
								}
								return true
							})
							if other {
								di.conditional[p] = true
							}
						}
						if v := constOf(pk, rhs); v != nil {
							di.def[p] = v
						}
					}
				case *ast.IfStmt:
					// every conjunct of the condition holds in the body
					var conj func(e ast.Expr) []ast.Expr
					conj = func(e ast.Expr) []ast.Expr {
						if pe, ok := e.(*ast.ParenExpr); ok {
							return conj(pe.X)
						}
						if be, ok := e.(*ast.BinaryExpr); ok && be.Op == token.LAND {
							return append(conj(be.X), conj(be.Y)...)
						}
						return []ast.Expr{e}
					}
					walk(x.Body.List, append(append([]ast.Expr{}, guards...), conj(x.Cond)...), false)
					if x.Else != nil {
						if b, ok := x.Else.(*ast.BlockStmt); ok {
							walk(b.List, guards, false)
						}
					}
				case *ast.SwitchStmt:
					for _, cl := range x.Body.List {
						g2 := guards
						// a case of a switch on another setting is a condition on that setting (the default arm is not)
						if x.Tag != nil && len(cl.(*ast.CaseClause).List) > 0 {
							g2 = append(append([]ast.Expr{}, guards...), x.Tag)
						}
						walk(cl.(*ast.CaseClause).Body, g2, false)
					}
				case *ast.BlockStmt:
					walk(x.List, guards, top)
				}
			}
		}
		walk(fd.Body.List, nil, true)
		return di
	})
}

// keepOrDefault: f(cur, def) returns cur on every return reached with cur != nil (kind "nil") or cur != zero value (kind
// "zero"), and def (or a pointer to a copy of it) on every return reached with cur == nil / zero; "" otherwise.
func keepOrDefault(c *core.Ctx, f *types.Func) string {
	fn := c.P.SSA.FuncValue(f)
	if fn == nil || len(fn.Blocks) == 0 || len(fn.Params) != 2 || fn.Signature.Results().Len() != 1 {
		return ""
	}
	cur, def := fn.Params[0], fn.Params[1]
	isCur := func(v ssa.Value) bool { return an.Origin(v) == ssa.Value(cur) || an.Strip(v) == ssa.Value(cur) }
	isZero := func(v ssa.Value) bool {
		v = an.Strip(v)
		if k, ok := v.(*ssa.Const); ok {
			if k.Value == nil {
				return true
			}
			switch k.Value.Kind() {
			case constant.Int, constant.Float:
				return constant.Sign(k.Value) == 0
			case constant.String:
				return constant.StringVal(k.Value) == ""
			case constant.Bool:
				return !constant.BoolVal(k.Value)
			}
			return false
		}
		// `var zero T`: a local that is never assigned
		if ld, ok := v.(*ssa.UnOp); ok && ld.Op == token.MUL {
			if al, ok := ld.X.(*ssa.Alloc); ok {
				if st, unk := an.CellStores(al); !unk && len(st) == 0 {
					return true
				}
			}
		}
		return false
	}
	isDef := func(v ssa.Value) bool {
		if an.Origin(v) == ssa.Value(def) || an.Strip(v) == ssa.Value(def) {
			return true
		}
		// &def: the parameter spilled into a cell whose address is returned
		if al, ok := an.Strip(v).(*ssa.Alloc); ok && al.Referrers() != nil {
			stores, fromDef := 0, false
			for _, ref := range *al.Referrers() {
				if st, ok := ref.(*ssa.Store); ok && st.Addr == ssa.Value(al) {
					stores++
					fromDef = st.Val == ssa.Value(def)
				}
			}
			return stores == 1 && fromDef
		}
		return false
	}
	kind := ""
	ok := true
	n := 0
	for _, b := range fn.Blocks {
		if len(b.Instrs) == 0 {
			continue
		}
		ret, isRet := b.Instrs[len(b.Instrs)-1].(*ssa.Return)
		if !isRet || len(ret.Results) != 1 {
			continue
		}
		n++
		// what the guards say about cur on the way to this return: 1 = zero/nil, 2 = set
		state := 0
		for _, g := range an.GuardingEdges(b) {
			if g.Synthetic() {
				continue
			}
			if x, nilSucc, isNil := an.NilTest(g.If()); isNil && isCur(x) {
				kind = "nil"
				if g.Succ == nilSucc {
					state = 1
				} else {
					state = 2
				}
				continue
			}
			if x, y, op, isCmp := an.CmpTest(g.If()); isCmp && (op == token.EQL || op == token.NEQ) {
				other := y
				if !isCur(x) {
					if !isCur(y) {
						continue
					}
					other = x
				}
				if !isZero(other) {
					continue
				}
				if kind == "" {
					kind = "zero"
				}
				eq := (op == token.EQL) == (g.Succ == 0)
				if eq {
					state = 1
				} else {
					state = 2
				}
			}
		}
		switch {
		case state == 2 && isCur(ret.Results[0]):
		case state == 1 && isDef(ret.Results[0]):
		default:
			ok = false
		}
	}
	if !ok || n < 2 || kind == "" {
		return ""
	}
	return kind
}

func init() {
	register(&Rule{ID: "TB-DEFAULTS", Floor: 8,
		Doc: "every assignment in config.SetDefaults (and in the sub-struct methods it delegates to) is either x = helper(x, const) — where the helper is shown on go/ssa to return its first argument whenever that is not nil / not the zero value and its second argument (or a pointer to it) otherwise — or guarded by a zero-value test of the same path: defaulting never overwrites a set value; a setting whose unset value selects a mode elsewhere gets its default only under a condition on the store type",
		Run: func(c *core.Ctx) {
			di := parseSetDefaults(c)
			if di == nil {
				c.Unresolved("config.SetDefaults", "SetDefaults not found")
				return
			}
			c.SetTags("guard")
			c.Check(di.boolHelper, "boolDefault", token.NoPos, "the pointer-typed settings are defaulted through a helper that returns its first argument whenever that is not nil: %v", di.boolHelper)
			bad := map[string]string{}
			for _, u := range di.unguarded {
				p, _, _ := strings.Cut(u, " ")
				bad[p] = u
			}
			var paths []string
			for p := range di.pos {
				paths = append(paths, p)
			}
			sort.Strings(paths)
			for _, p := range paths {
				if msg, isBad := bad[p]; isBad {
					c.Fail("default:"+p, di.pos[p], "%s", msg)
				} else {
					v := di.def[p]
					if v == nil {
						// the value a setting falls back to is a fixed one: a default computed from another setting couples the two
						// (switching one on silently switches the other)
						c.Fail("default:"+p, di.pos[p], "the default of %s is not a constant: the setting's unset value depends on something else (another setting), so that setting changes behaviour that belongs to this one", p)
						continue
					}
					c.Pass("default:"+p, di.pos[p], "guarded, default %s", v.String())
				}
			}
			// mode switches: a setting whose *unset* value selects behaviour somewhere in the module (a branch on
			// `setting == ""` / `!= ""` / `== 0` / `!= 0` outside the configuration package — the memory store is backed by a
			// directory exactly when a root directory is set) must not be given a default for every mode: its default is
			// applied only under a condition on another setting (the store type)
			c.SetTags("mode")
			defer c.SetTags()
			type sw struct {
				pos token.Pos
				fn  string
			}
			switches := map[string]sw{}
			for _, fn := range c.P.ModFuncs {
				if strings.HasSuffix(core.FuncPkgPath(fn), "/config") {
					continue
				}
				for _, b := range fn.Blocks {
					ifi := an.BlockIf(b)
					if ifi == nil {
						continue
					}
					x, y, op, ok := an.CmpTest(ifi)
					if !ok || (op != token.EQL && op != token.NEQ) {
						continue
					}
					for _, pair := range [][2]ssa.Value{{x, y}, {y, x}} {
						k, isC := an.Strip(pair[1]).(*ssa.Const)
						if !isC || k.Value == nil {
							continue
						}
						zero := false
						switch k.Value.Kind() {
						case constant.String:
							zero = constant.StringVal(k.Value) == ""
						case constant.Int:
							zero = constant.Sign(k.Value) == 0
						}
						if !zero {
							continue
						}
						fp := fieldPath(an.Strip(pair[0]))
						idx := -1
						for i, seg := range fp {
							if seg == "conf" {
								idx = i
							}
						}
						if idx < 0 || idx+1 >= len(fp) {
							continue
						}
						pth := strings.Join(fp[idx+1:], ".")
						if _, seen := switches[pth]; !seen {
							switches[pth] = sw{ifi.Pos(), c.P.FuncName(fn)}
						}
					}
				}
			}
			var sps []string
			for p := range switches {
				sps = append(sps, p)
			}
			sort.Strings(sps)
			for _, p := range sps {
				if _, has := di.pos[p]; !has {
					c.Pass("mode-switch:"+p, switches[p].pos, "%s branches on ‘%s is unset’; SetDefaults leaves the setting alone", switches[p].fn, p)
					continue
				}
				c.Check(di.conditional[p], "mode-switch:"+p, di.pos[p], "%s branches on ‘%s is unset’ (at %s), and SetDefaults applies the default of %s only under a condition on another setting: %v — a default for every mode makes ‘unset’ unreachable: the memory store would be backed by the working directory", switches[p].fn, p, c.P.Pos(switches[p].pos), p, di.conditional[p])
			}
		}})

	register(&Rule{ID: "TB-NILCONF", Floor: 5,
		Doc: "every pointer-typed configuration field that the module dereferences is assigned by a top-level boolDefault statement of SetDefaults, and the server constructor calls SetDefaults on its configuration before anything else: no dereference of a setting can be nil",
		Run: func(c *core.Ctx) {
			di := parseSetDefaults(c)
			if di == nil {
				c.Unresolved("config.SetDefaults", "SetDefaults not found")
				return
			}
			cfg := pkgOf(c, "config")
			// pointer fields of the config structs
			ptrFields := map[*types.Var]string{}
			var walk func(t types.Type, path string, depth int)
			walk = func(t types.Type, path string, depth int) {
				st, ok := t.Underlying().(*types.Struct)
				if !ok || depth > 6 {
					return
				}
				for i := 0; i < st.NumFields(); i++ {
					f := st.Field(i)
					p := f.Name()
					if path != "" {
						p = path + "." + f.Name()
					}
					if _, isPtr := f.Type().Underlying().(*types.Pointer); isPtr && f.Pkg() == cfg.Types {
						if n := an_NamedPkg(f.Type()); n == "" { // pointer to a basic type (the *bool switches)
							ptrFields[f] = p
						}
					}
					if n, ok := f.Type().(*types.Named); ok && n.Obj().Pkg() == cfg.Types {
						walk(n, p, depth+1)
					}
				}
			}
			if cn := lookupNamed(cfg.Types, "Config"); cn != nil {
				walk(cn, "", 0)
			}
			// dereferences anywhere in the module
			derefd := map[string]token.Pos{}
			for _, pk := range c.P.All {
				for _, f := range pk.Syntax {
					ast.Inspect(f, func(n ast.Node) bool {
						se, ok := n.(*ast.StarExpr)
						if !ok {
							return true
						}
						sel, ok := se.X.(*ast.SelectorExpr)
						if !ok {
							return true
						}
						if v, ok := pk.TypesInfo.Uses[sel.Sel].(*types.Var); ok {
							if p, ok := ptrFields[v]; ok {
								if _, seen := derefd[p]; !seen {
									derefd[p] = se.Pos()
								}
							}
						}
						return true
					})
				}
			}
			var paths []string
			for p := range derefd {
				paths = append(paths, p)
			}
			sort.Strings(paths)
			for _, p := range paths {
				c.Check(di.topLevel[p], "deref:"+p, derefd[p], "setting %s is dereferenced; SetDefaults assigns it unconditionally: %v", p, di.topLevel[p])
			}
			// the constructor calls SetDefaults first
			root := pkgOf(c, "")
			nf := findFunc(root, "", "New")
			okFirst := false
			if nf != nil && len(nf.Body.List) > 0 && nf.Type.Params != nil && len(nf.Type.Params.List) > 0 && len(nf.Type.Params.List[0].Names) > 0 {
				param := nf.Type.Params.List[0].Names[0].Name
				if es, ok := nf.Body.List[0].(*ast.ExprStmt); ok {
					if call, ok := es.X.(*ast.CallExpr); ok {
						if se, ok := call.Fun.(*ast.SelectorExpr); ok && se.Sel.Name == "SetDefaults" && selPath(se.X) == param {
							okFirst = true
						}
					}
				}
			}
			c.Check(okFirst, "New:SetDefaults-first", posOf(nf), "the server constructor applies SetDefaults to its configuration parameter before any other statement")
		}})

	register(&Rule{ID: "TB-FLAGS", Floor: 15,
		Doc: "each serve flag is bound to an option field that flows into exactly the configuration path the documentation gives for the flag (literal shapes on the typed AST, plus a value-flow pass over the command package on go/ssa: stores into fields, whole-struct loads, returns, arguments and writes through pointer parameters), no two flags share a path (addr/port excepted), and the flag's default equals both the documented default and the default SetDefaults applies to that path",
		Run: runFlags})
}

func an_NamedPkg(t types.Type) string {
	if p, ok := t.Underlying().(*types.Pointer); ok {
		t = p.Elem()
	}
	if n, ok := t.(*types.Named); ok && n.Obj().Pkg() != nil {
		return n.Obj().Pkg().Path()
	}
	return ""
}

func runFlags(c *core.Ctx) {
	pk := pkgOf(c, "cmd/olareg")
	if pk == nil {
		c.Unresolved("pkg:cmd/olareg", "command package not found")
		return
	}
	di := parseSetDefaults(c)
	type flagInfo struct {
		field string
		def   string
		pos   token.Pos
	}
	flags := map[string]flagInfo{}
	optRoots := map[*types.Named]bool{}
	fieldToPaths := map[string][]string{}
	// leaf: the value assigned to the configuration path p mentions these option fields
	// recvAlias: inside a method of an options sub-struct that builds a part of the configuration, the receiver
	// stands for the option path the method was called on (api ↦ opts.api)
	recvAlias := map[string]string{}
	leaf := func(fd *ast.FuncDecl, p string, value ast.Node) {
		// leaf: every opts.<F> mentioned in the value; local variables are followed one step
		var collect func(e ast.Node, depth int)
		collect = func(e ast.Node, depth int) {
			ast.Inspect(e, func(y ast.Node) bool {
				switch z := y.(type) {
				case *ast.SelectorExpr:
					sp := selPath(z)
					if i := strings.Index(sp, "."); i > 0 {
						if full, ok := recvAlias[sp[:i]]; ok {
							sp = full + sp[i:]
						}
					}
					if strings.HasPrefix(sp, "opts.") {
						fieldToPaths[dropRoot(sp)] = append(fieldToPaths[dropRoot(sp)], p)
						return false
					}
				case *ast.Ident:
					if v, ok := pk.TypesInfo.Uses[z].(*types.Var); ok && v.Parent() != pk.Types.Scope() && !v.IsField() && depth < 2 && z.Name != "opts" {
						// statements of the enclosing function that mention this local together with an option field
						ast.Inspect(fd.Body, func(w ast.Node) bool {
							switch s := w.(type) {
							case *ast.AssignStmt:
								for _, l := range s.Lhs {
									if id, ok := l.(*ast.Ident); ok && pk.TypesInfo.ObjectOf(id) == v {
										for _, rh := range s.Rhs {
											collect(rh, depth+1)
										}
									}
								}
							case *ast.CallExpr:
								if se, ok := s.Fun.(*ast.SelectorExpr); ok {
									if id, ok := se.X.(*ast.Ident); ok && pk.TypesInfo.ObjectOf(id) == v {
										for _, a := range s.Args {
											collect(a, depth+1)
										}
									}
								}
							}
							return true
						})
					}
				}
				return true
			})
		}
		collect(value, 0)
	}
	for _, fd := range funcDecls(pk) {
		fd := fd
		ast.Inspect(fd.Body, func(n ast.Node) bool {
			switch x := n.(type) {
			case *ast.AssignStmt:
				// field-by-field construction: conf.Storage.GC.Untagged = &opts.gcUntagged, on a local of type
				// config.Config
				for i, l := range x.Lhs {
					se, ok := l.(*ast.SelectorExpr)
					if !ok || i >= len(x.Rhs) {
						continue
					}
					var rootID *ast.Ident
					for e := ast.Expr(se); ; {
						if s2, ok := e.(*ast.SelectorExpr); ok {
							e = s2.X
							continue
						}
						rootID, _ = e.(*ast.Ident)
						break
					}
					if rootID == nil {
						continue
					}
					v, ok := pk.TypesInfo.ObjectOf(rootID).(*types.Var)
					if !ok || v.IsField() {
						continue
					}
					t := v.Type()
					if pt, ok := t.(*types.Pointer); ok {
						t = pt.Elem()
					}
					if !isNamedType(t, c.P.Module+"/config", "Config") {
						continue
					}
					leaf(fd, dropRoot(selPath(se)), x.Rhs[i])
				}
			case *ast.CallExpr:
				se, ok := x.Fun.(*ast.SelectorExpr)
				if !ok || !strings.HasSuffix(se.Sel.Name, "Var") || len(x.Args) < 4 {
					return true
				}
				// receiver must be a *pflag.FlagSet
				if tv, ok := pk.TypesInfo.Types[se.X]; !ok || !isNamedType(tv.Type, "github.com/spf13/pflag", "FlagSet") {
					return true
				}
				name, ok := constString(pk, x.Args[1])
				if !ok {
					return true
				}
				field := ""
				if ue, ok := x.Args[0].(*ast.UnaryExpr); ok && ue.Op == token.AND {
					field = dropRoot(selPath(ue.X))
					// the options struct the flag is bound into
					e := ue.X
					for {
						if s2, ok := e.(*ast.SelectorExpr); ok {
							e = s2.X
							continue
						}
						break
					}
					if tv, ok := pk.TypesInfo.Types[e]; ok {
						if n := an.NamedOf(an.Deref(tv.Type)); n != nil {
							optRoots[n] = true
						}
					}
				}
				def := "?"
				if v := constOf(pk, x.Args[2]); v != nil {
					def = v.ExactString()
				} else if cl, ok := x.Args[2].(*ast.CompositeLit); ok && len(cl.Elts) == 0 {
					def = "[]"
				}
				flags[name] = flagInfo{field, def, x.Pos()}
			case *ast.CompositeLit:
				tv, ok := pk.TypesInfo.Types[x]
				if !ok || !isNamedType(tv.Type, c.P.Module+"/config", "Config") {
					return true
				}
				var walk func(cl *ast.CompositeLit, path string)
				walk = func(cl *ast.CompositeLit, path string) {
					for _, el := range cl.Elts {
						kv, ok := el.(*ast.KeyValueExpr)
						if !ok {
							continue
						}
						k, _ := kv.Key.(*ast.Ident)
						if k == nil {
							continue
						}
						p := k.Name
						if path != "" {
							p = path + "." + k.Name
						}
						if sub, ok := kv.Value.(*ast.CompositeLit); ok {
							walk(sub, p)
							continue
						}
						// a part of the configuration built by a method of an options sub-struct: API: opts.api.config()
						if call, ok := kv.Value.(*ast.CallExpr); ok && len(call.Args) == 0 {
							if se, ok := call.Fun.(*ast.SelectorExpr); ok {
								if tv, ok := pk.TypesInfo.Types[se.X]; ok {
									t := tv.Type
									if pt, ok := t.(*types.Pointer); ok {
										t = pt.Elem()
									}
									if n, ok := t.(*types.Named); ok && n.Obj().Pkg() == pk.Types {
										if md := findFunc(pk, n.Obj().Name(), se.Sel.Name); md != nil && md.Body != nil && md.Recv != nil && len(md.Recv.List) == 1 && len(md.Recv.List[0].Names) == 1 && len(md.Body.List) == 1 {
											if rs, ok := md.Body.List[0].(*ast.ReturnStmt); ok && len(rs.Results) == 1 {
												if lit, ok := rs.Results[0].(*ast.CompositeLit); ok {
													rn := md.Recv.List[0].Names[0].Name
													recvAlias[rn] = selPath(se.X)
													walk(lit, p)
													delete(recvAlias, rn)
													continue
												}
											}
										}
									}
								}
							}
						}
						// a local variable that was initialised with a composite literal (the sub-struct built beforehand)
						if id, ok := kv.Value.(*ast.Ident); ok {
							if v, ok := pk.TypesInfo.Uses[id].(*types.Var); ok && !v.IsField() && v.Parent() != pk.Types.Scope() {
								var lit *ast.CompositeLit
								nAssign := 0
								ast.Inspect(fd.Body, func(w ast.Node) bool {
									if as, ok := w.(*ast.AssignStmt); ok {
										for i, l := range as.Lhs {
											if lid, ok := l.(*ast.Ident); ok && pk.TypesInfo.ObjectOf(lid) == v && i < len(as.Rhs) {
												nAssign++
												if cl, ok := as.Rhs[i].(*ast.CompositeLit); ok {
													lit = cl
												}
											}
										}
									}
									return true
								})
								if lit != nil && nAssign == 1 {
									walk(lit, p)
									continue
								}
							}
						}
						leaf(fd, p, kv.Value)
					}
				}
				walk(x, "")
			}
			return true
		})
	}
	if len(flags) == 0 {
		c.Unresolved("flags", "no pflag *Var registrations found")
		return
	}
	// the value flow of the command package adds what the literal shapes above do not show (parts of the configuration
	// built field by field in helpers and handed back by value)
	for f, ps := range optionFlow(c, "cmd/olareg", optRoots) {
		fieldToPaths[f] = append(fieldToPaths[f], ps...)
	}
	pathOwner := map[string][]string{}
	var names []string
	for n := range flags {
		names = append(names, n)
	}
	sort.Strings(names)
	for _, n := range names {
		fi := flags[n]
		row, documented := flagTable[n]
		paths := dedupe(fieldToPaths[fi.field])
		sort.Strings(paths)
		// a part of the configuration built in a step and assigned whole (`conf.Storage = opts.configStorage(storeType)`)
		// makes the option reach the enclosing record as well as the field inside it: the field is the setting
		{
			var inner []string
			for _, p := range paths {
				enclosing := false
				for _, q := range paths {
					if q != p && strings.HasPrefix(q, p+".") {
						enclosing = true
					}
				}
				if !enclosing {
					inner = append(inner, p)
				}
			}
			paths = inner
		}
		key := "flag:" + n
		if !documented {
			// a flag the frozen table does not know: wiring is checked for uniqueness only
			if len(paths) == 1 {
				c.Pass(key, fi.pos, "undocumented in the checker's table; option %s -> %s", fi.field, paths[0])
			} else {
				c.Fail(key, fi.pos, "flag --%s: option field %s flows to %v (expected exactly one configuration path)", n, fi.field, paths)
			}
			for _, p := range paths {
				pathOwner[p] = append(pathOwner[p], n)
			}
			continue
		}
		switch {
		case len(paths) != 1 || paths[0] != row.path:
			c.Fail(key, fi.pos, "flag --%s is bound to option %s, which flows to %v; the documented setting is %s", n, fi.field, paths, row.path)
		case fi.def != row.def:
			c.Fail(key, fi.pos, "flag --%s has default %s, documented default is %s", n, fi.def, row.def)
		default:
			msg := fmt.Sprintf("option %s -> %s, default %s", fi.field, row.path, fi.def)
			ok := true
			if di != nil {
				if dv, has := di.def[row.path]; has && dv.ExactString() != fi.def {
					ok = false
					msg = fmt.Sprintf("flag --%s defaults to %s but SetDefaults applies %s to %s", n, fi.def, dv.ExactString(), row.path)
				}
			}
			c.Check(ok, key, fi.pos, "%s", msg)
		}
		for _, p := range paths {
			pathOwner[p] = append(pathOwner[p], n)
		}
	}
	for n := range flagTable {
		if _, ok := flags[n]; !ok {
			c.Fail("flag:"+n, token.NoPos, "documented flag --%s is not registered", n)
		}
	}
	for p, owners := range pathOwner {
		sort.Strings(owners)
		if len(owners) > 1 && !(p == "HTTP.Addr" && len(owners) == 2) {
			c.Fail("path:"+p, token.NoPos, "configuration path %s is driven by several flags: %v", p, owners)
		}
	}
}
