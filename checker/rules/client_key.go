package rules

import (
	"fmt"
	"go/token"
	"go/types"

	"golang.org/x/tools/go/ssa"

	"olacheck/an"
	"olacheck/core"
)

// PV-CLIENT-KEY: the rate limiter counts requests per client address, which it takes from the request's
// RemoteAddr — "host:port", where an IPv6 host is itself full of colons ("[2001:db8::1]:40000"). The port is
// what follows the LAST colon. Any split of RemoteAddr at its first colon (strings.Cut, Index, Split, …)
// keeps "[2001" for every IPv6 client of that prefix: distinct addresses share one counter, and one client
// exhausting its limit gets the others refused.
func init() {
	register(&Rule{ID: "PV-CLIENT-KEY", Floor: 1,
		Doc: "the client address the rate limiter keys its counters by is RemoteAddr without its port, and the port is cut at the last colon (strings.LastIndex, net.SplitHostPort, netip.ParseAddrPort): no value derived from a request's RemoteAddr is handed to a first-occurrence search or split on \":\" (strings.Cut, Index, IndexByte, Split, SplitN, …) — for an IPv6 client that keeps only the first group of the address, so all IPv6 clients of one prefix share a counter",
		Run: func(c *core.Ctx) {
			firstOcc := map[string]bool{"Cut": true, "Index": true, "IndexByte": true, "IndexRune": true, "IndexAny": true, "Split": true, "SplitN": true, "SplitAfter": true, "SplitAfterN": true, "Fields": false}
			isColon := func(v ssa.Value) bool {
				if s, ok := an.ConstString(v); ok && s == ":" {
					return true
				}
				if n, ok := an.ConstInt(v); ok && n == ':' {
					return true
				}
				return false
			}
			n := 0
			for _, fn := range c.P.ModFuncs {
				if len(fn.Blocks) == 0 {
					continue
				}
				k := 0
				an.Instrs(fn, func(in ssa.Instruction) {
					ld, ok := in.(*ssa.UnOp)
					if !ok || ld.Op != token.MUL {
						return
					}
					fa, ok := ld.X.(*ssa.FieldAddr)
					if !ok || !isNamed(an.Deref(fa.X.Type()), "net/http", "Request") {
						return
					}
					st, ok := an.Deref(fa.X.Type()).Underlying().(*types.Struct)
					if !ok || st.Field(fa.Field).Name() != "RemoteAddr" {
						return
					}
					n++
					k++
					key := fmt.Sprintf("remote-addr:%s#%d", kn(c.P.FuncName(fn)), k)
					tainted := map[ssa.Value]bool{ld: true}
					bad, badFn := token.NoPos, ""
					work := []ssa.Value{ld}
					for len(work) > 0 && len(tainted) < 200 {
						v := work[len(work)-1]
						work = work[:len(work)-1]
						refs := v.Referrers()
						if refs == nil {
							continue
						}
						for _, ref := range *refs {
							switch x := ref.(type) {
							case *ssa.Phi, *ssa.Slice, *ssa.ChangeType, *ssa.Convert:
								rv := x.(ssa.Value)
								if !tainted[rv] {
									tainted[rv] = true
									work = append(work, rv)
								}
							case *ssa.Store:
								// spilled to a local: its loads carry the value
								if al, isAl := x.Addr.(*ssa.Alloc); isAl && x.Val == v && al.Referrers() != nil {
									for _, r2 := range *al.Referrers() {
										if l2, isLd := r2.(*ssa.UnOp); isLd && l2.Op == token.MUL && !tainted[l2] {
											tainted[l2] = true
											work = append(work, l2)
										}
									}
								}
							case *ssa.Call:
								callee := x.Call.StaticCallee()
								if callee == nil || callee.Pkg == nil || callee.Pkg.Pkg.Path() != "strings" || len(x.Call.Args) < 2 {
									continue
								}
								if an.Strip(x.Call.Args[0]) != v && x.Call.Args[0] != v {
									continue
								}
								if firstOcc[callee.Name()] && isColon(x.Call.Args[1]) && bad == token.NoPos {
									bad, badFn = x.Pos(), "strings."+callee.Name()
								}
							}
						}
					}
					c.Check(bad == token.NoPos, key, ld.Pos(), "the RemoteAddr read at %s is never split at its first colon: %v%s", c.P.Pos(ld.Pos()), bad == token.NoPos, map[bool]string{true: "", false: fmt.Sprintf(" (%s(…, \":\") at %s) — \"[2001:db8::1]:40000\" becomes \"[2001\": every IPv6 client of that prefix is counted as one address, and one of them reaching the limit gets the others refused", badFn, c.P.Pos(bad))}[bad == token.NoPos])
				})
			}
			if n == 0 {
				c.Unresolved("remote-addr", "no read of a request's RemoteAddr found (the rate limiter's client key)")
			}
		}})
}
