package rules

import (
	"fmt"
	"go/token"
	"go/types"
	"regexp"
	"sort"
	"strings"

	"golang.org/x/tools/go/ssa"

	"olacheck/an"
	"olacheck/core"
)

func init() {
	register(&Rule{ID: "TS-SERVE", Floor: 2,
		Doc: "in every handler that serves stored content (http.ServeContent over a BlobGet reader) the Docker-Content-Digest header is the String() of the same digest value that was passed to BlobGet, the Content-Type is a constant or the media type of the same descriptor, and both headers are set on every path before the content is served",
		Run: runServe})
	register(&Rule{ID: "TS-FILTER-HDR", Floor: 1,
		Doc: "in the referrers read handler every path to a body write of cached or filtered data has passed the ‘filter is empty’ edge or has set the OCI-Filters-Applied header",
		Run: runFilterHdr})
	register(&Rule{ID: "TS-PAGE", Floor: 3,
		Doc: "the referrers splitter appends a page to its result only on the ‘len(page) ≤ limit’ edge of that same page; the handler serves the unsplit response only on the ‘len ≤ limit’ edge",
		Run: runPage})
	register(&Rule{ID: "TS-SORT", Floor: 1,
		Doc: "in the tag-list handler the tag slice is filled, then sorted on every path, then truncated, then marshalled — no append after the sort, no truncation before it",
		Run: runSort})
	register(&Rule{ID: "TB-ERRPAIR", Floor: 30,
		Doc: "every error document written by a handler follows a constant 4xx status written in the same block; the condition that leads there (failed callee / sentinel error / test, with the source of its argument) maps to one OCI code at all sibling sites, and to the code the frozen condition→code table gives for it",
		Run: runErrPair})
}

func sameSource(a, b ssa.Value) bool {
	if an.Origin(a) == an.Origin(b) {
		return true
	}
	ra, pa := accessPath(an.Strip(a))
	rb, pb := accessPath(an.Strip(b))
	if ra != rb || len(pa) == 0 || strings.Join(pa, ".") != strings.Join(pb, ".") {
		return false
	}
	// both read the same field of the same local variable: they see the same value only if the variable is
	// not assigned between the two reads
	al, isAlloc := ra.(*ssa.Alloc)
	if !isAlloc {
		return true
	}
	la, lb := loadInstr(an.Strip(a)), loadInstr(an.Strip(b))
	if la == nil || lb == nil {
		return false
	}
	for _, st := range storesInto(al) {
		if (an.Reaches(la, st) && an.Reaches(st, lb)) || (an.Reaches(lb, st) && an.Reaches(st, la)) {
			return false
		}
	}
	return true
}

func loadInstr(v ssa.Value) ssa.Instruction {
	for i := 0; i < 8; i++ {
		switch x := v.(type) {
		case *ssa.UnOp:
			return x
		case *ssa.Field:
			v = x.X
		default:
			return nil
		}
	}
	return nil
}

// storesInto returns the stores to a local variable or to any of its fields.
func storesInto(al *ssa.Alloc) []ssa.Instruction {
	var out []ssa.Instruction
	var walk func(v ssa.Value, d int)
	walk = func(v ssa.Value, d int) {
		if v.Referrers() == nil || d > 4 {
			return
		}
		for _, ref := range *v.Referrers() {
			switch x := ref.(type) {
			case *ssa.Store:
				if x.Addr == v {
					out = append(out, x)
				}
			case *ssa.FieldAddr:
				walk(x, d+1)
			case *ssa.IndexAddr:
				walk(x, d+1)
			}
		}
	}
	walk(al, 0)
	return out
}

// headerSets returns the calls w.Header().Add/Set(key, v) of fn with a constant key.
type hdrSet struct {
	call *ssa.Call
	key  string
	val  ssa.Value
}

func headerSets(fn *ssa.Function) []hdrSet {
	var out []hdrSet
	an.Calls(fn, func(call ssa.CallInstruction) {
		cc, ok := call.(*ssa.Call)
		if !ok || !(an.IsMethod(call, "net/http", "Header", "Add") || an.IsMethod(call, "net/http", "Header", "Set")) {
			return
		}
		_, args := an.CallArgs(call)
		if len(args) != 2 {
			return
		}
		if k, ok := an.ConstString(args[0]); ok {
			out = append(out, hdrSet{cc, k, args[1]})
		}
	})
	return out
}

func runServe(c *core.Ctx) {
	r := requireRoles(c)
	if r == nil {
		return
	}
	digestHdr := constValue(c, "types", "HeaderDockerDigest")
	// one response: the ServeContent call, seen from the function that opened the reader.  When the call sits in a
	// helper that receives reader, digest and media type as parameters, every caller of the helper is one response
	// and the helper's parameters stand for the caller's arguments (subst).
	check := func(key string, fn *ssa.Function, sc *ssa.Call, subst func(ssa.Value) ssa.Value, domSite ssa.Instruction) {
		bg, idx := an.CallOf(an.Origin(subst(sc.Call.Args[4])))
		if bg == nil || idx != 0 || !r.IsAPI(bg, "Repo", "BlobGet") {
			c.Fail(key, sc.Pos(), "the served content is not the reader returned by BlobGet")
			return
		}
		_, bargs := an.CallArgs(bg)
		dg := bargs[0]
		var problems []string
		foundDigest, foundCT := false, false
		for _, h := range headerSets(fn) {
			switch {
			case strings.EqualFold(h.key, digestHdr):
				foundDigest = true
				sc2, _ := an.CallOf(an.Strip(h.val))
				if sc2 == nil || !an.IsMethod(sc2, digestPkg, "Digest", "String") || !sameSource(subst(sc2.Call.Args[0]), dg) {
					problems = append(problems, fmt.Sprintf("the %s header at %s is not the String() of the digest passed to BlobGet at %s: the response would announce a digest its body does not hash to", digestHdr, c.P.Pos(h.call.Pos()), c.P.Pos(bg.Pos())))
				}
				if !h.call.Block().Dominates(sc.Block()) {
					problems = append(problems, "the digest header is not set on every path to ServeContent")
				}
			case strings.EqualFold(h.key, "Content-Type"):
				if !h.call.Block().Dominates(sc.Block()) {
					continue // headers of other (error) responses
				}
				foundCT = true
				val := subst(h.val)
				if _, isConst := an.ConstString(val); isConst {
					continue
				}
				rd, _ := accessPath(an.Strip(dg))
				rv, pv := accessPath(an.Strip(val))
				if rd != rv || !pathEq(pv, "MediaType") {
					problems = append(problems, fmt.Sprintf("the Content-Type at %s is not the media type of the descriptor whose digest is served", c.P.Pos(h.call.Pos())))
				}
			}
		}
		_ = domSite
		if !foundDigest {
			problems = append(problems, "no "+digestHdr+" header is set")
		}
		if !foundCT {
			problems = append(problems, "no Content-Type header is set on the path to ServeContent")
		}
		if len(problems) > 0 {
			c.Fail(key, sc.Pos(), "%s", strings.Join(problems, "; "))
		} else {
			c.Pass(key, sc.Pos(), "digest header, BlobGet argument and media type come from the same descriptor / digest")
		}
	}
	for _, fn := range serverFuncs(c) {
		an.Calls(fn, func(call ssa.CallInstruction) {
			sc, ok := call.(*ssa.Call)
			if !ok || !an.IsFunc(call, "net/http", "ServeContent") {
				return
			}
			if p, isParam := an.Origin(sc.Call.Args[4]).(*ssa.Parameter); isParam && p.Parent() == fn && fn.Parent() == nil {
				sites := c.P.Callers(fn)
				if len(sites) == 0 {
					c.Fail("serve:"+kn(c.P.FuncName(fn)), sc.Pos(), "the serving helper has no callers: the served content is not the reader returned by BlobGet")
					return
				}
				for i, site := range sites {
					site := site
					key := fmt.Sprintf("serve:%s|via %s", kn(c.P.FuncName(site.Parent())), kn(c.P.FuncName(fn)))
					if i > 0 && site.Parent() == sites[i-1].Parent() {
						key += fmt.Sprintf("#%d", i+1)
					}
					if site.Common().StaticCallee() != fn {
						c.Fail(key, site.Pos(), "the serving helper is called through a function value")
						continue
					}
					subst := func(v ssa.Value) ssa.Value {
						if q, ok := an.Origin(v).(*ssa.Parameter); ok && q.Parent() == fn {
							for k, x := range fn.Params {
								if x == q && k < len(site.Common().Args) {
									return site.Common().Args[k]
								}
							}
						}
						return v
					}
					check(key, fn, sc, subst, site)
				}
				return
			}
			check("serve:"+kn(c.P.FuncName(fn)), fn, sc, func(v ssa.Value) ssa.Value { return v }, sc)
		})
	}
}

func runFilterHdr(c *core.Ctx) {
	r := requireRoles(c)
	if r == nil {
		return
	}
	const hdr = "OCI-Filters-Applied"
	for _, fn := range serverFuncs(c) {
		// the filter value: Query().Get("artifactType")
		var filter ssa.Value
		an.Calls(fn, func(call ssa.CallInstruction) {
			if cc, ok := call.(*ssa.Call); ok && an.IsMethod(call, "net/url", "Values", "Get") {
				_, args := an.CallArgs(call)
				if s, ok := an.ConstString(args[0]); ok && s == "artifactType" {
					filter = cc
				}
			}
		})
		if filter == nil {
			continue
		}
		// body writes of data (w.Write(x)), not of the empty default response
		var writes []*ssa.Call
		an.Calls(fn, func(call ssa.CallInstruction) {
			cc, ok := call.(*ssa.Call)
			if ok && cc.Call.IsInvoke() && cc.Call.Method.Name() == "Write" && isNamed(cc.Call.Value.Type(), "net/http", "ResponseWriter") {
				writes = append(writes, cc)
			}
		})
		type st struct{ empty, set bool }
		bad := map[*ssa.Call]bool{}
		an.Paths(an.PathSpec[st]{Fn: fn, Init: st{},
			Instr: func(s st, in ssa.Instruction) []st {
				cc, ok := in.(*ssa.Call)
				if !ok {
					return []st{s}
				}
				for _, h := range headerSets(fn) {
					if h.call == cc && strings.EqualFold(h.key, hdr) {
						s.set = true
					}
				}
				for _, w := range writes {
					if w == cc && !s.empty && !s.set {
						bad[w] = true
					}
				}
				return []st{s}
			},
			Edge: func(s st, from *ssa.BasicBlock, succ int) (st, bool) {
				if ifi := an.BlockIf(from); ifi != nil {
					if x, y, op, ok := an.CmpTest(ifi); ok {
						if sv, isS := an.ConstString(y); isS && sv == "" && an.Origin(x) == filter {
							eq := (op == token.EQL && succ == 0) || (op == token.NEQ && succ == 1)
							if eq {
								s.empty = true
							} else if s.empty {
								return s, false
							}
						}
					}
				}
				return s, true
			}})
		for i, w := range writes {
			key := fmt.Sprintf("body-write:%s#%d", kn(c.P.FuncName(fn)), i+1)
			if bad[w] {
				c.Fail(key, w.Pos(), "the body written at %s can be a filtered (or per-filter cached) referrers list although the %s header was not set on that path: the client cannot tell that the filter was applied", c.P.Pos(w.Pos()), hdr)
			} else {
				c.Pass(key, w.Pos(), "filter empty or %s set on every path", hdr)
			}
		}
	}
}

func runPage(c *core.Ctx) {
	r := requireRoles(c)
	if r == nil {
		return
	}
	isLenOf := func(v ssa.Value, of ssa.Value) bool {
		x := lenOf(v)
		return x != nil && an.Origin(x) == an.Origin(of)
	}
	leSide := func(x, y ssa.Value, op token.Token, isLen func(ssa.Value) bool, isLimit func(ssa.Value) bool) int {
		switch {
		case isLen(x) && isLimit(y):
			switch op {
			case token.LEQ, token.LSS:
				return 0
			case token.GTR, token.GEQ:
				return 1
			}
		case isLen(y) && isLimit(x):
			switch op {
			case token.GEQ, token.GTR:
				return 0
			case token.LSS, token.LEQ:
				return 1
			}
		}
		return -1
	}
	n := 0
	for _, fn := range serverFuncs(c) {
		res := fn.Signature.Results()
		if res.Len() == 2 && fn.Parent() == nil {
			if sl, ok := res.At(0).Type().Underlying().(*types.Slice); ok {
				if sl2, ok := sl.Elem().Underlying().(*types.Slice); ok {
					if b, ok := sl2.Elem().Underlying().(*types.Basic); ok && b.Kind() == types.Byte {
						// the splitter
						var limit *ssa.Parameter
						for _, p := range fn.Params {
							if b, ok := p.Type().Underlying().(*types.Basic); ok && b.Info()&types.IsInteger != 0 {
								limit = p
							}
						}
						if limit == nil {
							continue
						}
						an.Calls(fn, func(call ssa.CallInstruction) {
							cc, ok := call.(*ssa.Call)
							if !ok {
								return
							}
							bi, ok := cc.Call.Value.(*ssa.Builtin)
							if !ok || bi.Name() != "append" || !types.Identical(cc.Type(), res.At(0).Type()) {
								return
							}
							elems, ok := variadicElems(cc.Call.Args[1])
							if !ok || len(elems) != 1 {
								return
							}
							n++
							page := elems[0]
							good := false
							for _, g := range an.GuardingEdges(cc.Block()) {
								x, y, op, ok := an.CmpTest(g.If())
								if !ok {
									continue
								}
								side := leSide(x, y, op, func(v ssa.Value) bool { return isLenOf(v, page) }, func(v ssa.Value) bool { return an.Strip(v) == ssa.Value(limit) })
								if side == g.Succ {
									good = true
								}
							}
							key := fmt.Sprintf("page-append:%s#%d", kn(c.P.FuncName(fn)), n)
							c.Check(good, key, cc.Pos(), "the page appended at %s passed len(page) ≤ limit: %v (otherwise a page larger than the response limit is served)", c.P.Pos(cc.Pos()), good)
						})
						// no page value is appended twice: after a page was appended, the variable holding it is
						// given a new value before the next append on every path
						type flushed struct{ v ssa.Value }
						pageOf := func(in ssa.Instruction) ssa.Value {
							cc, ok := in.(*ssa.Call)
							if !ok {
								return nil
							}
							bi, ok := cc.Call.Value.(*ssa.Builtin)
							if !ok || bi.Name() != "append" || !types.Identical(cc.Type(), res.At(0).Type()) {
								return nil
							}
							elems, ok := variadicElems(cc.Call.Args[1])
							if !ok || len(elems) != 1 {
								return nil
							}
							return elems[0]
						}
						var twice ssa.Instruction
						an.Paths(an.PathSpec[flushed]{Fn: fn, Init: flushed{},
							Instr: func(st flushed, in ssa.Instruction) []flushed {
								if pg := pageOf(in); pg != nil {
									if st.v != nil && st.v == pg && twice == nil {
										twice = in
									}
									return []flushed{{pg}}
								}
								return []flushed{st}
							},
							Edge: func(st flushed, from *ssa.BasicBlock, succ int) (flushed, bool) {
								if st.v == nil {
									return st, true
								}
								to := from.Succs[succ]
								pi := -1
								for i, p := range to.Preds {
									if p == from {
										pi = i
									}
								}
								for _, in := range to.Instrs {
									phi, ok := in.(*ssa.Phi)
									if !ok {
										break
									}
									if pi >= 0 && pi < len(phi.Edges) && phi.Edges[pi] == st.v {
										return flushed{phi}, true
									}
								}
								if in, ok := st.v.(ssa.Instruction); ok && in.Block() == to {
									return flushed{}, true
								}
								return st, true
							}})
						if n > 0 {
							where := ""
							if twice != nil {
								where = c.P.Pos(twice.Pos())
							}
							c.Check(twice == nil, "page-once:"+kn(c.P.FuncName(fn)), fn.Pos(), "in %s no page value reaches a second append to the result without having been replaced in between (second append at %s): %v — otherwise the Link chain lists the referrers of that page twice", c.P.FuncName(fn), where, twice == nil)
						}
					}
				}
			}
		}
	}
	// handler: a page counter taken from the request is applied only to the response it was issued for
	runPageCounter(c, r)
	// handler: unsplit response only on the ≤ edge
	for _, fn := range serverFuncs(c) {
		var splitCall *ssa.Call
		an.Calls(fn, func(call ssa.CallInstruction) {
			if cc, ok := call.(*ssa.Call); ok {
				if sc := cc.Call.StaticCallee(); sc != nil && core.FuncPkgPath(sc) == c.P.Module && sc.Signature.Results().Len() == 2 {
					if sl, ok := sc.Signature.Results().At(0).Type().Underlying().(*types.Slice); ok {
						if _, ok := sl.Elem().Underlying().(*types.Slice); ok {
							splitCall = cc
						}
					}
				}
			}
		})
		if splitCall == nil {
			continue
		}
		unsplit := an.Origin(splitCall.Call.Args[0])
		var limitV = splitCall.Call.Args[1]
		okAll, found := true, false
		an.Calls(fn, func(call ssa.CallInstruction) {
			cc, ok := call.(*ssa.Call)
			if !ok || !cc.Call.IsInvoke() || cc.Call.Method.Name() != "Write" || !isNamed(cc.Call.Value.Type(), "net/http", "ResponseWriter") {
				return
			}
			arg := cc.Call.Args[0]
			phi, isPhi := arg.(*ssa.Phi)
			if !isPhi {
				return
			}
			for i, e := range phi.Edges {
				if an.Origin(e) != unsplit {
					continue
				}
				found = true
				good := false
				pred := phi.Block().Preds[i]
				guards := an.GuardingEdges(pred)
				for _, g := range guards {
					x, y, op, ok := an.CmpTest(g.If())
					if !ok {
						continue
					}
					side := leSide(x, y, op, func(v ssa.Value) bool { return isLenOf(v, unsplit) }, func(v ssa.Value) bool { return sameSource(v, limitV) })
					if side == g.Succ {
						good = true
					}
				}
				if !good {
					okAll = false
				}
			}
		})
		if found {
			n++
			c.Check(okAll, "unsplit-response:"+kn(c.P.FuncName(fn)), splitCall.Pos(), "the unsplit response is written only on the ‘len ≤ limit’ edge: %v", okAll)
		}
	}
	if n == 0 {
		c.Unresolved("splitter", "no page splitter found")
	}
}

func runSort(c *core.Ctx) {
	r := requireRoles(c)
	if r == nil {
		return
	}
	n := 0
	done := map[*ssa.Function]bool{}
	for _, fn := range serverFuncs(c) {
		var sortCall *ssa.Call
		an.Calls(fn, func(call ssa.CallInstruction) {
			if cc, ok := call.(*ssa.Call); ok && (an.IsFunc(call, "sort", "Strings") || an.IsFunc(call, "slices", "Sort")) {
				if root, p := accessPath(an.Strip(cc.Call.Args[0])); len(p) == 1 && isNamedType(an.Deref(root.Type()), r.TypesPath, "TagList") {
					sortCall = cc
				}
			}
		})
		if sortCall == nil {
			continue
		}
		n++
		done[fn] = true
		key := "order:" + kn(c.P.FuncName(fn))
		root, p := accessPath(an.Strip(sortCall.Call.Args[0]))
		var problems []string
		marshalSeen := false
		an.Instrs(fn, func(in ssa.Instruction) {
			switch x := in.(type) {
			case *ssa.Store:
				r2, p2 := accessPath(x.Addr)
				if r2 != root || strings.Join(p2, ".") != strings.Join(p, ".") {
					return
				}
				switch v := x.Val.(type) {
				case *ssa.Slice:
					// truncation: a slice of the field's own value
					if r3, p3 := accessPath(an.Strip(v.X)); r3 != root || strings.Join(p3, ".") != strings.Join(p, ".") {
						return
					}
					if !an.Reaches(sortCall, x) || an.Reaches(x, sortCall) {
						problems = append(problems, fmt.Sprintf("the truncation at %s is not strictly after the sort: paging would cut an unsorted list", c.P.Pos(x.Pos())))
					}
				case *ssa.Call:
					if bi, ok := v.Call.Value.(*ssa.Builtin); ok && bi.Name() == "append" {
						if an.Reaches(sortCall, x) {
							problems = append(problems, fmt.Sprintf("tags are appended at %s after the sort", c.P.Pos(x.Pos())))
						}
					}
				}
			case *ssa.Call:
				if an.IsFunc(x, "encoding/json", "Marshal") {
					if al, ok := root.(*ssa.Alloc); ok {
						if u, ok := an.Strip(x.Call.Args[0]).(*ssa.UnOp); ok && u.X == ssa.Value(al) {
							marshalSeen = true
							if !sortCall.Block().Dominates(x.Block()) {
								problems = append(problems, "the list is marshalled on a path that did not sort it")
							}
						}
					}
				}
			}
		})
		if !marshalSeen {
			problems = append(problems, "the sorted list is not what is marshalled")
		}
		if len(problems) > 0 {
			c.Fail(key, sortCall.Pos(), "%s", strings.Join(problems, "; "))
		} else {
			c.Pass(key, sortCall.Pos(), "fill → sort → truncate → marshal")
		}
	}
	// the list may be produced by a helper: the Tags field of the TagList that is marshalled is initialised with the result of a
	// function of this module every return of which returns a slice that was sorted after its last append; the handler then
	// only truncates it
	for _, fn := range serverFuncs(c) {
		var tlAlloc *ssa.Alloc
		an.Instrs(fn, func(in ssa.Instruction) {
			if al, ok := in.(*ssa.Alloc); ok && isNamedType(an.Deref(al.Type()), r.TypesPath, "TagList") {
				tlAlloc = al
			}
		})
		if tlAlloc == nil {
			continue
		}
		var helperCall *ssa.Call
		helperField := "" // when the helper hands out a record: the field the list travels in
		var appendsAfter []ssa.Instruction
		marshalled := false
		an.Instrs(fn, func(in ssa.Instruction) {
			switch x := in.(type) {
			case *ssa.Store:
				r2, p2 := accessPath(x.Addr)
				if r2 != ssa.Value(tlAlloc) || len(p2) != 1 || p2[0] != "Tags" {
					return
				}
				switch v := x.Val.(type) {
				case *ssa.Call:
					if bi, ok := v.Call.Value.(*ssa.Builtin); ok && bi.Name() == "append" {
						appendsAfter = append(appendsAfter, x)
					} else if sc := v.Call.StaticCallee(); sc != nil && core.FuncPkgPath(sc) == c.P.Module {
						helperCall = v
					}
				default:
					// a field of the record a paging helper of the module handed out (page := tagListPage(…); Tags: page.tags)
					var rec ssa.Value
					fidx := -1
					switch y := an.Strip(x.Val).(type) {
					case *ssa.Field:
						rec, fidx = y.X, y.Field
					case *ssa.UnOp:
						if fa, ok := y.X.(*ssa.FieldAddr); ok && y.Op == token.MUL {
							if whole := an.SingleStore(fa.X); whole != nil {
								rec, fidx = whole, fa.Field
							}
						}
					}
					if rec != nil {
						if hc, _ := an.CallOf(an.Origin(rec)); hc != nil {
							if sc := hc.Call.StaticCallee(); sc != nil && core.FuncPkgPath(sc) == c.P.Module && sc.Signature.Results().Len() == 1 {
								if stt, ok := sc.Signature.Results().At(0).Type().Underlying().(*types.Struct); ok && fidx < stt.NumFields() {
									helperCall, helperField = hc, stt.Field(fidx).Name()
								}
							}
						}
					}
				}
			case *ssa.Call:
				if an.IsFunc(x, "encoding/json", "Marshal") {
					if u, ok := an.Strip(x.Call.Args[0]).(*ssa.UnOp); ok && u.X == ssa.Value(tlAlloc) {
						marshalled = true
					}
				}
			}
		})
		if helperCall == nil {
			continue
		}
		h := helperCall.Call.StaticCallee()
		// inside the helper: every return returns a slice on which sort ran after the last append
		okHelper := true
		nret := 0
		for _, b := range h.Blocks {
			if len(b.Instrs) == 0 {
				continue
			}
			ret, ok := b.Instrs[len(b.Instrs)-1].(*ssa.Return)
			if !ok || len(ret.Results) != 1 {
				continue
			}
			nret++
			// the list handed out: the result itself, or the field of the returned record; truncations of it are looked
			// through (they must come after the sort)
			lists := []ssa.Value{ret.Results[0]}
			if helperField != "" {
				ss := structStores(an.Origin(ret.Results[0]))
				if len(ss) == 0 {
					if u, ok := an.Strip(ret.Results[0]).(*ssa.UnOp); ok {
						ss = structStores(u.X)
					}
				}
				lists = ss[helperField]
				if len(lists) == 0 {
					okHelper = false
					continue
				}
			}
			for _, lv := range lists {
				var cuts []*ssa.Slice
				base := an.Strip(lv)
				for i := 0; i < 4; i++ {
					sl, isSl := base.(*ssa.Slice)
					if !isSl {
						break
					}
					cuts = append(cuts, sl)
					base = an.Strip(sl.X)
				}
				var sorted *ssa.Call
				an.Calls(h, func(call ssa.CallInstruction) {
					if cc, ok := call.(*ssa.Call); ok && (an.IsFunc(call, "sort", "Strings") || an.IsFunc(call, "slices", "Sort")) {
						if an.Origin(cc.Call.Args[0]) == an.Origin(base) || an.Strip(cc.Call.Args[0]) == base {
							if cc.Block().Dominates(ret.Block()) {
								sorted = cc
							}
						}
					}
				})
				if sorted == nil {
					okHelper = false
					continue
				}
				for _, sl := range cuts {
					if !an.Reaches(sorted, sl) || an.Reaches(sl, sorted) {
						okHelper = false // cut before the sort: paging would cut an unsorted list
					}
				}
				// no append to the returned slice's variable after the sort
				an.Instrs(h, func(in ssa.Instruction) {
					if cl, ok := in.(*ssa.Call); ok {
						if bi, ok := cl.Call.Value.(*ssa.Builtin); ok && bi.Name() == "append" && cl.Type().String() == base.Type().String() {
							if an.Reaches(sorted, cl) {
								okHelper = false
							}
						}
					}
				})
			}
		}
		n++
		done[fn] = true
		key := "order:" + kn(c.P.FuncName(fn))
		var problems []string
		if !okHelper || nret == 0 {
			problems = append(problems, fmt.Sprintf("%s does not return a list that is sorted after its last append on every path", c.P.FuncName(h)))
		}
		if len(appendsAfter) > 0 {
			problems = append(problems, fmt.Sprintf("tags are appended at %s after the sorted list was taken from %s", c.P.Pos(appendsAfter[0].Pos()), c.P.FuncName(h)))
		}
		if !marshalled {
			problems = append(problems, "the sorted list is not what is marshalled")
		}
		if len(problems) > 0 {
			c.Fail(key, helperCall.Pos(), "%s", strings.Join(problems, "; "))
		} else {
			c.Pass(key, helperCall.Pos(), "fill → sort (in %s) → truncate → marshal", c.P.FuncName(h))
		}
	}
	// the list may be kept in a local variable and only put into the TagList that is marshalled afterwards: what is
	// stored in Tags derives from the sorted value through truncations only, the sorted value itself was not
	// truncated, and the sort precedes the marshalling on every path
	for _, fn := range serverFuncs(c) {
		if done[fn] {
			continue
		}
		var tlAlloc *ssa.Alloc
		an.Instrs(fn, func(in ssa.Instruction) {
			if al, ok := in.(*ssa.Alloc); ok && isNamedType(an.Deref(al.Type()), r.TypesPath, "TagList") {
				tlAlloc = al
			}
		})
		if tlAlloc == nil {
			continue
		}
		var sortCall *ssa.Call
		an.Calls(fn, func(call ssa.CallInstruction) {
			if cc, ok := call.(*ssa.Call); ok && (an.IsFunc(call, "sort", "Strings") || an.IsFunc(call, "slices", "Sort")) {
				if _, p := accessPath(an.Strip(cc.Call.Args[0])); len(p) == 0 {
					sortCall = cc
				}
			}
		})
		if sortCall == nil {
			continue
		}
		sorted := an.Strip(sortCall.Call.Args[0])
		var problems []string
		var tagStores []*ssa.Store
		var marshal *ssa.Call
		an.Instrs(fn, func(in ssa.Instruction) {
			switch x := in.(type) {
			case *ssa.Store:
				if r2, p2 := accessPath(x.Addr); r2 == ssa.Value(tlAlloc) && len(p2) == 1 && p2[0] == "Tags" {
					tagStores = append(tagStores, x)
				}
			case *ssa.Call:
				if an.IsFunc(x, "encoding/json", "Marshal") {
					if u, ok := an.Strip(x.Call.Args[0]).(*ssa.UnOp); ok && u.X == ssa.Value(tlAlloc) {
						marshal = x
					}
				}
			}
		})
		if marshal == nil || len(tagStores) == 0 {
			continue
		}
		n++
		done[fn] = true
		key := "order:" + kn(c.P.FuncName(fn))
		// what is stored derives from the sorted value by truncation only
		for _, st := range tagStores {
			seen := map[ssa.Value]bool{}
			var back func(v ssa.Value, d int)
			back = func(v ssa.Value, d int) {
				v = an.Strip(v)
				if v == sorted || seen[v] || d > 12 {
					return
				}
				seen[v] = true
				switch x := v.(type) {
				case *ssa.Slice:
					back(x.X, d+1)
				case *ssa.Phi:
					for _, e := range x.Edges {
						back(e, d+1)
					}
				default:
					problems = append(problems, fmt.Sprintf("the tags stored at %s are not (a truncation of) the list sorted at %s", c.P.Pos(st.Pos()), c.P.Pos(sortCall.Pos())))
				}
			}
			back(st.Val, 0)
			if !sortCall.Block().Dominates(st.Block()) {
				problems = append(problems, "the list is stored on a path that did not sort it")
			}
		}
		// the sorted value was not truncated before the sort
		{
			seen := map[ssa.Value]bool{}
			var back func(v ssa.Value, d int)
			back = func(v ssa.Value, d int) {
				v = an.Strip(v)
				if seen[v] || d > 12 {
					return
				}
				seen[v] = true
				switch x := v.(type) {
				case *ssa.Slice:
					if x.High != nil {
						problems = append(problems, fmt.Sprintf("the truncation at %s is not strictly after the sort: paging would cut an unsorted list", c.P.Pos(x.Pos())))
					}
					back(x.X, d+1)
				case *ssa.Phi:
					for _, e := range x.Edges {
						back(e, d+1)
					}
				case *ssa.Call:
					if bi, ok := x.Call.Value.(*ssa.Builtin); ok && bi.Name() == "append" && len(x.Call.Args) > 0 {
						back(x.Call.Args[0], d+1)
					}
				}
			}
			back(sorted, 0)
		}
		if !sortCall.Block().Dominates(marshal.Block()) {
			problems = append(problems, "the list is marshalled on a path that did not sort it")
		}
		problems = dedupe(problems)
		if len(problems) > 0 {
			c.Fail(key, sortCall.Pos(), "%s", strings.Join(problems, "; "))
		} else {
			c.Pass(key, sortCall.Pos(), "fill → sort → truncate → store into the TagList → marshal")
		}
	}
	if n == 0 {
		c.Unresolved("tag-list", "no handler sorting a TagList found")
	}
}

// ---- TB-ERRPAIR ----

// frozen condition -> code table (regular expressions over the trigger description)
var errPairTable = []struct {
	re   *regexp.Regexp
	code string
}{
	{regexp.MustCompile(`^is:ErrRepoNotAllowed`), "NAME_INVALID"},
	{regexp.MustCompile(`^err:IndexGet`), "NAME_UNKNOWN"},
	{regexp.MustCompile(`^err:BlobSession`), "BLOB_UPLOAD_UNKNOWN"},
	{regexp.MustCompile(`^is:ErrNotFound:Blob(Get|Delete)\(parsed\)`), "BLOB_UNKNOWN"},
	{regexp.MustCompile(`^is:ErrNotFound:BlobGet\(descriptor\)`), "MANIFEST_BLOB_UNKNOWN"},
	{regexp.MustCompile(`^err:GetDesc`), "MANIFEST_UNKNOWN"},
	{regexp.MustCompile(`^call:MediaTypeAccepts:F`), "MANIFEST_UNKNOWN"},
	{regexp.MustCompile(`^err:digest\.Parse\(q:cache\)`), "UNSUPPORTED"},
	{regexp.MustCompile(`^err:digest\.Parse`), "DIGEST_INVALID"},
	{regexp.MustCompile(`^call:Available:F`), "DIGEST_INVALID"},
	{regexp.MustCompile(`^err:Verify`), "BLOB_UPLOAD_INVALID"},
	{regexp.MustCompile(`^err:DecodeString`), "BLOB_UPLOAD_INVALID"},
	{regexp.MustCompile(`^err:json\.Unmarshal\(state\)`), "BLOB_UPLOAD_INVALID"},
	{regexp.MustCompile(`^cmp:Offset~Size`), "BLOB_UPLOAD_INVALID"},
	{regexp.MustCompile(`^call:[A-Za-z]*Range[A-Za-z]*:F`), "SIZE_INVALID"},
	{regexp.MustCompile(`^setting:Storage\.ReadOnly:T`), "DENIED"},
	{regexp.MustCompile(`^err:json\.Unmarshal\(body\)`), "MANIFEST_INVALID"},
	{regexp.MustCompile(`^err:manifestVerify`), "MANIFEST_BLOB_UNKNOWN"},
}

func runErrPair(c *core.Ctx) {
	r := requireRoles(c)
	if r == nil {
		return
	}
	ctors := errorConstructors(c)
	type site struct {
		fn      *ssa.Function
		call    *ssa.Call
		codes   []string
		status  int
		trigger string
	}
	var sites []site
	codesOf := func(v ssa.Value) []string {
		var out []string
		if call, _ := an.CallOf(an.Strip(v)); call != nil {
			if sc := call.Call.StaticCallee(); sc != nil && core.FuncPkgPath(sc) == r.TypesPath {
				if cm, ok := ctors[sc.Name()]; ok {
					out = append(out, cm[0])
				}
			}
		}
		return out
	}
	for _, fn := range serverFuncs(c) {
		an.Calls(fn, func(call ssa.CallInstruction) {
			cc, ok := call.(*ssa.Call)
			if !ok || !an.IsFunc(call, r.TypesPath, "ErrRespJSON") {
				return
			}
			s := site{fn: fn, call: cc, status: -1}
			if elems, ok := variadicElems(cc.Call.Args[1]); ok {
				for _, e := range elems {
					s.codes = append(s.codes, codesOf(e)...)
				}
			} else {
				// a list produced by a helper of the server package (or chosen among several such lists): the codes the
				// constructors called by that helper — and by the functions of the package it obtains lists from — build
				var fromHelper func(h *ssa.Function, depth int, seen map[*ssa.Function]bool)
				fromHelper = func(h *ssa.Function, depth int, seen map[*ssa.Function]bool) {
					if h == nil || seen[h] || depth > 2 {
						return
					}
					seen[h] = true
					an.Calls(h, func(c2 ssa.CallInstruction) {
						v, ok := c2.(*ssa.Call)
						if !ok {
							return
						}
						s.codes = append(s.codes, codesOf(v)...)
						if inner := localCallee(c, c2); inner != nil && inner.Parent() == nil {
							res := inner.Signature.Results()
							for i := 0; i < res.Len(); i++ {
								if types.Identical(res.At(i).Type(), cc.Call.Args[1].Type()) {
									fromHelper(inner, depth+1, seen)
								}
							}
						}
					})
				}
				for _, o := range an.Origins(cc.Call.Args[1]) {
					if elems, ok := variadicElems(o); ok {
						for _, e := range elems {
							s.codes = append(s.codes, codesOf(e)...)
						}
						continue
					}
					if hc, _ := an.CallOf(o); hc != nil {
						fromHelper(localCallee(c, hc), 0, map[*ssa.Function]bool{})
					}
				}
			}
			s.codes = dedupe(s.codes)
			// status: the WriteHeader preceding in the same block
			for _, in := range cc.Block().Instrs {
				if in == ssa.Instruction(cc) {
					break
				}
				if wc, ok := in.(ssa.CallInstruction); ok {
					if st, ok := writeHeaderStatus(wc); ok {
						s.status = st
					}
				}
			}
			s.trigger = triggerOf(c, r, cc.Block())
			sites = append(sites, s)
		})
	}
	count := map[string]int{}
	byTrigger := map[string]map[string]bool{}
	for _, s := range sites {
		if s.trigger != "" && len(s.codes) == 1 {
			if byTrigger[s.trigger] == nil {
				byTrigger[s.trigger] = map[string]bool{}
			}
			byTrigger[s.trigger][s.codes[0]] = true
		}
	}
	unclassified := 0
	for _, s := range sites {
		name := kn(c.P.FuncName(s.fn))
		count[name]++
		key := fmt.Sprintf("errdoc:%s#%d", name, count[name])
		var problems []string
		if s.status < 400 || s.status > 499 {
			problems = append(problems, fmt.Sprintf("the error document at %s follows status %d, not a constant 4xx written in the same block", c.P.Pos(s.call.Pos()), s.status))
		}
		if len(s.codes) == 0 {
			problems = append(problems, "the error code could not be resolved to a constructor of package types")
		}
		if s.trigger == "" {
			unclassified++
		} else if len(s.codes) == 1 {
			if len(byTrigger[s.trigger]) > 1 {
				problems = append(problems, fmt.Sprintf("condition %q is answered with different codes at sibling sites: %v", s.trigger, keysOf(byTrigger[s.trigger])))
			}
			for _, row := range errPairTable {
				if row.re.MatchString(s.trigger) {
					if row.code != s.codes[0] {
						problems = append(problems, fmt.Sprintf("condition %q is answered with %s; the registered code for it is %s", s.trigger, s.codes[0], row.code))
					}
					break
				}
			}
		}
		if len(problems) > 0 {
			c.Fail(key, s.call.Pos(), "%s", strings.Join(problems, "; "))
		} else {
			c.Pass(key, s.call.Pos(), "status %d, code %v, condition %q", s.status, s.codes, s.trigger)
		}
	}
	c.Note("TB-ERRPAIR: %d error documents, %d with a condition the rule does not classify (status and code resolution still checked)", len(sites), unclassified)
	_ = sort.Strings
}

// triggerOf describes the innermost condition that leads to block b.
func triggerOf(c *core.Ctx, r *Roles, b *ssa.BasicBlock) string {
	guards := an.GuardingEdges(b)
	if len(guards) == 0 {
		return ""
	}
	// innermost: the guard whose block is dominated by all the others
	var real []an.Edge
	for _, g := range guards {
		if !g.Synthetic() {
			real = append(real, g)
		}
	}
	if len(real) == 0 {
		return ""
	}
	in := real[0]
	for _, g := range real[1:] {
		if in.From.Dominates(g.From) {
			in = g
		}
	}
	ifi := in.If()
	calleeName := func(call *ssa.Call) string {
		if call == nil {
			return "?"
		}
		if _, m, ok := r.API(call); ok {
			return m
		}
		if f := an.FuncObj(call); f != nil {
			if f.Pkg() != nil && f.Pkg().Path() == digestPkg {
				return "digest." + f.Name()
			}
			if f.Pkg() != nil && f.Pkg().Path() == "encoding/json" {
				return "json." + f.Name()
			}
			return f.Name()
		}
		return "?"
	}
	argSource := func(call *ssa.Call) string {
		if call == nil {
			return ""
		}
		_, args := an.CallArgs(call)
		if an.IsFunc(call, digestPkg, "Parse") && len(args) == 1 {
			cands := append([]ssa.Value{}, an.Origins(args[0])...)
			// the digest string handed to a step by its caller (`s.getPaged(…, cacheDig, …)`)
			if leaves, _ := originsAcross(c, args[0], 0); len(leaves) > 0 {
				cands = append(cands, leaves...)
			}
			for _, o := range cands {
				if qc, _ := an.CallOf(o); qc != nil && an.IsMethod(qc, "net/url", "Values", "Get") {
					_, qa := an.CallArgs(qc)
					if s, ok := an.ConstString(qa[0]); ok {
						return "(q:" + s + ")"
					}
				}
			}
			return "(path)"
		}
		if an.IsFunc(call, "encoding/json", "Unmarshal") && len(args) == 2 {
			if dc, _ := an.CallOf(an.Origin(args[0])); dc != nil && an.IsMethod(dc, "encoding/base64", "Encoding", "DecodeString") {
				return "(state)"
			}
			return "(body)"
		}
		if r.IsAPI(call, "Repo", "BlobGet", "BlobDelete") && len(args) == 1 {
			if pc, idx := an.CallOf(an.Origin(args[0])); pc != nil && idx == 0 && an.IsFunc(pc, digestPkg, "Parse") {
				return "(parsed)"
			}
			return "(descriptor)"
		}
		return ""
	}
	if x, tgt, trueSucc, ok := an.ErrIsTest(ifi); ok && in.Succ == trueSucc {
		name := "?"
		if u, ok := an.Strip(tgt).(*ssa.UnOp); ok {
			if g, ok := u.X.(*ssa.Global); ok {
				name = g.Name()
			}
		}
		call, _ := an.CallOf(x)
		return "is:" + name + ":" + calleeName(call) + argSource(call)
	}
	if x, nilSucc, ok := an.NilTest(ifi); ok && in.Succ != nilSucc {
		var names []string
		for _, o := range an.Origins(x) {
			call, _ := an.CallOf(o)
			if call == nil {
				continue
			}
			names = append(names, calleeName(call)+argSource(call))
		}
		names = dedupe(names)
		sort.Strings(names)
		if len(names) > 0 {
			return "err:" + strings.Join(names, "|")
		}
	}
	if call, trueSucc, ok := an.BoolCallTest(ifi); ok {
		return fmt.Sprintf("call:%s:%s", calleeName(call), map[bool]string{true: "T", false: "F"}[in.Succ == trueSucc])
	}
	base, neg := an.CondBase(ifi.Cond)
	if p := fieldPath(base); len(p) >= 2 {
		idx := -1
		for i, s := range p {
			if s == "conf" {
				idx = i
			}
		}
		if idx >= 0 {
			return fmt.Sprintf("setting:%s:%s", strings.Join(p[idx+1:], "."), map[bool]string{true: "T", false: "F"}[(in.Succ == 0) != neg])
		}
	}
	if x, y, _, ok := an.CmpTest(ifi); ok {
		d := func(v ssa.Value) string {
			v = an.Strip(v)
			if call, _ := an.CallOf(v); call != nil {
				return calleeName(call)
			}
			if _, p := accessPath(v); len(p) > 0 {
				return p[len(p)-1]
			}
			if _, ok := v.(*ssa.Const); ok {
				return "const"
			}
			return "value"
		}
		dx, dy := d(x), d(y)
		// a comparison of which neither side can be named (a local counter against a constant) is no class of its
		// own: unrelated conditions would fall into it
		if (dx == "value" || dx == "const" || dx == "?") && (dy == "value" || dy == "const" || dy == "?") {
			return ""
		}
		return "cmp:" + dx + "~" + dy
	}
	return ""
}

// runPageCounter: in the referrers handler, wherever pages[page] is served with a page number that comes from the
// request, either the pages were looked up by the digest the request itself named (cache=…), or the page number is
// the request's only on edges that established ‘the request's cache digest equals the digest of this response’ (or
// ‘page is not positive’); on all other edges it is the constant 0.
func runPageCounter(c *core.Ctx, r *Roles) {
	c.SetTags("snapshot")
	defer c.SetTags()
	for _, fn := range serverFuncs(c) {
		// the request's page number and cache digest
		var pageVal, cacheStr ssa.Value
		an.Calls(fn, func(call ssa.CallInstruction) {
			if !an.IsMethod(call, "net/url", "Values", "Get") {
				return
			}
			_, args := an.CallArgs(call)
			if len(args) != 1 {
				return
			}
			k, _ := an.ConstString(args[0])
			switch k {
			case "cache":
				cacheStr = call.Value()
			case "page":
				// strconv.Atoi(query) result
				if call.Value() != nil && call.Value().Referrers() != nil {
					for _, ref := range *call.Value().Referrers() {
						if cc, ok := ref.(*ssa.Call); ok && an.IsFunc(cc, "strconv", "Atoi") {
							pageVal = cc
						}
					}
				}
			}
		})
		if pageVal == nil || cacheStr == nil {
			continue
		}
		fromPage := func(v ssa.Value) bool {
			seen := map[ssa.Value]bool{}
			var walk func(v ssa.Value, d int) bool
			walk = func(v ssa.Value, d int) bool {
				if v == nil || d > 10 || seen[v] {
					return false
				}
				seen[v] = true
				switch x := v.(type) {
				case *ssa.Extract:
					return x.Tuple == pageVal
				case *ssa.Call:
					// handed through a helper of the package that may return it
					if h := x.Call.StaticCallee(); h != nil && len(h.Blocks) > 0 && core.FuncPkgPath(h) == core.FuncPkgPath(fn) {
						for _, a := range x.Call.Args {
							if walk(a, d+1) {
								return true
							}
						}
					}
				case *ssa.Phi:
					for _, e := range x.Edges {
						if walk(e, d+1) {
							return true
						}
					}
				case *ssa.UnOp:
					if x.Op == token.MUL {
						if st, unk := an.CellStores(x.X); !unk {
							for _, s := range st {
								if walk(s.Val, d+1) {
									return true
								}
							}
						}
					}
				}
				return false
			}
			return walk(v, 0)
		}
		k := 0
		an.Instrs(fn, func(in ssa.Instruction) {
			ia, ok := in.(*ssa.IndexAddr)
			if !ok || !fromPage(ia.Index) {
				return
			}
			sl, ok := ia.X.Type().Underlying().(*types.Slice)
			if !ok {
				return
			}
			if _, ok := sl.Elem().Underlying().(*types.Slice); !ok {
				return
			}
			k++
			key := fmt.Sprintf("page-counter:%s#%d", kn(c.P.FuncName(fn)), k)
			// the digest this response is identified by: the digest-typed field of the key of the nearest cache
			// access that dominates (or is in the block of) the use
			var respDig ssa.Value
			an.Calls(fn, func(call ssa.CallInstruction) {
				if !an.IsMethod(call, c.P.Module+"/internal/cache", "Cache", "Get") && !an.IsMethod(call, c.P.Module+"/internal/cache", "Cache", "Set") {
					return
				}
				if !(call.Block() == ia.Block() || call.Block().Dominates(ia.Block())) {
					return
				}
				_, args := an.CallArgs(call)
				if len(args) == 0 {
					return
				}
				kf := keyFields(args[0])
				for fname, vals := range kf {
					// a key kept in a local variable whose digest is filled in later: what the field holds at this access
					if len(vals) > 1 {
						if ld, ok := an.Strip(args[0]).(*ssa.UnOp); ok && ld.Op == token.MUL {
							if kal, ok := ld.X.(*ssa.Alloc); ok {
								if cur := fieldStoreAt(kal, fname, call); cur != nil {
									vals = []ssa.Value{cur}
								}
							}
						}
					}
					for _, v := range vals {
						if strings.HasSuffix(v.Type().String(), "go-digest.Digest") {
							respDig = v
						}
					}
				}
				if len(kf) == 0 {
					// a key that is not a struct (a string put together by a function of the package): the digest it is
					// made from is the digest-typed argument of that function — whether the key keeps its components
					// apart is PV-CACHEKEY's question, not this clause's
					if kc, _ := an.CallOf(an.Origin(args[0])); kc != nil {
						if sc := kc.Call.StaticCallee(); sc != nil && core.FuncPkgPath(sc) == core.FuncPkgPath(fn) {
							for _, a := range kc.Call.Args {
								if strings.HasSuffix(a.Type().String(), "go-digest.Digest") {
									respDig = a
								}
							}
						}
					}
				}
			})
			if respDig == nil {
				c.Undecided(key, ia.Pos(), "pages[page] at %s: the digest identifying the pages could not be determined", c.P.Pos(ia.Pos()))
				return
			}
			// (a) looked up by the digest the request named
			if ex, ok := an.Origin(respDig).(*ssa.Extract); ok {
				if pc, ok := ex.Tuple.(*ssa.Call); ok && an.IsFunc(pc, "github.com/opencontainers/go-digest", "Parse") && an.Origin(pc.Call.Args[0]) == an.Origin(cacheStr) {
					c.Pass(key, ia.Pos(), "the pages served at %s were looked up by the digest the request itself named", c.P.Pos(ia.Pos()))
					return
				}
			}
			// (b) every edge on which the request's number survives established the match (or page ≤ 0)
			// (inside a helper the operands are mapped to the arguments of the call first: argMap)
			argMap := func(v ssa.Value) ssa.Value { return v }
			isMatchCond := func(cond ssa.Value) (matchOnTrue bool, ok bool) {
				base, neg := an.CondBase(cond)
				bo, isBin := base.(*ssa.BinOp)
				if !isBin || (bo.Op != token.EQL && bo.Op != token.NEQ) {
					return false, false
				}
				isCache := func(v ssa.Value) bool { return an.Origin(argMap(v)) == an.Origin(cacheStr) }
				isResp := func(v ssa.Value) bool {
					v = argMap(v)
					call, _ := an.CallOf(an.Origin(v))
					if call == nil {
						call, _ = an.CallOf(an.Strip(v))
					}
					if call == nil || !an.IsMethod(call, "github.com/opencontainers/go-digest", "Digest", "String") {
						return false
					}
					recv, _ := an.CallArgs(call)
					return sameSource(recv, respDig)
				}
				if !((isCache(bo.X) && isResp(bo.Y)) || (isCache(bo.Y) && isResp(bo.X))) {
					return false, false
				}
				m := bo.Op == token.EQL
				if neg {
					m = !m
				}
				return m, true
			}
			isNonPositive := func(cond ssa.Value) (npOnTrue bool, ok bool) {
				base, neg := an.CondBase(cond)
				bo, isBin := base.(*ssa.BinOp)
				if !isBin || !fromPage(argMap(bo.X)) {
					return false, false
				}
				z, isC := an.ConstInt(bo.Y)
				if !isC || z != 0 {
					return false, false
				}
				var np bool
				switch bo.Op {
				case token.GTR:
					np = false
				case token.LEQ, token.EQL:
					np = true
				default:
					return false, false
				}
				if neg {
					np = !np
				}
				return np, true
			}
			justified := func(edges []an.Edge) bool {
				for _, g := range edges {
					if m, ok := isMatchCond(g.If().Cond); ok && ((g.Succ == 0) == m) {
						return true
					}
					if np, ok := isNonPositive(g.If().Cond); ok && ((g.Succ == 0) == np) {
						return true
					}
				}
				return false
			}
			bad := token.NoPos
			var check func(v ssa.Value, at *ssa.BasicBlock, d int)
			seenPhi := map[*ssa.Phi]bool{}
			check = func(v ssa.Value, at *ssa.BasicBlock, d int) {
				if d > 6 || bad != token.NoPos {
					return
				}
				if phi, ok := v.(*ssa.Phi); ok && !seenPhi[phi] {
					seenPhi[phi] = true
					for i, e := range phi.Edges {
						if _, isC := e.(*ssa.Const); isC || !fromPage(e) {
							continue
						}
						p := phi.Block().Preds[i]
						edges := an.GuardingEdges(p)
						if ifi := an.BlockIf(p); ifi != nil {
							for si, sb := range p.Succs {
								if sb == phi.Block() {
									edges = append(edges, an.Edge{From: p, Succ: si})
								}
							}
						}
						if justified(edges) {
							continue
						}
						// the operand may itself be a phi that was justified earlier
						if inner, ok := e.(*ssa.Phi); ok {
							check(inner, p, d+1)
							continue
						}
						bad = phi.Pos()
						if bad == token.NoPos {
							bad = ia.Pos()
						}
					}
					return
				}
				// chosen by a helper of the package (page = pageUsable(page, len(pages), cacheDig, curDig)): every return that hands
				// the request's number back lies behind the justifying edges, with the helper's parameters standing for the arguments
				if hc, _ := an.CallOf(an.Strip(v)); hc != nil {
					if h := hc.Call.StaticCallee(); h != nil && len(h.Blocks) > 0 && core.FuncPkgPath(h) == core.FuncPkgPath(fn) && len(hc.Call.Args) == len(h.Params) {
						saved := argMap
						argMap = func(x ssa.Value) ssa.Value {
							if p, isP := an.Origin(x).(*ssa.Parameter); isP {
								for i, q := range h.Params {
									if q == p {
										return hc.Call.Args[i]
									}
								}
							}
							return x
						}
						okH := true
						an.Instrs(h, func(in ssa.Instruction) {
							ret, isRet := in.(*ssa.Return)
							if !isRet || len(ret.Results) != 1 {
								return
							}
							for _, o := range append([]ssa.Value{an.Strip(ret.Results[0])}, an.Origins(ret.Results[0])...) {
								if _, isC := o.(*ssa.Const); isC {
									continue
								}
								if _, isPhi := o.(*ssa.Phi); isPhi {
									continue
								}
								if !fromPage(argMap(o)) {
									continue
								}
								if !justified(an.GuardingEdges(ret.Block())) {
									okH = false
								}
							}
						})
						argMap = saved
						if !okH {
							bad = ia.Pos()
						}
						return
					}
				}
				// the raw request value used directly
				if !justified(an.GuardingEdges(at)) {
					bad = ia.Pos()
				}
			}
			check(ia.Index, ia.Block(), 0)
			c.Check(bad == token.NoPos, key, ia.Pos(), "the page number the request supplied reaches pages[page] at %s only on edges that established that the request's cache digest is the digest of this response (or that the number is not positive): %v — otherwise page N of a newer response is served to a client that holds pages 0..N-1 of an older one, and entries that changed place in between are skipped or repeated", c.P.Pos(ia.Pos()), bad == token.NoPos)
		})
	}
}
