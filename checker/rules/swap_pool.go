package rules

import (
	"fmt"
	"go/token"
	"go/types"

	"golang.org/x/tools/go/ssa"

	"olacheck/an"
	"olacheck/core"
)

func init() {
	register(&Rule{ID: "SH-SWAP-REMOVE", Floor: 1,
		Doc: "where an element is removed from a slice inside a loop by moving the last element into its slot (x[i] = x[len(x)-1]; x = x[:len(x)-1]) in a loop that counts upwards, the slot is examined again: on no path from the removal back to the loop header has the index advanced — the element moved into the slot would otherwise escape the loop's test (a duplicate survives de-duplication, an entry that should go stays); loops that count downwards have already examined the moved element",
		Run: func(c *core.Ctx) {
			n := 0
			var fns []*ssa.Function
			fns = append(fns, c.P.Funcs("internal/store")...)
			fns = append(fns, c.P.Funcs("types")...)
			fns = append(fns, c.P.Funcs("")...)
			// a helper that removes the element at a position by moving the last one into it:
			// func(list []T, pos int) []T { list[pos] = list[len(list)-1]; return list[:len(list)-1] }
			swapHelper := func(f *ssa.Function) (posIdx int, ok bool) {
				if f == nil || len(f.Blocks) == 0 || len(f.Blocks) > 2 {
					return positionRemover(f)
				}
				found := -1
				an.Instrs(f, func(in ssa.Instruction) {
					st, isSt := in.(*ssa.Store)
					if !isSt {
						return
					}
					dst, isIA := st.Addr.(*ssa.IndexAddr)
					if !isIA {
						return
					}
					ld, isLd := an.Strip(st.Val).(*ssa.UnOp)
					if !isLd || ld.Op != token.MUL {
						return
					}
					src, isSrc := ld.X.(*ssa.IndexAddr)
					if !isSrc || an.Origin(src.X) != an.Origin(dst.X) {
						return
					}
					for i, p := range f.Params {
						if an.Strip(dst.Index) == ssa.Value(p) {
							found = i
						}
					}
				})
				if found >= 0 {
					return found, true
				}
				return positionRemover(f)
			}
			nIndex := 0
			for _, fn := range fns {
				k := 0
				if core.FuncPkgPath(fn) == c.P.Module+"/types" {
					c.SetTags("index")
				} else {
					c.SetTags("store")
				}
				for _, b := range fn.Blocks {
					for _, in := range b.Instrs {
						// the removal done by a helper at the loop's counter
						if hc, isCall := in.(*ssa.Call); isCall {
							if pi, isSwap := swapHelper(hc.Call.StaticCallee()); isSwap && pi < len(hc.Call.Args) {
								if h := loopHeader(b); h != nil {
									if idx, isPhi := an.Strip(hc.Call.Args[pi]).(*ssa.Phi); isPhi && idx.Block() == h {
										n++
										k++
										if core.FuncPkgPath(fn) == c.P.Module+"/types" {
											nIndex++
										}
										key := fmt.Sprintf("swap:%s#%d", kn(c.P.FuncName(fn)), k)
										bad := swapAdvances(b, h, idx)
										c.Check(!bad, key, hc.Pos(), "after the swap-removal at %s the loop examines the slot again (or counts downwards): %v — otherwise the element moved into the slot is never tested", c.P.Pos(hc.Pos()), !bad)
									}
								}
							}
							continue
						}
						st, ok := in.(*ssa.Store)
						if !ok {
							continue
						}
						// x[i] = x[len(x)-1]
						dst, ok := st.Addr.(*ssa.IndexAddr)
						if !ok {
							continue
						}
						ld, ok := an.Strip(st.Val).(*ssa.UnOp)
						if !ok || ld.Op != token.MUL {
							continue
						}
						src, ok := ld.X.(*ssa.IndexAddr)
						if !ok {
							continue
						}
						bo, ok := an.Strip(src.Index).(*ssa.BinOp)
						if !ok || bo.Op != token.SUB {
							continue
						}
						if one, isC := an.ConstInt(bo.Y); !isC || one != 1 || lenOf(bo.X) == nil {
							continue
						}
						if !sameSource(lenOf(bo.X), src.X) && an.Origin(lenOf(bo.X)) != an.Origin(src.X) {
							continue
						}
						if !sameSource(dst.X, src.X) && an.Origin(dst.X) != an.Origin(src.X) {
							continue
						}
						// the loop and its index variable
						h := loopHeader(b)
						if h == nil {
							continue
						}
						idx, ok := an.Strip(dst.Index).(*ssa.Phi)
						if !ok || idx.Block() != h {
							continue // not indexed by the loop's own counter
						}
						n++
						k++
						if core.FuncPkgPath(fn) == c.P.Module+"/types" {
							nIndex++
						}
						key := fmt.Sprintf("swap:%s#%d", kn(c.P.FuncName(fn)), k)
						bad := token.NoPos
						if swapAdvances(b, h, idx) {
							bad = st.Pos()
						}
						c.Check(bad == token.NoPos, key, st.Pos(), "after the swap-removal at %s the loop examines the slot again (or counts downwards): %v — otherwise the element moved into the slot is never tested", c.P.Pos(st.Pos()), bad == token.NoPos)
						// an upward scan that removes duplicates / stale entries looks at the last element too: its bound is the
						// length of the list, not the length minus one
						if ifi := an.BlockIf(h); ifi != nil {
							if x, y, op, isCmp := an.CmpTest(ifi); isCmp {
								short := false
								for _, pr := range [][3]interface{}{{x, y, op}, {y, x, flipCmp(op)}} {
									lhs, rhs, o := pr[0].(ssa.Value), pr[1].(ssa.Value), pr[2].(token.Token)
									if an.Strip(lhs) != ssa.Value(idx) || o != token.LSS {
										continue
									}
									if bo, isBo := an.Strip(rhs).(*ssa.BinOp); isBo && bo.Op == token.SUB && lenOf(bo.X) != nil {
										if one, isC := an.ConstInt(bo.Y); isC && one >= 1 {
											short = true
										}
									}
								}
								c.Check(!short, key+"|bound", ifi.Cond.Pos(), "the scan around the swap-removal at %s runs up to the last element of the list: %v — a bound of len−1 leaves the last element unexamined: a duplicate (or stale entry) that lands there survives", c.P.Pos(st.Pos()), !short)
							}
						}
					}
				}
			}
			if nIndex == 0 {
				c.SetTags("index")
				c.Pass("swap:none-in-index", token.NoPos, "the index type removes no entry by moving the last one into its slot inside a loop: no slot to examine again")
			}
			c.SetTags()
			if n == 0 {
				c.Unresolved("swap-removals", "no swap-with-last removal inside a loop found")
			}
		}})

	register(&Rule{ID: "TS-POOL", Floor: 0,
		Doc: "a value taken from a sync.Pool is not used after it was put back, and neither is memory obtained from it (the slice a buffer's Bytes() returned): no use of the pooled value or of such a slice is reachable from the Put — otherwise a concurrent request that takes the same object overwrites the bytes this one is still writing to its response (today's tree has no pool: the rule ranges over zero sites and is exercised by a self-test edit)",
		Run: func(c *core.Ctx) {
			n := 0
			for _, fn := range c.P.ModFuncs {
				k := 0
				an.Calls(fn, func(call ssa.CallInstruction) {
					if !an.IsMethod(call, "sync", "Pool", "Put") {
						return
					}
					_, args := an.CallArgs(call)
					if len(args) != 1 {
						return
					}
					n++
					k++
					key := fmt.Sprintf("put:%s#%d", kn(c.P.FuncName(fn)), k)
					if _, isDefer := call.(*ssa.Defer); isDefer {
						c.Pass(key, call.Pos(), "put back by a deferred call: after every use in the function")
						return
					}
					// the pooled object (behind the interface conversion) and the memory obtained from it
					obj := an.Strip(args[0])
					if mi, ok := obj.(*ssa.MakeInterface); ok {
						obj = an.Strip(mi.X)
					}
					tracked := map[ssa.Value]bool{obj: true}
					an.Instrs(fn, func(in ssa.Instruction) {
						cc, ok := in.(*ssa.Call)
						if !ok || len(cc.Call.Args) == 0 {
							return
						}
						recv := an.Strip(cc.Call.Args[0])
						if cc.Call.IsInvoke() {
							recv = an.Strip(cc.Call.Value)
						}
						if recv != obj {
							return
						}
						switch cc.Type().Underlying().(type) {
						case *types.Slice, *types.Pointer, *types.Map:
							tracked[cc] = true // memory of the pooled object
						}
					})
					bad := token.NoPos
					an.ReachFrom(call, func(in ssa.Instruction) bool {
						if bad != token.NoPos {
							return false
						}
						for _, op := range in.Operands(nil) {
							if *op != nil && tracked[an.Strip(*op)] {
								if _, isDbg := in.(*ssa.DebugRef); isDbg {
									continue
								}
								bad = in.Pos()
								if bad == token.NoPos {
									bad = call.Pos()
								}
							}
						}
						return true
					})
					c.Check(bad == token.NoPos, key, call.Pos(), "nothing taken from the pooled object is used after the Put at %s: %v%s", c.P.Pos(call.Pos()), bad == token.NoPos, map[bool]string{true: "", false: fmt.Sprintf(" (use at %s) — a concurrent request that takes the same object overwrites the bytes this one is still sending: its response carries another request's error document, cut or padded to the old length", c.P.Pos(bad))}[bad == token.NoPos])
				})
			}
			if n == 0 {
				c.Pass("pools", token.NoPos, "no sync.Pool in the module: nothing is put back")
			}
		}})
}

// swapAdvances: on some back edge taken after the removal in block b the loop counter idx has moved upwards.
func swapAdvances(b, h *ssa.BasicBlock, idx *ssa.Phi) bool {
	var fromIdx func(v ssa.Value, d int) bool
	fromIdx = func(v ssa.Value, d int) bool {
		v = an.Strip(v)
		if v == ssa.Value(idx) {
			return true
		}
		if phi, ok := v.(*ssa.Phi); ok && d < 3 {
			for _, e := range phi.Edges {
				if fromIdx(e, d+1) {
					return true
				}
			}
		}
		// min(counter, …) is at most the counter
		if call, ok := v.(*ssa.Call); ok && d < 3 {
			if bi, isB := call.Call.Value.(*ssa.Builtin); isB && bi.Name() == "min" {
				for _, a := range call.Call.Args {
					if fromIdx(a, d+1) {
						return true
					}
				}
			}
		}
		return false
	}
	for pi, pred := range h.Preds {
		if !h.Dominates(pred) {
			continue // loop entry
		}
		if pred != b && !reachesWithout(b, pred, h) {
			continue // this back edge is not taken after the removal
		}
		ev := an.Strip(idx.Edges[pi])
		if ev == ssa.Value(idx) {
			continue // unchanged: the slot is examined again
		}
		if step, ok := ev.(*ssa.BinOp); ok && fromIdx(step.X, 0) {
			if kk, isC := an.ConstInt(step.Y); isC {
				if (step.Op == token.SUB && kk > 0) || (step.Op == token.ADD && kk < 0) {
					continue // counting downwards
				}
			}
		}
		return true
	}
	return false
}

// reachesWithout: block to is reachable from block from without passing through block avoid.
func reachesWithout(from, to, avoid *ssa.BasicBlock) bool {
	seen := map[*ssa.BasicBlock]bool{}
	var walk func(b *ssa.BasicBlock) bool
	walk = func(b *ssa.BasicBlock) bool {
		if b == to {
			return true
		}
		if b == avoid || seen[b] {
			return false
		}
		seen[b] = true
		for _, s := range b.Succs {
			if walk(s) {
				return true
			}
		}
		return false
	}
	for _, s := range from.Succs {
		if walk(s) {
			return true
		}
	}
	return false
}

var _ = core.FuncPkgPath

// positionRemover: f overwrites the element of a list at the position one of its parameters gives and shortens that
// list by one from the end (stored back into a field of its receiver, or returned) — a remove-by-position helper that
// moves another element into the slot. Returns the position's index in the argument list of a call.
func positionRemover(f *ssa.Function) (int, bool) {
	if f == nil || len(f.Blocks) == 0 || len(f.Blocks) > 4 {
		return 0, false
	}
	pos := -1
	var list ssa.Value
	an.Instrs(f, func(in ssa.Instruction) {
		st, ok := in.(*ssa.Store)
		if !ok {
			return
		}
		ia, ok := st.Addr.(*ssa.IndexAddr)
		if !ok {
			return
		}
		for k, p := range f.Params {
			if an.Strip(ia.Index) == ssa.Value(p) || an.Origin(ia.Index) == ssa.Value(p) {
				// the value stored comes from the same list
				if ld, isLd := an.Strip(st.Val).(*ssa.UnOp); isLd && ld.Op == token.MUL {
					if src, isSrc := ld.X.(*ssa.IndexAddr); isSrc && (sameSource(src.X, ia.X) || an.Origin(src.X) == an.Origin(ia.X)) {
						pos, list = k, ia.X
					}
				}
			}
		}
	})
	if pos < 0 {
		return 0, false
	}
	shrinks := false
	an.Instrs(f, func(in ssa.Instruction) {
		var v ssa.Value
		switch x := in.(type) {
		case *ssa.Store:
			if _, isFA := x.Addr.(*ssa.FieldAddr); isFA {
				v = x.Val
			}
		case *ssa.Return:
			if len(x.Results) == 1 {
				v = x.Results[0]
			}
		}
		if v == nil {
			return
		}
		if sl, ok := an.Strip(v).(*ssa.Slice); ok && sl.High != nil && sl.Low == nil && (sameSource(sl.X, list) || an.Origin(sl.X) == an.Origin(list)) {
			shrinks = true
		}
	})
	return pos, shrinks
}
