package rules

import (
	"fmt"
	"go/token"
	"go/types"

	"golang.org/x/tools/go/ssa"

	"olacheck/an"
	"olacheck/core"
)

// TS-RATE-COUNTED: the rate limiter keeps, per client address, an entry with the start of the accounting window
// and the number of requests counted in it, and compares that number with the configured limit. Every request
// that passes the limiter is counted: wherever an entry's counter is (re)set to zero — a new entry whose literal
// leaves the counter out, the reset at the start of a new window — the request that caused it is counted before
// the function returns (the counter is incremented, or set to a value of at least one). A window that starts at
// zero lets limit+1 requests through.
func init() {
	register(&Rule{ID: "TS-RATE-COUNTED", Floor: 1,
		Doc: "in the server package, for the accounting entries (structs with a window-start time and an integer counter): every point that leaves an entry's counter at zero — a store of a constant below one, or a freshly allocated entry whose counter is not initialised — is followed on every path to the function's return by a store that counts the current request (an increment or a constant of at least one), in the function itself or in a method called on the entry: the request that opens a window is counted in it",
		Run: func(c *core.Ctx) {
			// accounting entry types: structs of the root package with exactly one time.Time field and at least one integer field
			counterField := func(t types.Type) (int, bool) {
				st, ok := an.Deref(t).Underlying().(*types.Struct)
				if !ok {
					return 0, false
				}
				n := an.NamedOf(an.Deref(t))
				if n == nil || n.Obj().Pkg() == nil || n.Obj().Pkg().Path() != c.P.Module {
					return 0, false
				}
				times, ints, idx := 0, 0, -1
				for i := 0; i < st.NumFields(); i++ {
					ft := st.Field(i).Type()
					if isNamed(ft, "time", "Time") {
						times++
					}
					if b, isB := ft.Underlying().(*types.Basic); isB && b.Info()&types.IsInteger != 0 {
						ints++
						idx = i
					}
				}
				if times == 1 && ints == 1 && st.NumFields() <= 4 {
					return idx, true
				}
				return 0, false
			}
			isCounterAddr := func(addr ssa.Value) bool {
				fa, ok := addr.(*ssa.FieldAddr)
				if !ok {
					return false
				}
				idx, isEntry := counterField(fa.X.Type())
				return isEntry && fa.Field == idx
			}
			counts := func(st *ssa.Store) bool {
				if !isCounterAddr(st.Addr) {
					return false
				}
				if k, isC := an.ConstInt(st.Val); isC {
					return k >= 1
				}
				return true // an increment or another computed value
			}
			// countsAlways: every path from the entry of h to a return passes a counting store
			var leaks func(f *ssa.Function, b *ssa.BasicBlock, start int, depth int) token.Pos
			countsAlways := func(h *ssa.Function, depth int) bool {
				return h != nil && len(h.Blocks) > 0 && depth <= 2 && c.P.InModule(h) && leaks(h, h.Blocks[0], 0, depth+1) == token.NoPos
			}
			leaks = func(f *ssa.Function, b0 *ssa.BasicBlock, start0 int, depth int) token.Pos {
				bad := token.NoPos
				seen := map[*ssa.BasicBlock]bool{}
				var walk func(b *ssa.BasicBlock, start int)
				walk = func(b *ssa.BasicBlock, start int) {
					if bad != token.NoPos {
						return
					}
					for _, in := range b.Instrs[start:] {
						switch x := in.(type) {
						case *ssa.Store:
							if counts(x) {
								return
							}
						case *ssa.Call:
							if h := x.Call.StaticCallee(); h != nil && h != f {
								passesEntry := false
								for _, a := range x.Call.Args {
									if _, isEntry := counterField(a.Type()); isEntry {
										passesEntry = true
									}
								}
								if passesEntry && countsAlways(h, depth) {
									return
								}
							}
						case *ssa.Return:
							// a step that hands the entry back (get-or-create) leaves the counting to its callers: each of them
							// counts after the call
							handsBack := false
							for _, rv := range x.Results {
								if _, isEntry := counterField(rv.Type()); isEntry {
									handsBack = true
								}
							}
							if handsBack && depth < 2 {
								sites := c.P.Callers(f)
								allCount := len(sites) > 0
								for _, site := range sites {
									si, isIn := site.(ssa.Instruction)
									if !isIn || site.Parent() == nil || site.Common().StaticCallee() != f {
										allCount = false
										continue
									}
									if leaks(site.Parent(), si.Block(), an.InstrIndex(si)+1, depth+1) != token.NoPos {
										allCount = false
									}
								}
								if allCount {
									return
								}
							}
							bad = x.Pos()
							if bad == token.NoPos {
								bad = f.Pos()
							}
							return
						}
					}
					for _, sc := range b.Succs {
						if !seen[sc] {
							seen[sc] = true
							walk(sc, 0)
						}
					}
				}
				walk(b0, start0)
				return bad
			}
			n := 0
			for _, fn := range c.P.Funcs("") {
				k := 0
				for _, b := range fn.Blocks {
					for ii, in := range b.Instrs {
						zero := false
						what := ""
						switch x := in.(type) {
						case *ssa.Store:
							if isCounterAddr(x.Addr) {
								if kk, isC := an.ConstInt(x.Val); isC && kk < 1 {
									zero, what = true, fmt.Sprintf("the counter is set to %d", kk)
								}
							}
						case *ssa.Alloc:
							if _, isEntry := counterField(x.Type()); isEntry && x.Heap {
								zero, what = true, "a new entry is allocated with its counter at zero"
							}
						}
						if !zero {
							continue
						}
						n++
						k++
						key := fmt.Sprintf("counted:%s#%d", kn(c.P.FuncName(fn)), k)
						pos := leaks(fn, b, ii+1, 0)
						c.Check(pos == token.NoPos, key, in.Pos(), "after %s at %s the current request is counted on every path to the return of %s: %v%s", what, c.P.Pos(in.Pos()), c.P.FuncName(fn), pos == token.NoPos, map[bool]string{true: "", false: fmt.Sprintf(" (return at %s reachable with the counter still at zero) — the request that opens an accounting window is not counted in it: the address is served one request more than the configured limit in that window", c.P.Pos(pos))}[pos == token.NoPos])
					}
				}
			}
			if n == 0 {
				c.Unresolved("accounting-entries", "no accounting entry (struct with a window start and a counter) is created or reset in the server package")
			}
		}})
}
