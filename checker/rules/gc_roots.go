package rules

import (
	"fmt"
	"go/token"
	"go/types"
	"sort"
	"strings"

	"golang.org/x/tools/go/ssa"

	"olacheck/an"
	"olacheck/core"
)

// SH-ROOTS: the root selection of the collector, decided over the policy atoms.
//
// The loop that ranges over the entries of the index under collection decides, per entry, whether the
// entry is appended to the mark worklist. Its branch conditions are comparisons of a small set of
// facts about the entry and the policy (atoms). Every path through one iteration is enumerated with
// the atoms it decides (a path condition: a conjunction of literals) and with whether the entry was
// appended. A must-root condition M (from the property: tagged / untagged collection off / younger
// than the grace period) is violated by a path whose literals are consistent with M and that does not
// append the entry; a must-drop condition N (exactness) by a consistent path that appends it.

func init() {
	register(&Rule{ID: "SH-ROOTS", Floor: 7,
		Doc: "path conditions of the collector's root-selection loop over the policy atoms (tagged, subject annotation, untagged collection on, grace period on, blob readable, blob recent): every path consistent with ‘tagged’, ‘untagged collection off’ or ‘recent within the grace period’ (entries other than referrers responses) appends the entry to the mark worklist; every path consistent with ‘untagged, collectable and old’ does not",
		Run: runRoots})
}

type rootAtom int

const (
	atomA rootAtom = iota // annotations map non-nil
	atomT                 // tag annotation non-empty
	atomS                 // referrers-subject annotation non-empty
	atomU                 // untagged collection on
	atomG                 // grace period on (>= 0)
	atomK                 // blobMeta of the entry succeeded
	atomR                 // blob newer than the cut-off
	atomE                 // the subject of a referrers response exists
	atomW                 // referrers are kept with their subject (ReferrersWithSubj)
	atomD                 // dangling referrers are collected (ReferrersDangling)
	nAtoms
)

var rootAtomNames = [...]string{"annotations≠nil", "tagged", "referrers-response", "untagged-collection-on", "grace-on", "blob-readable", "recent", "subject-exists", "referrers-with-subject", "dangling-collection-on"}

type rootLits [nAtoms]int8 // 0 unknown, +1 true, -1 false

func (l rootLits) String() string {
	var out []string
	for i, v := range l {
		if v > 0 {
			out = append(out, rootAtomNames[i])
		} else if v < 0 {
			out = append(out, "¬"+rootAtomNames[i])
		}
	}
	return strings.Join(out, " ∧ ")
}

func (l rootLits) consistent(m rootLits) bool {
	for i := range l {
		if l[i] != 0 && m[i] != 0 && l[i] != m[i] {
			return false
		}
	}
	return true
}

// indexParamPath: access path of v relative to a parameter of the named type Index (also when the
// parameter is spilled into a local whose address is taken).
func indexParamPath(v ssa.Value) ([]string, bool) {
	root, pth := accessPath(an.Strip(v))
	if al, isAlloc := root.(*ssa.Alloc); isAlloc && al.Referrers() != nil {
		var whole []ssa.Value
		for _, ref := range *al.Referrers() {
			if st, ok := ref.(*ssa.Store); ok && st.Addr == ssa.Value(al) {
				whole = append(whole, st.Val)
			}
		}
		if len(whole) == 1 {
			root = whole[0]
		}
	}
	if _, isParam := root.(*ssa.Parameter); !isParam {
		return nil, false
	}
	n := an.NamedOf(an.Deref(root.Type()))
	if n == nil || n.Obj().Name() != "Index" {
		return nil, false
	}
	return pth, true
}

func runRoots(c *core.Ctx) {
	r := requireRoles(c)
	if r == nil {
		return
	}
	refName := constValue(c, "types", "AnnotRefName")
	refSubj := constValue(c, "types", "AnnotReferrerSubject")
	if refName == "" || refSubj == "" {
		c.Unresolved("annotations", "annotation constants AnnotRefName / AnnotReferrerSubject not found")
		return
	}
	// the root loop: in the shared store code, a loop whose body reads entries of an index parameter and
	// appends to a slice of descriptors (the mark worklist), in a function that is, or (transitively) calls, or
	// is called next to, the sweep; with one collector in the code base the loop is unique
	isEntry := func(v ssa.Value) bool {
		p, ok := indexParamPath(v)
		return ok && len(p) >= 2 && p[0] == "Manifests" && p[1] == "[]"
	}
	entryPath := func(v ssa.Value, tail ...string) bool {
		p, ok := indexParamPath(v)
		if !ok || len(p) != 2+len(tail) || p[0] != "Manifests" || p[1] != "[]" {
			return false
		}
		for i, t := range tail {
			if p[2+i] != t {
				return false
			}
		}
		return true
	}
	isWorkAppend := func(in ssa.Instruction) bool {
		call, ok := in.(*ssa.Call)
		if !ok {
			return false
		}
		bi, ok := call.Call.Value.(*ssa.Builtin)
		if !ok || bi.Name() != "append" || len(call.Call.Args) != 2 {
			return false
		}
		return strings.HasSuffix(call.Call.Args[0].Type().String(), "types.Descriptor") && strings.HasPrefix(call.Call.Args[0].Type().String(), "[]")
	}
	hasSweep := false
	for _, f := range sharedStoreFuncs(c) {
		an.Calls(f, func(call ssa.CallInstruction) {
			cc, ok := call.(*ssa.Call)
			if ok && cc.Call.IsInvoke() && cc.Call.Method.Name() == "blobDelete" && an.NamedOf(cc.Call.Value.Type()) == r.IRepo {
				hasSweep = true
			}
		})
	}
	if !hasSweep {
		c.Unresolved("collector", "no shared collector with a blobDelete call")
		return
	}
	var fn *ssa.Function
	var h *ssa.BasicBlock
	for _, f := range sharedStoreFuncs(c) {
		// the function works on an index it returns changed: (types.Index, ...) results, or a result record holding it — or
		// it is the mark phase such a function hands its index to (marks := repoGCMark(repo, conf, index, locked))
		if !returnsIndex(f) {
			markStep := false
			for _, site := range c.P.Callers(f) {
				if g := site.Parent(); g != nil && site.Common().StaticCallee() == f && returnsIndex(g) && r.FamilyOfFunc(g) == nil {
					for _, a := range site.Common().Args {
						if isNamed(a.Type(), r.TypesPath, "Index") {
							markStep = true
						}
					}
				}
			}
			if !markStep {
				continue
			}
		}
		for _, b := range f.Blocks {
			for _, in := range b.Instrs {
				if !isWorkAppend(in) {
					continue
				}
				lh := loopHeader(b)
				if lh == nil {
					continue
				}
				reads := false
				for _, lb := range f.Blocks {
					if lb != lh && !(an.BlockReaches(lh, lb) && an.BlockReaches(lb, lh)) {
						continue
					}
					for _, li := range lb.Instrs {
						if v, ok := li.(ssa.Value); ok && isEntry(v) {
							reads = true
						}
					}
				}
				if reads && (h == nil || (f == fn && lh.Index < h.Index)) {
					h, fn = lh, f
				}
			}
		}
	}
	if h == nil {
		c.Unresolved("root-loop", "%s", "the shared collector has no loop over the entries of its index parameter that appends to the mark worklist")
		return
	}
	inLoopBody := func(b *ssa.BasicBlock) bool { return b != h && an.BlockReaches(h, b) && an.BlockReaches(b, h) }

	// --- atom recognition on a branch condition
	metaCallOfEntry := func(v ssa.Value) bool {
		// v is (an extract of) a blobMeta call keyed by the entry's digest
		ex, ok := an.Strip(v).(*ssa.Extract)
		if !ok {
			return false
		}
		call, ok := ex.Tuple.(*ssa.Call)
		if !ok || !call.Call.IsInvoke() || call.Call.Method.Name() != "blobMeta" || len(call.Call.Args) == 0 {
			return false
		}
		return entryPath(call.Call.Args[0], "Digest")
	}
	found := map[rootAtom]bool{}
	// atomOf returns the atom a condition decides and the polarity of the condition being true.
	atomOf := func(cond ssa.Value) (rootAtom, int8, bool) {
		base, neg := an.CondBase(cond)
		pol := int8(1)
		if neg {
			pol = -1
		}
		switch x := base.(type) {
		case *ssa.BinOp:
			switch x.Op {
			case token.EQL, token.NEQ:
				if x.Op == token.EQL {
					pol = -pol
				}
				other, k := x.X, x.Y
				if _, isConst := other.(*ssa.Const); isConst {
					other, k = x.Y, x.X
				}
				kc, isConst := k.(*ssa.Const)
				if !isConst {
					return 0, 0, false
				}
				if kc.Value == nil {
					if entryPath(other, "Annotations") {
						return atomA, pol, true
					}
					// err == nil of blobMeta(entry digest): polarity flips (non-nil error = not readable)
					if metaCallOfEntry(other) {
						return atomK, -pol, true
					}
					return 0, 0, false
				}
				if s, ok := an.ConstString(kc); ok && s == "" {
					if lk, ok := an.Strip(other).(*ssa.Lookup); ok && entryPath(lk.X, "Annotations") {
						if ks, ok := constStringOf(lk.Index); ok {
							switch ks {
							case refName:
								return atomT, pol, true
							case refSubj:
								return atomS, pol, true
							}
						}
					}
				}
			case token.GEQ, token.LSS:
				if x.Op == token.LSS {
					pol = -pol
				}
				if kc, ok := x.Y.(*ssa.Const); ok {
					if n, ok := an.ConstInt(kc); ok && n == 0 {
						_, p := accessPath(an.Strip(x.X))
						if len(p) > 0 && p[len(p)-1] == "GracePeriod" {
							return atomG, pol, true
						}
					}
				}
			}
		case *ssa.UnOp:
			if x.Op == token.MUL {
				_, p := accessPath(x)
				if len(p) > 0 {
					switch p[len(p)-1] {
					case "Untagged":
						return atomU, pol, true
					case "ReferrersWithSubj":
						return atomW, pol, true
					case "ReferrersDangling":
						return atomD, pol, true
					}
				}
			}
		case *ssa.Call:
			after := an.IsMethod(x, "time", "Time", "After")
			before := an.IsMethod(x, "time", "Time", "Before")
			if (after || before) && len(x.Call.Args) == 2 {
				isStamp := func(v ssa.Value) bool {
					root, p := accessPath(an.Strip(v))
					if al, ok := root.(*ssa.Alloc); ok {
						if s := an.SingleStore(al); s != nil {
							root = s
						}
					}
					return len(p) > 0 && p[len(p)-1] == "mod" && metaCallOfEntry(root)
				}
				switch {
				case isStamp(x.Call.Args[0]) && !isStamp(x.Call.Args[1]):
					// stamp.After(cutoff): recent; stamp.Before(cutoff): old
					if before {
						pol = -pol
					}
					return atomR, pol, true
				case isStamp(x.Call.Args[1]) && !isStamp(x.Call.Args[0]):
					// cutoff.Before(stamp): recent; cutoff.After(stamp): old
					if after {
						pol = -pol
					}
					return atomR, pol, true
				}
			}
		}
		return 0, 0, false
	}

	// the ‘subject exists’ variable: a boolean phi with a constant-false edge whose other operands derive from
	// the digest parsed out of the entry's subject annotation (and the blobMeta lookup of that digest)
	var fromSubject func(v ssa.Value, d int) bool
	fromSubject = func(v ssa.Value, d int) bool {
		if v == nil || d > 8 {
			return false
		}
		switch x := an.Strip(v).(type) {
		case *ssa.Lookup:
			if ks, ok := constStringOf(x.Index); ok && ks == refSubj && entryPath(x.X, "Annotations") {
				return true
			}
		case *ssa.Extract:
			return fromSubject(x.Tuple, d+1)
		case *ssa.Call:
			for _, a := range x.Call.Args {
				if fromSubject(a, d+1) {
					return true
				}
			}
		case *ssa.BinOp:
			return fromSubject(x.X, d+1) || fromSubject(x.Y, d+1)
		case *ssa.UnOp:
			return fromSubject(x.X, d+1)
		case *ssa.Phi:
			for _, e := range x.Edges {
				if fromSubject(e, d+1) {
					return true
				}
			}
		}
		return false
	}
	// a conjunction that merely contains the variable (`referrersWithSubject && subjExists`, materialised as a φ with
	// a short-circuit false edge) is not the variable: none of the φ's operands may itself be one
	var isSubjExistsD func(v ssa.Value, d int) bool
	isSubjExistsD = func(v ssa.Value, d int) bool {
		phi, ok := v.(*ssa.Phi)
		if !ok || d > 4 {
			return false
		}
		hasFalse := false
		for _, e := range phi.Edges {
			if bv, ok := an.ConstBool(e); ok && !bv {
				hasFalse = true
				continue
			}
			if eb, _ := an.CondBase(e); eb != nil && eb != ssa.Value(phi) && isSubjExistsD(eb, d+1) {
				return false
			}
		}
		return hasFalse && fromSubject(phi, 0)
	}
	isSubjExists := func(v ssa.Value) bool { return isSubjExistsD(v, 0) }

	// --- path enumeration over one iteration
	type outcome struct {
		lits     rootLits
		appended bool // the entry was appended to the mark worklist or attached to its subject (deferred root)
		last     token.Pos
	}
	isDeferral := func(in ssa.Instruction) bool {
		mu, ok := in.(*ssa.MapUpdate)
		if !ok {
			return false
		}
		ts := mu.Map.Type().String()
		if !(strings.HasPrefix(ts, "map[") && strings.HasSuffix(ts, "types.Descriptor") && !strings.Contains(ts, "[]")) {
			return false
		}
		// keyed by the subject, not by the entry's own digest: `subjects[d.Digest] = d` attaches the response to itself
		var owner types.Type
		var fname string
		switch k := an.Strip(mu.Key).(type) {
		case *ssa.Field:
			owner = k.X.Type()
			if st, ok := owner.Underlying().(*types.Struct); ok {
				fname = st.Field(k.Field).Name()
			}
		case *ssa.UnOp:
			if fa, ok := k.X.(*ssa.FieldAddr); ok && k.Op == token.MUL {
				owner = an.Deref(fa.X.Type())
				if st, ok := owner.Underlying().(*types.Struct); ok {
					fname = st.Field(fa.Field).Name()
				}
			}
		}
		if owner != nil && fname == "Digest" && isNamed(owner, getRoles(c).TypesPath, "Descriptor") {
			return false
		}
		return true
	}
	var outs []outcome
	nPaths := 0
	// a boolean variable on a path is a known constant, or stands for a literal over one atom (a condition
	// computed into a variable — `keep := tagged || …` — and branched on later)
	var walk func(b *ssa.BasicBlock, pred *ssa.BasicBlock, lits rootLits, env map[ssa.Value]symBool, appended bool, last token.Pos, onPath map[*ssa.BasicBlock]bool)
	walk = func(b *ssa.BasicBlock, pred *ssa.BasicBlock, lits rootLits, env map[ssa.Value]symBool, appended bool, last token.Pos, onPath map[*ssa.BasicBlock]bool) {
		if nPaths > 200000 {
			return
		}
		if b == h || !inLoopBody(b) {
			if b == h {
				nPaths++
				outs = append(outs, outcome{lits, appended, last})
			}
			// leaving the loop from the body (break/return): not an iteration outcome
			return
		}
		if onPath[b] {
			return // inner loop: one unrolling is enough for the atoms
		}
		onPath[b] = true
		defer delete(onPath, b)
		// phis
		env2 := make(map[ssa.Value]symBool, len(env)+2)
		for k, v := range env {
			env2[k] = v
		}
		pi := -1
		for i, p := range b.Preds {
			if p == pred {
				pi = i
			}
		}
		for _, in := range b.Instrs {
			phi, ok := in.(*ssa.Phi)
			if !ok {
				break
			}
			delete(env2, phi)
			if pi < 0 || pi >= len(phi.Edges) {
				continue
			}
			e := phi.Edges[pi]
			if k, ok := e.(*ssa.Const); ok {
				if bv, ok := an.ConstBool(k); ok {
					env2[phi] = symBool{known: true, val: bv}
				}
			} else if sv, ok := env[e]; ok {
				env2[phi] = sv
			} else if eb, eneg := an.CondBase(e); eb != nil {
				if sv, ok := env[eb]; ok {
					if eneg {
						sv = sv.not()
					}
					env2[phi] = sv
				} else if isSubjExists(eb) {
					// the variable itself flows into this φ: decided when branched on
					env2[phi] = symBool{alias: eb, aliasNeg: eneg}
				} else if _, isBool := e.Type().Underlying().(*types.Basic); isBool && e.Type().Underlying().(*types.Basic).Kind() == types.Bool {
					if at, pol, ok := atomOf(e); ok {
						found[at] = true
						if lits[at] != 0 {
							env2[phi] = symBool{known: true, val: lits[at] == pol}
						} else {
							env2[phi] = symBool{atom: at, pol: pol, isAtom: true}
						}
					}
				}
			}
		}
		for _, in := range b.Instrs {
			if isWorkAppend(in) || isDeferral(in) {
				appended = true
			}
		}
		ifi := an.BlockIf(b)
		if ifi == nil {
			for _, s := range b.Succs {
				walk(s, b, lits, env2, appended, last, onPath)
			}
			return
		}
		base, neg := an.CondBase(ifi.Cond)
		for k := 0; k < 4; k++ {
			sv, ok := env2[base]
			if !ok || sv.alias == nil {
				break
			}
			base = sv.alias
			if sv.aliasNeg {
				neg = !neg
			}
		}
		// branchAtom splits the path on an atom; condPol is the polarity of the atom when the condition holds
		branchAtom := func(at rootAtom, condPol int8, envFor func(val bool) map[ssa.Value]symBool) {
			found[at] = true
			for si := 0; si < 2; si++ {
				v := condPol
				if si == 1 {
					v = -condPol
				}
				if lits[at] != 0 && lits[at] != v {
					continue // contradicts an earlier decision on this path
				}
				l2 := lits
				l2[at] = v
				if at == atomA && v < 0 {
					// no annotations: neither a tag nor a subject annotation
					if l2[atomT] > 0 || l2[atomS] > 0 {
						continue
					}
					l2[atomT], l2[atomS] = -1, -1
				}
				if (at == atomT || at == atomS) && v > 0 {
					if l2[atomA] < 0 {
						continue
					}
					l2[atomA] = 1
				}
				walk(b.Succs[si], b, l2, envFor(si == 0), appended, ifi.Cond.Pos(), onPath)
			}
		}
		if sv, ok := env2[base]; ok && sv.isAtom {
			if lits[sv.atom] != 0 {
				sv = symBool{known: true, val: lits[sv.atom] == sv.pol}
			} else {
				pol := sv.pol
				if neg {
					pol = -pol
				}
				branchAtom(sv.atom, pol, func(condTrue bool) map[ssa.Value]symBool {
					env3 := make(map[ssa.Value]symBool, len(env2)+1)
					for k, x := range env2 {
						env3[k] = x
					}
					env3[base] = symBool{known: true, val: condTrue != neg}
					return env3
				})
				return
			}
			env2[base] = sv
		}
		if sv, ok := env2[base]; ok && sv.known {
			bv := sv.val
			if isSubjExists(base) {
				found[atomE] = true
				v := int8(-1)
				if bv {
					v = 1
				}
				if lits[atomE] != 0 && lits[atomE] != v {
					return
				}
				lits[atomE] = v
			}
			if neg {
				bv = !bv
			}
			si := 1
			if bv {
				si = 0
			}
			walk(b.Succs[si], b, lits, env2, appended, last, onPath)
			return
		}
		if isSubjExists(base) {
			found[atomE] = true
			for _, val := range []bool{true, false} {
				v := int8(-1)
				if val {
					v = 1
				}
				if lits[atomE] != 0 && lits[atomE] != v {
					continue
				}
				l2 := lits
				l2[atomE] = v
				env3 := make(map[ssa.Value]symBool, len(env2)+1)
				for k, x := range env2 {
					env3[k] = x
				}
				env3[base] = symBool{known: true, val: val}
				si := 1
				if val != neg {
					si = 0
				}
				walk(b.Succs[si], b, l2, env3, appended, ifi.Cond.Pos(), onPath)
			}
			return
		}
		if at, pol, ok := atomOf(ifi.Cond); ok {
			branchAtom(at, pol, func(bool) map[ssa.Value]symBool { return env2 })
			return
		}
		for _, s := range b.Succs {
			walk(s, b, lits, env2, appended, last, onPath)
		}
	}
	for i, s := range h.Succs {
		_ = i
		if inLoopBody(s) {
			walk(s, h, rootLits{}, map[ssa.Value]symBool{}, false, token.NoPos, map[*ssa.BasicBlock]bool{})
		}
	}
	if len(outs) == 0 {
		c.Unresolved("root-loop-paths", "no iteration path of the root-selection loop could be enumerated")
		return
	}
	var missing []string
	for a := rootAtom(0); a < nAtoms; a++ {
		if !found[a] && a != atomA {
			missing = append(missing, rootAtomNames[a])
		}
	}
	if len(missing) > 0 {
		c.Unresolved("policy-atoms", "%s", fmt.Sprintf("the root-selection loop of %s does not test %v in a recognised form: its policy cannot be decided", c.P.FuncName(fn), missing))
		return
	}
	mk := func(kv ...int) rootLits {
		var l rootLits
		for i := 0; i+1 < len(kv); i += 2 {
			l[kv[i]] = int8(kv[i+1])
		}
		return l
	}
	type req struct {
		key, text string
		cond      rootLits
		root      bool
		tag       string
	}
	reqs := []req{
		{"root:tagged", "a tagged entry is a root of the mark phase", mk(int(atomT), 1, int(atomS), -1), true, "safety"},
		{"root:untagged-collection-off", "with untagged collection off every entry is a root", mk(int(atomU), -1, int(atomS), -1), true, "safety"},
		{"root:recent", "an entry whose manifest is younger than the grace period is a root", mk(int(atomG), 1, int(atomK), 1, int(atomR), 1, int(atomS), -1), true, "safety"},
		{"root:referrers-of-existing-subject", "a referrers response whose subject exists is a root or is attached to its subject (kept exactly when the subject is)", mk(int(atomS), 1, int(atomE), 1), true, "safety"},
		{"root:referrers-dangling-off", "with dangling collection off every referrers response is a root or attached to its subject", mk(int(atomS), 1, int(atomD), -1), true, "safety"},
		{"drop:no-grace", "an untagged entry is not a root when untagged collection is on and no grace period applies", mk(int(atomU), 1, int(atomT), -1, int(atomS), -1, int(atomG), -1), false, "exact"},
		{"drop:old", "an untagged entry older than the grace period is not a root when untagged collection is on", mk(int(atomU), 1, int(atomT), -1, int(atomS), -1, int(atomG), 1, int(atomK), 1, int(atomR), -1), false, "exact"},
	}
	sort.SliceStable(outs, func(i, j int) bool { return outs[i].lits.String() < outs[j].lits.String() })
	for _, q := range reqs {
		var bad *outcome
		nCons := 0
		for i := range outs {
			o := &outs[i]
			if !o.lits.consistent(q.cond) {
				continue
			}
			nCons++
			if q.root != o.appended && bad == nil {
				bad = o
			}
		}
		c.SetTags(q.tag)
		if bad == nil {
			c.Pass(q.key, h.Instrs[0].Pos(), "%s", fmt.Sprintf("%s: the %d of %d iteration paths of the root-selection loop of %s that are consistent with [%s] agree", q.text, nCons, len(outs), c.P.FuncName(fn), q.cond))
		} else {
			verb := "neither appends the entry to the mark worklist nor attaches it to its subject"
			if !q.root {
				verb = "appends the entry to the mark worklist"
			}
			c.Fail(q.key, bad.last, "%s", fmt.Sprintf("%s: the iteration path [%s] of the root-selection loop of %s (last decision at %s) %s", q.text, bad.lits, c.P.FuncName(fn), c.P.Pos(bad.last), verb))
		}
	}
}

// symBool is the value of a boolean variable along one enumerated path.
type symBool struct {
	known  bool
	val    bool
	isAtom bool
	atom   rootAtom
	pol    int8 // polarity of the atom when the variable is true
	// alias: the variable has the value of another boolean (possibly negated) that is decided when branched on
	alias    ssa.Value
	aliasNeg bool
}

func (s symBool) not() symBool {
	if s.known {
		s.val = !s.val
	}
	if s.isAtom {
		s.pol = -s.pol
	}
	if s.alias != nil {
		s.aliasNeg = !s.aliasNeg
	}
	return s
}

func constStringOf(v ssa.Value) (string, bool) {
	if k, ok := an.Strip(v).(*ssa.Const); ok {
		return an.ConstString(k)
	}
	return "", false
}
