package rules

import (
	"fmt"
	"go/token"
	"go/types"
	"strings"

	"golang.org/x/tools/go/ssa"

	"olacheck/an"
	"olacheck/core"
)

const digestPkg = "github.com/opencontainers/go-digest"

// hashSite is a digest computed from bytes together with the blob created for it and the index
// entries that name it.
type hashSite struct {
	fn      *ssa.Function
	from    *ssa.Call   // Algorithm.FromBytes(x), or the call of a helper that returns such a digest of one of its arguments
	dig     ssa.Value   // the digest value in fn: from itself, or the extracted result of the helper call
	alts    []ssa.Value // when dig is a φ: the digests of the same bytes (computed on different branches) it merges
	helper  *ssa.Function
	bytes   ssa.Value // origin of x
	create  ssa.CallInstruction
	session ssa.Value
	closes  []*ssa.Call
	writes  []ssa.CallInstruction
	inserts []ssa.CallInstruction // IndexInsert / Index.AddDesc of a descriptor whose Digest is the hash
	descs   []map[string][]ssa.Value
	// putHelper: the site is the call (create) of a helper that hashes and stores the bytes it is given and returns the
	// descriptor naming them; ‘stored’ is then the nil edge of the helper's error
	putHelper *ssa.Function
	// stepCreate: create is the call of a store step (see storeStepOf) that creates the session with the digest it is given,
	// writes the bytes it is given and closes: ‘stored’ is the nil edge of its error.  writeArg: for a write that is the
	// call of a store step, the bytes argument of that call.
	stepCreate bool
	writeArg   map[ssa.CallInstruction]ssa.Value
}

// storeStep: a function of the module that stores bytes it is given: into a session it is given (sessParam ≥ 0), or into
// one it creates with the digest it is given (digParam ≥ 0).  It qualifies when every Write on that session writes the
// bytes parameter and every return with a nil error has passed the ok-edge of Close on the session or the ‘already
// exists’ edge of the creation.
type storeStep struct {
	fn                              *ssa.Function
	sessParam, digParam, bytesParam int
}

func storeStepOf(c *core.Ctx, r *Roles, h *ssa.Function) *storeStep {
	memo := core.Memo(c, "storesteps", func() map[*ssa.Function]*storeStep { return map[*ssa.Function]*storeStep{} })
	if v, ok := memo[h]; ok {
		return v
	}
	memo[h] = nil
	if h == nil || h.Parent() != nil || len(h.Blocks) == 0 || !strings.HasPrefix(core.FuncPkgPath(h), c.P.Module) {
		return nil
	}
	res := h.Signature.Results()
	if res.Len() == 0 || !an.IsErrorType(res.At(res.Len()-1).Type()) {
		return nil
	}
	st := &storeStep{fn: h, sessParam: -1, digParam: -1, bytesParam: -1}
	for i, p := range h.Params {
		if sl, ok := p.Type().Underlying().(*types.Slice); ok {
			if b, ok := sl.Elem().Underlying().(*types.Basic); ok && b.Kind() == types.Byte {
				if st.bytesParam >= 0 {
					return nil
				}
				st.bytesParam = i
			}
		}
	}
	if st.bytesParam < 0 {
		return nil
	}
	var sess ssa.Value
	var create *ssa.Call
	var closes []*ssa.Call
	okW, nW := true, 0
	an.Calls(h, func(call ssa.CallInstruction) {
		if _, isDefer := call.(*ssa.Defer); isDefer {
			return
		}
		if !r.IsAPI(call, "BlobCreator", "Write", "Close") {
			return
		}
		so := an.Origin(call.Common().Value)
		if sess == nil {
			sess = so
		} else if sess != so {
			okW = false
		}
		if r.IsAPI(call, "BlobCreator", "Close") {
			if cc, ok := call.(*ssa.Call); ok {
				closes = append(closes, cc)
			}
			return
		}
		nW++
		_, args := an.CallArgs(call)
		if len(args) == 0 || an.Origin(args[0]) != ssa.Value(h.Params[st.bytesParam]) {
			okW = false
		}
	})
	if !okW || nW == 0 || len(closes) == 0 || sess == nil {
		return nil
	}
	if p, isParam := sess.(*ssa.Parameter); isParam {
		for i, q := range h.Params {
			if q == p {
				st.sessParam = i
			}
		}
	} else if cr, idx := an.CallOf(sess); cr != nil && idx <= 0 && isBlobCreate(r, cr) {
		create = cr
		ds, known := withDigestArgs(r, cr)
		if !known || len(ds) != 1 {
			return nil
		}
		if p, isParam := an.Origin(ds[0]).(*ssa.Parameter); isParam {
			for i, q := range h.Params {
				if q == p {
					st.digParam = i
				}
			}
		}
	}
	if st.sessParam < 0 && st.digParam < 0 {
		return nil
	}
	// every nil return has passed ‘closed without error’ or ‘already exists’
	isClose := map[ssa.Value]bool{}
	for _, cl := range closes {
		isClose[cl] = true
	}
	var createErr ssa.Value
	if create != nil {
		createErr = an.ErrResult(create)
	}
	bad := false
	an.Paths(an.PathSpec[bool]{Fn: h, Init: false,
		Instr: func(stored bool, in ssa.Instruction) []bool {
			if ret, ok := in.(*ssa.Return); ok && retErrNil(ret) && !stored {
				bad = true
			}
			return []bool{stored}
		},
		Edge: func(stored bool, from *ssa.BasicBlock, succ int) (bool, bool) {
			ifi := an.BlockIf(from)
			if ifi == nil {
				return stored, true
			}
			if x, nilSucc, ok := an.NilTest(ifi); ok && succ == nilSucc {
				for _, o := range append([]ssa.Value{x}, an.Origins(x)...) {
					if isClose[o] {
						return true, true
					}
				}
			}
			if x, tgt, trueSucc, ok := an.ErrIsTest(ifi); ok && succ == trueSucc && createErr != nil && an.IsGlobalLoad(tgt, r.TypesPath, "ErrBlobExists") {
				for _, o := range append([]ssa.Value{x}, an.Origins(x)...) {
					if o == createErr {
						return true, true
					}
				}
			}
			return stored, true
		}})
	if bad {
		return nil
	}
	memo[h] = st
	return st
}

// isDig reports whether v is the digest of the site (or, for a merged site, one of its branch-local digests).
func (hs *hashSite) isDig(v ssa.Value) bool {
	o, st := an.Origin(v), an.Strip(v)
	if o == hs.dig || st == hs.dig {
		return true
	}
	for _, a := range hs.alts {
		if o == a || st == a {
			return true
		}
	}
	return false
}

func isIndexInsert(r *Roles, call ssa.CallInstruction) bool {
	return r.IsAPI(call, "Repo", "IndexInsert") || an.IsMethod(call, r.TypesPath, "Index", "AddDesc")
}

func hashSites(c *core.Ctx) []*hashSite {
	return core.Memo(c, "hashsites", func() []*hashSite {
		r := getRoles(c)
		var out []*hashSite
		funcs := append(append([]*ssa.Function{}, serverFuncs(c)...), sharedStoreFuncs(c)...)
		for _, fn := range funcs {
			var cands []*hashSite
			an.Calls(fn, func(call ssa.CallInstruction) {
				fc, ok := call.(*ssa.Call)
				if !ok {
					return
				}
				if an.IsMethod(call, digestPkg, "Algorithm", "FromBytes") && len(fc.Call.Args) == 2 {
					cands = append(cands, &hashSite{fn: fn, from: fc, dig: fc, bytes: an.Origin(fc.Call.Args[1])})
				} else if h, ri, pi, ok := hashingHelper(c, fc); ok {
					// a helper of this module that returns the digest of one of its arguments
					var dv ssa.Value = fc
					if fc.Call.Signature().Results().Len() > 1 {
						dv = nil
						if fc.Referrers() != nil {
							for _, ref := range *fc.Referrers() {
								if ex, ok := ref.(*ssa.Extract); ok && ex.Index == ri {
									dv = ex
								}
							}
						}
					}
					if dv != nil && pi < len(fc.Call.Args) {
						cands = append(cands, &hashSite{fn: fn, from: fc, dig: dv, helper: h, bytes: an.Origin(fc.Call.Args[pi])})
					}
				}
			})
			// digests of the same bytes computed on different branches (one per algorithm choice) and merged in a φ
			// are one site
			an.Instrs(fn, func(in ssa.Instruction) {
				phi, ok := in.(*ssa.Phi)
				if !ok || len(phi.Edges) < 2 {
					return
				}
				var parts []*hashSite
				for _, e := range phi.Edges {
					var m *hashSite
					for _, cd := range cands {
						if len(cd.alts) == 0 && (an.Strip(e) == cd.dig || an.Origin(e) == cd.dig) {
							m = cd
						}
					}
					if m == nil || (len(parts) > 0 && (m.bytes != parts[0].bytes || m.helper != parts[0].helper)) {
						return
					}
					parts = append(parts, m)
				}
				merged := &hashSite{fn: fn, from: parts[0].from, dig: phi, helper: parts[0].helper, bytes: parts[0].bytes}
				var rest []*hashSite
				for _, cd := range cands {
					isPart := false
					for _, pt := range parts {
						if pt == cd {
							isPart = true
						}
					}
					if isPart {
						merged.alts = append(merged.alts, cd.dig)
					} else {
						rest = append(rest, cd)
					}
				}
				cands = append(rest, merged)
			})
			for _, hs := range cands {
				isDig := hs.isDig
				an.Calls(fn, func(c2 ssa.CallInstruction) {
					if isBlobCreate(r, c2) {
						if ds, _ := withDigestArgs(r, c2); len(ds) > 0 {
							for _, d := range ds {
								if isDig(d) {
									hs.create = c2
								}
							}
						}
					}
					if isIndexInsert(r, c2) {
						_, args := an.CallArgs(c2)
						if len(args) > 0 {
							ss := structStores(args[0])
							if len(ss) == 0 {
								ss = literalStores(c, args[0]) // the entry built by a helper of the package
							}
							for _, dv := range ss["Digest"] {
								if isDig(dv) {
									hs.inserts = append(hs.inserts, c2)
									hs.descs = append(hs.descs, ss)
								}
							}
						}
					}
				})
				if hs.create != nil {
					if cv, ok := hs.create.(*ssa.Call); ok {
						an.Calls(fn, func(c3 ssa.CallInstruction) {
							if _, isDefer := c3.(*ssa.Defer); isDefer {
								return
							}
							if !r.IsAPI(c3, "BlobCreator", "Close", "Write") {
								return
							}
							so, idx := an.CallOf(an.Origin(c3.Common().Value))
							if so != cv || idx != 0 {
								return
							}
							if r.IsAPI(c3, "BlobCreator", "Close") {
								if cc, ok := c3.(*ssa.Call); ok {
									hs.closes = append(hs.closes, cc)
								}
							} else {
								hs.writes = append(hs.writes, c3)
							}
						})
					}
				}
				// store steps: the creation, writing and closing handed to a function of the module
				an.Calls(fn, func(c2 ssa.CallInstruction) {
					cc, ok := c2.(*ssa.Call)
					if !ok {
						return
					}
					step := storeStepOf(c, r, cc.Call.StaticCallee())
					if step == nil || len(cc.Call.Args) != len(step.fn.Params) {
						return
					}
					switch {
					case step.digParam >= 0 && hs.create == nil && isDig(cc.Call.Args[step.digParam]):
						hs.create, hs.stepCreate = cc, true
					case step.sessParam >= 0 && hs.create != nil:
						cv, isCall := hs.create.(*ssa.Call)
						if so, idx := an.CallOf(an.Origin(cc.Call.Args[step.sessParam])); !isCall || so != cv || idx > 0 {
							return
						}
						hs.closes = append(hs.closes, cc)
					default:
						return
					}
					hs.writes = append(hs.writes, cc)
					if hs.writeArg == nil {
						hs.writeArg = map[ssa.CallInstruction]ssa.Value{}
					}
					hs.writeArg[cc] = cc.Call.Args[step.bytesParam]
				})
				if hs.create != nil || len(hs.inserts) > 0 {
					out = append(out, hs)
				}
			}
		}
		// store-and-describe helpers: a function that hashes its bytes, creates the blob with that digest, and returns
		// (Descriptor with that digest, error); the descriptor is entered into the index by its callers
		for _, hs := range append([]*hashSite{}, out...) {
			if hs.create == nil || len(hs.inserts) > 0 || hs.fn.Parent() != nil {
				continue
			}
			res := hs.fn.Signature.Results()
			if res.Len() != 2 || !isNamed(res.At(0).Type(), r.TypesPath, "Descriptor") || !an.IsErrorType(res.At(1).Type()) {
				continue
			}
			// every return with a nil error returns a descriptor whose Digest is the hash
			okRet, nret := true, 0
			an.Instrs(hs.fn, func(in ssa.Instruction) {
				ret, ok := in.(*ssa.Return)
				if !ok || len(ret.Results) != 2 || !retErrNil(ret) {
					return
				}
				nret++
				ss := structStores(an.Origin(ret.Results[0]))
				if len(ss) == 0 {
					if u, ok := an.Strip(ret.Results[0]).(*ssa.UnOp); ok {
						ss = structStores(u.X)
					}
				}
				good := false
				for _, dv := range ss["Digest"] {
					if hs.isDig(dv) {
						good = true
					}
				}
				if !good {
					okRet = false
				}
			})
			if !okRet || nret == 0 {
				continue
			}
			bytesIdx := -1
			for i, p := range hs.fn.Params {
				if hs.bytes == ssa.Value(p) {
					bytesIdx = i
				}
			}
			for _, site := range c.P.Callers(hs.fn) {
				sc, ok := site.(*ssa.Call)
				if !ok || sc.Call.StaticCallee() != hs.fn {
					continue
				}
				caller := sc.Parent()
				d := &hashSite{fn: caller, from: sc, dig: sc, create: sc, putHelper: hs.fn}
				if bytesIdx >= 0 && bytesIdx < len(sc.Call.Args) {
					d.bytes = an.Origin(sc.Call.Args[bytesIdx])
				}
				an.Calls(caller, func(c2 ssa.CallInstruction) {
					if !isIndexInsert(r, c2) {
						return
					}
					_, args := an.CallArgs(c2)
					if len(args) == 0 {
						return
					}
					// the descriptor handed to the insert is the helper's result (kept in a local, annotations added)
					v := an.Strip(args[0])
					if u, ok := v.(*ssa.UnOp); ok {
						if whole := an.SingleStore(u.X); whole != nil {
							v = an.Strip(whole)
						}
					}
					if ex, ok := v.(*ssa.Extract); ok && ex.Tuple == ssa.Value(sc) && ex.Index == 0 {
						d.inserts = append(d.inserts, c2)
						d.descs = append(d.descs, map[string][]ssa.Value{})
					}
				})
				if len(d.inserts) > 0 {
					out = append(out, d)
				}
			}
		}
		return out
	})
}

type cfState struct {
	stored bool
	closed uint8
	errs   [4]an.ErrVal
}

func init() {
	register(&Rule{ID: "TS-HASHBYTES", Floor: 5,
		Doc: "where a digest is computed from bytes (Algorithm.FromBytes) and a blob is created with that digest, the bytes written into the session are the same value that was hashed, the index entry records that digest with Size = len(of the same bytes), and — when the function also parses a digest from the request — the two are compared and the mismatch edge does not reach the blob creation",
		Run: runHashBytes})
	register(&Rule{ID: "TS-CONTENT-FIRST", Floor: 2,
		Doc: "every index entry (IndexInsert / Index.AddDesc) naming a digest computed in the function is preceded on all paths by ‘blob stored’: the ok-edge of Close on the session created with that digest, or the ‘already exists’ edge of that BlobCreate (the abstract value of both errors is tracked along every path)",
		Run: runContentFirst})
}

func runHashBytes(c *core.Ctx) {
	r := requireRoles(c)
	if r == nil {
		return
	}
	count := map[string]int{}
	for _, hs := range hashSites(c) {
		if hs.putHelper != nil {
			continue // bytes and digest are the helper's business, checked at the helper's own site
		}
		name := kn(c.P.FuncName(hs.fn))
		count[name]++
		base := fmt.Sprintf("hash:%s#%d", name, count[name])
		ftags := siteTags(c, r, hs.fn)
		c.SetTags(ftags...)
		if hs.create == nil {
			c.Fail(base+":blob", hs.from.Pos(), "an index entry names the digest computed at %s but no blob is created with that digest in %s", c.P.Pos(hs.from.Pos()), name)
			continue
		}
		okW := len(hs.writes) > 0
		for _, w := range hs.writes {
			_, args := an.CallArgs(w)
			if wa, isStep := hs.writeArg[w]; isStep {
				args = []ssa.Value{wa}
			}
			if len(args) == 0 || an.Origin(args[0]) != hs.bytes {
				okW = false
			}
		}
		c.Check(okW, base+":written-bytes", hs.create.Pos(), "the bytes written into the blob created at %s are the value that was hashed at %s: %v (otherwise the stored content does not hash to its digest and the commit fails or, worse, the index names other bytes)", c.P.Pos(hs.create.Pos()), c.P.Pos(hs.from.Pos()), okW)
		for i, ins := range hs.inserts {
			okS := false
			for _, sv := range hs.descs[i]["Size"] {
				if x := lenOf(sv); x != nil && an.Origin(x) == hs.bytes {
					okS = true
				}
			}
			c.Check(okS, fmt.Sprintf("%s:size#%d", base, i+1), ins.Pos(), "the index entry inserted at %s records Size = len(hashed bytes): %v", c.P.Pos(ins.Pos()), okS)
		}
		// expected digest from the request
		// a digest the request declares: result 0 of digest.Parse, or the digest-typed result of a helper of the module some
		// return of which hands out such a parse (the parsing of query parameter and reference moved into a helper)
		type reqDig struct {
			call *ssa.Call
			idx  int
		}
		var parsed []reqDig
		isParsed := func(pc *ssa.Call, idx int) bool {
			for _, p := range parsed {
				if p.call == pc && p.idx == idx {
					return true
				}
			}
			return false
		}
		an.Calls(hs.fn, func(call ssa.CallInstruction) {
			cc, ok := call.(*ssa.Call)
			if !ok {
				return
			}
			if an.IsFunc(call, digestPkg, "Parse") {
				parsed = append(parsed, reqDig{cc, 0})
				return
			}
			h := cc.Call.StaticCallee()
			if h == nil || !strings.HasPrefix(core.FuncPkgPath(h), c.P.Module) || cc.Referrers() == nil {
				return
			}
			for _, ref := range *cc.Referrers() {
				ex, ok := ref.(*ssa.Extract)
				if !ok || !isNamed(ex.Type(), digestPkg, "Digest") {
					continue
				}
				for _, hr := range an.HelperReturns(ex, nil) {
					for _, o := range an.Origins(hr.Val) {
						if pc, idx := an.CallOf(o); pc != nil && idx == 0 && an.IsFunc(pc, digestPkg, "Parse") && !isParsed(cc, ex.Index) {
							parsed = append(parsed, reqDig{cc, ex.Index})
						}
					}
				}
			}
		})
		if len(parsed) == 0 {
			continue
		}
		okCmp, found := false, false
		comparedParses := map[reqDig]bool{}
		for _, b := range hs.fn.Blocks {
			ifi := an.BlockIf(b)
			if ifi == nil {
				continue
			}
			x, y, op, ok := an.CmpTest(ifi)
			if !ok || (op != token.EQL && op != token.NEQ) {
				continue
			}
			var other ssa.Value
			switch {
			case hs.isDig(x):
				other = y
			case hs.isDig(y):
				other = x
			default:
				continue
			}
			fromParse := false
			for _, o := range an.Origins(other) {
				if pc, idx := an.CallOf(o); pc != nil && isParsed(pc, idx) {
					fromParse = true
					comparedParses[reqDig{pc, idx}] = true
				}
			}
			if !fromParse {
				continue
			}
			found = true
			neqSucc := 0
			if op == token.EQL {
				neqSucc = 1
			}
			// the mismatch edge must not reach the blob creation
			reaches := false
			tb := b.Succs[neqSucc]
			if tb == hs.create.Block() || an.BlockReaches(tb, hs.create.Block()) {
				reaches = true
			}
			if !reaches {
				okCmp = true
			}
		}
		if !found && hs.helper != nil {
			// the helper compares the digest it computes with one of its arguments and returns the verdict as a boolean
			if bi, ei, eqTrue, ok := helperCompares(hs.helper); ok && ei < len(hs.from.Call.Args) {
				fromParse := false
				for _, o := range an.Origins(hs.from.Call.Args[ei]) {
					if pc, idx := an.CallOf(o); pc != nil && isParsed(pc, idx) {
						fromParse = true
					}
				}
				if fromParse {
					for _, b := range hs.fn.Blocks {
						ifi := an.BlockIf(b)
						if ifi == nil {
							continue
						}
						base, neg := an.CondBase(ifi.Cond)
						ex, isEx := base.(*ssa.Extract)
						if !isEx || ex.Tuple != ssa.Value(hs.from) || ex.Index != bi {
							continue
						}
						found = true
						// successor on which the digests differ
						mis := 1
						if !eqTrue {
							mis = 0
						}
						if neg {
							mis = 1 - mis
						}
						tb := b.Succs[mis]
						if !(tb == hs.create.Block() || an.BlockReaches(tb, hs.create.Block())) {
							okCmp = true
						}
					}
				}
			}
		}
		c.SetTags(append(append([]string{}, ftags...), "expected-digest")...)
		// every digest the request declares takes part: a digest parsed from the request whose value is used (its
		// algorithm chosen from it, say) but which never reaches the comparison declares content the handler does not hold
		// the body to
		var uncompared *ssa.Call
		if found && hs.helper == nil {
			for _, rd := range parsed {
				if comparedParses[rd] {
					continue
				}
				used := false
				if rd.call.Referrers() != nil {
					for _, ref := range *rd.call.Referrers() {
						if ex, ok := ref.(*ssa.Extract); ok && ex.Index == rd.idx && ex.Referrers() != nil && len(*ex.Referrers()) > 0 {
							used = true
						}
					}
				}
				if used && uncompared == nil {
					uncompared = rd.call
				}
			}
		}
		switch {
		case uncompared != nil:
			c.Fail(base+":expected-digest", uncompared.Pos(), "the digest parsed from the request at %s is used but never reaches the comparison with the digest computed from the received bytes: the request can declare a digest the stored content does not have and is acknowledged all the same", c.P.Pos(uncompared.Pos()))
		case !found:
			c.Fail(base+":expected-digest", hs.from.Pos(), "%s parses a digest from the request but never compares it with the digest computed from the received bytes at %s: content would be accepted under a reference it does not hash to", name, c.P.Pos(hs.from.Pos()))
		case !okCmp:
			c.Fail(base+":expected-digest", hs.from.Pos(), "the mismatch edge of the comparison between the computed and the requested digest still reaches the blob creation")
		default:
			c.Pass(base+":expected-digest", hs.from.Pos(), "computed digest compared with the parsed request digest; the mismatch edge does not reach the blob creation")
		}
		runReferenceWins(c, r, hs, base)
	}
}

func runContentFirst(c *core.Ctx) {
	r := requireRoles(c)
	if r == nil {
		return
	}
	count := map[string]int{}
	for _, hs := range hashSites(c) {
		name := kn(c.P.FuncName(hs.fn))
		for _, ins := range hs.inserts {
			count[name]++
			key := fmt.Sprintf("insert:%s#%d", name, count[name])
			c.SetTags(siteTags(c, r, hs.fn)...)
			if hs.create == nil {
				c.Fail(key, ins.Pos(), "index entry for a computed digest without a blob creation in the same function")
				continue
			}
			tracked := map[ssa.Value]int{}
			if ev := an.ErrResult(hs.create); ev != nil {
				an.TrackSlots(tracked, ev, 0)
			}
			closeIdx := map[ssa.Instruction]int{}
			for i, cl := range hs.closes {
				if i >= 3 {
					break
				}
				closeIdx[cl] = i + 1
				an.TrackSlots(tracked, cl, i+1)
			}
			bad := ""
			upd := func(s cfState) cfState {
				if s.errs[0] == an.EE {
					s.stored = true
				}
				if (hs.putHelper != nil || hs.stepCreate) && s.errs[0] == an.EN {
					s.stored = true // the helper returned without error: it stored the blob (its own obligation)
				}
				for k := 1; k < 4; k++ {
					if s.closed&(1<<uint(k)) != 0 && s.errs[k] == an.EN {
						s.stored = true
					}
				}
				return s
			}
			an.Paths(an.PathSpec[cfState]{Fn: hs.fn, Init: cfState{},
				Instr: func(s cfState, in ssa.Instruction) []cfState {
					if in == ssa.Instruction(hs.create.(*ssa.Call)) {
						return []cfState{{}}
					}
					if k, ok := closeIdx[in]; ok {
						s.closed |= 1 << uint(k)
						s.errs[k] = an.EU
						return []cfState{s}
					}
					if in == ssa.Instruction(ins.(*ssa.Call)) && !s.stored && bad == "" {
						bad = fmt.Sprintf("the index entry at %s can be inserted on a path on which the blob created at %s was neither committed successfully nor reported as already existing", c.P.Pos(ins.Pos()), c.P.Pos(hs.create.Pos()))
					}
					return []cfState{s}
				},
				Edge: func(s cfState, from *ssa.BasicBlock, succ int) (cfState, bool) {
					vals, ok := an.TrackErrEdge(s.errs[:], tracked, r.TypesPath, "ErrBlobExists", from, succ)
					if !ok {
						return s, false
					}
					copy(s.errs[:], vals)
					return upd(s), true
				}})
			if bad != "" {
				c.Fail(key, ins.Pos(), "%s: after a crash, or when the commit fails, the index would name content that is not there", bad)
			} else {
				c.Pass(key, ins.Pos(), "blob stored (Close ok-edge or ‘exists’ edge) on every path to the insert")
			}
		}
	}
}

var _ = types.Typ

// siteTags: "push" (manifest push handler), "referrer" (referrers update helpers), "ingest" (shared store
// functions), else "other".
func siteTags(c *core.Ctx, r *Roles, fn *ssa.Function) []string {
	if core.FuncPkgPath(fn) == r.StorePath {
		return []string{"ingest"}
	}
	t := handlerTags(c, r, fn)
	var out []string
	for _, x := range t {
		if x == "push" || x == "referrer" {
			out = append(out, x)
		}
	}
	if len(out) == 0 {
		out = []string{"other"}
	}
	return out
}

type stiState struct {
	active   bool
	stored   bool
	inserted bool
	closed   uint8
	errs     [4]an.ErrVal
}

func init() {
	register(&Rule{ID: "TS-STORED-THEN-INDEXED", Floor: 2,
		Doc: "the converse of TS-CONTENT-FIRST: once the blob created for a computed digest is stored (Close ok-edge) or reported as already existing, every path reaches the index insert naming that digest before the function acknowledges (2xx / `return nil`) or creates the next blob — ‘already stored’ must not be mistaken for ‘already indexed’",
		Run: func(c *core.Ctx) {
			r := requireRoles(c)
			if r == nil {
				return
			}
			count := map[string]int{}
			for _, hs := range hashSites(c) {
				if hs.create == nil || len(hs.inserts) == 0 {
					continue
				}
				name := kn(c.P.FuncName(hs.fn))
				count[name]++
				key := fmt.Sprintf("stored-then-indexed:%s#%d", name, count[name])
				c.SetTags(siteTags(c, r, hs.fn)...)
				tracked := map[ssa.Value]int{}
				if ev := an.ErrResult(hs.create); ev != nil {
					an.TrackSlots(tracked, ev, 0)
				}
				closeIdx := map[ssa.Instruction]int{}
				for i, cl := range hs.closes {
					if i >= 3 {
						break
					}
					closeIdx[cl] = i + 1
					an.TrackSlots(tracked, cl, i+1)
				}
				isInsert := map[ssa.Instruction]bool{}
				for _, ins := range hs.inserts {
					isInsert[ins] = true
				}
				bad := ""
				returnsErr := hs.fn.Signature.Results().Len() > 0 && an.IsErrorType(hs.fn.Signature.Results().At(hs.fn.Signature.Results().Len()-1).Type())
				an.Paths(an.PathSpec[stiState]{Fn: hs.fn, Init: stiState{},
					Instr: func(s stiState, in ssa.Instruction) []stiState {
						pending := s.active && s.stored && !s.inserted
						if in == ssa.Instruction(hs.create.(*ssa.Call)) {
							if pending && bad == "" {
								bad = fmt.Sprintf("the next blob is created at %s although the previous one — stored or already existing — was not entered into the index", c.P.Pos(in.Pos()))
							}
							return []stiState{{active: true}}
						}
						if k, ok := closeIdx[in]; ok {
							s.closed |= 1 << uint(k)
							s.errs[k] = an.EU
							return []stiState{s}
						}
						if isInsert[in] {
							s.inserted = true
							return []stiState{s}
						}
						if pending && bad == "" {
							switch x := in.(type) {
							case *ssa.Call:
								if st, ok := writeHeaderStatus(x); ok && st >= 200 && st < 300 {
									bad = fmt.Sprintf("status %d at %s is reachable although the stored blob was not entered into the index", st, c.P.Pos(x.Pos()))
								}
							case *ssa.Return:
								if returnsErr && retErrNil(x) {
									bad = fmt.Sprintf("`return nil` at %s is reachable on a path on which the blob created at %s is stored (or already existed) but the index entry naming it was not inserted: the update is reported as done while the index still lacks it", c.P.Pos(x.Pos()), c.P.Pos(hs.create.Pos()))
								}
							}
						}
						return []stiState{s}
					},
					Edge: func(s stiState, from *ssa.BasicBlock, succ int) (stiState, bool) {
						if !s.active {
							return s, true
						}
						vals, ok := an.TrackErrEdge(s.errs[:], tracked, r.TypesPath, "ErrBlobExists", from, succ)
						if !ok {
							return s, false
						}
						copy(s.errs[:], vals)
						if s.errs[0] == an.EE {
							s.stored = true
						}
						if (hs.putHelper != nil || hs.stepCreate) && s.errs[0] == an.EN {
							s.stored = true
						}
						for k := 1; k < 4; k++ {
							if s.closed&(1<<uint(k)) != 0 && s.errs[k] == an.EN {
								s.stored = true
							}
						}
						return s, true
					}})
				if bad != "" {
					c.Fail(key, hs.create.Pos(), "%s", bad)
				} else {
					c.Pass(key, hs.create.Pos(), "every path on which the blob is stored or exists reaches the index insert before acknowledging")
				}
			}
		}})
}

// referenceWins: in the push handler, on every path on which the reference failed the tag grammar, the
// digest the computed digest is compared with is the parse of that reference — a query parameter must not
// be able to replace it.  The grammar test and the parses may sit in the handler itself or in a parsing helper of the
// module the handler calls (tag, digest, … := parseRef(arg)); then the helper is judged at its returns (on every return
// reached on a ‘not a tag’ path that is not a refusal, the digest result is the parse of the tested parameter) and the
// handler is judged with ‘may be not a tag’ holding from the call until the ‘tag result != ""’ edge.
type rwState struct {
	nonTag bool
	phis   [8]int8 // origin id currently flowing through each tracked φ (0 unknown)
}

type rwSink struct {
	at  ssa.Instruction
	val ssa.Value
}

// refWinsPaths walks fn; the state's nonTag flag is maintained by onInstr/onEdge; at every sink reached with nonTag set
// the origin of the sink's value (through the φs along that very path) must be 1.  It reports whether some sink fails
// and which sinks were reached with nonTag set.
func refWinsPaths(fn *ssa.Function, sinks []rwSink, originID func(ssa.Value) int8,
	onInstr func(s *rwState, in ssa.Instruction), onEdge func(s *rwState, from *ssa.BasicBlock, succ int)) (bad bool, nonTagAt map[ssa.Instruction]bool) {
	nonTagAt = map[ssa.Instruction]bool{}
	var phis []*ssa.Phi
	var collect func(v ssa.Value)
	collect = func(v ssa.Value) {
		if p, ok := v.(*ssa.Phi); ok {
			for _, q := range phis {
				if q == p {
					return
				}
			}
			if len(phis) < 8 {
				phis = append(phis, p)
				for _, e := range p.Edges {
					collect(e)
				}
			}
		}
	}
	for _, sk := range sinks {
		collect(sk.val)
	}
	phiIdx := func(v ssa.Value) int {
		for i, p := range phis {
			if ssa.Value(p) == v {
				return i
			}
		}
		return -1
	}
	an.Paths(an.PathSpec[rwState]{Fn: fn, Init: rwState{},
		Instr: func(s rwState, in ssa.Instruction) []rwState {
			if onInstr != nil {
				onInstr(&s, in)
			}
			if s.nonTag {
				for _, sk := range sinks {
					if sk.at != in {
						continue
					}
					nonTagAt[in] = true
					var cur int8
					if i := phiIdx(sk.val); i >= 0 {
						cur = s.phis[i]
					} else {
						cur = originID(sk.val)
					}
					if cur != 1 {
						bad = true
					}
				}
			}
			return []rwState{s}
		},
		Edge: func(s rwState, from *ssa.BasicBlock, succ int) (rwState, bool) {
			if onEdge != nil {
				onEdge(&s, from, succ)
			}
			tgt := from.Succs[succ]
			predIdx := -1
			for i, p := range tgt.Preds {
				if p == from {
					predIdx = i
				}
			}
			if predIdx >= 0 {
				old := s
				for i, p := range phis {
					if p.Block() != tgt {
						continue
					}
					e := p.Edges[predIdx]
					if j := phiIdx(e); j >= 0 {
						s.phis[i] = old.phis[j]
					} else {
						s.phis[i] = originID(e)
					}
				}
			}
			return s, true
		}})
	return bad, nonTagAt
}

// grammarTest: the test of a value against the tag grammar in fn (the last one found).
func grammarTest(r *Roles, fn *ssa.Function) (grammarIf *ssa.If, grammarTrue int, refVal ssa.Value) {
	for _, b := range fn.Blocks {
		ifi := an.BlockIf(b)
		if ifi == nil {
			continue
		}
		if call, trueSucc, ok := an.BoolCallTest(ifi); ok && an.IsMethod(call, "regexp", "Regexp", "MatchString") && an.IsGlobalLoad(call.Call.Args[0], r.TypesPath, "RefTagRE") {
			grammarIf, grammarTrue, refVal = ifi, trueSucc, an.Origin(call.Call.Args[1])
		}
	}
	return
}

// refusalReturn: the return hands out a definite error or a constant false verdict.
func refusalReturn(ret *ssa.Return) bool {
	for _, rv := range ret.Results {
		if an.IsErrorType(rv.Type()) && (an.DefiniteError(rv) || an.ReturnNonNilGuarded(ret, rv)) {
			return true
		}
		if b, ok := an.ConstBool(rv); ok && !b {
			return true
		}
	}
	return false
}

func runReferenceWins(c *core.Ctx, r *Roles, hs *hashSite, base string) {
	fn := hs.fn
	// the comparison and its request-side operand
	var cmpIf *ssa.If
	var other ssa.Value
	for _, b := range fn.Blocks {
		ifi := an.BlockIf(b)
		if ifi == nil {
			continue
		}
		x, y, op, ok := an.CmpTest(ifi)
		if !ok || (op != token.EQL && op != token.NEQ) {
			continue
		}
		switch {
		case hs.isDig(x):
			cmpIf, other = ifi, y
		case hs.isDig(y):
			cmpIf, other = ifi, x
		}
	}
	if cmpIf == nil {
		return
	}
	parseOf := func(refVal ssa.Value) func(v ssa.Value) int8 {
		// origins: 1 = parse of the reference, 2 = anything else (query parameter, constant)
		return func(v ssa.Value) int8 {
			o := an.Origin(v)
			if pc, idx := an.CallOf(o); pc != nil && idx == 0 && an.IsFunc(pc, digestPkg, "Parse") && an.Origin(pc.Call.Args[0]) == refVal {
				return 1
			}
			return 2
		}
	}
	report := func(bad bool) {
		c.SetTags(append(siteTags(c, r, fn), "expected-digest")...)
		c.Check(!bad, base+":reference-digest-wins", hs.from.Pos(), "on every path on which the reference is not a tag, the digest the body is compared with is the parse of the reference itself: %v — otherwise a query parameter can make a push under digest A store and acknowledge content that hashes to B", !bad)
	}
	// the grammar test of the reference and the parse of the same value, in the handler itself
	if grammarIf, grammarTrue, refVal := grammarTest(r, fn); grammarIf != nil {
		bad, _ := refWinsPaths(fn, []rwSink{{cmpIf, other}}, parseOf(refVal), nil,
			func(s *rwState, from *ssa.BasicBlock, succ int) {
				if an.BlockIf(from) == grammarIf {
					s.nonTag = succ != grammarTrue
				}
			})
		report(bad)
		return
	}
	// … or in a parsing helper of the module the handler calls
	var hc *ssa.Call
	var H *ssa.Function
	var hIf *ssa.If
	hTrue := 0
	var hParam ssa.Value
	an.Calls(fn, func(call ssa.CallInstruction) {
		cc, ok := call.(*ssa.Call)
		if !ok {
			return
		}
		h := cc.Call.StaticCallee()
		if h == nil || len(h.Blocks) == 0 || !strings.HasPrefix(core.FuncPkgPath(h), c.P.Module) {
			return
		}
		if gi, gt, rv := grammarTest(r, h); gi != nil {
			if _, isParam := rv.(*ssa.Parameter); isParam {
				hc, H, hIf, hTrue, hParam = cc, h, gi, gt, rv
			}
		}
	})
	if hc == nil {
		return
	}
	res := H.Signature.Results()
	var rets []*ssa.Return
	an.Instrs(H, func(in ssa.Instruction) {
		if ret, ok := in.(*ssa.Return); ok && len(ret.Results) == res.Len() && !refusalReturn(ret) {
			rets = append(rets, ret)
		}
	})
	di := -1
	for i := 0; i < res.Len() && di < 0; i++ {
		if !isNamed(res.At(i).Type(), digestPkg, "Digest") {
			continue
		}
		for _, ret := range rets {
			for _, o := range an.Origins(ret.Results[i]) {
				if parseOf(hParam)(o) == 1 {
					di = i
				}
			}
		}
	}
	if di < 0 {
		return
	}
	var sinks []rwSink
	for _, ret := range rets {
		sinks = append(sinks, rwSink{ret, ret.Results[di]})
	}
	badH, nonTagAt := refWinsPaths(H, sinks, parseOf(hParam), nil,
		func(s *rwState, from *ssa.BasicBlock, succ int) {
			if an.BlockIf(from) == hIf {
				s.nonTag = succ != hTrue
			}
		})
	fromHelper := func(v ssa.Value) int8 {
		if pc, idx := an.CallOf(an.Origin(v)); pc == hc && idx == di {
			return 1
		}
		return 2
	}
	all := true
	for _, o := range an.Origins(other) {
		if fromHelper(o) != 1 {
			all = false
		}
	}
	if all {
		report(badH)
		return
	}
	// the handler chooses between the helper's digest and another one: ‘may be not a tag’ holds from the call until the
	// ‘tag result != ""’ edge, where the tag result is a string result every ‘not a tag’ return leaves empty
	ti := -1
	for i := 0; i < res.Len() && ti < 0; i++ {
		if bt, ok := res.At(i).Type().Underlying().(*types.Basic); !ok || bt.Kind() != types.String {
			continue
		}
		ok := true
		for _, ret := range rets {
			if !nonTagAt[ret] {
				continue
			}
			if s0, isS := an.ConstString(ret.Results[i]); !isS || s0 != "" {
				ok = false
			}
		}
		if ok {
			ti = i
		}
	}
	isTagResult := func(v ssa.Value) bool {
		pc, idx := an.CallOf(an.Origin(v))
		return ti >= 0 && pc == hc && idx == ti
	}
	badF, _ := refWinsPaths(fn, []rwSink{{cmpIf, other}}, fromHelper,
		func(s *rwState, in ssa.Instruction) {
			if in == ssa.Instruction(hc) {
				s.nonTag = true
			}
		},
		func(s *rwState, from *ssa.BasicBlock, succ int) {
			ifi := an.BlockIf(from)
			if ifi == nil {
				return
			}
			x, y, op, ok := an.CmpTest(ifi)
			if !ok || (op != token.EQL && op != token.NEQ) {
				return
			}
			if s0, isS := an.ConstString(y); !isS || s0 != "" || !isTagResult(x) {
				return
			}
			// the edge on which the tag result is not empty: a tag
			if (op == token.NEQ && succ == 0) || (op == token.EQL && succ == 1) {
				s.nonTag = false
			}
		})
	report(badH || badF)
}

// hashingHelper: call is a static call of a module function one of whose results is, on every non-error
// return, Algorithm.FromBytes of one of its parameters. Returns the helper, the result index and the
// parameter index (in the call's argument list).
func hashingHelper(c *core.Ctx, call *ssa.Call) (*ssa.Function, int, int, bool) {
	h := call.Call.StaticCallee()
	if h == nil || len(h.Blocks) == 0 || !strings.HasPrefix(core.FuncPkgPath(h), c.P.Module) {
		return nil, 0, 0, false
	}
	res := h.Signature.Results()
	for ri := 0; ri < res.Len(); ri++ {
		if !isNamed(res.At(ri).Type(), digestPkg, "Digest") {
			continue
		}
		pi := -1
		ok := true
		n := 0
		for _, b := range h.Blocks {
			if len(b.Instrs) == 0 {
				continue
			}
			ret, isRet := b.Instrs[len(b.Instrs)-1].(*ssa.Return)
			if !isRet || len(ret.Results) != res.Len() {
				continue
			}
			if last := ret.Results[len(ret.Results)-1]; an.IsErrorType(last.Type()) && (an.DefiniteError(last) || an.ReturnNonNilGuarded(ret, last)) {
				continue
			}
			n++
			found := false
			for _, o := range an.Origins(ret.Results[ri]) {
				fb, _ := an.CallOf(o)
				if fb == nil || !an.IsMethod(fb, digestPkg, "Algorithm", "FromBytes") || len(fb.Call.Args) != 2 {
					found = false
					break
				}
				p, isParam := an.Origin(fb.Call.Args[1]).(*ssa.Parameter)
				if !isParam {
					found = false
					break
				}
				idx := -1
				for k, q := range h.Params {
					if q == p {
						idx = k
					}
				}
				if idx < 0 || (pi >= 0 && pi != idx) {
					found = false
					break
				}
				pi = idx
				found = true
			}
			if !found {
				ok = false
			}
		}
		if ok && n > 0 && pi >= 0 {
			return h, ri, pi, true
		}
	}
	return nil, 0, 0, false
}

// helperCompares: a boolean result of h is, on some return, the comparison of a FromBytes digest with one of h's
// parameters. Returns the boolean result's index, the parameter's index, and whether true means ‘equal’.
func helperCompares(h *ssa.Function) (int, int, bool, bool) {
	res := h.Signature.Results()
	for bi := 0; bi < res.Len(); bi++ {
		bt, isB := res.At(bi).Type().Underlying().(*types.Basic)
		if !isB || bt.Kind() != types.Bool {
			continue
		}
		var out [3]int
		found := false
		an.Instrs(h, func(in ssa.Instruction) {
			ret, ok := in.(*ssa.Return)
			if !ok || len(ret.Results) != res.Len() {
				return
			}
			for _, o := range an.Origins(ret.Results[bi]) {
				bo, ok := o.(*ssa.BinOp)
				if !ok || (bo.Op != token.EQL && bo.Op != token.NEQ) {
					continue
				}
				for _, pair := range [][2]ssa.Value{{bo.X, bo.Y}, {bo.Y, bo.X}} {
					fb, _ := an.CallOf(an.Origin(pair[0]))
					p, isParam := an.Origin(pair[1]).(*ssa.Parameter)
					if fb != nil && an.IsMethod(fb, digestPkg, "Algorithm", "FromBytes") && isParam {
						for k, q := range h.Params {
							if q == p {
								eq := 0
								if bo.Op == token.EQL {
									eq = 1
								}
								out = [3]int{bi, k, eq}
								found = true
							}
						}
					}
				}
			}
		})
		if found {
			return out[0], out[1], out[2] == 1, true
		}
	}
	return 0, 0, false, false
}
