package rules

import (
	"go/token"
	"go/types"

	"golang.org/x/tools/go/ssa"

	"olacheck/an"
	"olacheck/core"
)

// LK-CTA-UPLOAD: a method of an upload session that changes the session (stores to one of its fields) decides on the
// session's state under the same hold of the session mutex under which it makes the change.  The mutex is not
// re-entrant, so a decision taken from the result of one of the session's own locking accessors (Size(), Digest(), …)
// was necessarily taken while the method did not hold the mutex: the accessor's hold ended before the change's hold
// began, and a concurrent Write between the two is neither seen by the check nor by the change (bytes written before a
// digester swap are never hashed; the session then commits under a digest its content does not have).

func init() {
	register(&Rule{ID: "LK-CTA-UPLOAD", Floor: 2,
		Doc: "in every method of an upload-session type, no store to a field of the session is guarded by a condition computed from the result of one of the session's own mutex-taking accessors (the mutex is not re-entrant, so such a check ran under an earlier, already released hold): check and change are one critical section",
		Run: func(c *core.Ctx) {
			r := requireRoles(c)
			if r == nil {
				return
			}
			n := 0
			for _, fam := range r.Families {
				if fam.Upload == nil {
					continue
				}
				st, ok := fam.Upload.Underlying().(*types.Struct)
				if !ok {
					continue
				}
				muField := -1
				for i := 0; i < st.NumFields(); i++ {
					if isNamed(st.Field(i).Type(), "sync", "Mutex") || isNamed(st.Field(i).Type(), "sync", "RWMutex") {
						muField = i
					}
				}
				if muField < 0 {
					continue
				}
				var methods []*ssa.Function
				for _, fn := range c.P.Funcs("internal/store") {
					if fn.Parent() == nil && fn.Signature.Recv() != nil && an.NamedOf(an.Deref(fn.Signature.Recv().Type())) == fam.Upload && len(fn.Params) > 0 && len(fn.Blocks) > 0 {
						methods = append(methods, fn)
					}
				}
				locks := map[*ssa.Function]bool{}
				for _, fn := range methods {
					recv := fn.Params[0]
					an.Calls(fn, func(call ssa.CallInstruction) {
						if !(an.IsMethod(call, "sync", "Mutex", "Lock") || an.IsMethod(call, "sync", "RWMutex", "Lock") || an.IsMethod(call, "sync", "RWMutex", "RLock")) {
							return
						}
						rv, _ := an.CallArgs(call)
						if fa, ok := rv.(*ssa.FieldAddr); ok && fa.X == ssa.Value(recv) && fa.Field == muField {
							locks[fn] = true
						}
					})
				}
				for _, fn := range methods {
					recv := fn.Params[0]
					var fromAccessor func(v ssa.Value, depth int) *ssa.Call
					fromAccessor = func(v ssa.Value, depth int) *ssa.Call {
						if v == nil || depth > 8 {
							return nil
						}
						switch x := v.(type) {
						case *ssa.BinOp:
							if a := fromAccessor(x.X, depth+1); a != nil {
								return a
							}
							return fromAccessor(x.Y, depth+1)
						case *ssa.UnOp:
							return fromAccessor(x.X, depth+1)
						case *ssa.Convert:
							return fromAccessor(x.X, depth+1)
						case *ssa.ChangeType:
							return fromAccessor(x.X, depth+1)
						case *ssa.Field:
							return fromAccessor(x.X, depth+1)
						case *ssa.Extract:
							return fromAccessor(x.Tuple, depth+1)
						case *ssa.Phi:
							for _, e := range x.Edges {
								if a := fromAccessor(e, depth+1); a != nil {
									return a
								}
							}
						case *ssa.Call:
							if h := x.Call.StaticCallee(); h != nil && locks[h] && len(x.Call.Args) > 0 && x.Call.Args[0] == ssa.Value(recv) {
								return x
							}
							if x.Call.IsInvoke() {
								if a := fromAccessor(x.Call.Value, depth+1); a != nil {
									return a
								}
							}
							for _, a := range x.Call.Args {
								if acc := fromAccessor(a, depth+1); acc != nil {
									return acc
								}
							}
						}
						return nil
					}
					stores := 0
					var bad *ssa.Call
					var badStore *ssa.Store
					an.Instrs(fn, func(in ssa.Instruction) {
						s, ok := in.(*ssa.Store)
						if !ok {
							return
						}
						fa, ok := s.Addr.(*ssa.FieldAddr)
						if !ok {
							return
						}
						// (a field of the session, or of a record held in one)
						for {
							inner, isFA := fa.X.(*ssa.FieldAddr)
							if !isFA {
								break
							}
							fa = inner
						}
						if fa.X != ssa.Value(recv) || fa.Field == muField {
							return
						}
						stores++
						for _, g := range an.GuardingEdges(s.Block()) {
							if g.Synthetic() {
								continue
							}
							if acc := fromAccessor(g.If().Cond, 0); acc != nil && bad == nil {
								bad, badStore = acc, s
							}
						}
					})
					if stores == 0 {
						continue
					}
					n++
					key := "cta:" + kn(c.P.FuncName(fn))
					if bad != nil {
						c.Fail(key, badStore.Pos(), "%s changes the session at %s on a decision taken from %s (at %s), an accessor that takes and releases the session mutex itself: check and change are two critical sections, and a Write between them is seen by neither — after a digester swap the bytes written in between are never hashed, and the session commits under a digest its content does not have", c.P.FuncName(fn), c.P.Pos(badStore.Pos()), c.P.FuncName(bad.Call.StaticCallee()), c.P.Pos(bad.Pos()))
					} else {
						c.Pass(key, fn.Pos(), "no change of the session is decided on the result of a mutex-taking accessor of the session (%d store(s))", stores)
					}
				}
			}
			if n == 0 {
				c.Unresolved("cta", "no upload-session method that changes the session found")
			}
		}})
}

var _ = token.NoPos
