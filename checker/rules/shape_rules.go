package rules

import (
	"fmt"
	"go/ast"
	"go/token"
	"go/types"
	"regexp"
	"sort"
	"strings"
	"sync"

	"golang.org/x/tools/go/packages"
	"golang.org/x/tools/go/ssa"

	"olacheck/an"
	"olacheck/core"
)

func init() {
	register(&Rule{ID: "SH-WORKLIST", Floor: 3,
		Doc: "for every worklist loop `for len(W) > 0` of the store package: (i) every path through the body to the back edge shortens W; (ii) growth is bounded by a visited set S that is never deleted from — either every append to W is guarded by !S[key] with S[key] = true in the same block (mark on push), or the popped item is tested against S before it is expanded and entered into S on the expanding path (mark on pop); (iii) in the collector (the function that also deletes blobs) the map consulted by the skip test is written only with the key of the popped item; index loops `for i < len(X)` advance i or shorten X on every path",
		Run: runWorklist})
	register(&Rule{ID: "SH-MARK-EXHAUSTIVE", Floor: 2,
		Doc: "in the collector's mark loop every exported Descriptor / []Descriptor field of the image and index manifest structs is consumed: its digest is entered into a keep-set or its descriptor appended to the worklist; the referrers edge (lookup keyed by the popped item's digest, result appended to the worklist) is present",
		Run: runMarkExhaustive})
	register(&Rule{ID: "SH-SWEEP-GUARD", Floor: 3,
		Doc: "in the sweep the blob removal is dominated by the ‘not in the keep-set’ edge of a lookup keyed by the loop variable, a test of the blob's modification time against the cut-off exists one of whose edges returns to the loop without removing, and index entries without a backing blob are pruned (comparison directions are not decided)",
		Run: runSweepGuard})
	register(&Rule{ID: "SH-CONVERT-MARK", Floor: 3,
		Doc: "every normal exit of the ingest that passed the ‘not yet converted’ edge has set the converted annotation, the modified result is true on the edge leaving the conversion, and each store's index loader calls the ingest on the ok-edge of decoding the index file",
		Run: runConvertMark})
}

// ---- AST helpers ----

func exprString(e ast.Expr) string { return types.ExprString(e) }

type loopInfo struct {
	fd   *ast.FuncDecl
	loop *ast.ForStmt
	w    string // worklist expression
	kind string // "worklist" | "index"
	idx  string // index variable for index loops
}

func findLoops(pk *packages.Package) []loopInfo {
	var out []loopInfo
	for _, fd := range funcDecls(pk) {
		ast.Inspect(fd.Body, func(n ast.Node) bool {
			fs, ok := n.(*ast.ForStmt)
			if !ok || fs.Cond == nil || fs.Init != nil || fs.Post != nil {
				return true
			}
			be, ok := fs.Cond.(*ast.BinaryExpr)
			if !ok {
				return true
			}
			if call, ok := be.X.(*ast.CallExpr); ok && be.Op == token.GTR {
				if id, ok := call.Fun.(*ast.Ident); ok && id.Name == "len" && len(call.Args) == 1 {
					if lit, ok := be.Y.(*ast.BasicLit); ok && lit.Value == "0" {
						out = append(out, loopInfo{fd: fd, loop: fs, w: exprString(call.Args[0]), kind: "worklist"})
					}
				}
			}
			if call, ok := be.Y.(*ast.CallExpr); ok && be.Op == token.LSS {
				if id, ok := call.Fun.(*ast.Ident); ok && id.Name == "len" && len(call.Args) == 1 {
					out = append(out, loopInfo{fd: fd, loop: fs, w: exprString(call.Args[0]), kind: "index", idx: exprString(be.X)})
				}
			}
			return true
		})
	}
	return out
}

// isPop: `W = W[:len(W)-1]` or `W = W[1:]`.
func isPop(st ast.Stmt, w string) bool {
	as, ok := st.(*ast.AssignStmt)
	if ok && len(as.Lhs) > 1 && len(as.Lhs) == len(as.Rhs) {
		// `cur, W = W[0], W[1:]`: the component that assigns the worklist
		for i := range as.Lhs {
			if exprString(as.Lhs[i]) == w {
				return isPop(&ast.AssignStmt{Lhs: []ast.Expr{as.Lhs[i]}, Tok: as.Tok, Rhs: []ast.Expr{as.Rhs[i]}}, w)
			}
		}
		return false
	}
	if !ok || len(as.Lhs) != 1 || len(as.Rhs) != 1 || exprString(as.Lhs[0]) != w {
		return false
	}
	se, ok := as.Rhs[0].(*ast.SliceExpr)
	if !ok || exprString(se.X) != w {
		return false
	}
	if se.Low != nil && se.High == nil {
		if lit, ok := se.Low.(*ast.BasicLit); ok && lit.Value == "1" {
			return true
		}
	}
	if se.Low == nil && se.High != nil {
		if exprString(se.High) == "len("+w+") - 1" || exprString(se.High) == "len("+w+")-1" {
			return true
		}
		if id, ok := se.High.(*ast.Ident); ok && popAliases[w+"|"+id.Name] {
			return true // a local that was set to len(w)-1 in this loop body
		}
	}
	return false
}

// popAliases: "w|x" when the loop body over worklist w contains `x := len(w) - 1` (filled by notePopAliases).
var popAliases = map[string]bool{}

func notePopAliases(body *ast.BlockStmt, w string) {
	ast.Inspect(body, func(n ast.Node) bool {
		as, ok := n.(*ast.AssignStmt)
		if !ok || len(as.Lhs) != 1 || len(as.Rhs) != 1 {
			return true
		}
		id, ok := as.Lhs[0].(*ast.Ident)
		if !ok {
			return true
		}
		if es := exprString(as.Rhs[0]); es == "len("+w+") - 1" || es == "len("+w+")-1" {
			popAliases[w+"|"+id.Name] = true
		}
		return true
	})
}

func isIncr(st ast.Stmt, v string) bool {
	if ids, ok := st.(*ast.IncDecStmt); ok && ids.Tok == token.INC && exprString(ids.X) == v {
		return true
	}
	return false
}

// progressOnAllPaths simulates the structured control flow of a loop body: on every path that reaches
// `continue` (of this loop) or the end of the body, progress(stmt) held for some statement before.
func progressOnAllPaths(body *ast.BlockStmt, progress func(ast.Stmt) bool) bool {
	ok := true
	// walk returns the set of "progressed" states with which control can fall out of stmts
	var walk func(stmts []ast.Stmt, in []bool) []bool
	walk = func(stmts []ast.Stmt, in []bool) []bool {
		cur := in
		for _, st := range stmts {
			if len(cur) == 0 {
				return cur
			}
			switch x := st.(type) {
			case *ast.BranchStmt:
				if x.Tok == token.CONTINUE && x.Label == nil {
					for _, p := range cur {
						if !p {
							ok = false
						}
					}
					return nil
				}
				if x.Tok == token.BREAK && x.Label == nil {
					return nil // leaves the loop: no back edge
				}
			case *ast.ReturnStmt:
				return nil
			case *ast.IfStmt:
				thenOut := walk(x.Body.List, cur)
				var elseOut []bool
				switch e := x.Else.(type) {
				case nil:
					elseOut = cur
				case *ast.BlockStmt:
					elseOut = walk(e.List, cur)
				case *ast.IfStmt:
					elseOut = walk([]ast.Stmt{e}, cur)
				}
				cur = dedupeBools(append(append([]bool{}, thenOut...), elseOut...))
			case *ast.BlockStmt:
				cur = walk(x.List, cur)
			case *ast.ForStmt, *ast.RangeStmt, *ast.SwitchStmt, *ast.TypeSwitchStmt, *ast.SelectStmt:
				// nested loops and switches: continue/break inside bind to them (unlabelled); progress inside is not counted
			default:
				if progress(st) {
					cur = []bool{true}
				}
			}
		}
		return cur
	}
	out := walk(body.List, []bool{false})
	for _, p := range out {
		if !p {
			ok = false
		}
	}
	return ok
}

func dedupeBools(in []bool) []bool {
	t, f := false, false
	for _, b := range in {
		if b {
			t = true
		} else {
			f = true
		}
	}
	var out []bool
	if f {
		out = append(out, false)
	}
	if t {
		out = append(out, true)
	}
	return out
}

// setMethodKind: methods of a named map type of the store package used as a set: "add" for a method whose body is
// `recv[param] = true` / `= struct{}{}`, "has" for one that returns the membership of its parameter.  Filled by
// initSetMethods at the start of the shape rules (the rules match statements by name, as the rest of this file does).
var setMethodKind = map[string]string{}

var (
	setMethodMu  sync.Mutex
	setMethodFor *packages.Package
)

func initSetMethods(pk *packages.Package) {
	setMethodMu.Lock()
	defer setMethodMu.Unlock()
	if pk == nil || setMethodFor == pk {
		return
	}
	setMethodFor = pk
	setMethodKind = map[string]string{}
	for _, fd := range funcDecls(pk) {
		if fd.Recv == nil || len(fd.Recv.List) != 1 || len(fd.Recv.List[0].Names) != 1 || fd.Body == nil {
			continue
		}
		tv, ok := pk.TypesInfo.Types[fd.Recv.List[0].Type]
		if !ok {
			continue
		}
		if _, isMap := tv.Type.Underlying().(*types.Map); !isMap {
			continue
		}
		if fd.Type.Params == nil || len(fd.Type.Params.List) != 1 || len(fd.Type.Params.List[0].Names) != 1 {
			continue
		}
		rn, pn := fd.Recv.List[0].Names[0].Name, fd.Type.Params.List[0].Names[0].Name
		isElem := func(e ast.Expr) bool {
			ie, ok := e.(*ast.IndexExpr)
			return ok && exprString(ie.X) == rn && exprString(ie.Index) == pn
		}
		switch len(fd.Body.List) {
		case 1:
			switch st := fd.Body.List[0].(type) {
			case *ast.AssignStmt:
				if len(st.Lhs) == 1 && len(st.Rhs) == 1 && isElem(st.Lhs[0]) && isTrueOrEmptyStruct(st.Rhs[0]) {
					setMethodKind[fd.Name.Name] = "add"
				}
			case *ast.ReturnStmt:
				if len(st.Results) == 1 && isElem(st.Results[0]) {
					setMethodKind[fd.Name.Name] = "has"
				}
			}
		case 2:
			as, ok1 := fd.Body.List[0].(*ast.AssignStmt)
			rs, ok2 := fd.Body.List[1].(*ast.ReturnStmt)
			if ok1 && ok2 && len(as.Lhs) == 2 && len(as.Rhs) == 1 && isElem(as.Rhs[0]) && len(rs.Results) == 1 && exprString(rs.Results[0]) == exprString(as.Lhs[1]) {
				setMethodKind[fd.Name.Name] = "has"
			}
		}
	}
}

func isTrueOrEmptyStruct(e ast.Expr) bool {
	if id, ok := e.(*ast.Ident); ok && id.Name == "true" {
		return true
	}
	if cl, ok := e.(*ast.CompositeLit); ok && len(cl.Elts) == 0 {
		if st, ok := cl.Type.(*ast.StructType); ok && (st.Fields == nil || len(st.Fields.List) == 0) {
			return true
		}
	}
	return false
}

// setAddExpr: `S[k] = true`, `S[k] = struct{}{}` or `S.add(k)`; returns the expressions S and k.
func setAddExpr(st ast.Stmt) (ast.Expr, ast.Expr, bool) {
	switch x := st.(type) {
	case *ast.AssignStmt:
		if len(x.Lhs) != 1 || len(x.Rhs) != 1 {
			return nil, nil, false
		}
		ie, ok := x.Lhs[0].(*ast.IndexExpr)
		if !ok || !isTrueOrEmptyStruct(x.Rhs[0]) {
			return nil, nil, false
		}
		return ie.X, ie.Index, true
	case *ast.ExprStmt:
		call, ok := x.X.(*ast.CallExpr)
		if !ok || len(call.Args) != 1 {
			return nil, nil, false
		}
		se, ok := call.Fun.(*ast.SelectorExpr)
		if !ok || setMethodKind[se.Sel.Name] != "add" {
			return nil, nil, false
		}
		return se.X, call.Args[0], true
	}
	return nil, nil, false
}

// mapAssignTrue: a set insertion (setAddExpr); returns S and k as text.
func mapAssignTrue(st ast.Stmt) (string, string, bool) {
	sx, kx, ok := setAddExpr(st)
	if !ok {
		return "", "", false
	}
	return exprString(sx), exprString(kx), true
}

// asSetIndex: a membership test `S[k]` or `S.has(k)` as an index expression.
func asSetIndex(e ast.Expr) (*ast.IndexExpr, bool) {
	switch x := e.(type) {
	case *ast.IndexExpr:
		return x, true
	case *ast.ParenExpr:
		return asSetIndex(x.X)
	case *ast.CallExpr:
		if se, ok := x.Fun.(*ast.SelectorExpr); ok && len(x.Args) == 1 && setMethodKind[se.Sel.Name] == "has" {
			return &ast.IndexExpr{X: se.X, Index: x.Args[0]}, true
		}
	}
	return nil, false
}

func runWorklist(c *core.Ctx) {
	pk := pkgOf(c, "internal/store")
	initSetMethods(pk)
	if pk == nil {
		c.Unresolved("pkg:store", "store package not found")
		return
	}
	loops := findLoops(pk)
	count := map[string]int{}
	// (iv) a range loop must not append to the slice it ranges over: the range expression is evaluated
	// once, so work appended in the body is never processed
	nRange := 0
	c.SetTags("complete")
	for _, fd := range funcDecls(pk) {
		ast.Inspect(fd.Body, func(n ast.Node) bool {
			rs, ok := n.(*ast.RangeStmt)
			if !ok {
				return true
			}
			if tv, ok := pk.TypesInfo.Types[rs.X]; !ok || tv.Type == nil {
				return true
			} else if _, isSlice := tv.Type.Underlying().(*types.Slice); !isSlice {
				return true
			}
			nRange++
			x := exprString(rs.X)
			ast.Inspect(rs.Body, func(m ast.Node) bool {
				as, ok := m.(*ast.AssignStmt)
				if !ok || len(as.Lhs) != 1 || len(as.Rhs) != 1 || exprString(as.Lhs[0]) != x {
					return true
				}
				if call, ok := as.Rhs[0].(*ast.CallExpr); ok {
					if id, ok := call.Fun.(*ast.Ident); ok && id.Name == "append" {
						c.Fail(fmt.Sprintf("range-append:%s:%s", fd.Name.Name, x), as.Pos(), "%s appends to %s inside `for … range %s`: the range expression is evaluated once, so the appended work is never processed (nested indexes, queued manifests … are silently skipped)", fd.Name.Name, x, x)
					}
				}
				return true
			})
			return true
		})
	}
	c.Pass("range-append:none", token.NoPos, "%d range loops over slices in the store package; none appends to the slice it ranges over", nRange)
	for _, li := range loops {
		count[li.fd.Name.Name]++
		key := fmt.Sprintf("loop:%s#%d", li.fd.Name.Name, count[li.fd.Name.Name])
		c.SetTags("term")
		if li.kind == "index" {
			notePopAliases(li.loop.Body, li.w)
			ok := progressOnAllPaths(li.loop.Body, func(st ast.Stmt) bool { return isIncr(st, li.idx) || isPop(st, li.w) })
			c.Check(ok, key+":progress", li.loop.Pos(), "index loop over %s advances %s or shortens the slice on every path: %v", li.w, li.idx, ok)
			continue
		}
		// (i)
		notePopAliases(li.loop.Body, li.w)
		okP := progressOnAllPaths(li.loop.Body, func(st ast.Stmt) bool { return isPop(st, li.w) })
		c.Check(okP, key+":progress", li.loop.Pos(), "every path through the body shortens %s before the back edge: %v (otherwise the loop spins forever, in the collector while holding the repository token)", li.w, okP)
		// popped item: `d := W[len(W)-1]` / uses of W[0]
		popped := ""
		ast.Inspect(li.loop.Body, func(n ast.Node) bool {
			if as, ok := n.(*ast.AssignStmt); ok && len(as.Lhs) == 1 && len(as.Rhs) == 1 && as.Tok == token.DEFINE {
				if ie, ok := as.Rhs[0].(*ast.IndexExpr); ok && exprString(ie.X) == li.w {
					popped = exprString(as.Lhs[0])
				}
			}
			return true
		})
		if popped == "" {
			popped = li.w + "[0]"
		}
		// appends to W inside the body, with the guards around them
		var apps []app
		var visit func(stmts []ast.Stmt, guards map[string]string)
		visit = func(stmts []ast.Stmt, guards map[string]string) {
			marks := map[string]string{}
			for _, st := range stmts {
				if s, k, ok := mapAssignTrue(st); ok {
					marks[s] = k
				}
			}
			for _, st := range stmts {
				switch x := st.(type) {
				case *ast.AssignStmt:
					if len(x.Lhs) == 1 && len(x.Rhs) == 1 && exprString(x.Lhs[0]) == li.w {
						if call, ok := x.Rhs[0].(*ast.CallExpr); ok {
							if id, ok := call.Fun.(*ast.Ident); ok && id.Name == "append" {
								g := map[string]string{}
								for k, v := range guards {
									g[k] = v
								}
								apps = append(apps, app{guardMaps: g, marks: marks, pos: x.Pos()})
							}
						}
					}
				case *ast.IfStmt:
					g := map[string]string{}
					for k, v := range guards {
						g[k] = v
					}
					// `if !S[k]` or `if v, ok := M[k]; ok`
					if ue, ok := x.Cond.(*ast.UnaryExpr); ok && ue.Op == token.NOT {
						if ie, ok := asSetIndex(ue.X); ok {
							g[exprString(ie.X)] = exprString(ie.Index)
						}
					}
					// marks of the enclosing block carry into nested blocks
					inner := map[string]string{}
					for k, v := range marks {
						inner[k] = v
					}
					visitWithMarks(x.Body.List, g, inner, &apps, li.w)
					if eb, ok := x.Else.(*ast.BlockStmt); ok {
						visit(eb.List, guards)
					} else if ei, ok := x.Else.(*ast.IfStmt); ok {
						visit([]ast.Stmt{ei}, guards)
					}
				case *ast.RangeStmt:
					visitWithMarks(x.Body.List, guards, marks, &apps, li.w)
				case *ast.BlockStmt:
					visit(x.List, guards)
				}
			}
		}
		visit(li.loop.Body.List, map[string]string{})
		// mark-on-pop: `if S[popped.key] { continue }` and `S[popped.key] = true`
		popSkip, popMark := map[string]string{}, map[string]string{}
		for _, st := range li.loop.Body.List {
			if ifs, ok := st.(*ast.IfStmt); ok {
				if ie, ok := asSetIndex(ifs.Cond); ok && len(ifs.Body.List) == 1 {
					if br, ok := ifs.Body.List[0].(*ast.BranchStmt); ok && br.Tok == token.CONTINUE && strings.HasPrefix(exprString(ie.Index), popped) {
						popSkip[exprString(ie.X)] = exprString(ie.Index)
					}
				}
			}
			if s, k, ok := mapAssignTrue(st); ok && strings.HasPrefix(k, popped) {
				popMark[s] = k
			}
		}
		patternB := ""
		for s, k := range popSkip {
			if popMark[s] == k {
				patternB = s
			}
		}
		okB := true
		msg := ""
		visited := patternB
		if patternB == "" {
			// pattern A: every append guarded and marked
			if len(apps) == 0 {
				okB, msg = true, "the loop never grows its worklist"
			}
			for _, a := range apps {
				good := false
				for s, k := range a.guardMaps {
					if a.marks[s] == k {
						good = true
						visited = s
					}
				}
				if !good {
					okB = false
					msg = fmt.Sprintf("the append at %s is neither guarded by a visited-set test with a matching mark nor is the popped item tested and marked", c.P.Pos(a.pos))
				}
			}
		}
		// S never deleted from
		if visited != "" {
			ast.Inspect(li.fd.Body, func(n ast.Node) bool {
				if call, ok := n.(*ast.CallExpr); ok {
					if id, ok := call.Fun.(*ast.Ident); ok && id.Name == "delete" && len(call.Args) == 2 && exprString(call.Args[0]) == visited {
						okB, msg = false, "entries are deleted from the visited set "+visited
					}
				}
				return true
			})
		}
		c.Check(okB, key+":bounded", li.loop.Pos(), "growth of %s is bounded by the visited set %q (%s): %v %s — a circular reference among manifests would otherwise keep the loop running forever", li.w, visited, map[bool]string{true: "mark on pop", false: "mark on push"}[patternB != ""], okB, msg)
		// (iii) collector only
		deletes := isMarkLoop(c, pk, li)
		if deletes {
			// every map that can keep a manifest from being expanded — `if M[k] { continue }` anywhere in the
			// body, or `if !M[k] { … append(W, …) }` — must be a pure visited set of manifests
			skipKeys := map[string]map[string]bool{}
			addSkip := func(m, k string) {
				if skipKeys[m] == nil {
					skipKeys[m] = map[string]bool{}
				}
				skipKeys[m][k] = true
			}
			ast.Inspect(li.loop.Body, func(n ast.Node) bool {
				ifs, ok := n.(*ast.IfStmt)
				if !ok {
					return true
				}
				if ie, ok := asSetIndex(ifs.Cond); ok && len(ifs.Body.List) >= 1 {
					if br, ok := ifs.Body.List[len(ifs.Body.List)-1].(*ast.BranchStmt); ok && br.Tok == token.CONTINUE {
						addSkip(exprString(ie.X), exprString(ie.Index))
					}
				}
				if ue, ok := ifs.Cond.(*ast.UnaryExpr); ok && ue.Op == token.NOT {
					if ie, ok := asSetIndex(ue.X); ok {
						appends := false
						ast.Inspect(ifs.Body, func(m ast.Node) bool {
							if as, ok := m.(*ast.AssignStmt); ok && len(as.Lhs) == 1 && exprString(as.Lhs[0]) == li.w {
								appends = true
							}
							return true
						})
						if appends {
							addSkip(exprString(ie.X), exprString(ie.Index))
						}
					}
				}
				return true
			})
			c.SetTags("skip-set")
			var maps []string
			for m := range skipKeys {
				maps = append(maps, m)
			}
			sort.Strings(maps)
			for _, m := range maps {
				okD := true
				var offenders []string
				ast.Inspect(li.fd.Body, func(n ast.Node) bool {
					if st, ok := n.(ast.Stmt); ok {
						if sm, k, ok := mapAssignTrue(st); ok && sm == m && !skipKeys[m][k] && !strings.HasPrefix(k, popped+".") {
							okD = false
							offenders = append(offenders, k+" at "+c.P.Pos(st.Pos()))
						}
					}
					return true
				})
				c.Check(okD, key+":skip-set:"+m, li.loop.Pos(), "the map %q that can keep a manifest from being expanded is written only with keys of manifests being expanded or queued: %v %v — otherwise a manifest whose digest also occurs as a config or layer of another image is never expanded and its own content is swept", m, okD, offenders)
			}
			if len(maps) == 0 {
				c.Fail(key+":skip-set", li.loop.Pos(), "the collector's mark loop has no visited set")
			}
		}
	}
	if len(loops) == 0 {
		c.Unresolved("loops", "no worklist loops found")
	}
}

// app is one append to a worklist with the visited-set guards around it and the marks set next to it.
type app struct {
	guardMaps map[string]string // S -> key negated in an enclosing if
	marks     map[string]string // S -> key set true in the same enclosing block
	pos       token.Pos
}

// visitWithMarks handles nested blocks where the marks of the enclosing block remain visible.
func visitWithMarks(stmts []ast.Stmt, guards, outerMarks map[string]string, apps *[]app, w string) {
	marks := map[string]string{}
	for k, v := range outerMarks {
		marks[k] = v
	}
	for _, st := range stmts {
		if s, k, ok := mapAssignTrue(st); ok {
			marks[s] = k
		}
	}
	for _, st := range stmts {
		switch x := st.(type) {
		case *ast.AssignStmt:
			if len(x.Lhs) == 1 && len(x.Rhs) == 1 && exprString(x.Lhs[0]) == w {
				if call, ok := x.Rhs[0].(*ast.CallExpr); ok {
					if id, ok := call.Fun.(*ast.Ident); ok && id.Name == "append" {
						g := map[string]string{}
						for k, v := range guards {
							g[k] = v
						}
						*apps = append(*apps, app{g, marks, x.Pos()})
					}
				}
			}
		case *ast.IfStmt:
			// guard clause: `if S[k] { continue }` — what follows in this block runs under !S[k]
			if ie, ok := asSetIndex(x.Cond); ok && x.Else == nil && len(x.Body.List) == 1 {
				if br, isBr := x.Body.List[0].(*ast.BranchStmt); isBr && br.Tok == token.CONTINUE {
					ng := map[string]string{}
					for k, v := range guards {
						ng[k] = v
					}
					ng[exprString(ie.X)] = exprString(ie.Index)
					guards = ng
					continue
				}
			}
			g := map[string]string{}
			for k, v := range guards {
				g[k] = v
			}
			if ue, ok := x.Cond.(*ast.UnaryExpr); ok && ue.Op == token.NOT {
				if ie, ok := asSetIndex(ue.X); ok {
					g[exprString(ie.X)] = exprString(ie.Index)
				}
			}
			visitWithMarks(x.Body.List, g, marks, apps, w)
			if eb, ok := x.Else.(*ast.BlockStmt); ok {
				visitWithMarks(eb.List, guards, marks, apps, w)
			}
		case *ast.RangeStmt:
			visitWithMarks(x.Body.List, guards, marks, apps, w)
		case *ast.BlockStmt:
			visitWithMarks(x.List, guards, marks, apps, w)
		}
	}
}

// isMarkLoop: the collector's mark loop is the worklist loop that expands image manifests — its body
// declares a value of the image manifest struct type (to decode config and layers into).
func isMarkLoop(c *core.Ctx, pk *packages.Package, li loopInfo) bool {
	if li.kind != "worklist" {
		return false
	}
	found := false
	declares := func(body ast.Node) {
		ast.Inspect(body, func(n ast.Node) bool {
			if cl, ok := n.(*ast.CompositeLit); ok {
				if tv, ok := pk.TypesInfo.Types[cl]; ok && isNamedType(tv.Type, c.P.Module+"/types", "Manifest") {
					found = true
				}
			}
			return true
		})
	}
	declares(li.loop.Body)
	if !found {
		// … or hands the decoding to a function of the package that does (children, blobs, ok := manifestRefs(rdr, mt))
		ast.Inspect(li.loop.Body, func(n ast.Node) bool {
			if call, ok := n.(*ast.CallExpr); ok {
				if hd := pkgFuncDecl(pk, call); hd != nil && hd.Body != nil {
					declares(hd.Body)
				}
			}
			return true
		})
	}
	return found
}

// pkgFuncDecl: the declaration of the function of this package a call expression calls (resolved through the types).
func pkgFuncDecl(pk *packages.Package, call *ast.CallExpr) *ast.FuncDecl {
	f, ok := typeutilCallee(pk, call).(*types.Func)
	if !ok || f.Pkg() != pk.Types {
		return nil
	}
	for _, fd := range funcDecls(pk) {
		if pk.TypesInfo.Defs[fd.Name] == f {
			return fd
		}
	}
	return nil
}

// helperFieldSources: for a decoding helper of the package, which descriptor fields of the manifest structs reach
// which of its results: a result that is the field itself (return man.Manifests, …), or a local list the helper
// fills from the field — append(L, X.f.Digest) for a single descriptor, append(L, v…) inside `for … v := range X.f`.
// Result index → set of "Type.Field".
func helperFieldSources(pk *packages.Package, typesPath string, hd *ast.FuncDecl) map[int]map[string]bool {
	out := map[int]map[string]bool{}
	add := func(i int, k string) {
		if out[i] == nil {
			out[i] = map[string]bool{}
		}
		out[i][k] = true
	}
	// X.f with X of a manifest struct type and f a (list of) descriptor(s)
	fieldOf := func(e ast.Expr) (string, bool) {
		se, ok := ast.Unparen(e).(*ast.SelectorExpr)
		if !ok {
			return "", false
		}
		tv, ok := pk.TypesInfo.Types[se.X]
		if !ok {
			return "", false
		}
		for _, tn := range []string{"Manifest", "Index"} {
			if isNamedType(tv.Type, typesPath, tn) {
				return tn + "." + se.Sel.Name, true
			}
		}
		return "", false
	}
	// the fields a local list is filled from
	listSources := func(name string) []string {
		var srcs []string
		var visit func(n ast.Node, ranged map[string]string)
		visit = func(n ast.Node, ranged map[string]string) {
			ast.Inspect(n, func(m ast.Node) bool {
				switch x := m.(type) {
				case *ast.RangeStmt:
					if k, ok := fieldOf(x.X); ok && x.Value != nil && exprString(x.Value) != "_" {
						inner := map[string]string{}
						for a, b := range ranged {
							inner[a] = b
						}
						inner[exprString(x.Value)] = k
						visit(x.Body, inner)
						return false
					}
				case *ast.AssignStmt:
					if len(x.Lhs) != 1 || len(x.Rhs) != 1 || exprString(x.Lhs[0]) != name {
						return true
					}
					if k, ok := fieldOf(x.Rhs[0]); ok {
						srcs = append(srcs, k)
						return true
					}
					call, ok := x.Rhs[0].(*ast.CallExpr)
					if !ok || exprString(call.Fun) != "append" || len(call.Args) < 2 {
						return true
					}
					for _, a := range call.Args[1:] {
						// X.f.Digest / X.f
						e := ast.Unparen(a)
						if se, ok := e.(*ast.SelectorExpr); ok {
							if k, ok := fieldOf(se.X); ok {
								srcs = append(srcs, k)
								continue
							}
							if id, ok := se.X.(*ast.Ident); ok && ranged[id.Name] != "" {
								srcs = append(srcs, ranged[id.Name])
								continue
							}
						}
						if k, ok := fieldOf(e); ok {
							srcs = append(srcs, k)
							continue
						}
						if id, ok := e.(*ast.Ident); ok && ranged[id.Name] != "" {
							srcs = append(srcs, ranged[id.Name])
						}
					}
				}
				return true
			})
		}
		visit(hd.Body, map[string]string{})
		return srcs
	}
	var named []string
	if hd.Type.Results != nil {
		for _, f := range hd.Type.Results.List {
			for _, nm := range f.Names {
				named = append(named, nm.Name)
			}
		}
	}
	ast.Inspect(hd.Body, func(n ast.Node) bool {
		if _, isLit := n.(*ast.FuncLit); isLit {
			return false
		}
		rs, ok := n.(*ast.ReturnStmt)
		if !ok {
			return true
		}
		results := rs.Results
		if len(results) == 0 {
			for _, nm := range named {
				results = append(results, ast.NewIdent(nm))
			}
		}
		for i, e := range results {
			if k, ok := fieldOf(e); ok {
				add(i, k)
				continue
			}
			if id, ok := ast.Unparen(e).(*ast.Ident); ok && id.Name != "nil" {
				for _, k := range listSources(id.Name) {
					add(i, k)
				}
			}
		}
		return true
	})
	return out
}

// ---- SH-MARK-EXHAUSTIVE ----

func runMarkExhaustive(c *core.Ctx) {
	r := requireRoles(c)
	if r == nil {
		return
	}
	pk := pkgOf(c, "internal/store")
	initSetMethods(pk)
	// the collector's mark loop: the worklist loop in the function that calls blobDelete
	var mark *loopInfo
	for _, li := range findLoops(pk) {
		if li.kind != "worklist" {
			continue
		}
		if isMarkLoop(c, pk, li) {
			l := li
			mark = &l
		}
	}
	if mark == nil {
		c.Unresolved("mark-loop", "no worklist loop that expands image manifests found in the store package")
		return
	}
	// lists a decoding helper hands back to the loop: local name → the fields they were filled from
	derived := map[string]map[string]bool{}
	ast.Inspect(mark.loop.Body, func(n ast.Node) bool {
		as, ok := n.(*ast.AssignStmt)
		if !ok || len(as.Rhs) != 1 {
			return true
		}
		call, ok := as.Rhs[0].(*ast.CallExpr)
		if !ok {
			return true
		}
		hd := pkgFuncDecl(pk, call)
		if hd == nil || hd.Body == nil {
			return true
		}
		for i, srcs := range helperFieldSources(pk, r.TypesPath, hd) {
			if i < len(as.Lhs) {
				if nm := exprString(as.Lhs[i]); nm != "_" {
					if derived[nm] == nil {
						derived[nm] = map[string]bool{}
					}
					for k := range srcs {
						derived[nm][k] = true
					}
				}
			}
		}
		return true
	})
	tp := c.P.Pkg("types").Types
	for _, tn := range []string{"Manifest", "Index"} {
		named := lookupNamed(tp, tn)
		st := named.Underlying().(*types.Struct)
		for i := 0; i < st.NumFields(); i++ {
			f := st.Field(i)
			if !f.Exported() {
				continue
			}
			many := false
			switch {
			case isNamed(f.Type(), r.TypesPath, "Descriptor"):
			default:
				sl, ok := f.Type().Underlying().(*types.Slice)
				if !ok || !isNamed(sl.Elem(), r.TypesPath, "Descriptor") {
					continue
				}
				many = true
			}
			covered := false
			ast.Inspect(mark.loop.Body, func(n ast.Node) bool {
				// selector X.f where X has the struct type
				isField := func(e ast.Expr) bool {
					se, ok := e.(*ast.SelectorExpr)
					if !ok || se.Sel.Name != f.Name() {
						return false
					}
					tv, ok := pk.TypesInfo.Types[se.X]
					return ok && isNamedType(tv.Type, r.TypesPath, tn)
				}
				consumes := func(body ast.Node, v string) bool {
					used := false
					// locals that hold (a part of) the element: dig := v.Digest
					alias := map[string]bool{}
					ast.Inspect(body, func(m ast.Node) bool {
						if y, ok := m.(*ast.AssignStmt); ok && y.Tok == token.DEFINE && len(y.Lhs) == 1 && len(y.Rhs) == 1 {
							if rs := exprString(y.Rhs[0]); rs == v || strings.HasPrefix(rs, v+".") {
								alias[exprString(y.Lhs[0])] = true
							}
						}
						return true
					})
					mentions := func(e string) bool {
						names := []string{v}
						for a := range alias {
							names = append(names, a)
						}
						for _, nm := range names {
							// the name as a whole operand, not as part of a longer identifier or selector chain
							if regexp.MustCompile(`(^|[^A-Za-z0-9_.])` + regexp.QuoteMeta(nm) + `($|[^A-Za-z0-9_])`).MatchString(e) {
								return true
							}
						}
						return false
					}
					ast.Inspect(body, func(m ast.Node) bool {
						if st, isStmt := m.(ast.Stmt); isStmt {
							if _, k, ok := mapAssignTrue(st); ok && mentions(k) {
								used = true
							}
						}
						switch y := m.(type) {
						case *ast.AssignStmt:
							if len(y.Lhs) == 1 && exprString(y.Lhs[0]) == mark.w {
								if mentions(exprString(y.Rhs[0])) {
									used = true
								}
							}
						}
						return true
					})
					return used
				}
				switch x := n.(type) {
				case *ast.RangeStmt:
					// a list a decoding helper filled from the field (every element of it consumed)
					if id, ok := x.X.(*ast.Ident); ok && derived[id.Name][tn+"."+f.Name()] {
						if x.Value != nil && exprString(x.Value) != "_" && consumes(x.Body, exprString(x.Value)) {
							covered = true
						}
						if x.Key != nil && exprString(x.Key) != "_" && consumes(x.Body, exprString(x.X)+"["+exprString(x.Key)+"]") {
							covered = true
						}
					}
					if many && isField(x.X) {
						if x.Value != nil && exprString(x.Value) != "_" && consumes(x.Body, exprString(x.Value)) {
							covered = true
						}
						// index form: for i := range X.f { … X.f[i] … }
						if x.Key != nil && exprString(x.Key) != "_" && consumes(x.Body, exprString(x.X)+"["+exprString(x.Key)+"]") {
							covered = true
						}
					}
				case *ast.ForStmt:
					// for i := 0; i < len(X.f); i++ { … X.f[i] … }
					if !many || x.Init == nil || x.Cond == nil || x.Post == nil {
						break
					}
					init, ok1 := x.Init.(*ast.AssignStmt)
					cond, ok2 := x.Cond.(*ast.BinaryExpr)
					post, ok3 := x.Post.(*ast.IncDecStmt)
					if !ok1 || !ok2 || !ok3 || len(init.Lhs) != 1 || len(init.Rhs) != 1 || exprString(init.Rhs[0]) != "0" || post.Tok != token.INC || cond.Op != token.LSS {
						break
					}
					iv := exprString(init.Lhs[0])
					if exprString(cond.X) != iv || exprString(post.X) != iv {
						break
					}
					lc, ok := cond.Y.(*ast.CallExpr)
					if !ok || exprString(lc.Fun) != "len" || len(lc.Args) != 1 || !isField(lc.Args[0]) {
						break
					}
					// the counter is not otherwise assigned in the body
					reassigned := false
					ast.Inspect(x.Body, func(m ast.Node) bool {
						switch y := m.(type) {
						case *ast.AssignStmt:
							for _, l := range y.Lhs {
								if exprString(l) == iv {
									reassigned = true
								}
							}
						case *ast.IncDecStmt:
							if exprString(y.X) == iv {
								reassigned = true
							}
						}
						return true
					})
					if !reassigned && consumes(x.Body, exprString(lc.Args[0])+"["+iv+"]") {
						covered = true
					}
				case *ast.AssignStmt, *ast.ExprStmt:
					if !many {
						if _, kx, ok := setAddExpr(x.(ast.Stmt)); ok {
							if se, ok := kx.(*ast.SelectorExpr); ok && isField(se.X) {
								covered = true
							}
						}
					}
				}
				return true
			})
			key := fmt.Sprintf("field:%s.%s", tn, f.Name())
			if covered {
				c.Pass(key, mark.loop.Pos(), "consumed by the mark loop")
			} else {
				c.Fail(key, mark.loop.Pos(), "the mark loop of %s does not follow %s.%s: content referenced only there is swept although its manifest is retained", mark.fd.Name.Name, tn, f.Name())
			}
		}
	}
	// referrers edge
	popped := ""
	ast.Inspect(mark.loop.Body, func(n ast.Node) bool {
		if as, ok := n.(*ast.AssignStmt); ok && len(as.Lhs) == 1 && len(as.Rhs) == 1 && as.Tok == token.DEFINE {
			if ie, ok := as.Rhs[0].(*ast.IndexExpr); ok && exprString(ie.X) == mark.w {
				popped = exprString(as.Lhs[0])
			}
		}
		return true
	})
	edge := false
	ast.Inspect(mark.loop.Body, func(n ast.Node) bool {
		ifs, ok := n.(*ast.IfStmt)
		if !ok || ifs.Init == nil {
			return true
		}
		as, ok := ifs.Init.(*ast.AssignStmt)
		if !ok || len(as.Lhs) != 2 || len(as.Rhs) != 1 {
			return true
		}
		ie, ok := as.Rhs[0].(*ast.IndexExpr)
		if !ok || !strings.HasPrefix(exprString(ie.Index), popped+".") {
			return true
		}
		v := exprString(as.Lhs[0])
		ast.Inspect(ifs.Body, func(m ast.Node) bool {
			if y, ok := m.(*ast.AssignStmt); ok && len(y.Lhs) == 1 && exprString(y.Lhs[0]) == mark.w && strings.Contains(exprString(y.Rhs[0]), v) {
				edge = true
			}
			return true
		})
		return true
	})
	c.Check(edge, "referrers-edge", mark.loop.Pos(), "the referrers response attached to a retained manifest is pushed on the worklist: %v (otherwise the referrers of a retained subject are swept)", edge)
}

// ---- SH-SWEEP-GUARD ----

func runSweepGuard(c *core.Ctx) {
	r := requireRoles(c)
	if r == nil {
		return
	}
	var del *ssa.Call
	for _, fn := range sharedStoreFuncs(c) {
		an.Calls(fn, func(call ssa.CallInstruction) {
			cc, ok := call.(*ssa.Call)
			if ok && cc.Call.IsInvoke() && cc.Call.Method.Name() == "blobDelete" && an.NamedOf(cc.Call.Value.Type()) == r.IRepo {
				del = cc
			}
		})
	}
	if del == nil {
		c.Unresolved("sweep", "no blobDelete call in the shared collector")
		return
	}
	fn := del.Parent()
	h := loopHeader(del.Block())
	if h == nil {
		c.Fail("sweep-loop", del.Pos(), "the blob removal is not inside a loop over the stored blobs")
		return
	}
	dkey := an.Origin(del.Call.Args[0])
	// (1) not-in-keep-set edge
	keepOK := false
	var keepMap ssa.Value
	for _, g := range an.GuardingEdges(del.Block()) {
		base, neg := an.CondBase(g.If().Cond)
		lkX, lkIndex, ok := setLookup(base)
		if !ok || an.Origin(lkIndex) != dkey {
			continue
		}
		isTrue := (g.Succ == 0) != neg
		if !isTrue && inLoop(g.From) {
			// the map must come from the mark phase: not one the sweep loop itself fills in
			writtenInLoop := false
			for _, ins := range setInserts(lkX) {
				if (ins.block == h || an.BlockReaches(h, ins.block)) && an.BlockReaches(ins.block, h) {
					writtenInLoop = true
				}
			}
			if !writtenInLoop {
				keepOK = true
				keepMap = lkX
			}
		}
	}
	c.SetTags("safety")
	c.Check(keepOK, "removal-needs-unmarked", del.Pos(), "the blob removal at %s is dominated by the ‘not in the keep-set’ edge of a lookup keyed by the loop's blob: %v — otherwise retained content is deleted", c.P.Pos(del.Pos()), keepOK)
	// (1b) the keep-set is the set the mark phase fills: where the collector puts the config digest of a walked image
	//      manifest into a set (seen[man.Config.Digest] = true, possibly in a helper the set is handed to), the lookup that
	//      protects a blob from the sweep reads that very set.  Judged only when both sides resolve to the place the map
	//      was made; a set that cannot be followed gives no verdict here.
	if keepMap != nil {
		var made func(v ssa.Value, depth int) ssa.Value
		made = func(v ssa.Value, depth int) ssa.Value {
			v = resolveAcross(c, v, 0)
			switch x := an.Strip(v).(type) {
			case *ssa.MakeMap:
				return x
			case *ssa.Call:
				callee := x.Call.StaticCallee()
				if callee == nil || x.Call.IsInvoke() {
					return nil
				}
				if _, isMap := x.Type().Underlying().(*types.Map); !isMap {
					return nil
				}
				// the mark step that hands its set out (seen := markReachable(…)): the map it returns, when this is its
				// only call; a constructor used in several places is told apart by the call
				if len(callee.Blocks) > 0 && len(c.P.Callers(callee)) == 1 && depth < 4 {
					var got ssa.Value
					okAll := true
					an.Instrs(callee, func(in ssa.Instruction) {
						if ret, isRet := in.(*ssa.Return); isRet && len(ret.Results) == 1 {
							m := made(ret.Results[0], depth+1)
							if m == nil || (got != nil && got != m) {
								okAll = false
							}
							got = m
						}
					})
					if okAll && got != nil {
						return got
					}
					return nil
				}
				return x
			}
			return nil
		}
		var markSets []ssa.Value
		resolvedAll := true
		// the walked manifest itself: an insertion keyed by the digest of an element of a descriptor list that is not a
		// field of a manifest (the worklist); opaque: an insertion whose key cannot be told (a helper's parameter)
		selfMarked := map[ssa.Value]bool{}
		opaqueFor := map[ssa.Value]bool{}
		opaqueInsert := false
		for _, sf := range sharedStoreFuncs(c) {
			an.Instrs(sf, func(in ssa.Instruction) {
				var m, key ssa.Value
				switch x := in.(type) {
				case *ssa.MapUpdate:
					m, key = x.Map, x.Key
				case *ssa.Call:
					if setMethodSSA(x.Call.StaticCallee()) == "add" && len(x.Call.Args) == 2 {
						m, key = x.Call.Args[0], x.Call.Args[1]
					}
				}
				if m == nil {
					return
				}
				if mt, isMap := m.Type().Underlying().(*types.Map); isMap {
					if bt, isB := mt.Elem().Underlying().(*types.Basic); !isB || bt.Kind() != types.Bool {
						if _, isStruct := mt.Elem().Underlying().(*types.Struct); !isStruct {
							return
						}
					}
				}
				root, pth := accessPath(an.Strip(key))
				mmAny := made(m, 0)
				if root != nil && len(pth) == 2 && pth[0] == "[]" && pth[1] == "Digest" && strings.HasPrefix(root.Type().String(), "[]") && strings.HasSuffix(root.Type().String(), "types.Descriptor") {
					if mmAny != nil {
						selfMarked[mmAny] = true
					} else {
						opaqueInsert = true
					}
				} else if mmAny == nil {
					// a set that cannot be followed to where it was made may be the mark set
					opaqueInsert = true
				} else if root == nil || len(pth) == 0 {
					opaqueFor[mmAny] = true
				} else if _, isParam := an.Origin(root).(*ssa.Parameter); isParam {
					opaqueFor[mmAny] = true
				}
				if len(pth) < 2 || pth[len(pth)-1] != "Digest" || pth[len(pth)-2] != "Config" || root == nil {
					return
				}
				if mm := made(m, 0); mm != nil {
					markSets = append(markSets, mm)
				} else {
					resolvedAll = false
				}
			})
		}
		if km := made(keepMap, 0); km != nil && len(markSets) > 0 && resolvedAll {
			same := false
			for _, ms := range markSets {
				if ms == km {
					same = true
				}
			}
			c.SetTags("safety")
			c.Check(same, "keep-set-is-mark-set", del.Pos(), "the set whose members the sweep spares (made at %s) is the set the mark phase puts the config digest of every walked image into (made at %s): %v — a sweep that consults another set deletes the configs and layers of retained images", c.P.Pos(km.Pos()), c.P.Pos(markSets[0].Pos()), same)
			if same && !opaqueInsert && !opaqueFor[km] {
				c.SetTags("safety")
				c.Check(selfMarked[km], "walked-manifest-marked", del.Pos(), "the mark phase puts the digest of the manifest it takes from the worklist itself into the set the sweep spares (made at %s): %v — otherwise the manifests of retained images are swept while their configs and layers stay", c.P.Pos(km.Pos()), selfMarked[km])
			}
		}
	}
	// (2) grace test
	graceOK, graceKnown, graceDirBad := false, false, false
	for _, b := range fn.Blocks {
		ifi := an.BlockIf(b)
		if ifi == nil || !an.BlockReaches(h, b) || !an.BlockReaches(b, h) {
			continue
		}
		base, _ := an.CondBase(ifi.Cond)
		call, ok := base.(*ssa.Call)
		if !ok || !(an.IsMethod(call, "time", "Time", "After") || an.IsMethod(call, "time", "Time", "Before")) {
			continue
		}
		if !b.Dominates(del.Block()) && !an.BlockReaches(b, del.Block()) {
			continue
		}
		// one side can return to the loop header without passing the removal
		for si, s := range b.Succs {
			if reachesAvoiding(s, h, del.Block()) && pathCanSkip(s, h, del.Block()) {
				graceOK = true
				// that side is the ‘newer than the cut-off’ side
				isStamp := func(v ssa.Value) bool {
					root, p := accessPath(an.Strip(v))
					if al, ok := root.(*ssa.Alloc); ok {
						if st := an.SingleStore(al); st != nil {
							root = st
						}
					}
					ex, ok := an.Strip(root).(*ssa.Extract)
					if !ok || len(p) == 0 || p[len(p)-1] != "mod" {
						return false
					}
					mc, ok := ex.Tuple.(*ssa.Call)
					return ok && mc.Call.IsInvoke() && mc.Call.Method.Name() == "blobMeta" && len(mc.Call.Args) > 0 && an.Origin(mc.Call.Args[0]) == dkey
				}
				_, neg := an.CondBase(ifi.Cond)
				after := an.IsMethod(call, "time", "Time", "After")
				pol, known := 0, false
				if len(call.Call.Args) == 2 {
					switch {
					case isStamp(call.Call.Args[0]) && !isStamp(call.Call.Args[1]):
						pol, known = 1, true
						if !after {
							pol = -1
						}
					case isStamp(call.Call.Args[1]) && !isStamp(call.Call.Args[0]):
						pol, known = -1, true
						if !after {
							pol = 1
						}
					}
				}
				if neg {
					pol = -pol
				}
				if si == 1 {
					pol = -pol
				}
				graceKnown = graceKnown || known
				if known && pol < 0 {
					graceDirBad = true
				}
			}
		}
	}
	c.Check(graceOK, "grace-test", del.Pos(), "a comparison of the blob's modification time with the cut-off decides whether the removal is skipped: %v — otherwise blobs uploaded moments ago (before their manifest arrives) are deleted", graceOK)
	if graceOK {
		if !graceKnown {
			c.Undecided("grace-direction", del.Pos(), "the time comparison that lets the sweep skip a blob does not compare the modification time of that blob (blobMeta of the loop's digest) with another time in a recognised form")
		} else {
			c.Check(!graceDirBad, "grace-direction", del.Pos(), "the side of the time comparison that skips the removal is the ‘modified after the cut-off’ side: %v — otherwise the sweep keeps old garbage and deletes what was uploaded moments ago", !graceDirBad)
		}
	}
	// (3) pruning of index entries without a blob
	pruneOK, pruneCovers := false, true
	an.Calls(fn, func(call ssa.CallInstruction) {
		if an.IsMethod(call, r.TypesPath, "Index", "RmDesc") {
			for _, g := range an.GuardingEdges(call.Block()) {
				base, neg := an.CondBase(g.If().Cond)
				if _, _, ok := setLookup(base); ok && ((g.Succ == 0) == neg) && !an.BlockReaches(call.Block(), del.Block()) {
					pruneOK = true
					// the loop doing this ranges over every entry of the index
					pruneCovers = false
					if lh := loopHeader(call.Block()); lh != nil {
						for _, b := range append([]*ssa.BasicBlock{lh}, lh.Succs...) {
							for _, in := range b.Instrs {
								switch x := in.(type) {
								case *ssa.Next:
									if rg, ok := x.Iter.(*ssa.Range); ok {
										if idx, _ := memberCover(c, an.Origin(rg.X)); idx {
											pruneCovers = true
										}
									}
								case *ssa.IndexAddr:
									if pth, ok := indexParamPath(x); ok && pathEq(pth, "Manifests", "[]") {
										pruneCovers = true
									}
								}
							}
						}
					}
				}
			}
		}
	})
	// (4) retention is closed under reference: an unmarked blob may stay only when it is not an index entry
	//     (an index entry that stays without having been marked was never expanded, so what it references is unprotected)
	if keepMap != nil {
		isMember := func(m ssa.Value) bool {
			idx, pop := memberCover(c, m)
			return idx || pop
		}
		var bad *ssa.BasicBlock
		inBody := func(b *ssa.BasicBlock) bool { return b != h && an.BlockReaches(h, b) && an.BlockReaches(b, h) }
		an.Paths(an.PathSpec[int]{Fn: fn, Init: 0,
			Instr: func(s int, in ssa.Instruction) []int {
				if in == ssa.Instruction(del) {
					return []int{1}
				}
				return []int{s}
			},
			Edge: func(s int, from *ssa.BasicBlock, succ int) (int, bool) {
				to := from.Succs[succ]
				if from == h {
					return 0, true
				}
				if ifi := an.BlockIf(from); ifi != nil {
					base, neg := an.CondBase(ifi.Cond)
					if lkX, lkIndex, ok := setLookup(base); ok && an.Origin(lkIndex) == dkey {
						isTrue := (succ == 0) != neg
						if isTrue && (an.Origin(lkX) == an.Origin(keepMap) || resolveAcross(c, lkX, 0) == resolveAcross(c, keepMap, 0)) {
							s = 1
						}
						if !isTrue && isMember(an.Origin(lkX)) {
							s = 1
						}
					}
				}
				if to == h {
					if inBody(from) && s == 0 && bad == nil {
						bad = from
					}
					return 0, true
				}
				return s, true
			}})
		c.SetTags("safety")
		where := ""
		if bad != nil {
			where = c.P.Pos(an.BlockPos(bad))
		}
		c.Check(bad == nil, "retention-closed", del.Pos(), "every iteration of the sweep that keeps a blob does so on the ‘marked’ edge or on the ‘not an index entry’ edge (a keep path without either ends at %s): an index entry kept without having been expanded leaves its config, layers and children unprotected", where)
	}
	// (6) every removal of an index entry by the collector is reported to the caller: the block that calls RmDesc (or the
	//     straight-line blocks after it) feeds the constant true into the boolean the function returns as ‘modified’ —
	//     the callers save the index only when that result is true
	{
		var retBools map[ssa.Value]bool
		retBools = map[ssa.Value]bool{}
		an.Instrs(fn, func(in ssa.Instruction) {
			if ret, ok := in.(*ssa.Return); ok {
				results := append([]ssa.Value{}, ret.Results...)
				// a result record (a struct of the package built in place): its boolean fields are results too
				for _, rv := range ret.Results {
					if _, isStruct := rv.Type().Underlying().(*types.Struct); isStruct {
						ss := structStores(an.Origin(rv))
						if len(ss) == 0 {
							if u, ok := an.Strip(rv).(*ssa.UnOp); ok {
								ss = structStores(u.X)
							}
						}
						for _, vals := range ss {
							results = append(results, vals...)
						}
					}
				}
				for _, rv := range results {
					if bt, ok := rv.Type().Underlying().(*types.Basic); ok && bt.Kind() == types.Bool {
						var mark func(v ssa.Value, d int)
						mark = func(v ssa.Value, d int) {
							if d > 8 || retBools[v] {
								return
							}
							retBools[v] = true
							if phi, ok := v.(*ssa.Phi); ok {
								for _, e := range phi.Edges {
									mark(e, d+1)
								}
							}
						}
						mark(rv, 0)
					}
				}
			}
		})
		nRm := 0
		an.Calls(fn, func(call ssa.CallInstruction) {
			if !an.IsMethod(call, r.TypesPath, "Index", "RmDesc") {
				return
			}
			nRm++
			// blocks reached from the call's block by unconditional jumps
			chain := map[*ssa.BasicBlock]bool{call.Block(): true}
			for b := call.Block(); len(b.Succs) == 1; b = b.Succs[0] {
				if chain[b.Succs[0]] {
					break
				}
				// stop at a join fed from elsewhere only after recording the edge into it
				chain[b.Succs[0]] = true
				if len(b.Succs[0].Preds) > 1 {
					break
				}
			}
			reported := false
			// the result record kept in a local and updated in place (res.mod = true next to the removal)
			an.Instrs(fn, func(in ssa.Instruction) {
				st, ok := in.(*ssa.Store)
				if !ok || !chain[st.Block()] {
					return
				}
				if bv, isC := an.ConstBool(st.Val); !isC || !bv {
					return
				}
				fa, ok := st.Addr.(*ssa.FieldAddr)
				if !ok {
					return
				}
				al, ok := fa.X.(*ssa.Alloc)
				if !ok {
					return
				}
				// that local is what the function returns
				an.Instrs(fn, func(in2 ssa.Instruction) {
					if ret, ok := in2.(*ssa.Return); ok {
						for _, rv := range ret.Results {
							if u, ok := an.Strip(rv).(*ssa.UnOp); ok && u.Op == token.MUL && u.X == ssa.Value(al) {
								reported = true
							}
						}
					}
				})
			})
			for _, b := range fn.Blocks {
				for _, in := range b.Instrs {
					phi, ok := in.(*ssa.Phi)
					if !ok {
						break
					}
					if !retBools[phi] {
						continue
					}
					for i, e := range phi.Edges {
						if bv, isC := an.ConstBool(e); isC && bv && chain[b.Preds[i]] && (b.Preds[i] == call.Block() || chain[b.Preds[i]]) {
							reported = true
						}
					}
				}
			}
			// also: a plain `return index, true, nil` after the call
			c.SetTags("exact")
			c.Check(reported, fmt.Sprintf("mutation-reported:#%d", nRm), call.Pos(), "the removal of an index entry at %s sets the collector's ‘modified’ result: %v — the stores write the index back only when it is true, so an unreported removal leaves index.json listing an entry (and tag) whose blob is gone", c.P.Pos(call.Pos()), reported)
		})
	}
	c.SetTags("exact")
	if pruneOK {
		c.Check(pruneCovers, "prune-covers-index", del.Pos(), "the loop that removes index entries without a blob ranges over every entry of the index under collection (the index itself, or a set filled unconditionally for each of its entries): %v — otherwise an entry the policy does not retain and whose blob is gone stays in the index forever", pruneCovers)
	}
	c.Check(pruneOK, "prune-dangling-entries", del.Pos(), "index entries whose blob is gone are removed from the index: %v", pruneOK)
}

// reachesAvoiding: from block s, goal is reachable on a path that does not enter block avoid.
func reachesAvoiding(s, goal, avoid *ssa.BasicBlock) bool {
	seen := map[*ssa.BasicBlock]bool{}
	var walk func(b *ssa.BasicBlock) bool
	walk = func(b *ssa.BasicBlock) bool {
		if b == avoid || seen[b] {
			return false
		}
		if b == goal {
			return true
		}
		seen[b] = true
		for _, x := range b.Succs {
			if walk(x) {
				return true
			}
		}
		return false
	}
	return walk(s)
}

// pathCanSkip: the path from s back to the loop header that avoids the removal does not run through
// the removal block's dominator chain end (it genuinely skips it within one iteration).
func pathCanSkip(s, h, avoid *ssa.BasicBlock) bool { return s != avoid }

// evalAssuming evaluates a boolean SSA value under an assumption about some of its comparison atoms: constants,
// negation, comparisons (asked of assume), and φs of materialised && / || — an incoming edge counts when the branch
// that leads into it is not refuted by the assumption, and the φ has a value when all such edges agree on one.
func evalAssuming(v ssa.Value, assume func(*ssa.BinOp) (bool, bool), depth int) (bool, bool) {
	return evalAssumingLeaf(v, assume, nil, depth)
}

// evalAssumingLeaf: evalAssuming with a second assumption for boolean values that are no comparisons (a flag read from a
// field, say).
func evalAssumingLeaf(v ssa.Value, assume func(*ssa.BinOp) (bool, bool), leaf func(ssa.Value) (bool, bool), depth int) (bool, bool) {
	if v == nil || depth > 8 {
		return false, false
	}
	if leaf != nil {
		if b, ok := leaf(v); ok {
			return b, true
		}
	}
	switch x := v.(type) {
	case *ssa.Const:
		return an.ConstBool(x)
	case *ssa.UnOp:
		if x.Op == token.NOT {
			b, ok := evalAssumingLeaf(x.X, assume, leaf, depth+1)
			return !b, ok
		}
	case *ssa.BinOp:
		return assume(x)
	case *ssa.Phi:
		val, any := false, false
		for i, e := range x.Edges {
			pred := x.Block().Preds[i]
			if ifi := an.BlockIf(pred); ifi != nil {
				if c, known := evalAssumingLeaf(ifi.Cond, assume, leaf, depth+1); known {
					takesTrue := pred.Succs[0] == x.Block()
					takesFalse := len(pred.Succs) > 1 && pred.Succs[1] == x.Block()
					if (c && !takesTrue) || (!c && !takesFalse) {
						continue // this edge is not taken under the assumption
					}
				}
			}
			b, ok := evalAssumingLeaf(e, assume, leaf, depth+1)
			if !ok {
				return false, false
			}
			if any && b != val {
				return false, false
			}
			val, any = b, true
		}
		return val, any
	}
	return false, false
}

// ---- SH-CONVERT-MARK ----

func runConvertMark(c *core.Ctx) {
	r := requireRoles(c)
	if r == nil {
		return
	}
	conv := constValue(c, "types", "AnnotReferrerConvert")
	// the ingest: shared store function(s) taking a *types.Index and returning (bool, error); the one the stores' loaders
	// call is the entry, the one that sets the converted annotation does the conversion (the same function, or a step
	// split out of it)
	isConvKey := func(v ssa.Value) bool { s, ok := an.ConstString(v); return ok && s == conv }
	isTrueStr := func(v ssa.Value) bool { s, ok := an.ConstString(v); return ok && s == "true" }
	var cands []*ssa.Function
	for _, fn := range sharedStoreFuncs(c) {
		if fn.Parent() != nil {
			continue
		}
		res := fn.Signature.Results()
		if res.Len() != 2 {
			continue
		}
		if b, ok := res.At(0).Type().Underlying().(*types.Basic); !ok || b.Kind() != types.Bool {
			continue
		}
		for _, p := range fn.Params {
			if pt, ok := p.Type().(*types.Pointer); ok && isNamed(pt.Elem(), r.TypesPath, "Index") {
				cands = append(cands, fn)
				break
			}
		}
	}
	var entry, ingest *ssa.Function
	for _, fn := range cands {
		for _, site := range c.P.Callers(fn) {
			if pf := site.Parent(); pf != nil && r.FamilyOfFunc(pf) != nil {
				entry = fn
			}
		}
		an.Instrs(fn, func(in ssa.Instruction) {
			if mu, ok := in.(*ssa.MapUpdate); ok && isConvKey(mu.Key) && isTrueStr(mu.Value) {
				ingest = fn
			}
		})
	}
	if entry == nil && len(cands) > 0 {
		entry = cands[len(cands)-1]
	}
	if ingest == nil {
		ingest = entry
	}
	if ingest == nil {
		c.Unresolved("ingest", "no shared function (…*types.Index…) (bool, error) found")
		return
	}
	// when the conversion is a step of its own, it starts ‘in conversion’ if its call in the entry is guarded by the ‘not yet
	// converted’ test under the referrers setting
	startInConv := false
	if ingest != entry && entry != nil {
		an.Calls(entry, func(call ssa.CallInstruction) {
			if call.Common().StaticCallee() != ingest {
				return
			}
			t, _ := settingGuards(call.Block())
			if !t["API.Referrer.Enabled"] {
				return
			}
			for _, g := range an.GuardingEdges(call.Block()) {
				if x, y, op, ok := an.CmpTest(g.If()); ok && isTrueStr(y) {
					if lk, isLk := an.Strip(x).(*ssa.Lookup); isLk && isConvKey(lk.Index) {
						if (op == token.NEQ && g.Succ == 0) || (op == token.EQL && g.Succ == 1) {
							startInConv = true
						}
					}
				}
			}
		})
	}
	type st struct{ inConv, set bool }
	bad := ""
	var setBlocks []*ssa.BasicBlock
	an.Paths(an.PathSpec[st]{Fn: ingest, Init: st{inConv: startInConv},
		Instr: func(s st, in ssa.Instruction) []st {
			switch x := in.(type) {
			case *ssa.MapUpdate:
				if isConvKey(x.Key) && isTrueStr(x.Value) {
					s.set = true
					setBlocks = append(setBlocks, x.Block())
				}
			case *ssa.Return:
				if s.inConv && !s.set && bad == "" && len(x.Results) == 2 {
					if retErrNil(x) {
						bad = fmt.Sprintf("the normal return at %s is reachable from the ‘not yet converted’ edge without setting the converted annotation: the conversion is repeated on every load and fallback tags processed twice", c.P.Pos(x.Pos()))
					}
				}
			}
			return []st{s}
		},
		Edge: func(s st, from *ssa.BasicBlock, succ int) (st, bool) {
			ifi := an.BlockIf(from)
			if ifi == nil {
				return s, true
			}
			// the ‘not yet converted’ edge: an edge that cannot be taken when the index carries the converted annotation — the
			// condition, evaluated under ‘annotations != nil’ and ‘annotations[convert] == "true"’, has the other value (the
			// test may be written out, or computed into a variable beforehand: converted := a != nil && a[k] == "true")
			if v, known := evalAssuming(ifi.Cond, func(atom *ssa.BinOp) (bool, bool) {
				if atom.Op != token.EQL && atom.Op != token.NEQ {
					return false, false
				}
				for _, pair := range [][2]ssa.Value{{atom.X, atom.Y}, {atom.Y, atom.X}} {
					if isTrueStr(pair[1]) {
						if lk, isLk := an.Strip(pair[0]).(*ssa.Lookup); isLk && isConvKey(lk.Index) {
							return atom.Op == token.EQL, true
						}
					}
					if an.IsNilConst(pair[1]) {
						if _, isMap := pair[0].Type().Underlying().(*types.Map); isMap {
							if _, p := accessPath(an.Strip(pair[0])); len(p) > 0 && p[len(p)-1] == "Annotations" {
								return atom.Op == token.NEQ, true
							}
						}
					}
				}
				return false, false
			}, 0); known && ((v && succ == 1) || (!v && succ == 0)) {
				// only the test that guards the conversion (the one also guarded by the referrers setting being on)
				t, _ := settingGuards(from)
				t2, _ := settingGuards(from.Succs[succ])
				if t["API.Referrer.Enabled"] || t2["API.Referrer.Enabled"] {
					s.inConv = true
				}
			}
			return s, true
		}})
	c.SetTags("marker")
	c.Check(bad == "", "annotation-set:"+kn(c.P.FuncName(ingest)), ingest.Pos(), "%s", map[bool]string{true: "every normal exit that passed the ‘not yet converted’ edge has set the converted annotation", false: bad}[bad == ""])
	// the conversion runs only with the referrers API switched on: the place that marks the index as converted is
	// dominated by the true edge of the setting (in the ingest, or at the call of a conversion step of its own) — an
	// index converted with the API off is refused at the next load
	if len(setBlocks) > 0 {
		entryGuarded := false
		if ingest != entry && entry != nil {
			an.Calls(entry, func(call ssa.CallInstruction) {
				if call.Common().StaticCallee() == ingest {
					if t, _ := settingGuards(call.Block()); t["API.Referrer.Enabled"] {
						entryGuarded = true
					}
				}
			})
		}
		unguarded := token.NoPos
		for _, b := range setBlocks {
			if t, _ := settingGuards(b); !t["API.Referrer.Enabled"] && !entryGuarded && unguarded == token.NoPos {
				unguarded = an.BlockPos(b)
			}
		}
		c.SetTags("setting")
		c.Check(unguarded == token.NoPos, "conversion-needs-setting:"+kn(c.P.FuncName(ingest)), ingest.Pos(), "the index is marked as converted only behind the true edge of the referrers setting: %v (the marking at %s is reachable with the API switched off: fallback tags are rewritten although the operator disabled the feature, and the next load refuses the index)", unguarded == token.NoPos, c.P.Pos(unguarded))
		c.SetTags("marker")
	}
	// modified = true on the edge leaving the conversion
	modOK := false
	for _, sb := range setBlocks {
		// follow the straight-line continuation of the block that set the annotation
		b := sb
		for step := 0; step < 4 && !modOK; step++ {
			if len(b.Succs) != 1 {
				break
			}
			s := b.Succs[0]
			for _, in := range s.Instrs {
				phi, ok := in.(*ssa.Phi)
				if !ok {
					break
				}
				if bt, ok := phi.Type().Underlying().(*types.Basic); !ok || bt.Kind() != types.Bool {
					continue
				}
				for i, p := range s.Preds {
					if p == b {
						if k, isC := phi.Edges[i].(*ssa.Const); isC && k.Value != nil && k.Value.String() == "true" {
							modOK = true
						}
					}
				}
			}
			b = s
		}
	}
	if !modOK {
		// a conversion step of its own: it returns true straight after setting the annotation
		for _, sb := range setBlocks {
			b := sb
			for step := 0; step < 4 && !modOK && b != nil; step++ {
				if len(b.Instrs) > 0 {
					if ret, ok := b.Instrs[len(b.Instrs)-1].(*ssa.Return); ok && len(ret.Results) == 2 {
						if bv, isC := an.ConstBool(ret.Results[0]); isC && bv {
							modOK = true
						}
					}
				}
				if len(b.Succs) != 1 {
					break
				}
				b = b.Succs[0]
			}
		}
		// …and the entry passes that verdict on
		if modOK && ingest != entry && entry != nil {
			used := false
			an.Calls(entry, func(call ssa.CallInstruction) {
				if cc, ok := call.(*ssa.Call); ok && cc.Call.StaticCallee() == ingest && cc.Referrers() != nil {
					for _, ref := range *cc.Referrers() {
						if ex, ok := ref.(*ssa.Extract); ok && ex.Index == 0 && ex.Referrers() != nil && len(*ex.Referrers()) > 0 {
							used = true
						}
					}
				}
			})
			modOK = used
		}
	}
	c.Check(modOK, "modified-set:"+kn(c.P.FuncName(ingest)), ingest.Pos(), "the ‘modified’ result is true on the edge that leaves the conversion: %v (otherwise the converted index is never saved)", modOK)
	// loaders
	c.SetTags("loader")
	for _, fam := range r.Families {
		ok := false
		var where *ssa.Function
		for _, fn := range c.P.Funcs("internal/store") {
			if r.FamilyOfFunc(fn) != fam {
				continue
			}
			an.Calls(fn, func(call ssa.CallInstruction) {
				cc, isCall := call.(*ssa.Call)
				if !isCall || (cc.Call.StaticCallee() != ingest && cc.Call.StaticCallee() != entry) {
					return
				}
				where = fn
				// the ok-edge of the decode: of the decoder call itself, or of a step of the family that does the decoding and
				// reports its error; the ingest may also sit in a step of its own (ingest and save) that the loader calls on that
				// edge — then every call of the step is judged
				decodes := func(h *ssa.Function) bool {
					found := false
					if h != nil && len(h.Blocks) > 0 && r.FamilyOfFunc(h) == fam {
						an.Calls(h, func(inner ssa.CallInstruction) {
							if an.IsMethod(inner, "encoding/json", "Decoder", "Decode") || an.IsFunc(inner, "encoding/json", "Unmarshal") {
								found = true
							}
						})
					}
					return found
				}
				var guarded func(b *ssa.BasicBlock, frame *ssa.Function, depth int) bool
				guarded = func(b *ssa.BasicBlock, frame *ssa.Function, depth int) bool {
					for _, g := range an.GuardingEdges(b) {
						x, nilSucc, isNil := an.NilTest(g.If())
						if !isNil || g.Succ != nilSucc {
							continue
						}
						if dc, _ := an.CallOf(x); dc != nil {
							if an.IsMethod(dc, "encoding/json", "Decoder", "Decode") || an.IsFunc(dc, "encoding/json", "Unmarshal") || decodes(dc.Call.StaticCallee()) {
								return true
							}
						}
					}
					if depth >= 2 {
						return false
					}
					sites := c.P.Callers(frame)
					if len(sites) == 0 {
						return false
					}
					for _, site := range sites {
						if site.Parent() == nil || r.FamilyOfFunc(site.Parent()) != fam || site.Common().StaticCallee() != frame || !guarded(site.Block(), site.Parent(), depth+1) {
							return false
						}
					}
					return true
				}
				if guarded(cc.Block(), fn, 0) {
					ok = true
				}
			})
		}
		key := "loader-calls-ingest:" + fam.Name
		if where == nil {
			c.Fail(key, token.NoPos, "the %s store never calls the ingest: child descriptors are not rebuilt and fallback-tag referrers never converted", fam.Name)
		} else {
			c.Check(ok, key, where.Pos(), "%s calls the ingest on the ok-edge of decoding the index file: %v", c.P.FuncName(where), ok)
		}
	}
}

// retErrNil: the (last) error result of the return is nil — literally, or as a defer-spilled cell whose
// last store in the returning block is nil.
func retErrNil(ret *ssa.Return) bool {
	if len(ret.Results) == 0 {
		return false
	}
	return an.IsNilConst(ret.Results[len(ret.Results)-1]) || isSpilledNil(ret)
}

// isSpilledNil: the error result is a defer-spilled cell whose last store in the block is nil.
func isSpilledNil(ret *ssa.Return) bool {
	v := ret.Results[len(ret.Results)-1]
	u, ok := v.(*ssa.UnOp)
	if !ok || u.Op != token.MUL {
		return false
	}
	var last ssa.Value
	for _, in := range ret.Block().Instrs {
		if s, ok := in.(*ssa.Store); ok && s.Addr == u.X {
			last = s.Val
		}
	}
	return last != nil && an.IsNilConst(last)
}

var _ = sort.Strings

// memberCover classifies a set of digests (a map filled with descriptor digests): idx — it is filled
// unconditionally for every entry of the index parameter; pop — it is filled unconditionally for every
// element taken from a slice of descriptors in a loop (the popped element of the mark worklist).
func memberCover(c *core.Ctx, m ssa.Value) (idx, pop bool) {
	m = callerArg(c, m)
	if m != nil && m.Referrers() != nil && len(setInserts(m)) == 0 {
		// a set that travels in a record (marks.inIndex): the map the record's field was filled with
		if r := resolveAcross(c, m, 0); r != nil {
			m = r
		}
	}
	if m == nil || m.Referrers() == nil {
		return false, false
	}
	for _, mu := range setInserts(m) {
		_, pth := accessPath(an.Strip(mu.key))
		if len(pth) == 0 || pth[len(pth)-1] != "Digest" {
			return false, false
		}
		lh := loopHeader(mu.block)
		uncond := lh != nil
		for _, g := range an.GuardingEdges(mu.block) {
			if lh != nil && g.From != lh && an.BlockReaches(lh, g.From) && an.BlockReaches(g.From, lh) {
				uncond = false
			}
		}
		if !uncond {
			continue
		}
		if ip, ok := indexParamPath(mu.key); ok && pathEq(ip, "Manifests", "[]", "Digest") {
			idx = true
			continue
		}
		root, _ := accessPath(an.Strip(mu.key))
		if pathEq(pth, "[]", "Digest") && strings.HasPrefix(root.Type().String(), "[]") && strings.HasSuffix(root.Type().String(), "types.Descriptor") {
			pop = true
		}
	}
	return idx, pop
}

func init() {
	register(&Rule{ID: "SH-GROUP-KEY", Floor: 1,
		Doc: "where the conversion groups referrer descriptors by subject (a map from digest to a descriptor list, filled by append), the key of each insertion and the appended descriptor come from the same call on the manifest read in that iteration (the subject that manifest names), never from a loop-carried variable",
		Run: func(c *core.Ctx) {
			r := requireRoles(c)
			if r == nil {
				return
			}
			n := 0
			for _, fn := range sharedStoreFuncs(c) {
				an.Instrs(fn, func(in ssa.Instruction) {
					mu, ok := in.(*ssa.MapUpdate)
					if !ok {
						return
					}
					mt, ok := mu.Map.Type().Underlying().(*types.Map)
					if !ok || !strings.HasSuffix(mt.Key().String(), "go-digest.Digest") {
						return
					}
					sl, ok := mt.Elem().Underlying().(*types.Slice)
					if !ok || !strings.HasSuffix(sl.Elem().String(), "types.Descriptor") {
						return
					}
					app, ok := an.Strip(mu.Value).(*ssa.Call)
					if !ok {
						return
					}
					bi, ok := app.Call.Value.(*ssa.Builtin)
					if !ok || bi.Name() != "append" || len(app.Call.Args) != 2 {
						return
					}
					elems, ok := variadicElems(app.Call.Args[1])
					if !ok || len(elems) != 1 {
						return
					}
					srcCall := func(v ssa.Value) *ssa.Call {
						root, _ := accessPath(an.Strip(v))
						if al, ok := root.(*ssa.Alloc); ok {
							if s := an.SingleStore(al); s != nil {
								root = an.Strip(s)
							}
						}
						root = an.Origin(root)
						if ex, ok := root.(*ssa.Extract); ok {
							if call, ok := ex.Tuple.(*ssa.Call); ok {
								return call
							}
						}
						if call, ok := root.(*ssa.Call); ok {
							return call
						}
						return nil
					}
					ec := srcCall(elems[0])
					if ec == nil {
						return // the element is not the result of a parse: not the grouping this rule is about
					}
					n++
					kc := srcCall(mu.Key)
					key := fmt.Sprintf("group:%s#%d", kn(c.P.FuncName(fn)), n)
					c.Check(kc != nil && kc == ec, key, mu.Pos(), "the descriptor appended at %s and the key it is filed under come from the same call (%s): %v — otherwise referrers of different subjects are filed under one subject and the others lose theirs", c.P.Pos(mu.Pos()), calleeName(ec), kc != nil && kc == ec)
				})
			}
			if n == 0 {
				c.Unresolved("grouping", "no grouping of parsed referrer descriptors by subject found in the shared store code")
			}
		}})
}

func calleeName(call *ssa.Call) string {
	if sc := call.Call.StaticCallee(); sc != nil {
		return sc.Name()
	}
	if call.Call.IsInvoke() {
		return call.Call.Method.Name()
	}
	return "call"
}

// callerArg: a parameter of a function with exactly one (static) call site stands for the argument
// passed there (followed through further single-caller parameters): a helper split out of a larger
// function sees the caller's objects.
func callerArg(c *core.Ctx, v ssa.Value) ssa.Value {
	for i := 0; i < 4; i++ {
		p, ok := v.(*ssa.Parameter)
		if !ok {
			return v
		}
		fn := p.Parent()
		sites := c.P.Callers(fn)
		if len(sites) != 1 {
			return v
		}
		cc := sites[0].Common()
		if cc.IsInvoke() || cc.StaticCallee() != fn {
			return v
		}
		pi := -1
		for k, q := range fn.Params {
			if q == p {
				pi = k
			}
		}
		if pi < 0 || pi >= len(cc.Args) {
			return v
		}
		v = an.Origin(cc.Args[pi])
	}
	return v
}
