package rules

import (
	"fmt"
	"go/constant"
	"go/token"
	"go/types"
	"sort"
	"strings"

	"golang.org/x/tools/go/ssa"

	"olacheck/an"
	"olacheck/core"
	"olacheck/roles"
)

// fsSink is one call of a filesystem function of package os.
type fsSink struct {
	call     ssa.CallInstruction
	fn       *ssa.Function
	name     string
	mutating bool
	paths    []ssa.Value
}

var osPathArgs = map[string][]int{
	"Create": {0}, "CreateTemp": {0, 1}, "WriteFile": {0}, "Mkdir": {0}, "MkdirAll": {0}, "MkdirTemp": {0, 1}, "Remove": {0}, "RemoveAll": {0},
	"Rename": {0, 1}, "Open": {0}, "OpenFile": {0}, "ReadFile": {0}, "ReadDir": {0}, "Stat": {0}, "Lstat": {0}, "Chmod": {0}, "Chown": {0},
	"Lchown": {0}, "Chtimes": {0}, "Truncate": {0}, "Symlink": {0, 1}, "Link": {0, 1}, "Readlink": {0}, "DirFS": {0},
}

func fsSinks(c *core.Ctx) []fsSink {
	return core.Memo(c, "fssinks", func() []fsSink {
		var out []fsSink
		for _, fn := range c.P.ModFuncs {
			if fn.TypeParams().Len() > 0 && len(fn.TypeArgs()) == 0 {
				continue
			}
			an.Calls(fn, func(call ssa.CallInstruction) {
				f := an.FuncObj(call)
				if f == nil || f.Pkg() == nil || an.RecvNamed(f) != nil {
					return
				}
				pkg := f.Pkg().Path()
				if pkg == "path/filepath" && (f.Name() == "Walk" || f.Name() == "WalkDir" || f.Name() == "Glob") {
					out = append(out, fsSink{call: call, fn: fn, name: "filepath." + f.Name(), paths: call.Common().Args[:1]})
					return
				}
				if pkg != "os" {
					return
				}
				idx, ok := osPathArgs[f.Name()]
				if !ok {
					return
				}
				s := fsSink{call: call, fn: fn, name: "os." + f.Name(), mutating: roles.MutatingOS[f.Name()]}
				if f.Name() == "OpenFile" {
					// read-only when the flag is the constant O_RDONLY (0)
					if k, isC := an.ConstInt(call.Common().Args[1]); isC && k == 0 {
						s.mutating = false
					}
				}
				for _, i := range idx {
					if i < len(call.Common().Args) {
						s.paths = append(s.paths, call.Common().Args[i])
					}
				}
				out = append(out, s)
			})
		}
		sort.Slice(out, func(i, j int) bool { return out[i].call.Pos() < out[j].call.Pos() })
		return out
	})
}

// pathConsts returns the constant strings among the components of a path expression (Join arguments,
// concatenation operands, phi operands).
func pathParts(v ssa.Value) []ssa.Value {
	var out []ssa.Value
	seen := map[ssa.Value]bool{}
	var walk func(v ssa.Value, d int)
	walk = func(v ssa.Value, d int) {
		if v == nil || seen[v] || d > 10 {
			return
		}
		seen[v] = true
		v0 := v
		v = an.Origin(v)
		switch x := v.(type) {
		case *ssa.Call:
			if an.IsFunc(x, "path/filepath", "Join") || an.IsFunc(x, "path", "Join") {
				if elems, ok := variadicElems(x.Call.Args[0]); ok {
					for _, e := range elems {
						walk(e, d+1)
					}
					return
				}
			}
			// a path built by a small function of the analysed program (dr.uploadPath()): what its returns are built from
			if h := x.Call.StaticCallee(); h != nil && len(h.Blocks) > 0 && h.Pkg != nil && h.Signature.Results().Len() == 1 && d < 6 {
				if bt, isB := h.Signature.Results().At(0).Type().Underlying().(*types.Basic); isB && bt.Kind() == types.String && !isStdlib(h.Pkg.Pkg.Path()) {
					n := 0
					for _, b := range h.Blocks {
						if len(b.Instrs) == 0 {
							continue
						}
						if ret, ok := b.Instrs[len(b.Instrs)-1].(*ssa.Return); ok && len(ret.Results) == 1 {
							walk(ret.Results[0], d+1)
							n++
						}
					}
					if n > 0 {
						return
					}
				}
			}
		case *ssa.BinOp:
			if x.Op == token.ADD {
				walk(x.X, d+1)
				walk(x.Y, d+1)
				return
			}
		case *ssa.Phi:
			for _, e := range x.Edges {
				walk(e, d+1)
			}
			return
		case *ssa.UnOp:
			// element of a literal list iterated by a range loop: the elements of the backing array
			if x.Op == token.MUL {
				if ia, ok := x.X.(*ssa.IndexAddr); ok {
					if sl, ok := ia.X.(*ssa.Slice); ok {
						if elems, ok := variadicElems(sl); ok && len(elems) > 0 {
							for _, e := range elems {
								walk(e, d+1)
							}
							return
						}
					}
					// … of a literal array indexed directly
					if al, ok := ia.X.(*ssa.Alloc); ok && al.Referrers() != nil {
						if _, isArr := an.Deref(al.Type()).Underlying().(*types.Array); isArr {
							var elems []ssa.Value
							for _, ref := range *al.Referrers() {
								if ia2, ok := ref.(*ssa.IndexAddr); ok && ia2.Referrers() != nil {
									for _, rr := range *ia2.Referrers() {
										if st, ok := rr.(*ssa.Store); ok && st.Addr == ssa.Value(ia2) {
											elems = append(elems, st.Val)
										}
									}
								}
							}
							if len(elems) > 0 {
								for _, e := range elems {
									walk(e, d+1)
								}
								return
							}
						}
					}
				}
			}
		}
		_ = v0
		out = append(out, v)
	}
	walk(v, 0)
	return out
}

// isStdlib: an import path without a dot in its first element.
func isStdlib(path string) bool {
	first := path
	if i := strings.Index(path, "/"); i >= 0 {
		first = path[:i]
	}
	return !strings.Contains(first, ".")
}

func partConsts(v ssa.Value) []string {
	var out []string
	for _, p := range pathParts(v) {
		if s, ok := an.ConstString(p); ok {
			out = append(out, s)
		}
	}
	return out
}

func hasPart(v ssa.Value, s string) bool {
	for _, x := range partConsts(v) {
		if x == s {
			return true
		}
	}
	return false
}

// hasPartDeep: hasPart, also when the path is a parameter of a helper: then every (static) caller passes a path
// with that part.
func hasPartDeep(c *core.Ctx, v ssa.Value, s string, depth int) bool {
	if hasPart(v, s) {
		return true
	}
	p, ok := an.Origin(v).(*ssa.Parameter)
	if !ok || depth > 2 {
		return false
	}
	fn := p.Parent()
	pi := -1
	for i, q := range fn.Params {
		if q == p {
			pi = i
		}
	}
	sites := c.P.Callers(fn)
	if pi < 0 || len(sites) == 0 {
		return false
	}
	for _, site := range sites {
		if site.Common().StaticCallee() != fn || pi >= len(site.Common().Args) || !hasPartDeep(c, site.Common().Args[pi], s, depth+1) {
			return false
		}
	}
	return true
}

// roGuarded: the block is dominated by the false edge of a read-only test whose true edge returns.
func roGuarded(b *ssa.BasicBlock) bool {
	for _, g := range an.GuardingEdges(b) {
		ifi := g.If()
		base, neg := an.CondBase(ifi.Cond)
		if !pathEndsWith(fieldPath(base), "Storage", "ReadOnly") {
			continue
		}
		isTrue := (g.Succ == 0) != neg
		if isTrue {
			continue
		}
		return true
	}
	return false
}

func init() {
	register(&Rule{ID: "FS-WHO", Floor: 10,
		Doc: "mutating filesystem calls occur only in functions of a mutating store family; no function of the other family — following static calls, store-API calls resolved inside the family and call-graph edges — reaches one; no production package outside the store touches the filesystem (named exception: the template function reading a file named on the operator's command line) and the test-only copy helper is not imported by production code",
		Run: runFSWho})
	register(&Rule{ID: "FS-RO", Floor: 10,
		Doc: "every mutating filesystem call of the directory store is reachable only through the false edge of a read-only test: in its own function, at every call site of that function on every chain of callers (static calls, store-API calls, cache callbacks, go statements), or — for methods of the upload type — at every allocation site of that type",
		Run: runFSRO})
	register(&Rule{ID: "FS-INDEX", Floor: 3,
		Doc: "the index file is only ever the destination of a rename whose source is a temporary file created in the same directory and fully encoded before (the rename lies on the ok-edge of the encoder), is removed only by the empty-repository cleanup, and is otherwise only read",
		Run: runFSIndex})
	register(&Rule{ID: "FS-BLOB", Floor: 3,
		Doc: "no call creates or opens for writing a file under the blobs directory; entries appear there only as the destination of the rename in the upload commit, whose source is the session's temporary file and which is preceded by the close of that file on all paths",
		Run: runFSBlob})
	register(&Rule{ID: "FS-INIT", Floor: 2,
		Doc: "in the directory store's blob creation every path to the creation of the upload directory or temporary file passes the ‘layout exists’ edge or the ok-edge of the layout initialiser; the initialiser writes the layout file before it creates the index and sets the exists flag last",
		Run: runFSInit})
	register(&Rule{ID: "FS-CLEANUP", Floor: 4,
		Doc: "empty-repository cleanup: removals run over a literal list in which every content directory precedes the marker files, the loop is left on the first failing removal, the algorithm directories named cover every algorithm the digest library registers, a completed loop makes the cleanup return nil regardless of the removal of the directory itself, and the exists flag is cleared on exactly that result",
		Run: runFSCleanup})
	register(&Rule{ID: "FS-TEMP", Floor: 1,
		Doc: "the session cleanup of the directory store removes the session's temporary file on every path",
		Run: runFSTemp})
}

func runFSWho(c *core.Ctx) {
	r := requireRoles(c)
	if r == nil {
		return
	}
	n := 0
	for _, s := range fsSinks(c) {
		pp := core.FuncPkgPath(s.fn)
		if strings.HasSuffix(pp, "/internal/copy") {
			continue
		}
		n++
		key := fmt.Sprintf("sink:%s|%s", kn(c.P.FuncName(s.fn)), s.name)
		fam := r.FamilyOfFunc(s.fn)
		switch {
		case pp == r.StorePath && fam != nil && (fam.Mutating || !s.mutating):
			c.Pass(key, s.call.Pos(), "%s in the %s family", map[bool]string{true: "mutating call", false: "read-only call"}[s.mutating], fam.Name)
		case pp == r.StorePath && fam != nil && s.mutating:
			c.Fail(key, s.call.Pos(), "mutating filesystem call %s in the %s store family", s.name, fam.Name)
		case pp == r.StorePath && fam == nil && !s.mutating:
			c.Pass(key, s.call.Pos(), "read-only call in code of the store package shared by the families")
		case strings.HasSuffix(pp, "/internal/template") && !s.mutating:
			c.Exception(key, s.call.Pos(), "CLI-only template function: reads a file named on the operator's own command line (version --format)")
		default:
			c.Fail(key, s.call.Pos(), "filesystem call %s outside the store families (in %s): who-may-touch-the-filesystem is the store package only", s.name, c.P.FuncName(s.fn))
		}
	}
	// non-mutating families reach no mutating sink
	sinkAt := map[ssa.Instruction]fsSink{}
	for _, s := range fsSinks(c) {
		if s.mutating {
			sinkAt[s.call] = s
		}
	}
	for fi, fam := range r.Families {
		if fam.Mutating {
			continue
		}
		seen := map[*ssa.Function]bool{}
		var found *fsSink
		var chain []string
		var walk func(fn *ssa.Function, path []string)
		walk = func(fn *ssa.Function, path []string) {
			if found != nil || seen[fn] || fn.Blocks == nil || !c.P.InModule(fn) {
				return
			}
			seen[fn] = true
			path = append(path, c.P.FuncName(fn))
			an.Calls(fn, func(call ssa.CallInstruction) {
				if found != nil {
					return
				}
				if s, ok := sinkAt[call]; ok {
					found = &s
					chain = append([]string{}, path...)
					return
				}
				if iface, m, ok := r.API(call); ok && call.Common().IsInvoke() {
					var recv *types.Named
					switch iface {
					case "Store":
						recv = fam.Store
					case "Repo":
						recv = fam.Repo
					case "BlobCreator":
						recv = fam.Upload
					}
					if f := getLock(c).MethodOf(recv, m); f != nil {
						walk(f, path)
					}
					return
				}
				if sc := call.Common().StaticCallee(); sc != nil {
					if of := r.FamilyOfFunc(sc); of != nil && of != fam {
						return
					}
					walk(sc, path)
					return
				}
				for _, cal := range c.P.Callees(call) {
					if of := r.FamilyOfFunc(cal); of != nil && of != fam {
						continue
					}
					walk(cal, path)
				}
			})
			for _, a := range fn.AnonFuncs {
				walk(a, path)
			}
		}
		nf := 0
		for _, fn := range c.P.Funcs("internal/store") {
			if r.FamilyOfFunc(fn) == fam {
				nf++
				walk(fn, nil)
			}
		}
		_ = fi
		key := "family-reaches-no-mutation:" + fam.Name
		if found != nil {
			c.Fail(key, found.call.Pos(), "the %s store reaches the mutating filesystem call %s at %s through %s: a memory store layered over a directory must never change it", fam.Name, found.name, c.P.Pos(found.call.Pos()), strings.Join(chain, " → "))
		} else {
			c.Pass(key, token.NoPos, "%d functions of the family, %d functions reachable: no mutating filesystem call", nf, len(seen))
		}
	}
	// the copy helper stays test-only
	imported := false
	for _, pk := range c.P.All {
		for ip := range pk.Imports {
			if strings.HasSuffix(ip, "/internal/copy") {
				imported = true
			}
		}
	}
	c.Check(!imported, "copy-helper-test-only", token.NoPos, "internal/copy (recursive copy used by tests) is imported by production code: %v", imported)
	if n == 0 {
		c.Unresolved("sinks", "no filesystem calls found")
	}
}

func runFSRO(c *core.Ctx) {
	r := requireRoles(c)
	if r == nil {
		return
	}
	memo := map[*ssa.Function]int{}
	// allocation sites of the upload types are guarded (decided below, once the caller-chain walk is defined: in their own
	// function, or — for a constructor step — at every call of it)
	uploadGuarded := map[*types.Named]bool{}
	var guardedFn func(fn *ssa.Function, depth int) (bool, string)
	guardedSite := func(site ssa.Instruction, depth int) (bool, string) {
		if roGuarded(site.Block()) {
			return true, ""
		}
		return guardedFn(site.Parent(), depth+1)
	}
	guardedFn = func(fn *ssa.Function, depth int) (bool, string) {
		if v, ok := memo[fn]; ok {
			return v != 2, "unguarded chain through " + c.P.FuncName(fn)
		}
		if depth > 10 {
			return false, "caller chain too deep at " + c.P.FuncName(fn)
		}
		memo[fn] = 1
		// methods of an upload type: the object cannot exist in a read-only store
		top := fn
		for top.Parent() != nil && top.Signature.Recv() == nil {
			top = top.Parent()
		}
		if top.Signature.Recv() != nil {
			if n := an.NamedOf(top.Signature.Recv().Type()); n != nil && uploadGuarded[n] {
				return true, ""
			}
		}
		callers := c.P.Callers(fn)
		var sites []ssa.Instruction
		for _, s := range callers {
			if c.P.InModule(s.Parent()) && !strings.HasSuffix(core.FuncPkgPath(s.Parent()), "_test") {
				sites = append(sites, s)
			}
		}
		if len(sites) == 0 {
			memo[fn] = 2
			return false, fmt.Sprintf("%s is an entry point without a read-only guard", c.P.FuncName(fn))
		}
		for _, s := range sites {
			if ok, why := guardedSite(s, depth); !ok {
				memo[fn] = 2
				return false, why
			}
		}
		return true, ""
	}
	for _, fam := range r.Families {
		ok, n := true, 0
		for _, fn := range c.P.Funcs("internal/store") {
			an.Instrs(fn, func(in ssa.Instruction) {
				if al, isAl := in.(*ssa.Alloc); isAl && types.Identical(an.Deref(al.Type()), fam.Upload) {
					n++
					if roGuarded(al.Block()) {
						return
					}
					if g, _ := guardedFn(fn, 0); g {
						return
					}
					ok = false
					c.Note("FS-RO: allocation of %s in %s (block %d) is not behind a read-only guard", fam.Upload.Obj().Name(), c.P.FuncName(fn), al.Block().Index)
				}
			})
		}
		uploadGuarded[fam.Upload] = ok && n > 0
	}
	// the walk above ran without the ‘upload object cannot exist’ argument: forget what it concluded
	for k := range memo {
		delete(memo, k)
	}
	for _, s := range fsSinks(c) {
		if !s.mutating || core.FuncPkgPath(s.fn) != r.StorePath {
			continue
		}
		key := fmt.Sprintf("sink:%s|%s|%s", kn(c.P.FuncName(s.fn)), s.name, strings.Join(partConsts(s.paths[0]), "/"))
		if roGuarded(s.call.Block()) {
			c.Pass(key, s.call.Pos(), "guarded in its own function")
			continue
		}
		ok, why := guardedFn(s.fn, 0)
		if ok {
			c.Pass(key, s.call.Pos(), "every chain of callers passes a read-only guard (or the upload object cannot exist in a read-only store)")
		} else {
			c.Fail(key, s.call.Pos(), "%s at %s can execute with read-only storage: %s", s.name, c.P.Pos(s.call.Pos()), why)
		}
	}
}

func storeConst(c *core.Ctx, name string) string { return constValue(c, "internal/store", name) }

func runFSIndex(c *core.Ctx) {
	r := requireRoles(c)
	if r == nil {
		return
	}
	idx := storeConst(c, "indexFile")
	if idx == "" {
		c.Unresolved("indexFile", "index file constant not found")
		return
	}
	n := 0
	for _, s := range fsSinks(c) {
		if core.FuncPkgPath(s.fn) != r.StorePath {
			continue
		}
		for pi, p := range s.paths {
			if !hasPart(p, idx) {
				continue
			}
			n++
			key := fmt.Sprintf("index:%s|%s#%d", kn(c.P.FuncName(s.fn)), s.name, pi)
			switch {
			case !s.mutating:
				c.Pass(key, s.call.Pos(), "read-only access")
			case s.name == "os.Rename" && pi == 1:
				// source: Name() of a file from CreateTemp in the same directory
				src := an.Origin(s.paths[0])
				nameCall, _ := an.CallOf(src)
				okSrc := false
				var tmp *ssa.Call
				// the temporary file may come out of a helper of the store: then all its non-error returns return the file
				// created there, and the helper's error is checked before the rename
				var viaHelper []an.HelperRet
				if nameCall != nil && an.IsMethod(nameCall, "os", "File", "Name") {
					fileV := an.Origin(nameCall.Call.Args[0])
					if hr := an.HelperReturns(fileV, func(h *ssa.Function) bool { return core.FuncPkgPath(h) == r.StorePath }); len(hr) > 0 {
						viaHelper = hr
						var inner *ssa.Call
						same := true
						for _, x := range hr {
							ct, i := an.CallOf(an.Origin(x.Val))
							if ct == nil || i != 0 || !an.IsFunc(ct, "os", "CreateTemp") || (inner != nil && inner != ct) {
								same = false
								break
							}
							inner = ct
						}
						if same && inner != nil {
							fileV = an.Origin(hr[0].Val)
						}
					}
					if ct, i := an.CallOf(fileV); ct != nil && i == 0 && an.IsFunc(ct, "os", "CreateTemp") {
						tmp = ct
						dirArg := an.Origin(ct.Call.Args[0])
						// the helper is told the directory: the value at its call site counts
						if q, isParam := dirArg.(*ssa.Parameter); isParam && len(viaHelper) > 0 && viaHelper[0].Call != nil {
							for k, hp := range q.Parent().Params {
								if hp == q && k < len(viaHelper[0].Call.Call.Args) && viaHelper[0].Call.Call.StaticCallee() == q.Parent() {
									dirArg = an.Origin(viaHelper[0].Call.Call.Args[k])
								}
							}
						}
						dirRoot, dirPath := accessPath(dirArg)
						parts := pathParts(p)
						if len(parts) > 0 {
							dr, dp := accessPath(parts[0])
							if strings.Join(dirPath, ".") == strings.Join(dp, ".") && len(dp) > 0 {
								okSrc = true
							}
							// the directory is a plain value of the function (a parameter): the same value in both places
							if len(dp) == 0 && len(dirPath) == 0 && dr != nil && an.Origin(dr) == an.Origin(dirRoot) {
								okSrc = true
							}
						}
					}
				}
				if !okSrc {
					c.Fail(key, s.call.Pos(), "the index file is renamed from something other than a temporary file created in its own directory: the replacement is not atomic")
					continue
				}
				// the encoder's ok-edge dominates the rename (or, inside the helper, every non-error return; and the rename is on
				// the nil edge of the helper's error)
				okEnc := false
				guardSets := [][]an.Edge{an.GuardingEdges(s.call.Block())}
				if len(viaHelper) > 0 {
					guardSets = nil
					helperChecked := false
					for _, g := range an.GuardingEdges(s.call.Block()) {
						if x, nilSucc, ok := an.NilTest(g.If()); ok && g.Succ == nilSucc {
							if hc, _ := an.CallOf(x); hc != nil && hc == viaHelper[0].Call {
								helperChecked = true
							}
						}
					}
					if helperChecked {
						for _, x := range viaHelper {
							guardSets = append(guardSets, an.GuardingEdges(x.Ret.Block()))
						}
					}
				}
				allSets := len(guardSets) > 0
				for _, gs := range guardSets {
					found := false
					for _, g := range gs {
						x, nilSucc, ok := an.NilTest(g.If())
						if !ok || g.Succ != nilSucc {
							continue
						}
						if ec, _ := an.CallOf(x); ec != nil && an.IsMethod(ec, "encoding/json", "Encoder", "Encode") {
							if ne, _ := an.CallOf(an.Origin(ec.Call.Args[0])); ne != nil && an.IsFunc(ne, "encoding/json", "NewEncoder") {
								if fc, i := an.CallOf(an.Origin(ne.Call.Args[0])); fc == tmp && i == 0 {
									found = true
								}
							}
						}
					}
					if !found {
						allSets = false
					}
				}
				if allSets {
					okEnc = true
				}
				for _, g := range an.GuardingEdges(s.call.Block()) {
					if len(viaHelper) > 0 {
						break
					}
					x, nilSucc, ok := an.NilTest(g.If())
					if !ok || g.Succ != nilSucc {
						continue
					}
					if ec, _ := an.CallOf(x); ec != nil && an.IsMethod(ec, "encoding/json", "Encoder", "Encode") {
						if ne, _ := an.CallOf(an.Origin(ec.Call.Args[0])); ne != nil && an.IsFunc(ne, "encoding/json", "NewEncoder") {
							if fc, i := an.CallOf(an.Origin(ne.Call.Args[0])); fc == tmp && i == 0 {
								okEnc = true
							}
						}
					}
				}
				c.Check(okEnc, key, s.call.Pos(), "index.json is replaced by renaming a same-directory temporary file on the ok-edge of its complete encoding: %v", okEnc)
			case s.name == "os.Remove" && isCleanupFunc(c, s.fn):
				c.Pass(key, s.call.Pos(), "removed by the empty-repository cleanup")
			default:
				c.Fail(key, s.call.Pos(), "%s writes or removes the index file directly at %s: a crash at this point leaves a missing or half-written index.json", s.name, c.P.Pos(s.call.Pos()))
			}
		}
	}
	if n == 0 {
		c.Unresolved("index-sinks", "no filesystem call names the index file")
	}
}

// isCleanupFunc: the function (or its parent) contains the empty-repository cleanup: a range loop over a
// literal list calling os.Remove, inside the per-repository collector.
func isCleanupFunc(c *core.Ctx, fn *ssa.Function) bool {
	for f := fn; f != nil; f = f.Parent() {
		if f.Name() == "gc" && f.Signature.Recv() != nil {
			return true
		}
		if hasCleanupLoop(f) {
			return true
		}
	}
	return false
}

// hasCleanupLoop: the function removes, in a loop, the elements of a literal list of at least three paths.
func hasCleanupLoop(fn *ssa.Function) bool {
	found := false
	an.Calls(fn, func(call ssa.CallInstruction) {
		cc, ok := call.(*ssa.Call)
		if !ok || !an.IsFunc(call, "os", "Remove") || !inLoop(call.Block()) {
			return
		}
		if u, ok := cc.Call.Args[0].(*ssa.UnOp); ok && u.Op == token.MUL {
			if ia, ok := u.X.(*ssa.IndexAddr); ok {
				if elems, ok := literalListElems(ia); ok && len(elems) >= 3 {
					found = true
				}
			}
		}
	})
	return found
}

func runFSBlob(c *core.Ctx) {
	r := requireRoles(c)
	if r == nil {
		return
	}
	blobs := storeConst(c, "blobsDir")
	if blobs == "" {
		c.Unresolved("blobsDir", "blobs directory constant not found")
		return
	}
	n := 0
	for _, s := range fsSinks(c) {
		if core.FuncPkgPath(s.fn) != r.StorePath || !s.mutating {
			continue
		}
		for pi, p := range s.paths {
			under := hasPart(p, blobs)
			// the commit's destination is built from a directory variable that contains the blobs constant
			if !under {
				for _, part := range pathParts(p) {
					if hasPart(part, blobs) {
						under = true
					}
				}
			}
			if !under {
				continue
			}
			n++
			key := fmt.Sprintf("blobs:%s|%s#%d", kn(c.P.FuncName(s.fn)), s.name, pi)
			switch s.name {
			case "os.Remove":
				// the removal of a blob file (a path with parts of a digest) is the delete operation's business: anywhere else —
				// the upload commit ‘making room’ for the rename — an acknowledged blob does not exist under its name for a
				// moment, and a crash in that moment loses it although the rename alone would have replaced it atomically
				if usesDigest(p) && !(s.fn.Name() == "blobDelete" || s.fn.Name() == "BlobDelete") {
					c.Fail(key, s.call.Pos(), "%s removes a blob file at %s outside the delete operation: between this removal and whatever replaces the file the blob — possibly acknowledged long ago and referenced by tags — does not exist; a crash there loses it (rename replaces atomically and needs no removal)", c.P.FuncName(s.fn), c.P.Pos(s.call.Pos()))
					continue
				}
				c.Pass(key, s.call.Pos(), "directory removal, or the blob removal of the delete operation")
			case "os.MkdirAll", "os.Mkdir":
				c.Pass(key, s.call.Pos(), "directory creation")
			case "os.Rename":
				if pi != 1 {
					c.Fail(key, s.call.Pos(), "a blob is renamed away from the blobs directory")
					continue
				}
				fam := r.FamilyOfFunc(s.fn)
				isCommit := fam != nil && s.fn.Signature.Recv() != nil && an.NamedOf(s.fn.Signature.Recv().Type()) == fam.Upload
				// source is the session's temp file field
				_, sp := accessPath(s.paths[0])
				srcOK := len(sp) == 1 && fieldAssignedFromTemp(c, r, fam, sp[0])
				// file closed before
				closed := false
				an.Calls(s.fn, func(call ssa.CallInstruction) {
					if an.IsMethod(call, "os", "File", "Close") && call.Block().Dominates(s.call.Block()) {
						closed = true
					}
				})
				ok := isCommit && srcOK && closed
				c.Check(ok, key, s.call.Pos(), "rename into blobs happens in the upload commit (%v), from the session's temporary file (%v), after the file was closed (%v)", isCommit, srcOK, closed)
			default:
				c.Fail(key, s.call.Pos(), "%s creates or writes a file under the blobs directory at %s: a crash would leave a partial blob under its final name", s.name, c.P.Pos(s.call.Pos()))
			}
		}
	}
	if n == 0 {
		c.Unresolved("blob-sinks", "no mutating call names the blobs directory")
	}
}

// fieldAssignedFromTemp: every store to the field of the upload type takes the Name() of a CreateTemp file.
func fieldAssignedFromTemp(c *core.Ctx, r *Roles, fam *Family, field string) bool {
	if fam == nil {
		return false
	}
	ok, n := true, 0
	for _, fn := range c.P.Funcs("internal/store") {
		an.Instrs(fn, func(in ssa.Instruction) {
			st, isSt := in.(*ssa.Store)
			if !isSt {
				return
			}
			fa, isFA := st.Addr.(*ssa.FieldAddr)
			if !isFA || an.NamedOf(fa.X.Type()) != fam.Upload {
				return
			}
			if fam.Upload.Underlying().(*types.Struct).Field(fa.Field).Name() != field {
				return
			}
			n++
			nc, _ := an.CallOf(an.Origin(st.Val))
			if nc == nil || !an.IsMethod(nc, "os", "File", "Name") {
				ok = false
				return
			}
			if !isCreateTempFile(c, nc.Call.Args[0]) {
				ok = false
			}
		})
	}
	return ok && n > 0
}

func runFSInit(c *core.Ctx) {
	r := requireRoles(c)
	if r == nil {
		return
	}
	layout := storeConst(c, "layoutFile")
	for _, fam := range r.Families {
		if !fam.Mutating {
			continue
		}
		// the initialiser: the family method that writes the layout file
		var initFn *ssa.Function
		var layoutWrite ssa.CallInstruction // in initFn: the write itself, or the call of the step that performs it
		var writeFn *ssa.Function           // the function that contains the write
		var writeCall ssa.CallInstruction
		for _, s := range fsSinks(c) {
			if s.mutating && r.FamilyOfFunc(s.fn) == fam && hasPartDeep(c, s.paths[0], layout, 0) && s.name == "os.WriteFile" {
				initFn, layoutWrite = s.fn, s.call
				writeFn, writeCall = s.fn, s.call
			}
		}
		if initFn == nil {
			c.Unresolved("initialiser:"+fam.Name, "no function writes the layout file")
			continue
		}
		// the write may sit in a step (‘write the layout unless valid’) of the initialiser: the initialiser is then the
		// method of the repository type that calls the step and sets the flag
		setsFlag := func(f *ssa.Function) bool {
			found := false
			an.Instrs(f, func(in ssa.Instruction) {
				if st, ok := in.(*ssa.Store); ok {
					if k, isC := st.Val.(*ssa.Const); isC && k.Value != nil && k.Value.Kind() == constant.Bool && constant.BoolVal(k.Value) {
						if fa, ok := st.Addr.(*ssa.FieldAddr); ok && an.NamedOf(fa.X.Type()) == fam.Repo {
							found = true
						}
					}
				}
			})
			return found
		}
		for hop := 0; hop < 2 && !setsFlag(initFn); hop++ {
			sites := c.P.Callers(initFn)
			if len(sites) != 1 || sites[0].Common().StaticCallee() != initFn || r.FamilyOfFunc(sites[0].Parent()) != fam {
				break
			}
			initFn, layoutWrite = sites[0].Parent(), sites[0]
		}
		// the exists flag: the boolean field the initialiser sets to true
		existsField := ""
		var existsStore *ssa.Store
		an.Instrs(initFn, func(in ssa.Instruction) {
			if st, ok := in.(*ssa.Store); ok {
				if k, isC := st.Val.(*ssa.Const); isC && k.Value != nil && k.Value.Kind() == constant.Bool && constant.BoolVal(k.Value) {
					if _, p := accessPath(st.Addr); len(p) == 1 {
						if fa, ok := st.Addr.(*ssa.FieldAddr); ok && an.NamedOf(fa.X.Type()) == fam.Repo {
							existsField, existsStore = p[0], st
						}
					}
				}
			}
		})
		// initialiser order: layout file, then index (save), then flag
		var saveCall ssa.CallInstruction
		an.Calls(initFn, func(call ssa.CallInstruction) {
			if sc := call.Common().StaticCallee(); sc != nil && reachesRename(c, sc) {
				saveCall = call
			}
		})
		okOrder := saveCall != nil && existsStore != nil && an.Reaches(layoutWrite, saveCall) && !an.Reaches(saveCall, layoutWrite) && an.Reaches(saveCall, existsStore) && !an.Reaches(existsStore, saveCall)
		c.Check(okOrder, "initialiser-order:"+kn(c.P.FuncName(initFn)), initFn.Pos(), "the initialiser writes the layout file, then creates the index, then sets the exists flag: %v (a crash in between leaves a directory that the next start repairs instead of one that looks complete)", okOrder)
		// repair: the layout file is rewritten whenever the content check that the openers apply rejects it —
		// the write must be reachable from the rejecting edge of that verifier, called on the file's bytes
		verifierUsed := map[*ssa.Function]bool{}
		for _, fn := range c.P.Funcs("internal/store") {
			an.Calls(fn, func(call ssa.CallInstruction) {
				sc := call.Common().StaticCallee()
				if sc == nil || core.FuncPkgPath(sc) != r.StorePath || sc.Signature.Results().Len() != 1 || len(call.Common().Args) != 1 {
					return
				}
				if b, ok := sc.Signature.Results().At(0).Type().Underlying().(*types.Basic); !ok || b.Kind() != types.Bool {
					return
				}
				if rc, idx := an.CallOf(an.Origin(call.Common().Args[0])); rc != nil && idx == 0 && an.IsFunc(rc, "os", "ReadFile") && hasPartDeep(c, rc.Call.Args[0], layout, 0) {
					verifierUsed[sc] = true
				}
				// a check that reads the layout file of the directory it is given itself
				an.Calls(sc, func(c2 ssa.CallInstruction) {
					if an.IsFunc(c2, "os", "ReadFile") && hasPart(c2.Common().Args[0], layout) {
						verifierUsed[sc] = true
					}
				})
			})
		}
		repairOK := false
		for _, pair := range []struct {
			f *ssa.Function
			w ssa.CallInstruction
		}{{writeFn, writeCall}, {initFn, layoutWrite}} {
			for _, b := range pair.f.Blocks {
				ifi := an.BlockIf(b)
				if ifi == nil {
					continue
				}
				// the verdict may be combined with the read's error (`err == nil && valid(bytes)`): the atoms of the
				// condition are looked at one by one
				conds := []ssa.Value{ifi.Cond}
				if phi, isPhi := ifi.Cond.(*ssa.Phi); isPhi {
					conds = append(conds, phi.Edges...)
				}
				for _, cond := range conds {
					base, neg := an.CondBase(cond)
					call, isCall := base.(*ssa.Call)
					if !isCall || !verifierUsed[call.Call.StaticCallee()] {
						continue
					}
					trueSucc := 0
					if neg {
						trueSucc = 1
					}
					rej := b.Succs[1-trueSucc]
					if rej == pair.w.Block() || an.BlockReaches(rej, pair.w.Block()) {
						repairOK = true
					}
				}
			}
		}
		c.Check(repairOK, "initialiser-repairs-layout:"+kn(c.P.FuncName(initFn)), layoutWrite.Pos(), "the initialiser rewrites the layout file on the rejecting edge of the same content check the openers apply (%d verifier function(s) found): %v — otherwise a layout file torn by a crash is never repaired and the repository is ignored after every restart", len(verifierUsed), repairOK)
		if existsField == "" {
			c.Unresolved("exists-flag:"+fam.Name, "the initialiser sets no boolean flag")
			continue
		}
		isExists := func(v ssa.Value) bool {
			v = an.Strip(v)
			if _, p := accessPath(v); len(p) > 0 && p[len(p)-1] == existsField {
				if _, isCall := v.(*ssa.Call); !isCall {
					return true
				}
			}
			if call, _ := an.CallOf(v); call != nil {
				if sc := call.Call.StaticCallee(); sc != nil && sc.Blocks != nil && r.FamilyOfFunc(sc) == fam {
					all, n := true, 0
					an.Instrs(sc, func(in ssa.Instruction) {
						if ret, ok := in.(*ssa.Return); ok && len(ret.Results) == 1 {
							n++
							vals := []ssa.Value{ret.Results[0]}
							if u, isLoad := ret.Results[0].(*ssa.UnOp); isLoad && u.Op == token.MUL {
								if sts, unk := an.CellStores(u.X); !unk && len(sts) > 0 {
									vals = nil
									for _, s := range sts {
										vals = append(vals, s.Val)
									}
								}
							}
							for _, rv := range vals {
								if _, p := accessPath(rv); len(p) == 0 || p[len(p)-1] != existsField {
									all = false
								}
							}
						}
					})
					return all && n > 0
				}
			}
			return false
		}
		// creation sites: functions of the repo type that create the upload temp file
		for _, s := range fsSinks(c) {
			if r.FamilyOfFunc(s.fn) != fam || s.name != "os.CreateTemp" || s.fn == initFn {
				continue
			}
			if pat, ok := an.ConstString(s.paths[1]); !ok || !strings.HasPrefix(pat, "upload") {
				continue
			}
			fn := s.fn
			key := "init-before-upload:" + kn(c.P.FuncName(fn))
			// frameBad: in frame, some instruction isSink names is reachable on a path that passed neither the ‘layout exists’
			// edge nor the ok-edge of the layout initialiser
			frameBad := func(frame *ssa.Function, isSink func(ssa.CallInstruction) (string, bool)) string {
				bad := ""
				var initCalls []*ssa.Call
				an.Calls(frame, func(call ssa.CallInstruction) {
					if cc, ok := call.(*ssa.Call); ok && cc.Call.StaticCallee() == initFn {
						initCalls = append(initCalls, cc)
					}
				})
				an.Paths(an.PathSpec[bool]{Fn: frame, Init: false,
					Instr: func(st bool, in ssa.Instruction) []bool {
						if cl, ok := in.(ssa.CallInstruction); ok && !st && bad == "" {
							if what, is := isSink(cl); is {
								bad = fmt.Sprintf("%s at %s is reachable on a path that passed neither the ‘layout exists’ edge nor the ok-edge of the layout initialiser: the repository would hold content without oci-layout / index.json", what, c.P.Pos(cl.Pos()))
							}
						}
						return []bool{st}
					},
					Edge: func(st bool, from *ssa.BasicBlock, succ int) (bool, bool) {
						ifi := an.BlockIf(from)
						if ifi == nil {
							return st, true
						}
						base, neg := an.CondBase(ifi.Cond)
						if isExists(base) {
							if (succ == 0) != neg {
								return true, true
							}
						}
						if x, nilSucc, ok := an.NilTest(ifi); ok && succ == nilSucc {
							for _, ic := range initCalls {
								if x == ssa.Value(ic) {
									return true, true
								}
							}
						}
						return st, true
					}})
				return bad
			}
			bad := frameBad(fn, func(cl ssa.CallInstruction) (string, bool) {
				for _, t := range fsSinks(c) {
					if t.call == cl && t.mutating {
						return t.name, true
					}
				}
				return "", false
			})
			// the creation may be a step of its own (the directory / temp file part of the create operation): the check is
			// then made by the operation that calls it — every call of the step, in the functions of the family, is judged as
			// the write itself (two levels)
			var viaCallers func(step *ssa.Function, depth int) bool
			viaCallers = func(step *ssa.Function, depth int) bool {
				if obj, _ := step.Object().(*types.Func); obj == nil || obj.Exported() || depth > 2 {
					return false
				}
				sites := c.P.Callers(step)
				if len(sites) == 0 {
					return false
				}
				for _, site := range sites {
					caller := site.Parent()
					if caller == nil || site.Common().StaticCallee() != step || r.FamilyOfFunc(caller) != fam {
						return false
					}
					if b := frameBad(caller, func(cl ssa.CallInstruction) (string, bool) {
						return c.P.FuncName(step), cl == site
					}); b != "" && !viaCallers(caller, depth+1) {
						return false
					}
				}
				return true
			}
			if bad != "" && viaCallers(fn, 0) {
				bad = ""
			}
			c.Check(bad == "", key, s.call.Pos(), "%s", map[bool]string{true: "layout initialised (or known to exist) before the first write on every path", false: bad}[bad == ""])
		}
	}
}

func runFSCleanup(c *core.Ctx) {
	r := requireRoles(c)
	if r == nil {
		return
	}
	blobs, uploads, idx, layout := storeConst(c, "blobsDir"), storeConst(c, "uploadDir"), storeConst(c, "indexFile"), storeConst(c, "layoutFile")
	// registered algorithms of the digest library: its constants of type Algorithm
	var algos []string
	for _, pk := range c.P.Initial {
		_ = pk
	}
	if dp := c.P.SSA.ImportedPackage(digestPkg); dp != nil {
		sc := dp.Pkg.Scope()
		for _, nme := range sc.Names() {
			if k, ok := sc.Lookup(nme).(*types.Const); ok && isNamed(k.Type(), digestPkg, "Algorithm") && nme != "Canonical" {
				algos = append(algos, constant.StringVal(k.Val()))
			}
		}
	}
	sort.Strings(algos)
	found := false
	for _, fam := range r.Families {
		if !fam.Mutating {
			continue
		}
		for _, fn := range c.P.Funcs("internal/store") {
			if r.FamilyOfFunc(fn) != fam {
				continue
			}
			// a range loop over a literal list whose element goes to os.Remove
			var rm *ssa.Call
			var list []ssa.Value
			an.Calls(fn, func(call ssa.CallInstruction) {
				cc, ok := call.(*ssa.Call)
				if !ok || !an.IsFunc(call, "os", "Remove") {
					return
				}
				if u, ok := cc.Call.Args[0].(*ssa.UnOp); ok && u.Op == token.MUL {
					if ia, ok := u.X.(*ssa.IndexAddr); ok {
						lx := ia.X
						if ld, ok := lx.(*ssa.UnOp); ok && ld.Op == token.MUL {
							if o := an.Origin(ld); o != ssa.Value(ld) {
								lx = o
							}
						}
						// the literal list: a slice of a literal array, or the array itself (dirs := [...]string{…}; dirs[i])
						var al *ssa.Alloc
						if sl, ok := lx.(*ssa.Slice); ok {
							al, _ = sl.X.(*ssa.Alloc)
						} else if a2, ok := lx.(*ssa.Alloc); ok {
							if _, isArr := an.Deref(a2.Type()).Underlying().(*types.Array); isArr {
								al = a2
							}
						}
						if al != nil {
							if al.Referrers() != nil {
								// elements in index order
								type el struct {
									i int64
									v ssa.Value
								}
								var els []el
								for _, ref := range *al.Referrers() {
									if ia2, ok := ref.(*ssa.IndexAddr); ok && ia2.Referrers() != nil {
										k, _ := an.ConstInt(ia2.Index)
										for _, rr := range *ia2.Referrers() {
											if st, ok := rr.(*ssa.Store); ok && st.Addr == ia2 {
												els = append(els, el{k, st.Val})
											}
										}
									}
								}
								sort.Slice(els, func(i, j int) bool { return els[i].i < els[j].i })
								if len(els) >= 3 && inLoop(call.Block()) {
									rm = cc
									for _, e := range els {
										list = append(list, e.v)
									}
								}
							}
						}
					}
				}
			})
			if rm == nil {
				continue
			}
			found = true
			name := kn(c.P.FuncName(fn))
			// (2) order and (3) algorithm coverage
			lastContent, firstMarker := -1, len(list)
			haveAlgo := map[string]bool{}
			selfDir := false
			for i, v := range list {
				cs := partConsts(v)
				switch {
				case len(cs) == 0:
					selfDir = true // the repository directory itself
				case cs[0] == blobs || cs[0] == uploads:
					lastContent = i
					if len(cs) > 1 {
						haveAlgo[cs[1]] = true
					}
				case cs[0] == idx || cs[0] == layout:
					if i < firstMarker {
						firstMarker = i
					}
				}
			}
			c.Check(lastContent < firstMarker, "order:"+name, rm.Pos(), "content directories precede the marker files in the cleanup list: %v", lastContent < firstMarker)
			var missAlgo []string
			for _, a := range algos {
				if !haveAlgo[a] {
					missAlgo = append(missAlgo, a)
				}
			}
			if len(algos) == 0 {
				c.Undecided("algorithms:"+name, rm.Pos(), "the digest library's algorithm constants could not be read")
			} else {
				c.Check(len(missAlgo) == 0, "algorithms:"+name, rm.Pos(), "the cleanup knows the directories of %v; registered algorithms %v; missing %v (a repository holding blobs of a missing algorithm would lose index.json and oci-layout while the blobs stay)", keysOf(haveAlgo), algos, missAlgo)
			}
			// (1) the loop is left on the first failure
			h := loopHeader(rm.Block())
			stopOK := true
			failSilent := false
			tested := false
			// the cleanup may be written out in the collector itself instead of being a function of its own (loop, break
			// on failure, `if errDir == nil { … exists = false }`): the store that clears the flag is then in fn, and
			// takes the part the nil return plays otherwise
			var inlineFlag *ssa.Store
			an.Instrs(fn, func(in ssa.Instruction) {
				st, ok := in.(*ssa.Store)
				if !ok || h == nil {
					return
				}
				k, isC := st.Val.(*ssa.Const)
				if !isC || k.Value == nil || k.Value.Kind() != constant.Bool || constant.BoolVal(k.Value) {
					return
				}
				if fa, ok := st.Addr.(*ssa.FieldAddr); ok && an.NamedOf(fa.X.Type()) == fam.Repo && an.BlockReaches(h, st.Block()) && !inLoop(st.Block()) {
					inlineFlag = st
				}
			})
			// reachWith: is target reached from block b (entered from pred), when the error variables merged in φs take
			// the nilness their incoming edges give them (failVal is known to be non-nil)?
			var reachWith func(b, pred *ssa.BasicBlock, env map[ssa.Value]int8, failVal ssa.Value, target ssa.Instruction, seen map[[2]*ssa.BasicBlock]bool) bool
			reachWith = func(b, pred *ssa.BasicBlock, env map[ssa.Value]int8, failVal ssa.Value, target ssa.Instruction, seen map[[2]*ssa.BasicBlock]bool) bool {
				if b == h || seen[[2]*ssa.BasicBlock{pred, b}] {
					return false
				}
				seen[[2]*ssa.BasicBlock{pred, b}] = true
				env2 := map[ssa.Value]int8{}
				for k, v := range env {
					env2[k] = v
				}
				pi := -1
				for i, p := range b.Preds {
					if p == pred {
						pi = i
					}
				}
				for _, in := range b.Instrs {
					phi, ok := in.(*ssa.Phi)
					if !ok {
						break
					}
					delete(env2, phi)
					if pi < 0 || pi >= len(phi.Edges) {
						continue
					}
					e := phi.Edges[pi]
					switch {
					case an.IsNilConst(e):
						env2[phi] = 1
					case failVal != nil && (e == failVal || an.Strip(e) == failVal):
						env2[phi] = -1
					default:
						if v, ok := env[e]; ok {
							env2[phi] = v
						}
					}
				}
				for _, in := range b.Instrs {
					if in == target {
						return true
					}
				}
				if ifi := an.BlockIf(b); ifi != nil {
					if failVal != nil {
						if ex, _, trueSucc, ok := an.ErrIsTest(ifi); ok && ex == failVal {
							// the ‘does not exist’ side is no failure
							return reachWith(b.Succs[1-trueSucc], b, env2, failVal, target, seen)
						}
					}
					if x, nilSucc, ok := an.NilTest(ifi); ok {
						if v, known := env2[x]; known {
							si := nilSucc
							if v < 0 {
								si = 1 - nilSucc
							}
							return reachWith(b.Succs[si], b, env2, failVal, target, seen)
						}
					}
				}
				for _, sc := range b.Succs {
					if reachWith(sc, b, env2, failVal, target, seen) {
						return true
					}
				}
				return false
			}
			if h != nil {
				for _, b := range fn.Blocks {
					ifi := an.BlockIf(b)
					if ifi == nil {
						continue
					}
					x, nilSucc, ok := an.NilTest(ifi)
					if !ok || x != ssa.Value(rm) {
						continue
					}
					tested = true
					// from the failure side, every path that does not turn out to be ‘not exist’ must leave the function
					// before reaching the loop header again
					var walk func(bb *ssa.BasicBlock, seen map[*ssa.BasicBlock]bool) bool
					walk = func(bb *ssa.BasicBlock, seen map[*ssa.BasicBlock]bool) bool {
						if bb == h {
							return false
						}
						if seen[bb] {
							return true
						}
						seen[bb] = true
						if ifi2 := an.BlockIf(bb); ifi2 != nil {
							if ex, _, trueSucc, ok := an.ErrIsTest(ifi2); ok && ex == ssa.Value(rm) {
								// the ‘not exist’ side may continue the loop
								return walk(bb.Succs[1-trueSucc], seen)
							}
						}
						for _, s := range bb.Succs {
							if !walk(s, seen) {
								return false
							}
						}
						return true
					}
					if !walk(b.Succs[1-nilSucc], map[*ssa.BasicBlock]bool{}) {
						stopOK = false
					}
					// and the failure is reported: no nil return is reachable from the failure side (the caller clears the
					// repository's exists flag on a nil result)
					var nilRet func(bb *ssa.BasicBlock, seen map[*ssa.BasicBlock]bool) bool
					nilRet = func(bb *ssa.BasicBlock, seen map[*ssa.BasicBlock]bool) bool {
						if seen[bb] || bb == h {
							return false
						}
						seen[bb] = true
						if ifi2 := an.BlockIf(bb); ifi2 != nil {
							if ex, _, trueSucc, ok := an.ErrIsTest(ifi2); ok && ex == ssa.Value(rm) {
								return nilRet(bb.Succs[1-trueSucc], seen)
							}
						}
						if len(bb.Instrs) > 0 {
							if ret, ok := bb.Instrs[len(bb.Instrs)-1].(*ssa.Return); ok {
								if retErrNil(ret) {
									return true
								}
								// what is returned must be an error for certain: the removal's own error (not nil on this side) or a
								// freshly made one — another error variable that happens to be in scope (the collection's result) may be nil
								if len(ret.Results) > 0 {
									rv := ret.Results[len(ret.Results)-1]
									if types.Identical(rv.Type(), types.Universe.Lookup("error").Type()) {
										own := an.ErrAliases(rm)
										if !own[rv] && !own[an.Origin(rv)] && an.Origin(rv) != ssa.Value(rm) && !an.DefiniteError(rv) {
											return true
										}
									}
								}
								return false
							}
						}
						for _, s := range bb.Succs {
							if nilRet(s, seen) {
								return true
							}
						}
						return false
					}
					if inlineFlag == nil && nilRet(b.Succs[1-nilSucc], map[*ssa.BasicBlock]bool{}) {
						failSilent = true
					}
					if inlineFlag != nil && reachWith(b.Succs[1-nilSucc], b, map[ssa.Value]int8{}, rm, inlineFlag, map[[2]*ssa.BasicBlock]bool{}) {
						failSilent = true
					}
				}
			}
			c.Check(!failSilent, "failure-reported:"+name, rm.Pos(), "a removal that failed makes the cleanup return an error (or, written out in the collector, keeps it from clearing the exists flag): %v — otherwise the caller takes the repository for removed (clears its exists flag) while its blobs, index or layout are still there: reads answer ‘repo does not exist’ and the next manifest push is refused", !failSilent)
			c.Check(h != nil && tested && stopOK, "stop-on-failure:"+name, rm.Pos(), "a failing removal (other than ‘does not exist’) leaves the cleanup loop: %v — otherwise index.json and oci-layout are removed while content that could not be removed stays behind", h != nil && tested && stopOK)
			// (4) completed loop => nil, flag cleared on nil
			okNil := !selfDir
			if inlineFlag != nil {
				// the flag is cleared whatever the removal of the directory itself returned
				for _, g := range an.GuardingEdges(inlineFlag.Block()) {
					if x, _, ok := an.NilTest(g.If()); ok {
						if oc, _ := an.CallOf(x); oc != nil && oc != rm && an.IsFunc(oc, "os", "Remove") {
							okNil = false
						}
					}
				}
			}
			an.Instrs(fn, func(in ssa.Instruction) {
				ret, ok := in.(*ssa.Return)
				if !ok || len(ret.Results) == 0 || inlineFlag != nil {
					return
				}
				if h != nil && !inLoop(ret.Block()) && !retErrNil(ret) {
					// a non-nil return after the loop must come from the loop's failure edge only
					if !ret.Block().Dominates(ret.Block()) || !an.BlockReaches(h, ret.Block()) {
						return
					}
					fromLoopExit := false
					for _, s := range h.Succs {
						if !inLoop(s) && (s == ret.Block() || an.BlockReaches(s, ret.Block())) {
							fromLoopExit = true
						}
					}
					if fromLoopExit {
						okNil = false
					}
				}
			})
			c.Check(okNil, "completed-means-removed:"+name, rm.Pos(), "once every listed removal succeeded the cleanup reports success regardless of the removal of the directory itself (which fails for a repository that contains nested repositories): %v", okNil)
			// flag cleared on the nil edge of the cleanup's result, in the caller (parent function)
			flagOK := false
			par := fn.Parent()
			if inlineFlag != nil {
				par = nil
				for _, sc := range h.Succs {
					if !inLoop(sc) && reachWith(sc, h, map[ssa.Value]int8{}, nil, inlineFlag, map[[2]*ssa.BasicBlock]bool{}) {
						flagOK = true
					}
				}
			} else if par == nil {
				// the cleanup is a method or function of its own: its (single) static caller plays the parent's part
				if sites := c.P.Callers(fn); len(sites) == 1 && sites[0].Common().StaticCallee() == fn {
					par = sites[0].Parent()
				}
			}
			if par != nil {
				an.Instrs(par, func(in ssa.Instruction) {
					st, ok := in.(*ssa.Store)
					if !ok {
						return
					}
					k, isC := st.Val.(*ssa.Const)
					if !isC || k.Value == nil || k.Value.Kind() != constant.Bool || constant.BoolVal(k.Value) {
						return
					}
					if fa, ok := st.Addr.(*ssa.FieldAddr); !ok || an.NamedOf(fa.X.Type()) != fam.Repo {
						return
					}
					for _, g := range an.GuardingEdges(st.Block()) {
						x, nilSucc, ok := an.NilTest(g.If())
						if !ok || g.Succ != nilSucc {
							continue
						}
						if call, _ := an.CallOf(x); call != nil {
							if mc, ok := call.Call.Value.(*ssa.MakeClosure); ok && mc.Fn == fn {
								flagOK = true
							}
							if call.Call.StaticCallee() == fn {
								flagOK = true
							}
						}
					}
				})
			}
			c.Check(flagOK, "flag-cleared:"+name, rm.Pos(), "the exists flag is cleared on the success edge of the cleanup: %v (otherwise the next write skips the layout initialisation)", flagOK)
			// (5) the emptiness the cleanup is decided on is the index as the collection of this very pass left it:
			//     every read of the index's entry list that feeds the guard of the cleanup comes after the call that runs
			//     the collector
			if inlineFlag != nil {
				par = fn
			}
			if par != nil {
				var cleanupCall, collectCall *ssa.Call
				isCollector := func(f *ssa.Function) bool {
					hit := false
					an.Calls(f, func(call ssa.CallInstruction) {
						if sc := call.Common().StaticCallee(); sc != nil && sc.Parent() == nil && r.FamilyOfFunc(sc) == nil && core.FuncPkgPath(sc) == core.FuncPkgPath(fn) && returnsIndex(sc) {
							hit = true
						}
					})
					return hit
				}
				an.Calls(par, func(call ssa.CallInstruction) {
					cc, ok := call.(*ssa.Call)
					if !ok {
						return
					}
					var callee *ssa.Function
					if mc, ok := cc.Call.Value.(*ssa.MakeClosure); ok {
						callee, _ = mc.Fn.(*ssa.Function)
					} else {
						callee = cc.Call.StaticCallee()
					}
					if callee == fn {
						cleanupCall = cc
					} else if callee != nil && isCollector(callee) {
						collectCall = cc
					}
				})
				if isCollector(par) && collectCall == nil {
					// the collector is called directly in the parent
					an.Calls(par, func(call ssa.CallInstruction) {
						if cc, ok := call.(*ssa.Call); ok {
							if sc := cc.Call.StaticCallee(); sc != nil && sc.Parent() == nil && r.FamilyOfFunc(sc) == nil && returnsIndex(sc) {
								collectCall = cc
							}
						}
					})
				}
				guardBlock := h
				guardPos := rm.Pos()
				if cleanupCall != nil {
					guardBlock, guardPos = cleanupCall.Block(), cleanupCall.Pos()
				}
				if (cleanupCall != nil || inlineFlag != nil) && collectCall != nil && guardBlock != nil {
					// a read is stale when the collection can still follow it (a path that skips the collection — the
					// index could not be loaded — reads what is there)
					after := func(in ssa.Instruction) bool { return !an.Reaches(in, collectCall) }
					stale := token.NoPos
					var walk func(v ssa.Value, d int, seen map[ssa.Value]bool)
					walk = func(v ssa.Value, d int, seen map[ssa.Value]bool) {
						if v == nil || d > 8 || seen[v] {
							return
						}
						seen[v] = true
						switch x := v.(type) {
						case *ssa.UnOp:
							if x.Op == token.MUL {
								_, pth := accessPath(x)
								if len(pth) >= 2 && pth[len(pth)-1] == "Manifests" {
									if !after(x) && stale == token.NoPos {
										stale = x.Pos()
									}
									return
								}
							}
							walk(x.X, d+1, seen)
						case *ssa.BinOp:
							walk(x.X, d+1, seen)
							walk(x.Y, d+1, seen)
						case *ssa.Phi:
							for _, e := range x.Edges {
								walk(e, d+1, seen)
							}
							// the conditions that select the phi's operands
							for _, pb := range x.Block().Preds {
								for _, g := range an.GuardingEdges(pb) {
									walk(g.If().Cond, d+1, seen)
								}
							}
						case *ssa.Call:
							if l := lenOf(x); l != nil {
								walk(l, d+1, seen)
							}
						}
					}
					for _, g := range an.GuardingEdges(guardBlock) {
						walk(g.If().Cond, 0, map[ssa.Value]bool{})
					}
					c.SetTags("fresh")
					c.Check(stale == token.NoPos, "decided-after-collection:"+name, guardPos, "the emptiness test that lets %s remove the repository reads the index after the collection of this pass (a read at %s precedes it): %v — otherwise a repository the pass itself emptied stays until the next pass, and a stale ‘empty’ is acted on after the index was reloaded", c.P.FuncName(par), c.P.Pos(stale), stale == token.NoPos)
					c.SetTags()
				}
			}
		}
	}
	if !found {
		c.Unresolved("cleanup-loop", "no removal loop over a literal list found in the directory store")
	}
}

func keysOf(m map[string]bool) []string {
	var out []string
	for k := range m {
		out = append(out, k)
	}
	sort.Strings(out)
	return out
}

// pruneCallbacks: the functions (closures or named functions) stored in the cleanup-callback field of the cache
// options (the field of function type returning error of a struct of the cache package).
func pruneCallbacks(c *core.Ctx) map[*ssa.Function]bool {
	return core.Memo(c, "prunecallbacks", func() map[*ssa.Function]bool {
		out := map[*ssa.Function]bool{}
		for _, fn := range c.P.Funcs("internal/store") {
			an.Instrs(fn, func(in ssa.Instruction) {
				st, ok := in.(*ssa.Store)
				if !ok {
					return
				}
				fa, ok := st.Addr.(*ssa.FieldAddr)
				if !ok {
					return
				}
				n := an.NamedOf(an.Deref(fa.X.Type()))
				if n == nil || n.Obj().Pkg() == nil || !strings.HasSuffix(n.Obj().Pkg().Path(), "/internal/cache") {
					return
				}
				stt, ok := n.Underlying().(*types.Struct)
				if !ok || fa.Field >= stt.NumFields() {
					return
				}
				sig, ok := stt.Field(fa.Field).Type().Underlying().(*types.Signature)
				if !ok || sig.Results().Len() != 1 || !an.IsErrorType(sig.Results().At(0).Type()) {
					return
				}
				switch v := an.Strip(st.Val).(type) {
				case *ssa.MakeClosure:
					if f, ok := v.Fn.(*ssa.Function); ok {
						out[f] = true
					}
				case *ssa.Function:
					out[v] = true
				}
			})
		}
		return out
	})
}

func runFSTemp(c *core.Ctx) {
	r := requireRoles(c)
	if r == nil {
		return
	}
	n := 0
	for _, fam := range r.Families {
		if !fam.Mutating {
			continue
		}
		for _, fn := range c.P.Funcs("internal/store") {
			if fn.Signature.Recv() == nil || an.NamedOf(fn.Signature.Recv().Type()) != fam.Upload {
				continue
			}
			// the session cleanup: the method reached from the session cache's cleanup callback
			isCleanup := false
			cbs := pruneCallbacks(c)
			for _, site := range c.P.Callers(fn) {
				if p := site.Parent(); p != nil && cbs[p] {
					isCleanup = true // called from the function given to the session cache as its cleanup callback
				}
			}
			if !isCleanup {
				continue
			}
			n++
			key := "cleanup-removes-temp:" + kn(c.P.FuncName(fn))
			ok := false
			an.Calls(fn, func(call ssa.CallInstruction) {
				if an.IsFunc(call, "os", "Remove") {
					if _, p := accessPath(call.Common().Args[0]); len(p) == 1 && fieldAssignedFromTemp(c, r, fam, p[0]) {
						// executed on every path: its block dominates every return
						dom := true
						an.Instrs(fn, func(in ssa.Instruction) {
							if _, isRet := in.(*ssa.Return); isRet && !call.Block().Dominates(in.Block()) {
								dom = false
							}
						})
						if dom {
							ok = true
						}
					}
				}
			})
			c.Check(ok, key, fn.Pos(), "the session cleanup removes the temporary file on every path: %v", ok)
		}
	}
	if n == 0 {
		c.Unresolved("session-cleanup", "no session cleanup method found")
	}
}
