package rules

import (
	"fmt"
	"strings"

	"golang.org/x/tools/go/ssa"

	"olacheck/an"
	"olacheck/core"
)

func init() {
	register(&Rule{ID: "TB-ERRWRAP", Floor: 4,
		Doc: "handlers classify store errors with errors.Is against the sentinel errors of package types (and answer 4xx accordingly); hence wherever one of those sentinels is an argument of fmt.Errorf its verb is %w (any flags): formatted with another verb the sentinel becomes text, errors.Is fails and a client mistake is answered with a bare 500",
		Run: func(c *core.Ctx) {
			n := 0
			for _, fn := range c.P.ModFuncs {
				an.Calls(fn, func(call ssa.CallInstruction) {
					if !an.IsFunc(call, "fmt", "Errorf") || len(call.Common().Args) != 2 {
						return
					}
					format, ok := an.ConstString(call.Common().Args[0])
					if !ok {
						return
					}
					elems, ok := variadicElems(call.Common().Args[1])
					if !ok {
						return
					}
					// order the variadic elements by index
					args := orderedVariadic(call.Common().Args[1])
					if args == nil {
						args = elems
					}
					verbs := formatVerbs(format)
					for i, a := range args {
						g := sentinelOf(a)
						if g == nil || g.Pkg == nil || g.Pkg.Pkg.Path() != c.P.Module+"/types" {
							continue
						}
						n++
						key := fmt.Sprintf("wrap:%s|%s", kn(c.P.FuncName(fn)), g.Name())
						verb := ""
						if i < len(verbs) {
							verb = verbs[i]
						}
						c.Check(strings.HasSuffix(verb, "w"), key, call.Pos(), "%s passes the sentinel %s to fmt.Errorf at %s with verb %q: %v — only %%w keeps it matchable by errors.Is", c.P.FuncName(fn), g.Name(), c.P.Pos(call.Pos()), "%"+verb, strings.HasSuffix(verb, "w"))
					}
				})
			}
			if n == 0 {
				c.Unresolved("sentinels", "no fmt.Errorf call with a sentinel of package types found")
			}
		}})
}

// sentinelOf: v is (an interface conversion of) a load of a package-level error variable.
func sentinelOf(v ssa.Value) *ssa.Global {
	for i := 0; i < 4; i++ {
		switch x := v.(type) {
		case *ssa.MakeInterface:
			v = x.X
		case *ssa.ChangeInterface:
			v = x.X
		case *ssa.UnOp:
			if g, ok := x.X.(*ssa.Global); ok && an.IsErrorType(an.Deref(g.Type())) {
				return g
			}
			return nil
		default:
			return nil
		}
	}
	return nil
}

// orderedVariadic returns the elements of a variadic argument slice in index order.
func orderedVariadic(v ssa.Value) []ssa.Value {
	sl, ok := v.(*ssa.Slice)
	if !ok {
		return nil
	}
	al, ok := sl.X.(*ssa.Alloc)
	if !ok || al.Referrers() == nil {
		return nil
	}
	byIdx := map[int64]ssa.Value{}
	max := int64(-1)
	for _, r := range *al.Referrers() {
		ia, ok := r.(*ssa.IndexAddr)
		if !ok || ia.Referrers() == nil {
			continue
		}
		idx, ok := an.ConstInt(ia.Index)
		if !ok {
			return nil
		}
		for _, rr := range *ia.Referrers() {
			if st, ok := rr.(*ssa.Store); ok && st.Addr == ia {
				byIdx[idx] = st.Val
				if idx > max {
					max = idx
				}
			}
		}
	}
	out := make([]ssa.Value, 0, max+1)
	for i := int64(0); i <= max; i++ {
		v, ok := byIdx[i]
		if !ok {
			return nil
		}
		out = append(out, v)
	}
	return out
}

// formatVerbs returns, per consumed argument, the verb (with its flags) of a Printf-style format; explicit
// argument indexes and '*' widths are not used in this code base and make the result empty.
func formatVerbs(f string) []string {
	var out []string
	for i := 0; i < len(f); i++ {
		if f[i] != '%' {
			continue
		}
		j := i + 1
		for j < len(f) && strings.ContainsRune("+-# 0123456789.", rune(f[j])) {
			j++
		}
		if j >= len(f) {
			break
		}
		if f[j] == '%' {
			i = j
			continue
		}
		if f[j] == '[' || f[j] == '*' {
			return nil
		}
		out = append(out, f[i+1:j+1])
		i = j
	}
	return out
}
