package rules

import (
	"fmt"
	"go/constant"
	"go/token"
	"go/types"
	"math"
	"strings"

	"golang.org/x/tools/go/ssa"

	"olacheck/an"
	"olacheck/core"
)

// TS-LOWWATER: the count pruner returns at once when its low-water mark is not positive, so the constructor must
// give a positive mark to every positive limit.  Decided by a lower-bound (interval) evaluation of the value stored
// in the mark over the domain ‘limit ≥ 1’: constants, conversions, products, sums and quotients by positive
// constants, and φs whose operands are bounded by the comparisons that guard them.

func init() {
	register(&Rule{ID: "TS-LOWWATER", Floor: 1,
		Doc: "the cache constructor gives every positive count limit a low-water mark of at least 1 (lower-bound evaluation of the stored value over ‘limit ≥ 1’: constants, conversions, products, quotients by positive constants, φs bounded by their guards) — the count pruner returns at once on a mark ≤ 0, so a mark of 0 means the limit is never enforced",
		Run: func(c *core.Ctx) {
			n := 0
			seen := map[string]bool{}
			for _, fn := range c.P.Funcs("internal/cache") {
				if fn.TypeParams().Len() > 0 && len(fn.TypeArgs()) == 0 {
					continue
				}
				// the stores into the mark field (the field the pruner's early return tests) in this function
				type markStore struct {
					st    *ssa.Store
					field string
				}
				var stores []markStore
				an.Instrs(fn, func(in ssa.Instruction) {
					st, ok := in.(*ssa.Store)
					if !ok {
						return
					}
					fa, ok := st.Addr.(*ssa.FieldAddr)
					if !ok {
						return
					}
					stt, ok := an.Deref(fa.X.Type()).Underlying().(*types.Struct)
					if !ok {
						return
					}
					if fname := stt.Field(fa.Field).Name(); isLowWaterField(c, fname) {
						stores = append(stores, markStore{st, fname})
					}
				})
				if len(stores) == 0 {
					continue
				}
				name := c.P.FuncName(fn)
				if fn.Origin() != nil {
					name = c.P.FuncName(fn.Origin())
				}
				key := fmt.Sprintf("mark:%s|%s", kn(name), stores[0].field)
				if seen[key] {
					continue
				}
				seen[key] = true
				n++
				sameField := func(addr ssa.Value, ref *ssa.FieldAddr) bool {
					fa, ok := addr.(*ssa.FieldAddr)
					return ok && fa.Field == ref.Field && (fa.X == ref.X || an.Origin(fa.X) == an.Origin(ref.X))
				}
				worst, undecided := 1.0, false
				var worstAt *ssa.Store
				for _, ms := range stores {
					lb, ok2 := lowerBound(ms.st.Val, 0, nil)
					if ok2 && lb >= 1 {
						continue
					}
					// a value that may be too small is fine when, on every path to the function's exit, it is overwritten or the
					// field is found to be ≥ 1 (`if lim.min < 1 { lim.min = 1 }`)
					ref := ms.st.Addr.(*ssa.FieldAddr)
					type pst struct{ live, proven bool }
					escapes := false
					an.Paths(an.PathSpec[pst]{Fn: fn, Init: pst{},
						Instr: func(s pst, in ssa.Instruction) []pst {
							if in == ssa.Instruction(ms.st) {
								return []pst{{live: true}}
							}
							if !s.live {
								return []pst{s}
							}
							switch x := in.(type) {
							case *ssa.Store:
								if sameField(x.Addr, ref) {
									return []pst{{}} // overwritten: judged at that store
								}
							case *ssa.Return:
								if !s.proven {
									escapes = true
								}
							}
							return []pst{s}
						},
						Edge: func(s pst, from *ssa.BasicBlock, succ int) (pst, bool) {
							if !s.live {
								return s, true
							}
							if ifi := an.BlockIf(from); ifi != nil {
								if x, y, op, ok := an.CmpTest(ifi); ok {
									if k, isK := an.ConstInt(y); isK {
										if ld, isLd := an.Strip(x).(*ssa.UnOp); isLd && ld.Op == token.MUL && sameField(ld.X, ref) {
											if succ == 1 {
												op = an.NegateOp(op)
											}
											if (op == token.GEQ && k >= 1) || (op == token.GTR && k >= 0) {
												s.proven = true
											}
										}
									}
								}
							}
							return s, true
						}})
					if !escapes {
						continue
					}
					if !ok2 {
						undecided = true
						worstAt = ms.st
						continue
					}
					if lb < worst {
						worst, worstAt = lb, ms.st
					}
				}
				switch {
				case worstAt == nil:
					c.Pass(key, stores[0].st.Pos(), "for every limit ≥ 1 the mark %s leaves %s with is ≥ 1 (%d store(s))", stores[0].field, name, len(stores))
				case undecided && worst >= 1:
					c.Undecided(key, worstAt.Pos(), "the low-water mark stored at %s is not an expression the bound evaluation covers", c.P.Pos(worstAt.Pos()))
				default:
					c.Fail(key, worstAt.Pos(), "for some limit ≥ 1 the low-water mark stored at %s can be %v (lower bound over ‘limit ≥ 1’) and nothing on the way to the function's exit raises it: the count pruner returns at once on a mark ≤ 0, so that limit is never enforced — entries (upload sessions, open repositories) grow without bound until they expire by age", c.P.Pos(worstAt.Pos()), worst)
				}
			}
			if n == 0 {
				c.Unresolved("mark", "no store into the count pruner's low-water mark found in the cache package")
			}
		}})
}

// isLowWaterField: the field is compared `<= 0` (or `< 1`) on the early-return edge of a function of the cache package
// that deletes entries.
func isLowWaterField(c *core.Ctx, field string) bool {
	res := core.Memo(c, "lowwaterfields", func() map[string]bool {
		out := map[string]bool{}
		// the functions that delete entries and the steps of the package they call (a `limits.excess(size)` that holds the test)
		cand := map[*ssa.Function]bool{}
		for _, fn := range c.P.Funcs("internal/cache") {
			if len(cacheDeleteSites(fn, 0)) == 0 {
				continue
			}
			cand[fn] = true
			an.Calls(fn, func(call ssa.CallInstruction) {
				if h := call.Common().StaticCallee(); h != nil && len(h.Blocks) > 0 && core.FuncPkgPath(h) == core.FuncPkgPath(fn) {
					cand[h] = true
				}
			})
		}
		for _, fn := range c.P.Funcs("internal/cache") {
			if !cand[fn] {
				continue
			}
			for _, b := range fn.Blocks {
				ifi := an.BlockIf(b)
				if ifi == nil {
					continue
				}
				conds := []ssa.Value{ifi.Cond}
				if phi, ok := ifi.Cond.(*ssa.Phi); ok {
					conds = append(conds, phi.Edges...)
				}
				for _, blk := range fn.Blocks {
					if bi := an.BlockIf(blk); bi != nil {
						conds = append(conds, bi.Cond)
					}
				}
				for _, cond := range conds {
					base, _ := an.CondBase(cond)
					bo, ok := base.(*ssa.BinOp)
					if !ok || (bo.Op != token.LEQ && bo.Op != token.LSS) {
						continue
					}
					k, isK := an.ConstInt(bo.Y)
					if !isK || !((bo.Op == token.LEQ && k == 0) || (bo.Op == token.LSS && k == 1)) {
						continue
					}
					if _, p := accessPath(an.Strip(bo.X)); len(p) > 0 && strings.Contains(strings.ToLower(p[len(p)-1]), "count") {
						out[p[len(p)-1]] = true
					}
				}
			}
		}
		return out
	})
	return res[field]
}

// lbEnv: inside a helper the bound evaluation entered through a call, the parameters that carry the limit itself and
// the lower bounds known for the other parameters.
type lbEnv struct {
	lim map[ssa.Value]bool
	lb  map[ssa.Value]float64
}

// lowerBound evaluates a lower bound of v over the domain ‘every count limit read from an options parameter is ≥ 1’.
func lowerBound(v ssa.Value, depth int, env *lbEnv) (float64, bool) {
	if depth > 12 || v == nil {
		return 0, false
	}
	if ld, ok := v.(*ssa.UnOp); ok && ld.Op == token.MUL {
		if sv := an.FreshFieldVal(ld); sv != nil {
			return lowerBound(sv, depth+1, env)
		}
	}
	if env != nil {
		if lb, ok := env.lb[v]; ok {
			return lb, true
		}
	}
	switch x := v.(type) {
	case *ssa.Const:
		if x.Value == nil {
			return 0, false
		}
		switch x.Value.Kind() {
		case constant.Int, constant.Float:
			f, _ := constant.Float64Val(constant.ToFloat(x.Value))
			return f, true
		}
		return 0, false
	case *ssa.Convert:
		lb, ok := lowerBound(x.X, depth+1, env)
		if !ok {
			return 0, false
		}
		if bt, isB := x.Type().Underlying().(*types.Basic); isB && bt.Info()&types.IsInteger != 0 {
			return math.Floor(lb + 1e-9), true
		}
		return lb, true
	case *ssa.ChangeType:
		return lowerBound(x.X, depth+1, env)
	case *ssa.BinOp:
		a, ok1 := lowerBound(x.X, depth+1, env)
		switch x.Op {
		case token.MUL:
			b, ok2 := lowerBound(x.Y, depth+1, env)
			if ok1 && ok2 && a >= 0 && b >= 0 {
				return a * b, true
			}
		case token.ADD:
			b, ok2 := lowerBound(x.Y, depth+1, env)
			if ok1 && ok2 {
				return a + b, true
			}
		case token.QUO:
			// by a positive constant
			if k, isK := x.Y.(*ssa.Const); isK && k.Value != nil && ok1 && a >= 0 {
				f, _ := constant.Float64Val(constant.ToFloat(k.Value))
				if f > 0 {
					q := a / f
					if bt, isB := x.Type().Underlying().(*types.Basic); isB && bt.Info()&types.IsInteger != 0 {
						q = math.Floor(q + 1e-9)
					}
					return q, true
				}
			}
		}
		return 0, false
	case *ssa.Phi:
		best := math.Inf(1)
		any := false
		for i, e := range x.Edges {
			pred := x.Block().Preds[i]
			feasible, bound := edgeFacts(pred, x.Block(), e, env)
			if !feasible {
				continue
			}
			lb, ok := lowerBound(e, depth+1, env)
			if !ok {
				if math.IsInf(bound, -1) {
					return 0, false
				}
				lb = bound
			}
			if bound > lb {
				lb = bound
			}
			any = true
			if lb < best {
				best = lb
			}
		}
		if !any {
			return 0, false
		}
		return best, true
	case *ssa.UnOp:
		if x.Op == token.MUL && isLimitSource(x, env) {
			return 1, true
		}
		return 0, false
	case *ssa.Field:
		if isLimitSource(x, env) {
			return 1, true
		}
	case *ssa.Parameter:
		if isLimitSource(x, env) {
			return 1, true
		}
		return 0, false
	case *ssa.Call:
		if bi, ok := x.Call.Value.(*ssa.Builtin); ok {
			switch bi.Name() {
			case "max":
				best, any := math.Inf(-1), false
				for _, a := range x.Call.Args {
					if lb, ok := lowerBound(a, depth+1, env); ok {
						any = true
						best = math.Max(best, lb)
					}
				}
				return best, any
			case "min":
				best := math.Inf(1)
				for _, a := range x.Call.Args {
					lb, ok := lowerBound(a, depth+1, env)
					if !ok {
						return 0, false
					}
					best = math.Min(best, lb)
				}
				return best, len(x.Call.Args) > 0
			}
			return 0, false
		}
		return calleeBound(x, 0, depth, env)
	case *ssa.Extract:
		if call, ok := x.Tuple.(*ssa.Call); ok {
			return calleeBound(call, x.Index, depth, env)
		}
		return 0, false
	}
	return 0, false
}

// calleeBound: the lower bound of result idx of a statically resolved helper of the analysed program, over its feasible
// returns, with the parameters bound to what the call passes (the limit itself, or a value with a known bound).
func calleeBound(call *ssa.Call, idx int, depth int, env *lbEnv) (float64, bool) {
	callee := call.Call.StaticCallee()
	if callee == nil || len(callee.Blocks) == 0 || call.Call.IsInvoke() || len(callee.FreeVars) > 0 {
		return 0, false
	}
	if callee.Signature.Results().Len() <= idx || len(callee.Params) != len(call.Call.Args) {
		return 0, false
	}
	env2 := &lbEnv{lim: map[ssa.Value]bool{}, lb: map[ssa.Value]float64{}}
	for i, p := range callee.Params {
		a := call.Call.Args[i]
		if isLimitSource(a, env) {
			env2.lim[p] = true
		} else if lb, ok := lowerBound(a, depth+1, env); ok {
			env2.lb[p] = lb
		}
	}
	best, any := math.Inf(1), false
	for _, b := range callee.Blocks {
		if len(b.Instrs) == 0 {
			continue
		}
		ret, ok := b.Instrs[len(b.Instrs)-1].(*ssa.Return)
		if !ok || len(ret.Results) <= idx {
			continue
		}
		e := ret.Results[idx]
		feasible, bound := edgeFacts(b, nil, e, env2)
		if !feasible {
			continue
		}
		lb, ok := lowerBound(e, depth+1, env2)
		if !ok {
			if math.IsInf(bound, -1) {
				return 0, false
			}
			lb = bound
		}
		if bound > lb {
			lb = bound
		}
		any = true
		if lb < best {
			best = lb
		}
	}
	if !any {
		return 0, false
	}
	return best, true
}

// isLimitSource: an integer field named …Count… read from a parameter (the options).
func isLimitSource(v ssa.Value, env *lbEnv) bool {
	if ld, ok := v.(*ssa.UnOp); ok && ld.Op == token.MUL {
		if sv := an.FreshFieldVal(ld); sv != nil {
			return isLimitSource(sv, env)
		}
	}
	if env != nil && (env.lim[v] || env.lim[an.Origin(v)]) {
		return true
	}
	if pr, ok := an.Origin(v).(*ssa.Parameter); ok {
		if env != nil {
			return false // inside a helper only what the call binds is the limit
		}
		if bt, isB := pr.Type().Underlying().(*types.Basic); isB && bt.Info()&types.IsInteger != 0 && strings.Contains(strings.ToLower(pr.Name()), "count") {
			return true
		}
	}
	root, p := deepAccessPath(v)
	if _, isParam := root.(*ssa.Parameter); !isParam || len(p) == 0 {
		return false
	}
	bt, ok := v.Type().Underlying().(*types.Basic)
	return ok && bt.Info()&types.IsInteger != 0 && strings.Contains(strings.ToLower(p[len(p)-1]), "count")
}

// edgeFacts: along the CFG edge pred→to carrying value e into a φ: is the edge feasible over the domain (a comparison of
// the limit itself decides), and what lower bound do the comparisons that guard the edge give for e itself.
func edgeFacts(pred, to *ssa.BasicBlock, e ssa.Value, env *lbEnv) (feasible bool, bound float64) {
	bound = math.Inf(-1)
	feasible = true
	type edge struct {
		from *ssa.BasicBlock
		succ int
	}
	var edges []edge
	for _, g := range an.GuardingEdges(pred) {
		if !g.Synthetic() {
			edges = append(edges, edge{g.From, g.Succ})
		}
	}
	if ifi := an.BlockIf(pred); ifi != nil && to != nil {
		for si, s := range pred.Succs {
			if s == to {
				edges = append(edges, edge{pred, si})
			}
		}
	}
	for _, ed := range edges {
		ifi := an.BlockIf(ed.from)
		if ifi == nil {
			continue
		}
		x, y, op, ok := an.CmpTest(ifi)
		if !ok {
			continue
		}
		k, isK := an.ConstInt(y)
		if !isK {
			continue
		}
		if ed.succ == 1 {
			op = an.NegateOp(op)
		}
		// about the limit: decide feasibility over limit ≥ 1
		if isLimitSource(an.Strip(x), env) || isLimitSource(x, env) {
			switch op {
			case token.LEQ:
				if k < 1 {
					feasible = false
				}
			case token.LSS:
				if k <= 1 {
					feasible = false
				}
			case token.EQL:
				if k < 1 {
					feasible = false
				}
			}
			continue
		}
		// about the value itself
		if an.Strip(x) == an.Strip(e) {
			switch op {
			case token.GEQ:
				bound = math.Max(bound, float64(k))
			case token.GTR:
				bound = math.Max(bound, float64(k+1))
			}
		}
	}
	return feasible, bound
}
