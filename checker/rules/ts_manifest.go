package rules

import (
	"fmt"
	"go/token"
	"go/types"
	"sort"
	"strings"

	"golang.org/x/tools/go/ssa"

	"olacheck/an"
	"olacheck/core"
)

const (
	bParsedImg uint32 = 1 << iota
	bParsedIdx
	bExistImg
	bExistIdx
	bMTCmp
	bLimit
)

type pushState struct {
	bits uint32
	sub  uint8 // 1 + index of the sub-handler called last on this path (0: none)
}

// pushHandler describes the manifest push handler.
type pushHandler struct {
	hs      *hashSite
	readAll *ssa.Call
	// readUnknown: the bytes could not be followed to the read of the request body (only the bounded-read clause depends on it)
	readUnknown bool
	// viaHelper: the body is read by a helper of the server package (call in the handler); its non-nil byte results are
	// within the limit by the helper's own check; argOf maps the helper's parameters to the handler's arguments
	viaHelper *ssa.Call
	preLimit  bool
	reader    *ssa.Call // LimitReader / MaxBytesReader, nil when the body is read directly
	unbounded bool
	parsed    map[*ssa.Alloc]string // allocation unmarshalled into -> "img" | "idx"
	unmarshal map[*ssa.Call]*ssa.Alloc
	verifiers map[*ssa.Call]string // verifier call -> kind
	mtVal     ssa.Value            // the media type recorded in the inserted descriptor
	insert    ssa.CallInstruction
	repo      ssa.Value
	// subs: functions of the package the handler hands the received bytes and the repository to (one per manifest
	// kind) and that answer with a list of error documents: an empty list is their ‘accepted’
	subs []*pushSub
}

// pushSub is a sub-handler call seen as a push handler of its own frame.
type pushSub struct {
	call *ssa.Call
	view *pushHandler
}

func kindOfStruct(r *Roles, t types.Type) string {
	switch {
	case isNamedType(an.Deref(t), r.TypesPath, "Manifest"):
		return "img"
	case isNamedType(an.Deref(t), r.TypesPath, "Index"):
		return "idx"
	}
	return ""
}

func findPushHandler(c *core.Ctx) *pushHandler {
	return core.Memo(c, "pushhandler", func() *pushHandler {
		r := getRoles(c)
		for _, hs := range hashSites(c) {
			if core.FuncPkgPath(hs.fn) != c.P.Module || len(hs.inserts) == 0 {
				continue
			}
			// the bytes are what was read from a reader: io.ReadAll(reader), or the contents of a bytes.Buffer
			// filled by ReadFrom(reader)
			ra, idx := an.CallOf(hs.bytes)
			var readerArg ssa.Value
			switch {
			case ra != nil && idx == 0 && an.IsFunc(ra, "io", "ReadAll"):
				readerArg = ra.Call.Args[0]
			case ra != nil && an.IsMethod(ra, "bytes", "Buffer", "Bytes"):
				buf, _ := an.CallArgs(ra)
				ra = nil
				an.Calls(hs.fn, func(call ssa.CallInstruction) {
					if cc, ok := call.(*ssa.Call); ok && an.IsMethod(cc, "bytes", "Buffer", "ReadFrom") {
						if rb, args := an.CallArgs(cc); an.Origin(rb) == an.Origin(buf) && len(args) == 1 {
							ra, readerArg = cc, args[0]
						}
					}
				})
			default:
				ra = nil
			}
			var viaHelper *ssa.Call
			preLimit := false
			if ra == nil {
				// the bytes come out of a helper of this module: every return that hands out bytes returns what it read
				// with io.ReadAll, after its own ‘len ≤ limit’ test
				if hr := an.HelperReturns(hs.bytes, func(h *ssa.Function) bool { return core.FuncPkgPath(h) == c.P.Module }); len(hr) > 0 {
					var inner *ssa.Call
					good, limited := true, true
					for _, x := range hr {
						if an.IsNilConst(an.Strip(x.Val)) {
							continue
						}
						var rc *ssa.Call
						for _, o := range an.Origins(x.Val) {
							cc, idx := an.CallOf(o)
							if cc != nil && idx == 0 && an.IsFunc(cc, "io", "ReadAll") {
								rc = cc
							}
						}
						if rc == nil || (inner != nil && inner != rc) {
							good = false
							break
						}
						inner = rc
						// guarded by len(bytes) <= limit-parameter
						lim := false
						for _, g := range an.GuardingEdges(x.Ret.Block()) {
							a, b, op, ok := an.CmpTest(g.If())
							if !ok {
								continue
							}
							isLen := func(v ssa.Value) bool {
								l := lenOf(v)
								if l == nil {
									return false
								}
								for _, o := range an.Origins(l) {
									if cc, idx := an.CallOf(o); cc == rc && idx == 0 {
										return true
									}
								}
								return false
							}
							_, pa := an.Origin(b).(*ssa.Parameter)
							_, pb := an.Origin(a).(*ssa.Parameter)
							switch {
							case isLen(a) && pa:
								if (op == token.LEQ && g.Succ == 0) || (op == token.GTR && g.Succ == 1) {
									lim = true
								}
							case isLen(b) && pb:
								if (op == token.GEQ && g.Succ == 0) || (op == token.LSS && g.Succ == 1) {
									lim = true
								}
							}
						}
						if !lim {
							limited = false
						}
					}
					if good && inner != nil {
						ra, readerArg = inner, inner.Call.Args[0]
						viaHelper, preLimit = hr[0].Call, limited
					}
				}
			}
			ph := &pushHandler{hs: hs, readAll: ra, viaHelper: viaHelper, preLimit: preLimit, parsed: map[*ssa.Alloc]string{}, unmarshal: map[*ssa.Call]*ssa.Alloc{}, verifiers: map[*ssa.Call]string{}, insert: hs.inserts[0]}
			if ra == nil || readerArg == nil {
				// the handler is the one that hashes bytes and enters the digest into the index of the repository the request names;
				// how it came by the bytes could not be followed (a record handed out by a reading step, say): everything but
				// the bounded-read clause is still judged, that clause is reported as undecided
				if !reachesRequestBody(hs.fn) {
					continue
				}
				ph.readAll, ph.readUnknown = nil, true
			} else {
				// the reader
				src := an.Origin(readerArg)
				isBody := func(v ssa.Value) bool {
					v = ph.callerValue(v)
					_, p := accessPath(an.Origin(v))
					return len(p) > 0 && p[len(p)-1] == "Body"
				}
				if rc, _ := an.CallOf(src); rc != nil && (an.IsFunc(rc, "io", "LimitReader") || an.IsFunc(rc, "net/http", "MaxBytesReader")) {
					ph.reader = rc
					bodyArg := rc.Call.Args[0]
					if an.IsFunc(rc, "net/http", "MaxBytesReader") {
						bodyArg = rc.Call.Args[1]
					}
					if !isBody(bodyArg) {
						continue
					}
				} else if isBody(src) {
					ph.unbounded = true
				} else {
					continue
				}
			}
			recv, _ := an.CallArgs(ph.insert)
			ph.repo = an.Origin(recv)
			for _, mv := range hs.descs[0]["MediaType"] {
				ph.mtVal = mv
			}
			an.Calls(hs.fn, func(call ssa.CallInstruction) {
				cc, ok := call.(*ssa.Call)
				if !ok {
					return
				}
				if an.IsFunc(call, "encoding/json", "Unmarshal") && len(cc.Call.Args) == 2 && an.Origin(cc.Call.Args[0]) == hs.bytes {
					if al, ok := an.Strip(cc.Call.Args[1]).(*ssa.Alloc); ok {
						if k := kindOfStruct(r, al.Type()); k != "" {
							ph.parsed[al] = k
							ph.unmarshal[cc] = al
						}
					}
				}
			})
			an.Calls(hs.fn, func(call ssa.CallInstruction) {
				cc, ok := call.(*ssa.Call)
				if !ok {
					return
				}
				callee := localCallee(c, call)
				if callee == nil || callee.Parent() != nil {
					return
				}
				hasRepo, kind := false, ""
				for _, a := range cc.Call.Args {
					if an.Origin(a) == ph.repo && r.IsRepoType(a.Type()) {
						hasRepo = true
					}
					if u, ok := a.(*ssa.UnOp); ok && u.Op == token.MUL {
						if al, ok := u.X.(*ssa.Alloc); ok && ph.parsed[al] != "" {
							kind = ph.parsed[al]
						}
					}
				}
				if hasRepo && kind != "" {
					if _, isSlice := cc.Type().Underlying().(*types.Slice); isSlice {
						ph.verifiers[cc] = kind
					}
				}
			})
			collectPushSubs(c, r, ph)
			return ph
		}
		return nil
	})
}

// collectPushSubs finds the sub-handlers of the push handler: static calls of functions of the package that receive
// the hashed bytes and the repository, parse the bytes themselves and return (among other things) a slice.
func collectPushSubs(c *core.Ctx, r *Roles, ph *pushHandler) {
	fn := ph.hs.fn
	an.Calls(fn, func(call ssa.CallInstruction) {
		cc, ok := call.(*ssa.Call)
		if !ok {
			return
		}
		h := cc.Call.StaticCallee()
		if h == nil || h.Parent() != nil || len(h.Blocks) == 0 || core.FuncPkgPath(h) != c.P.Module || len(cc.Call.Args) != len(h.Params) {
			return
		}
		bi, ri := -1, -1
		for i, a := range cc.Call.Args {
			if an.Origin(a) == ph.hs.bytes {
				bi = i
			}
			if an.Origin(a) == ph.repo && r.IsRepoType(a.Type()) {
				ri = i
			}
		}
		if bi < 0 || ri < 0 {
			return
		}
		view := &pushHandler{hs: &hashSite{fn: h, bytes: h.Params[bi]}, repo: h.Params[ri], parsed: map[*ssa.Alloc]string{}, unmarshal: map[*ssa.Call]*ssa.Alloc{}, verifiers: map[*ssa.Call]string{}}
		an.Calls(h, func(c2 ssa.CallInstruction) {
			x, ok := c2.(*ssa.Call)
			if !ok {
				return
			}
			if an.IsFunc(c2, "encoding/json", "Unmarshal") && len(x.Call.Args) == 2 && an.Origin(x.Call.Args[0]) == view.hs.bytes {
				if al, ok := an.Strip(x.Call.Args[1]).(*ssa.Alloc); ok {
					if k := kindOfStruct(r, al.Type()); k != "" {
						view.parsed[al] = k
						view.unmarshal[x] = al
					}
				}
			}
		})
		if len(view.parsed) == 0 {
			return
		}
		an.Calls(h, func(c2 ssa.CallInstruction) {
			x, ok := c2.(*ssa.Call)
			if !ok {
				return
			}
			callee := localCallee(c, c2)
			if callee == nil || callee.Parent() != nil {
				return
			}
			hasRepo, kind := false, ""
			for _, a := range x.Call.Args {
				if an.Origin(a) == view.repo && r.IsRepoType(a.Type()) {
					hasRepo = true
				}
				if u, ok := a.(*ssa.UnOp); ok && u.Op == token.MUL {
					if al, ok := u.X.(*ssa.Alloc); ok && view.parsed[al] != "" {
						kind = view.parsed[al]
					}
				}
			}
			if hasRepo && kind != "" {
				if _, isSlice := x.Type().Underlying().(*types.Slice); isSlice {
					view.verifiers[x] = kind
				}
			}
		})
		// the declared media type inside the sub-handler: the parameter that receives it
		for i, a := range cc.Call.Args {
			if ph.mtVal != nil && ph.declaredDerived(r, a, 0) {
				view.mtVal = h.Params[i]
			}
		}
		ph.subs = append(ph.subs, &pushSub{call: cc, view: view})
	})
}

// reachesRequestBody: fn (a handler closure) or a function of its package it calls reads the Body field of a request.
func reachesRequestBody(fn *ssa.Function) bool {
	seen := map[*ssa.Function]bool{}
	var walk func(f *ssa.Function, d int) bool
	walk = func(f *ssa.Function, d int) bool {
		if f == nil || seen[f] || d > 2 || len(f.Blocks) == 0 {
			return false
		}
		seen[f] = true
		found := false
		an.Instrs(f, func(in ssa.Instruction) {
			if fa, ok := in.(*ssa.FieldAddr); ok {
				if n := an.NamedOf(an.Deref(fa.X.Type())); n != nil && n.Obj().Name() == "Request" && n.Obj().Pkg() != nil && n.Obj().Pkg().Path() == "net/http" {
					if st, ok := n.Underlying().(*types.Struct); ok && st.Field(fa.Field).Name() == "Body" {
						found = true
					}
				}
			}
		})
		if found {
			return true
		}
		hit := false
		an.Calls(f, func(call ssa.CallInstruction) {
			if h := call.Common().StaticCallee(); h != nil && core.FuncPkgPath(h) == core.FuncPkgPath(fn) && walk(h, d+1) {
				hit = true
			}
		})
		return hit
	}
	return walk(fn, 0)
}

// definitelyNonEmpty: the slice is a literal with at least one element.
func definitelyNonEmpty(v ssa.Value) bool {
	sl, ok := an.Strip(v).(*ssa.Slice)
	if !ok {
		return false
	}
	al, ok := sl.X.(*ssa.Alloc)
	if !ok {
		return false
	}
	arr, ok := an.Deref(al.Type()).Underlying().(*types.Array)
	return ok && arr.Len() >= 1
}

// bodyDerived: the value is the body's own media type: MediaTypeDetect(bytes), the MediaType field of a
// struct parsed from the bytes, or a predicate applied to one of these.
func (ph *pushHandler) bodyDerived(r *Roles, v ssa.Value, depth int) bool {
	if depth > 3 {
		return false
	}
	v = an.Strip(v)
	if call, _ := an.CallOf(v); call != nil {
		if an.IsFunc(call, r.TypesPath, "MediaTypeDetect") && len(call.Call.Args) == 1 && an.Origin(call.Call.Args[0]) == ph.hs.bytes {
			return true
		}
		if sc := call.Call.StaticCallee(); sc != nil && core.FuncPkgPath(sc) == r.TypesPath && len(call.Call.Args) == 1 {
			return ph.bodyDerived(r, call.Call.Args[0], depth+1)
		}
		return false
	}
	root, p := accessPath(v)
	if al, ok := root.(*ssa.Alloc); ok && ph.parsed[al] != "" && pathEq(p, "MediaType") {
		return true
	}
	return false
}

// detectorDerived: the value is the result of the media type detector applied to the received bytes.
func (ph *pushHandler) detectorDerived(r *Roles, v ssa.Value) bool {
	call, _ := an.CallOf(an.Strip(v))
	return call != nil && an.IsFunc(call, r.TypesPath, "MediaTypeDetect") && len(call.Call.Args) == 1 && an.Origin(call.Call.Args[0]) == ph.hs.bytes
}

// declaredDerived: the value is the media type the request declared (or a predicate applied to it).
func (ph *pushHandler) declaredDerived(r *Roles, v ssa.Value, depth int) bool {
	if depth > 3 || ph.mtVal == nil {
		return false
	}
	v = an.Strip(v)
	if call, _ := an.CallOf(v); call != nil {
		// a predicate or normaliser of the types package applied to the declared value; the normalised value may
		// itself be what the handler records
		if sc := call.Call.StaticCallee(); sc != nil && core.FuncPkgPath(sc) == r.TypesPath && len(call.Call.Args) == 1 {
			if ph.declaredDerived(r, call.Call.Args[0], depth+1) {
				return true
			}
		}
	}
	mine := map[ssa.Value]bool{}
	for _, o := range an.Origins(v) {
		mine[o] = true
	}
	if mine[ph.mtVal] {
		return true
	}
	for _, o := range an.Origins(ph.mtVal) {
		if _, isConst := o.(*ssa.Const); isConst {
			continue
		}
		if ph.bodyDerived(r, o, 0) {
			continue
		}
		if mine[o] {
			return true
		}
	}
	return false
}

func init() {
	for _, rl := range []struct{ id, doc string }{
		{"TS-EXISTS", "every path from the entry of the manifest push handler to the index insert passes the ok-edge of the JSON parse of the received bytes into an image or index struct and the ‘nothing missing’ edge of the existence verifier for that same struct and the same repository value; a verifier calls BlobGet for the digest of every Descriptor / []Descriptor field of its struct (Subject excepted), records a failure on the error edge and returns nil only when nothing was recorded"},
		{"TS-MT-CONSISTENT", "every path to the index insert on which the recorded media type was declared by the request passes a comparison of the declared type with the body's own type (its mediaType field or the detector applied to the same bytes) on the agreeing edge, or the edge on which the body has no type to compare"},
		{"TS-BOUNDREAD", "the manifest bytes come from a reader bounded above the configured limit (limit + k, k ≥ 1, or MaxBytesReader) and every path to the index insert passes the ‘length ≤ limit’ edge of a comparison of len(bytes) with the limit: an oversized body is refused, never stored cut to the limit"},
	} {
		rl := rl
		register(&Rule{ID: rl.id, Floor: 1, Doc: rl.doc, Run: func(c *core.Ctx) { runPush(c, rl.id) }})
	}
	register(&Rule{ID: "TS-REFTAG", Floor: 1,
		Doc: "the ref-name annotation of the index entry inserted by the manifest push handler is a constant or a value on which the tag grammar (RefTagRE.MatchString) was checked on the assigning path",
		Run: runRefTag})
	register(&Rule{ID: "TS-REFERRER-CALL", Floor: 3,
		Doc: "in the push handler the referrers update helper is called on the non-empty edge of the extracted subject and no 2xx is reachable from that edge without it; the subject is extracted from every struct kind the handler parses, under the same setting; in the delete handler the referrers update precedes the index removal",
		Run: runReferrerCall})
	register(&Rule{ID: "SH-SIBLING-REF", Floor: 2,
		Doc: "all builders of a referrers entry (the descriptor literals of the push handler's arms and types.ManifestReferrerDescriptor) fill the same field set {MediaType, ArtifactType, Size, Digest, Annotations}, and where the manifest kind has a config the artifact type falls back to the config's media type",
		Run: runSiblingRef})
	register(&Rule{ID: "TS-REFDEL", Floor: 1,
		Doc: "in the manifest delete handler the referrers update is only reachable on an edge that establishes that the manifest itself is removed (the reference failed the tag grammar): deleting a tag keeps the manifest and must keep its referrers entry",
		Run: runRefDel})
}

func runPush(c *core.Ctx, rule string) {
	r := requireRoles(c)
	if r == nil {
		return
	}
	ph := findPushHandler(c)
	if ph == nil {
		c.Unresolved("push-handler", "no handler found that hashes the request body and inserts the digest into the index")
		return
	}
	res := core.Memo(c, "pushresult", func() map[string][2]string { return analysePush(c, r, ph) })
	for key, v := range res {
		if !strings.HasPrefix(key, rule+"|") {
			continue
		}
		k := strings.TrimPrefix(key, rule+"|")
		if v[0] == "" {
			c.Pass(k, ph.insert.Pos(), "%s", v[1])
		} else {
			c.Fail(k, ph.insert.Pos(), "%s", v[0])
		}
	}
}

// pushEdgeCore applies the facts one branch edge of the frame ph describes establishes (parse ok, verifier ok, media
// type compared, length within the limit).
func pushEdgeCore(r *Roles, ph *pushHandler, readErr ssa.Value, maxBytes bool, limitPath func(ssa.Value) bool, isLenBytes func(ssa.Value) bool, unmErr map[ssa.Value]string, s pushState, from *ssa.BasicBlock, succ int) pushState {
	ifi := an.BlockIf(from)
	if ifi != nil {
		if x, nilSucc, ok := an.NilTest(ifi); ok && succ == nilSucc {
			if call, _ := an.CallOf(x); call != nil {
				if k, ok := unmErr[call]; ok {
					if k == "img" {
						s.bits |= bParsedImg
					} else {
						s.bits |= bParsedIdx
					}
				}
				if k, ok := ph.verifiers[call]; ok {
					if k == "img" {
						s.bits |= bExistImg
					} else {
						s.bits |= bExistIdx
					}
				}
			}
			if maxBytes && x == readErr {
				s.bits |= bLimit
			}
		}
		// the verifier's list tested for emptiness instead of nil
		if x, emptySucc, ok := an.LenZeroTest(ifi); ok && succ == emptySucc {
			if call, _ := an.CallOf(an.Origin(x)); call != nil {
				if k, ok := ph.verifiers[call]; ok {
					if k == "img" {
						s.bits |= bExistImg
					} else {
						s.bits |= bExistIdx
					}
				}
			}
		}
		// the comparison made by a predicate of the package (sameKind(declared, detected)): its accepting edge
		if pc, trueSucc, ok := an.BoolCallTest(ifi); ok && succ == trueSucc {
			if di, bi, isP := mtPredicate(pc.Call.StaticCallee()); isP && len(pc.Call.Args) == 2 {
				if ph.declaredDerived(r, pc.Call.Args[di], 0) && ph.bodyDerived(r, pc.Call.Args[bi], 0) && ph.detectorDerived(r, pc.Call.Args[bi]) {
					s.bits |= bMTCmp
				}
			}
		}
		if x, y, op, ok := an.CmpTest(ifi); ok {
			// media type comparison
			for _, pair := range [][2]ssa.Value{{x, y}, {y, x}} {
				if ph.bodyDerived(r, pair[0], 0) {
					eqSucc := -1
					switch op {
					case token.EQL:
						eqSucc = 0
					case token.NEQ:
						eqSucc = 1
					}
					if s2, isStr := an.ConstString(pair[1]); isStr && s2 == "" && eqSucc == succ && ph.detectorDerived(r, pair[0]) {
						s.bits |= bMTCmp // the detector cannot tell what the body is: nothing to compare
					}
					if ph.declaredDerived(r, pair[1], 0) && eqSucc == succ {
						s.bits |= bMTCmp
					}
				}
			}
			// the request declared no media type: nothing declared to compare — the recorded type can only be the detector's
			for _, pair := range [][2]ssa.Value{{x, y}, {y, x}} {
				if s2, isStr := an.ConstString(pair[1]); isStr && s2 == "" && ph.declaredDerived(r, pair[0], 0) {
					if (op == token.EQL && succ == 0) || (op == token.NEQ && succ == 1) {
						s.bits |= bMTCmp
					}
				}
			}
			// length comparison
			okSucc := -1
			switch {
			case isLenBytes(x) && limitPath(y):
				switch op {
				case token.GTR, token.GEQ:
					okSucc = 1
				case token.LEQ, token.LSS:
					okSucc = 0
				}
			case isLenBytes(y) && limitPath(x):
				switch op {
				case token.LSS, token.LEQ:
					okSucc = 1
				case token.GEQ, token.GTR:
					okSucc = 0
				}
			}
			if okSucc == succ {
				s.bits |= bLimit
			}
		}
	}
	// the recorded media type takes the detector's result on this edge
	if phi, ok := ph.mtVal.(*ssa.Phi); ok && phi.Block() == from.Succs[succ] {
		for i, p := range phi.Block().Preds {
			if p == from && ph.bodyDerived(r, phi.Edges[i], 0) {
				s.bits |= bMTCmp
			}
		}
	}
	return s
}

// mtPredicate: h(a, b string) bool answers true only when one parameter (the detected type) is empty — nothing to compare —
// or when the same classification predicate gives the same answer for both parameters.  Returns the index of the
// declared and of the detected parameter.
func mtPredicate(h *ssa.Function) (declIdx, bodyIdx int, ok bool) {
	if h == nil || len(h.Blocks) == 0 || len(h.Params) != 2 || h.Signature.Results().Len() != 1 {
		return 0, 0, false
	}
	paramIdx := func(v ssa.Value) int {
		for i, p := range h.Params {
			if an.Origin(v) == ssa.Value(p) {
				return i
			}
		}
		return -1
	}
	bodyIdx = -1
	cmpSeen := false
	good := true
	an.Instrs(h, func(in ssa.Instruction) {
		ret, isRet := in.(*ssa.Return)
		if !isRet || len(ret.Results) != 1 {
			return
		}
		for _, o := range append([]ssa.Value{an.Strip(ret.Results[0])}, an.Origins(ret.Results[0])...) {
			if _, isPhi := o.(*ssa.Phi); isPhi {
				continue
			}
			if k, isC := an.ConstBool(o); isC {
				if !k {
					continue
				}
				// `return true` only on the ‘detected type is empty’ edge
				found := false
				for _, g := range an.GuardingEdges(ret.Block()) {
					x, y, op, isCmp := an.CmpTest(g.If())
					if !isCmp {
						continue
					}
					if s0, isS := an.ConstString(y); isS && s0 == "" && ((op == token.EQL && g.Succ == 0) || (op == token.NEQ && g.Succ == 1)) {
						if i := paramIdx(x); i >= 0 && (bodyIdx < 0 || bodyIdx == i) {
							bodyIdx = i
							found = true
						}
					}
				}
				if !found {
					// `return true` reached over several edges (`if detected == "" || detected == declared`): every one of
					// them is the ‘nothing detected’ edge or the ‘both equal’ edge
					all := len(ret.Block().Preds) > 0
					for _, pb := range ret.Block().Preds {
						ifi := an.BlockIf(pb)
						if ifi == nil {
							all = false
							break
						}
						x, y, op, isCmp := an.CmpTest(ifi)
						if !isCmp {
							all = false
							break
						}
						okEdge := false
						for si, sc := range pb.Succs {
							if sc != ret.Block() {
								continue
							}
							eq := (op == token.EQL && si == 0) || (op == token.NEQ && si == 1)
							if !eq {
								continue
							}
							if s0, isS := an.ConstString(y); isS && s0 == "" {
								if i := paramIdx(x); i >= 0 && (bodyIdx < 0 || bodyIdx == i) {
									bodyIdx = i
									okEdge = true
								}
							} else if i, j := paramIdx(x), paramIdx(y); i >= 0 && j >= 0 && i != j {
								okEdge = true
							}
						}
						if !okEdge {
							all = false
							break
						}
					}
					if !all {
						good = false
					}
				}
				continue
			}
			bo, isBin := o.(*ssa.BinOp)
			if !isBin || bo.Op != token.EQL {
				good = false
				continue
			}
			cx, _ := an.CallOf(an.Strip(bo.X))
			cy, _ := an.CallOf(an.Strip(bo.Y))
			if cx == nil || cy == nil || cx.Call.StaticCallee() == nil || cx.Call.StaticCallee() != cy.Call.StaticCallee() || len(cx.Call.Args) != 1 || len(cy.Call.Args) != 1 {
				good = false
				continue
			}
			i, j := paramIdx(cx.Call.Args[0]), paramIdx(cy.Call.Args[0])
			if i < 0 || j < 0 || i == j {
				good = false
				continue
			}
			cmpSeen = true
		}
	})
	if !good || !cmpSeen || bodyIdx < 0 {
		return 0, 0, false
	}
	return 1 - bodyIdx, bodyIdx, true
}

// subSummary: the facts that hold on every return of the sub-handler that can hand out an empty list at result idx
// (a return whose list is the verifier's own list hands out an empty list exactly when nothing is missing); any is
// false when no return can.
func subSummary(r *Roles, sb *pushSub, idx int) (uint32, bool) {
	view := sb.view
	h := view.hs.fn
	unmErr := map[ssa.Value]string{}
	for call, al := range view.unmarshal {
		unmErr[call] = view.parsed[al]
	}
	never := func(ssa.Value) bool { return false }
	bits := ^uint32(0)
	any := false
	an.Paths(an.PathSpec[pushState]{Fn: h, Init: pushState{},
		Instr: func(s pushState, in ssa.Instruction) []pushState {
			ret, ok := in.(*ssa.Return)
			if !ok || idx >= len(ret.Results) {
				return []pushState{s}
			}
			rv := ret.Results[idx]
			if definitelyNonEmpty(rv) {
				return []pushState{s}
			}
			b := s.bits
			for _, o := range an.Origins(rv) {
				if call, _ := an.CallOf(o); call != nil {
					if k, ok := view.verifiers[call]; ok {
						if k == "img" {
							b |= bExistImg
						} else {
							b |= bExistIdx
						}
					}
				}
			}
			// a list returned on the ‘list is not nil’ edge of the verifier is the verifier's list
			any = true
			bits &= b
			return []pushState{s}
		},
		Edge: func(s pushState, from *ssa.BasicBlock, succ int) (pushState, bool) {
			return pushEdgeCore(r, view, nil, false, never, never, unmErr, s, from, succ), true
		}})
	if !any {
		return 0, false
	}
	return bits &^ bLimit, true
}

// analysePush returns rule|key -> (failure message or "", pass message).
func analysePush(c *core.Ctx, r *Roles, ph *pushHandler) map[string][2]string {
	out := map[string][2]string{}
	fn := ph.hs.fn
	name := kn(c.P.FuncName(fn))
	// edge facts
	unmErr := map[ssa.Value]string{}
	for call, al := range ph.unmarshal {
		unmErr[call] = ph.parsed[al]
	}
	limitPath := func(v ssa.Value) bool {
		v = an.Origin(ph.callerValue(v))
		p := fieldPath(an.Strip(v))
		return pathEndsWith(p, "Manifest", "Limit")
	}
	isLenBytes := func(v ssa.Value) bool {
		x := lenOf(v)
		return x != nil && an.Origin(x) == ph.hs.bytes
	}
	var readErr ssa.Value
	if ph.readAll != nil {
		readErr = an.ErrResult(ph.readAll)
	}
	maxBytes := ph.reader != nil && an.IsFunc(ph.reader, "net/http", "MaxBytesReader")
	subSum := map[[2]int][2]uint32{} // (sub index, result index) -> (bits, 1 when some return can hand out an empty list)
	edge := func(s pushState, from *ssa.BasicBlock, succ int) (pushState, bool) {
		s = pushEdgeCore(r, ph, readErr, maxBytes, limitPath, isLenBytes, unmErr, s, from, succ)
		// the verdict of a sub-handler: on the ‘list is empty’ edge every fact holds that holds on all its returns that
		// can hand out an empty list
		if ifi := an.BlockIf(from); ifi != nil && len(ph.subs) > 0 {
			var x ssa.Value
			if v, emptySucc, ok := an.LenZeroTest(ifi); ok && succ == emptySucc {
				x = v
			} else if v, nilSucc, ok := an.NilTest(ifi); ok && succ == nilSucc {
				if _, isSlice := v.Type().Underlying().(*types.Slice); isSlice {
					x = v
				}
			}
			if x != nil {
				fromSub, other := false, false
				otherNonEmpty := true
				for _, o := range an.Origins(x) {
					ex, isEx := an.Strip(o).(*ssa.Extract)
					matched := false
					if isEx {
						for i, sb := range ph.subs {
							if ex.Tuple == ssa.Value(sb.call) {
								matched = true
								if int(s.sub) == i+1 {
									fromSub = true
									k := [2]int{i, ex.Index}
									sum, done := subSum[k]
									if !done {
										bits, any := subSummary(r, sb, ex.Index)
										sum = [2]uint32{bits, 0}
										if any {
											sum[1] = 1
										}
										subSum[k] = sum
									}
									if sum[1] == 0 {
										return s, false // the sub-handler never answers with an empty list
									}
									s.bits |= sum[0]
								}
							}
						}
					}
					if !matched {
						other = true
						if !definitelyNonEmpty(o) {
							otherNonEmpty = false
						}
					}
				}
				if !fromSub && s.sub == 0 && other && otherNonEmpty {
					return s, false // only non-empty literals can arrive here without a sub-handler call: not this edge
				}
			}
		}
		return s, true
	}
	missing := map[string]bool{}
	initBits := pushState{}
	if ph.preLimit {
		initBits.bits |= bLimit // the helper only hands out bytes that passed its own ‘len ≤ limit’ test
	}
	an.Paths(an.PathSpec[pushState]{Fn: fn, Init: initBits,
		Instr: func(s pushState, in ssa.Instruction) []pushState {
			for i, sb := range ph.subs {
				if in == ssa.Instruction(sb.call) {
					s.sub = uint8(i + 1)
				}
			}
			if in == ssa.Instruction(ph.insert.(*ssa.Call)) {
				img := s.bits&bParsedImg != 0 && s.bits&bExistImg != 0
				idx := s.bits&bParsedIdx != 0 && s.bits&bExistIdx != 0
				if s.bits&(bParsedImg|bParsedIdx) == 0 {
					missing["parse"] = true
				} else if !img && !idx {
					missing["exist"] = true
				}
				if s.bits&bMTCmp == 0 {
					missing["mt"] = true
				}
				if s.bits&bLimit == 0 {
					missing["limit"] = true
				}
			}
			return []pushState{s}
		}, Edge: edge})
	put := func(rule, key, fail, pass string) { out[rule+"|"+key] = [2]string{fail, pass} }
	insPos := c.P.Pos(ph.insert.Pos())
	// TS-EXISTS
	switch {
	case missing["parse"]:
		put("TS-EXISTS", "insert:"+name, fmt.Sprintf("the index insert at %s is reachable on a path that does not pass the ok-edge of a JSON parse of the received bytes into an image or index struct", insPos), "")
	case missing["exist"]:
		put("TS-EXISTS", "insert:"+name, fmt.Sprintf("the index insert at %s is reachable on a path that does not pass the ‘nothing missing’ edge of the existence verifier for the parsed struct: a manifest whose config, layers or children are absent would be accepted", insPos), "")
	default:
		put("TS-EXISTS", "insert:"+name, "", fmt.Sprintf("all paths pass the parse ok-edge and the verifier's ok-edge (%d parse arms, %d verifier calls)", len(ph.unmarshal), len(ph.verifiers)))
	}
	kinds := map[string]bool{}
	for _, k := range ph.parsed {
		kinds[k] = true
	}
	allVerifiers := map[*ssa.Call]string{}
	for call, k := range ph.verifiers {
		allVerifiers[call] = k
	}
	for _, sb := range ph.subs {
		for _, k := range sb.view.parsed {
			kinds[k] = true
		}
		for call, k := range sb.view.verifiers {
			allVerifiers[call] = k
		}
	}
	vkinds := map[string]bool{}
	seenV := map[*ssa.Function]bool{}
	for call, k := range allVerifiers {
		vkinds[k] = true
		v := call.Call.StaticCallee()
		if seenV[v] {
			continue
		}
		seenV[v] = true
		fail := verifierProblem(c, r, v)
		put("TS-EXISTS", "verifier:"+kn(c.P.FuncName(v)), fail, "checks every Descriptor / []Descriptor field through BlobGet on its repository parameter")
	}
	for k := range kinds {
		if !vkinds[k] {
			put("TS-EXISTS", "verifier-for:"+k, "the handler parses this manifest kind but calls no existence verifier for it", "")
		}
	}
	// TS-MT-CONSISTENT
	if missing["mt"] {
		put("TS-MT-CONSISTENT", "insert:"+name, fmt.Sprintf("the index insert at %s is reachable on a path on which the media type declared by the request was never compared with the body's own type: the client chooses which existence checks run (an image manifest with missing layers is accepted when declared as an index)", insPos), "")
	} else {
		put("TS-MT-CONSISTENT", "insert:"+name, "", "declared type compared with the body's type (or detected from the body) on every path")
	}
	// TS-BOUNDREAD
	switch {
	case ph.readUnknown:
		put("TS-BOUNDREAD", "read:"+name, "the way the push handler comes by the request body (the bytes hashed at "+c.P.Pos(ph.hs.from.Pos())+") could not be followed to a read of r.Body: the bound of the read is not decided", "")
	case ph.unbounded:
		put("TS-BOUNDREAD", "read:"+name, fmt.Sprintf("the manifest body is read without a bound at %s", c.P.Pos(ph.readAll.Pos())), "")
	case maxBytes:
		if missing["limit"] {
			put("TS-BOUNDREAD", "read:"+name, "the error of reading through MaxBytesReader is not checked on every path to the insert", "")
		} else {
			put("TS-BOUNDREAD", "read:"+name, "", "MaxBytesReader; read error checked")
		}
	default:
		// LimitReader(src, N): N must be limit + k, k >= 1
		n := an.Strip(ph.reader.Call.Args[1])
		above := false
		if b, ok := n.(*ssa.BinOp); ok && b.Op == token.ADD {
			for _, pair := range [][2]ssa.Value{{b.X, b.Y}, {b.Y, b.X}} {
				if k, isC := an.ConstInt(pair[1]); isC && k >= 1 && limitPath(pair[0]) {
					above = true
				}
			}
		}
		switch {
		case !above:
			put("TS-BOUNDREAD", "read:"+name, fmt.Sprintf("the body is read through a LimitReader whose bound (at %s) is not above the configured limit: a body longer than the limit is indistinguishable from one of exactly the limit and would be stored cut", c.P.Pos(ph.reader.Pos())), "")
		case missing["limit"]:
			put("TS-BOUNDREAD", "read:"+name, fmt.Sprintf("the index insert at %s is reachable on a path that does not pass the ‘len(bytes) ≤ limit’ edge: an oversized body would be stored", insPos), "")
		default:
			put("TS-BOUNDREAD", "read:"+name, "", "LimitReader(limit+k) and len(bytes) ≤ limit on every path to the insert")
		}
	}
	return out
}

// verifierProblem checks the structure of an existence verifier; "" when it is sound.
func verifierProblem(c *core.Ctx, r *Roles, v *ssa.Function) string {
	var repoParam, structParam *ssa.Parameter
	for _, p := range v.Params {
		if r.IsRepoType(p.Type()) {
			repoParam = p
		}
		if kindOfStruct(r, p.Type()) != "" {
			structParam = p
		}
	}
	if repoParam == nil || structParam == nil {
		return "verifier does not take (repository, manifest struct) parameters"
	}
	st := structParam.Type().Underlying().(*types.Struct)
	need := map[string]string{}
	for i := 0; i < st.NumFields(); i++ {
		f := st.Field(i)
		if !f.Exported() {
			continue // not part of the document (internal bookkeeping)
		}
		switch {
		case isNamed(f.Type(), r.TypesPath, "Descriptor"):
			need[f.Name()] = "one"
		default:
			if sl, ok := f.Type().Underlying().(*types.Slice); ok && isNamed(sl.Elem(), r.TypesPath, "Descriptor") {
				need[f.Name()] = "many"
			}
		}
	}
	isAppend := func(in ssa.Instruction) bool {
		cl, ok := in.(*ssa.Call)
		if !ok {
			return false
		}
		bi, ok := cl.Call.Value.(*ssa.Builtin)
		return ok && bi.Name() == "append"
	}
	// recordedFrom: from block b, an append is reached before the next branch (the failure is recorded)
	recordedFrom := func(b *ssa.BasicBlock) bool {
		for i := 0; i < 4 && b != nil; i++ {
			for _, in := range b.Instrs {
				if isAppend(in) {
					return true
				}
			}
			if len(b.Succs) != 1 {
				return false
			}
			b = b.Succs[0]
		}
		return false
	}
	// probe: an existence test of a digest on the repository parameter — BlobGet itself, or a helper of this package that
	// calls BlobGet with its own (repository, digest) parameters and answers ‘exists’ only on the nil-error edge.
	// missingSucc returns, for the branch that evaluates the probe, the successor taken when the blob is missing.
	type probe struct {
		call   *ssa.Call
		digest ssa.Value
	}
	helperExists := func(h *ssa.Function) (repoIdx, digIdx int, existsTrue bool, ok bool) {
		if h == nil || len(h.Blocks) == 0 || core.FuncPkgPath(h) != core.FuncPkgPath(v) || h.Signature.Results().Len() != 1 {
			return 0, 0, false, false
		}
		var inner *ssa.Call
		an.Calls(h, func(call ssa.CallInstruction) {
			if cc, isCall := call.(*ssa.Call); isCall && r.IsAPI(call, "Repo", "BlobGet") {
				inner = cc
			}
		})
		if inner == nil {
			return 0, 0, false, false
		}
		recv, args := an.CallArgs(inner)
		repoIdx, digIdx = -1, -1
		for i, p := range h.Params {
			if an.Origin(recv) == ssa.Value(p) {
				repoIdx = i
			}
			if len(args) == 1 && an.Origin(args[0]) == ssa.Value(p) {
				digIdx = i
			}
		}
		if repoIdx < 0 || digIdx < 0 {
			return 0, 0, false, false
		}
		errv := an.ErrResult(inner)
		resT := h.Signature.Results().At(0).Type()
		bt, isBool := resT.Underlying().(*types.Basic)
		isBool = isBool && bt.Kind() == types.Bool
		good := true
		an.Instrs(h, func(in ssa.Instruction) {
			ret, isRet := in.(*ssa.Return)
			if !isRet {
				return
			}
			onNil, onNonNil := false, false
			for _, g := range an.GuardingEdges(ret.Block()) {
				if x, nilSucc, isNil := an.NilTest(g.If()); isNil && x == errv {
					if g.Succ == nilSucc {
						onNil = true
					} else {
						onNonNil = true
					}
				}
			}
			if isBool {
				bv, isC := an.ConstBool(ret.Results[0])
				if !isC || (bv && !onNil) || (!bv && !onNonNil) {
					good = false
				}
			} else if an.IsErrorType(resT) {
				// error-returning form: nil only on the nil edge
				if an.IsNilConst(ret.Results[0]) && !onNil {
					good = false
				}
			} else {
				good = false
			}
		})
		return repoIdx, digIdx, true, good
	}
	var probes []probe
	missingSucc := map[*ssa.Call]func(ifi *ssa.If) (int, bool){}
	an.Calls(v, func(call ssa.CallInstruction) {
		cc, isCall := call.(*ssa.Call)
		if !isCall {
			return
		}
		if r.IsAPI(call, "Repo", "BlobGet") {
			recv, args := an.CallArgs(call)
			if an.Origin(recv) != ssa.Value(repoParam) || len(args) != 1 {
				return
			}
			probes = append(probes, probe{cc, args[0]})
			errv := an.ErrResult(cc)
			missingSucc[cc] = func(ifi *ssa.If) (int, bool) {
				if x, nilSucc, ok := an.NilTest(ifi); ok && x == errv {
					return 1 - nilSucc, true
				}
				return 0, false
			}
			return
		}
		if h := cc.Call.StaticCallee(); h != nil {
			if ri, di, _, ok := helperExists(h); ok && ri < len(cc.Call.Args) && di < len(cc.Call.Args) && an.Origin(cc.Call.Args[ri]) == ssa.Value(repoParam) {
				probes = append(probes, probe{cc, cc.Call.Args[di]})
				isBool := false
				if bt, ok := cc.Type().Underlying().(*types.Basic); ok && bt.Kind() == types.Bool {
					isBool = true
				}
				missingSucc[cc] = func(ifi *ssa.If) (int, bool) {
					if isBool {
						base, neg := an.CondBase(ifi.Cond)
						if base == ssa.Value(cc) {
							if neg {
								return 0, true // !exists true → missing on succ 0
							}
							return 1, true
						}
						return 0, false
					}
					if x, nilSucc, ok := an.NilTest(ifi); ok && x == ssa.Value(cc) {
						return 1 - nilSucc, true
					}
					return 0, false
				}
			}
		}
	})
	have := map[string]bool{}
	problem := ""
	// collect-then-probe: the verifier puts the digests into a list of small records and hands the list to a function
	// of the package that probes every element (BlobGet on its repository parameter with a field of the element, in a
	// loop over its slice parameter, failure recorded) and returns the list of failures
	listProbers := map[*ssa.Call]bool{}
	an.Calls(v, func(call ssa.CallInstruction) {
		cc, isCall := call.(*ssa.Call)
		if !isCall {
			return
		}
		h := cc.Call.StaticCallee()
		if h == nil || len(h.Blocks) == 0 || core.FuncPkgPath(h) != core.FuncPkgPath(v) || h == v {
			return
		}
		// the prober's own shape
		ri, si, elemField := -1, -1, ""
		var inner *ssa.Call
		innerBool := false
		an.Calls(h, func(c2 ssa.CallInstruction) {
			ic, ok := c2.(*ssa.Call)
			if !ok {
				return
			}
			var recv ssa.Value
			var args []ssa.Value
			if r.IsAPI(c2, "Repo", "BlobGet") {
				recv, args = an.CallArgs(c2)
			} else if hh := ic.Call.StaticCallee(); hh != nil && hh != h {
				// the probe made through an ‘exists’ helper of the package
				ri2, di2, _, okH := helperExists(hh)
				if !okH || ri2 >= len(ic.Call.Args) || di2 >= len(ic.Call.Args) {
					return
				}
				recv, args = ic.Call.Args[ri2], []ssa.Value{ic.Call.Args[di2]}
				if bt, isB := ic.Type().Underlying().(*types.Basic); isB && bt.Kind() == types.Bool {
					innerBool = true
				}
			} else {
				return
			}
			if len(args) != 1 {
				return
			}
			root, pth := deepAccessPath(args[0])
			for i, p := range h.Params {
				if an.Origin(recv) == ssa.Value(p) {
					ri = i
				}
				if root == ssa.Value(p) && len(pth) == 2 && pth[0] == "[]" {
					si, elemField, inner = i, pth[1], ic
				}
			}
		})
		if ri < 0 || si < 0 || inner == nil || !inLoop(inner.Block()) || ri >= len(cc.Call.Args) || si >= len(cc.Call.Args) {
			return
		}
		if an.Origin(cc.Call.Args[ri]) != ssa.Value(repoParam) {
			return
		}
		// failure recorded on the missing edge, list returned
		ierr := an.ErrResult(inner)
		rec := false
		for _, b := range h.Blocks {
			if ifi := an.BlockIf(b); ifi != nil {
				if innerBool {
					if base, neg := an.CondBase(ifi.Cond); base == ssa.Value(inner) {
						miss := 1
						if neg {
							miss = 0
						}
						if recordedFrom(b.Succs[miss]) {
							rec = true
						}
					}
					continue
				}
				if x, nilSucc, ok := an.NilTest(ifi); ok && ierr != nil && x == ierr && recordedFrom(b.Succs[1-nilSucc]) {
					rec = true
				}
			}
		}
		if !rec || !listReturnOK(h, nil) {
			return
		}
		listProbers[cc] = true
		// the list is a field of the manifest itself (verifyDescs(repo, m.Layers, …)): every element of it is probed
		if root, pth := deepAccessPath(an.Strip(cc.Call.Args[si])); root == ssa.Value(structParam) && len(pth) == 1 && need[pth[0]] == "many" && elemField == "Digest" {
			have[pth[0]] = true
		}
		// what the verifier put into the list: the elements of every append that flows into the argument
		seen := map[ssa.Value]bool{}
		var back func(x ssa.Value, d int)
		back = func(x ssa.Value, d int) {
			x = an.Strip(x)
			if d > 12 || seen[x] {
				return
			}
			seen[x] = true
			switch y := x.(type) {
			case *ssa.Phi:
				for _, e := range y.Edges {
					back(e, d+1)
				}
			case *ssa.Call:
				if !isAppend(y) || len(y.Call.Args) != 2 {
					return
				}
				back(y.Call.Args[0], d+1)
				// the appended elements: a slice of the variadic array
				sl, ok := an.Strip(y.Call.Args[1]).(*ssa.Slice)
				if !ok {
					return
				}
				arr, ok := sl.X.(*ssa.Alloc)
				if !ok || arr.Referrers() == nil {
					return
				}
				for _, ref := range *arr.Referrers() {
					ia, ok := ref.(*ssa.IndexAddr)
					if !ok {
						continue
					}
					// the element is filled field by field, or copied whole from a literal
					vals := structStores(ia)[elemField]
					if ia.Referrers() != nil {
						for _, rr := range *ia.Referrers() {
							if st, ok := rr.(*ssa.Store); ok && st.Addr == ssa.Value(ia) {
								if ld, ok := an.Strip(st.Val).(*ssa.UnOp); ok && ld.Op == token.MUL {
									vals = append(vals, structStores(ld.X)[elemField]...)
								}
							}
						}
					}
					for _, dv := range vals {
						root, p := deepAccessPath(dv)
						if root != ssa.Value(structParam) || len(p) < 2 || p[len(p)-1] != "Digest" {
							continue
						}
						field := p[0]
						switch need[field] {
						case "one":
							if pathEq(p, field, "Digest") {
								have[field] = true
							}
						case "many":
							if pathEq(p, field, "[]", "Digest") {
								if inLoop(y.Block()) {
									have[field] = true
								} else {
									problem = fmt.Sprintf("field %s is not collected in a loop over all its elements", field)
								}
							}
						}
					}
				}
			}
		}
		back(cc.Call.Args[si], 0)
	})
	for _, pr := range probes {
		root, p := accessPath(an.Strip(pr.digest))
		if al, ok := root.(*ssa.Alloc); ok {
			if sv := an.SingleStore(al); sv != nil {
				root = sv
			}
		}
		if root != ssa.Value(structParam) || len(p) < 2 || p[len(p)-1] != "Digest" {
			continue
		}
		field := p[0]
		switch need[field] {
		case "one":
			if !pathEq(p, field, "Digest") {
				continue
			}
		case "many":
			if !pathEq(p, field, "[]", "Digest") {
				continue
			}
			// the element access must sit in a loop over the whole slice
			if !inLoop(pr.call.Block()) {
				problem = fmt.Sprintf("field %s is not checked in a loop over all its elements", field)
			}
		default:
			continue
		}
		// a failure is recorded on the missing edge
		recorded := false
		for _, b := range v.Blocks {
			ifi := an.BlockIf(b)
			if ifi == nil {
				continue
			}
			if ms, ok := missingSucc[pr.call](ifi); ok && recordedFrom(b.Succs[ms]) {
				recorded = true
			}
		}
		if !recorded {
			problem = fmt.Sprintf("a missing blob for field %s is not recorded (no append on the ‘missing’ edge of the existence test)", field)
			continue
		}
		have[field] = true
	}
	if problem != "" {
		return problem
	}
	var miss []string
	for f := range need {
		if !have[f] {
			miss = append(miss, f)
		}
	}
	sort.Strings(miss)
	if len(miss) > 0 {
		return fmt.Sprintf("%s does not check the existence of field(s) %v of %s through BlobGet on its repository parameter: a manifest referencing absent content there is accepted", c.P.FuncName(v), miss, c.P.TypeName(structParam.Type()))
	}
	// ‘nothing missing’ is only answered when nothing was recorded: a nil return is guarded by the emptiness of the list,
	// or the list itself is returned (nil exactly when nothing was appended to its nil initial value)
	if !listReturnOK(v, func(call *ssa.Call) bool { return listProbers[call] }) {
		return fmt.Sprintf("%s can answer ‘nothing missing’ (nil) although a missing blob was recorded: its result is neither the list of recorded failures nor nil on the ‘list is empty’ edge", c.P.FuncName(v))
	}
	return ""
}

// listReturnOK: every return of the list-building function returns nil only on the ‘list is empty’ edge, or the
// list itself (appends over a nil / empty initial value, or the result of an accepted call).
func listReturnOK(v *ssa.Function, acceptCall func(*ssa.Call) bool) bool {
	isAppend := func(in ssa.Instruction) bool {
		cl, ok := in.(*ssa.Call)
		if !ok {
			return false
		}
		bi, ok := cl.Call.Value.(*ssa.Builtin)
		return ok && bi.Name() == "append"
	}
	okNil := true
	anyRet := false
	an.Instrs(v, func(in ssa.Instruction) {
		ret, ok := in.(*ssa.Return)
		if !ok || len(ret.Results) != 1 {
			return
		}
		anyRet = true
		if an.IsNilConst(ret.Results[0]) {
			guarded := false
			for _, g := range an.GuardingEdges(ret.Block()) {
				x, y, op, ok := an.CmpTest(g.If())
				if !ok {
					continue
				}
				if lenOf(x) != nil {
					if k, isC := an.ConstInt(y); isC && k == 0 {
						if (op == token.GTR && g.Succ == 1) || (op == token.EQL && g.Succ == 0) || (op == token.LEQ && g.Succ == 0) || (op == token.NEQ && g.Succ == 1) {
							guarded = true
						}
					}
				}
			}
			if !guarded {
				okNil = false
			}
			return
		}
		// the list itself: all its sources are appends or a nil / empty initial value
		seen := map[ssa.Value]bool{}
		var fromList func(x ssa.Value, d int) bool
		fromList = func(x ssa.Value, d int) bool {
			x = an.Strip(x)
			if d > 8 || seen[x] {
				return true
			}
			seen[x] = true
			switch y := x.(type) {
			case *ssa.Const:
				return y.Value == nil
			case *ssa.Parameter:
				// a list of failures handed in and extended: whatever was in it stays in it
				_, isSlice := y.Type().Underlying().(*types.Slice)
				return isSlice
			case *ssa.Phi:
				for _, e := range y.Edges {
					if !fromList(e, d+1) {
						return false
					}
				}
				return true
			case *ssa.Call:
				if isAppend(y) {
					return fromList(y.Call.Args[0], d+1)
				}
				if acceptCall != nil && acceptCall(y) {
					return true
				}
			case *ssa.Slice:
				return true // an empty literal []T{}
			}
			return false
		}
		if !fromList(ret.Results[0], 0) {
			okNil = false
		}
	})
	return anyRet && okNil
}

// inLoop: the block lies on a CFG cycle.
func inLoop(b *ssa.BasicBlock) bool { return an.BlockReaches(b, b) }

// ---- TS-REFTAG ----

func runRefTag(c *core.Ctx) {
	r := requireRoles(c)
	if r == nil {
		return
	}
	ph := findPushHandler(c)
	if ph == nil {
		c.Unresolved("push-handler", "push handler not found")
		return
	}
	refName := constValue(c, "types", "AnnotRefName")
	name := kn(c.P.FuncName(ph.hs.fn))
	found := false
	for _, av := range ph.hs.descs[0]["Annotations"] {
		mm, ok := an.Strip(av).(*ssa.MakeMap)
		if !ok || mm.Referrers() == nil {
			continue
		}
		for _, ref := range *mm.Referrers() {
			mu, ok := ref.(*ssa.MapUpdate)
			if !ok {
				continue
			}
			if k, isS := an.ConstString(mu.Key); !isS || k != refName {
				continue
			}
			found = true
			okAll, msg := true, ""
			var check func(v ssa.Value, at *ssa.BasicBlock, depth int)
			check = func(v ssa.Value, at *ssa.BasicBlock, depth int) {
				if depth > 6 {
					okAll, msg = false, "value too deep to trace"
					return
				}
				if _, isConst := v.(*ssa.Const); isConst {
					return
				}
				if phi, ok := v.(*ssa.Phi); ok {
					for i, e := range phi.Edges {
						check(e, phi.Block().Preds[i], depth+1)
					}
					return
				}
				// a field of a small struct a parsing helper of the package returned (ref.tag): whatever the helper puts
				// into that field was checked inside the helper on the way to the return that hands it out
				var structVal ssa.Value
				fieldIdx := -1
				switch x := an.Strip(v).(type) {
				case *ssa.Field:
					structVal, fieldIdx = x.X, x.Field
				case *ssa.UnOp:
					// the struct is kept in a local variable assigned once
					if fa, ok := x.X.(*ssa.FieldAddr); ok && x.Op == token.MUL {
						if whole := an.SingleStore(fa.X); whole != nil && !fieldWritten(fa.X, fa.Field) {
							structVal, fieldIdx = whole, fa.Field
						}
					}
				}
				if structVal != nil {
					// fieldOf: the field of a record value — handed out by a parsing helper (judged at the helper's returns), or the
					// receiver / a parameter of a builder (then what every call of the builder passes)
					var fieldOf func(sv ssa.Value, d2 int) bool
					fieldOf = func(sv ssa.Value, d2 int) bool {
						stt, ok := sv.Type().Underlying().(*types.Struct)
						if !ok || fieldIdx >= stt.NumFields() || d2 > 3 {
							return false
						}
						// kept in a local variable assigned once as a whole
						if u, isLoad := an.Strip(sv).(*ssa.UnOp); isLoad && u.Op == token.MUL {
							if whole := an.SingleStore(u.X); whole != nil && !fieldWritten(u.X, fieldIdx) {
								sv = whole
							}
						}
						fname := stt.Field(fieldIdx).Name()
						if hr := an.HelperReturns(sv, func(h *ssa.Function) bool { return core.FuncPkgPath(h) == c.P.Module }); len(hr) > 0 {
							for _, x := range hr {
								ss := structStores(an.Origin(x.Val))
								if len(ss) == 0 {
									if u, ok := x.Val.(*ssa.UnOp); ok {
										ss = structStores(u)
									}
								}
								for _, val := range ss[fname] {
									check(val, x.Ret.Block(), depth+1)
								}
							}
							return true
						}
						if p, isParam := an.Origin(sv).(*ssa.Parameter); isParam && core.FuncPkgPath(p.Parent()) == c.P.Module {
							pf := p.Parent()
							sites := c.P.Callers(pf)
							if len(sites) == 0 {
								return false
							}
							for i, q := range pf.Params {
								if q != p {
									continue
								}
								for _, site := range sites {
									if site.Common().StaticCallee() != pf || i >= len(site.Common().Args) || !fieldOf(site.Common().Args[i], d2+1) {
										okAll, msg = false, "the record the tag is taken from could not be traced at "+c.P.Pos(site.Pos())
									}
								}
							}
							return true
						}
						return false
					}
					if fieldOf(structVal, 0) {
						return
					}
				}
				// a string result of a parsing helper of the module (tag, digest, err := parseRef(arg)): whatever a return
				// of the helper hands out at that index was checked inside the helper on the way to that return
				if bt, isB := v.Type().Underlying().(*types.Basic); isB && bt.Info()&types.IsString != 0 && structVal == nil {
					if hr := an.HelperReturns(v, func(h *ssa.Function) bool { return strings.HasPrefix(core.FuncPkgPath(h), c.P.Module) }); len(hr) > 0 {
						for _, x := range hr {
							check(x.Val, x.Ret.Block(), depth+1)
						}
						return
					}
				}
				// the assigning block must be guarded by RefTagRE.MatchString(v) == true
				o := an.Origin(v)
				guards := an.GuardingEdges(at)
				for _, g := range guards {
					call, trueSucc, ok := an.BoolCallTest(g.If())
					if !ok || g.Succ != trueSucc || !an.IsMethod(call, "regexp", "Regexp", "MatchString") {
						continue
					}
					if !an.IsGlobalLoad(call.Call.Args[0], r.TypesPath, "RefTagRE") {
						continue
					}
					if an.Origin(call.Call.Args[1]) == o {
						return
					}
				}
				// a parameter of a builder of the module (manifestDesc(mt, d, size, tag)): what every call of it passes, judged at
				// the place of the call
				if p, isParam := an.Origin(v).(*ssa.Parameter); isParam && p.Parent() != ph.hs.fn && core.FuncPkgPath(p.Parent()) == c.P.Module && structVal == nil {
					pf := p.Parent()
					sites := c.P.Callers(pf)
					if len(sites) > 0 {
						for i, q := range pf.Params {
							if q != p {
								continue
							}
							for _, site := range sites {
								if site.Common().StaticCallee() != pf || i >= len(site.Common().Args) {
									okAll, msg = false, "a call of the builder could not be resolved at "+c.P.Pos(site.Pos())
									continue
								}
								check(site.Common().Args[i], site.Block(), depth+1)
							}
						}
						return
					}
				}
				okAll, msg = false, fmt.Sprintf("the value assigned in block %d was not checked against the tag grammar on that path", at.Index)
			}
			check(mu.Value, mu.Block(), 0)
			c.Check(okAll, "tag-annotation:"+name, mu.Pos(), "the tag recorded in the index comes from a grammar-checked reference: %v %s", okAll, msg)
		}
	}
	if !found {
		c.Fail("tag-annotation:"+name, ph.insert.Pos(), "no ref-name annotation is set on the inserted index entry: tags cannot be created")
	}
}

// ptrFieldLoad: v is the load of a field through a pointer (rec.subject): the pointer and the field index.
func ptrFieldLoad(v ssa.Value) (ssa.Value, int, bool) {
	if v == nil {
		return nil, 0, false
	}
	u, ok := an.Strip(v).(*ssa.UnOp)
	if !ok || u.Op != token.MUL {
		return nil, 0, false
	}
	fa, ok := u.X.(*ssa.FieldAddr)
	if !ok {
		return nil, 0, false
	}
	if _, isPtr := fa.X.Type().Underlying().(*types.Pointer); !isPtr {
		return nil, 0, false
	}
	if _, isAlloc := fa.X.(*ssa.Alloc); isAlloc {
		return nil, 0, false // a local struct variable, not a record reached through a pointer
	}
	return fa.X, fa.Field, true
}

// fieldWritten: a field of the local struct cell is assigned on its own (x.f = …) somewhere.
func fieldWritten(cell ssa.Value, field int) bool {
	if cell.Referrers() == nil {
		return true
	}
	for _, ref := range *cell.Referrers() {
		fa, ok := ref.(*ssa.FieldAddr)
		if !ok || fa.Field != field || fa.Referrers() == nil {
			continue
		}
		for _, rr := range *fa.Referrers() {
			if st, ok := rr.(*ssa.Store); ok && st.Addr == ssa.Value(fa) {
				return true
			}
		}
	}
	return false
}

// ---- referrer helpers ----

// referrerHelpers: named functions of the server package with a Repo parameter that perform the
// referrers read-modify-write (IndexGet … IndexInsert).
func referrerHelpers(c *core.Ctx) []*ssa.Function {
	r := getRoles(c)
	var out []*ssa.Function
	for _, fn := range serverFuncs(c) {
		if fn.Parent() != nil {
			continue
		}
		hasRepo := false
		for _, p := range fn.Params {
			if r.IsRepoType(p.Type()) {
				hasRepo = true
			}
		}
		if !hasRepo {
			continue
		}
		get := false
		an.Calls(fn, func(call ssa.CallInstruction) {
			if r.IsAPI(call, "Repo", "IndexGet") {
				get = true
			}
		})
		// the insert may sit in a function of the server package this one calls (a shared ‘store the response’ step)
		if get && len(callsReaching(c, r, fn, "Repo", "IndexInsert")) > 0 {
			out = append(out, fn)
		}
	}
	return out
}

// reachesAPI: fn, or a function of the server package it calls (two levels), calls the given store API method.
func reachesAPI(c *core.Ctx, r *Roles, fn *ssa.Function, iface, method string, depth int, seen map[*ssa.Function]bool) bool {
	if fn == nil || seen[fn] || depth > 2 || len(fn.Blocks) == 0 {
		return false
	}
	seen[fn] = true
	hit := false
	an.Calls(fn, func(call ssa.CallInstruction) {
		if hit {
			return
		}
		if r.IsAPI(call, iface, method) {
			hit = true
			return
		}
		if sc := call.Common().StaticCallee(); sc != nil && core.FuncPkgPath(sc) == c.P.Module && reachesAPI(c, r, sc, iface, method, depth+1, seen) {
			hit = true
		}
	})
	return hit
}

// callsReaching: the calls in fn that are the given store API call, or call a server function that reaches it.
func callsReaching(c *core.Ctx, r *Roles, fn *ssa.Function, iface, method string) []ssa.CallInstruction {
	var out []ssa.CallInstruction
	an.Calls(fn, func(call ssa.CallInstruction) {
		if _, isDefer := call.(*ssa.Defer); isDefer {
			return
		}
		if r.IsAPI(call, iface, method) {
			out = append(out, call)
			return
		}
		if sc := call.Common().StaticCallee(); sc != nil && sc != fn && core.FuncPkgPath(sc) == c.P.Module && reachesAPI(c, r, sc, iface, method, 1, map[*ssa.Function]bool{fn: true}) {
			out = append(out, call)
		}
	})
	return out
}

func isHelperCall(c *core.Ctx, call ssa.CallInstruction) *ssa.Function {
	callee := call.Common().StaticCallee()
	for _, h := range referrerHelpers(c) {
		if h == callee {
			return h
		}
	}
	return nil
}

func runReferrerCall(c *core.Ctx) {
	r := requireRoles(c)
	if r == nil {
		return
	}
	ph := findPushHandler(c)
	if ph == nil {
		c.Unresolved("push-handler", "push handler not found")
		return
	}
	fn := ph.hs.fn
	name := kn(c.P.FuncName(fn))
	var hcall *ssa.Call
	an.Calls(fn, func(call ssa.CallInstruction) {
		if cc, ok := call.(*ssa.Call); ok && isHelperCall(c, call) != nil {
			hcall = cc
		}
	})
	if hcall == nil {
		c.Fail("push-update:"+name, ph.insert.Pos(), "the push handler never calls a referrers update helper: pushed artifacts do not appear in the referrers list of their subject")
	} else {
		// the subject argument: the digest-typed argument
		var subj ssa.Value
		for _, a := range hcall.Call.Args {
			if isNamed(a.Type(), digestPkg, "Digest") {
				subj = a
			}
		}
		guardOK := false
		var guardBlock *ssa.BasicBlock
		guardSucc := 0
		for _, g := range an.GuardingEdges(hcall.Block()) {
			x, y, op, ok := an.CmpTest(g.If())
			if !ok || subj == nil {
				continue
			}
			if s, isS := an.ConstString(y); isS && s == "" && x == subj {
				if (op == token.NEQ && g.Succ == 0) || (op == token.EQL && g.Succ == 1) {
					guardOK = true
					guardBlock, guardSucc = g.From, g.Succ
				}
			}
		}
		// the subject may travel in a small record (&manifestReferrer{subject, desc}, possibly built by a helper that
		// returns nil when there is nothing to record): the update is then called on the ‘record != nil’ edge, and every
		// record that can arrive there was built on the ‘subject != ""’ edge of the subject it holds
		recPtr, recField, viaRecord := ptrFieldLoad(subj)
		var recTargets []an.PtrTarget
		if !guardOK && viaRecord {
			tg, complete := an.PtrTargets(recPtr, func(h *ssa.Function) bool { return core.FuncPkgPath(h) == c.P.Module })
			recTargets = tg
			samePtr := func(x ssa.Value) bool {
				if x == recPtr || an.Origin(x) == an.Origin(recPtr) {
					return true
				}
				a, ok1 := an.Strip(x).(*ssa.UnOp)
				b, ok2 := an.Strip(recPtr).(*ssa.UnOp)
				return ok1 && ok2 && a.X == b.X
			}
			for _, g := range an.GuardingEdges(hcall.Block()) {
				x, nilSucc, ok := an.NilTest(g.If())
				if !ok || g.Succ == nilSucc || !samePtr(x) {
					continue
				}
				all := complete && len(tg) > 0
				for _, t := range tg {
					vals, _ := an.FieldStoresOf(t.Alloc, recField)
					if len(vals) == 0 {
						all = false
					}
					for _, v := range vals {
						vr, vp := deepAccessPath(v)
						okV := false
						for _, tgd := range an.GuardingEdges(t.Block()) {
							a, b, op, isCmp := an.CmpTest(tgd.If())
							if !isCmp {
								continue
							}
							if s0, isS := an.ConstString(b); !isS || s0 != "" {
								continue
							}
							ar, ap := deepAccessPath(a)
							if ar != vr || strings.Join(ap, ".") != strings.Join(vp, ".") || len(vp) == 0 {
								continue
							}
							if (op == token.NEQ && tgd.Succ == 0) || (op == token.EQL && tgd.Succ == 1) {
								okV = true
							}
						}
						if !okV {
							all = false
						}
					}
				}
				if all {
					guardOK = true
					guardBlock, guardSucc = g.From, g.Succ
				}
			}
		}
		c.Check(guardOK, "push-update-guard:"+name, hcall.Pos(), "the referrers update is called on the ‘subject != \"\"’ edge of the extracted subject: %v", guardOK)
		if guardOK {
			ok := mustPassBefore(guardBlock.Succs[guardSucc],
				func(in ssa.Instruction) bool { return in == ssa.Instruction(hcall) },
				func(in ssa.Instruction) bool {
					if cl, isCall := in.(ssa.CallInstruction); isCall {
						if st, isWH := writeHeaderStatus(cl); isWH && st >= 200 && st < 300 {
							return true
						}
					}
					return false
				})
			c.Check(ok, "push-update-before-ack:"+name, hcall.Pos(), "no 2xx is reachable from the subject edge without the referrers update: %v", ok)
		}
		// the subject comes from every parsed kind, under the same setting
		kinds := map[string]map[string]bool{}
		// what was parsed, in the handler itself and in the sub-handlers it hands the bytes to (one per manifest kind)
		parsedAll := map[*ssa.Alloc]string{}
		for al, k := range ph.parsed {
			parsedAll[al] = k
		}
		for _, sb := range ph.subs {
			for al, k := range sb.view.parsed {
				parsedAll[al] = k
			}
		}
		// (the value may be read through a pointer or a copy chosen per kind — manSubject = m.Subject in each arm, the
		// subject taken from manSubject afterwards: the path below a φ is carried to its operands, and the settings that
		// guard any step of the flow count)
		var visit func(v ssa.Value, at *ssa.BasicBlock, d int, suffix []string, acc map[string]bool)
		visit = func(v ssa.Value, at *ssa.BasicBlock, d int, suffix []string, acc map[string]bool) {
			if d > 6 {
				return
			}
			g := map[string]bool{}
			for k := range acc {
				g[k] = true
			}
			if at != nil {
				t, _ := settingGuards(at)
				for k := range t {
					g[k] = true
				}
			}
			if phi, ok := v.(*ssa.Phi); ok {
				for i, e := range phi.Edges {
					visit(e, phi.Block().Preds[i], d+1, suffix, g)
				}
				return
			}
			if _, isConst := v.(*ssa.Const); isConst {
				return
			}
			// handed back by a sub-handler: judged at its returns, with the settings that guard them
			if hr := an.HelperReturns(v, func(h *ssa.Function) bool { return core.FuncPkgPath(h) == c.P.Module }); len(hr) > 0 && len(suffix) == 0 {
				for _, x := range hr {
					visit(x.Val, x.Ret.Block(), d+1, suffix, g)
				}
				return
			}
			root, p := accessPath(v)
			full := append(append([]string{}, p...), suffix...)
			if phi, ok := root.(*ssa.Phi); ok && len(full) > 0 {
				for i, e := range phi.Edges {
					visit(e, phi.Block().Preds[i], d+1, full, g)
				}
				return
			}
			if al, ok := root.(*ssa.Alloc); ok && parsedAll[al] != "" && pathEq(full, "Subject", "Digest") {
				// the assigning block itself may be the guarded block's successor: include guards of `at`
				if prev, seen := kinds[parsedAll[al]]; seen {
					for k := range g {
						if !prev[k] {
							delete(g, k)
						}
					}
				}
				kinds[parsedAll[al]] = g
			}
		}
		if subj != nil {
			visit(subj, hcall.Block(), 0, nil, nil)
		}
		// …through the record: the subject stored in each record, seen from the handler's frame
		for _, t := range recTargets {
			vals, _ := an.FieldStoresOf(t.Alloc, recField)
			for _, v := range vals {
				root, pth := deepAccessPath(v)
				if arg, ok := t.ArgOf(root); ok {
					r2, p2 := deepAccessPath(arg)
					root, pth = r2, append(append([]string{}, p2...), pth...)
				}
				al, ok := root.(*ssa.Alloc)
				if !ok || ph.parsed[al] == "" || !pathEq(pth, "Subject", "Digest") {
					continue
				}
				g := map[string]bool{}
				blocks := []*ssa.BasicBlock{t.Block(), t.Alloc.Block()}
				if t.Via != nil {
					blocks = append(blocks, t.Via.Block())
				}
				for _, b := range blocks {
					tr, _ := settingGuards(b)
					for k := range tr {
						g[k] = true
					}
				}
				kinds[ph.parsed[al]] = g
			}
		}
		parsedKinds := map[string]bool{}
		for _, k := range parsedAll {
			parsedKinds[k] = true
		}
		c.SetTags("setting")
		for k := range parsedKinds {
			g, ok := kinds[k]
			switch {
			case !ok:
				c.Fail("subject-from:"+k+":"+name, hcall.Pos(), "the handler parses %s manifests but does not take their subject into the referrers update: artifacts of that kind never appear in a referrers list", map[string]string{"img": "image", "idx": "index"}[k])
			case !g["API.Referrer.Enabled"]:
				c.Fail("subject-from:"+k+":"+name, hcall.Pos(), "the subject of %s manifests is extracted without the referrers setting", k)
			default:
				c.Pass("subject-from:"+k+":"+name, hcall.Pos(), "subject extracted under API.Referrer.Enabled")
			}
		}
		c.SetTags()
	}
	// the helpers themselves: a nil return means the response was re-inserted into the index, or there was
	// no response to update (the not-found edge of the lookup)
	for _, h := range referrerHelpers(c) {
		key := "helper-inserts:" + kn(c.P.FuncName(h))
		bad := ""
		type hst struct{ inserted, nothing bool }
		an.Paths(an.PathSpec[hst]{Fn: h, Init: hst{},
			Instr: func(s hst, in ssa.Instruction) []hst {
				switch x := in.(type) {
				case *ssa.Call:
					if r.IsAPI(x, "Repo", "IndexInsert") {
						s.inserted = true
					}
				case *ssa.Return:
					if len(x.Results) == 1 && retErrNil(x) && !s.inserted && !s.nothing && bad == "" {
						bad = fmt.Sprintf("`return nil` at %s is reachable without re-inserting the referrers response into the index: the update is reported as done while index.json still points at the previous response", c.P.Pos(x.Pos()))
					}
				}
				return []hst{s}
			},
			Edge: func(s hst, from *ssa.BasicBlock, succ int) (hst, bool) {
				if ifi := an.BlockIf(from); ifi != nil {
					if x, tgt, trueSucc, ok := an.ErrIsTest(ifi); ok && succ == trueSucc && an.IsGlobalLoad(tgt, r.TypesPath, "ErrNotFound") {
						if call, _ := an.CallOf(x); call != nil && an.IsMethod(call, r.TypesPath, "Index", "GetByAnnotation") {
							s.nothing = true
						}
					}
				}
				return s, true
			}})
		c.Check(bad == "", key, h.Pos(), "%s", map[bool]string{true: "every nil return follows the index insert (or the ‘no response to update’ edge)", false: bad}[bad == ""])
	}
	// delete handler: update precedes the index removal
	for _, f := range serverFuncs(c) {
		var rm ssa.CallInstruction
		an.Calls(f, func(call ssa.CallInstruction) {
			if r.IsAPI(call, "Repo", "IndexRemove") {
				rm = call
			}
		})
		if rm == nil {
			continue
		}
		site := helperSiteIn(c, f)
		key := "delete-update:" + kn(c.P.FuncName(f))
		if site == nil {
			c.Fail(key, rm.Pos(), "the delete handler removes the index entry without a referrers update: a deleted artifact stays in the referrers list of its subject")
			continue
		}
		ok := an.Reaches(site, rm) && !an.Reaches(rm, site)
		c.Check(ok, key, site.Pos(), "the referrers update precedes the index removal: %v", ok)
	}
}

// helperSiteIn returns the instruction of f through which a referrers helper is called: a direct call,
// the call of a closure (created in f) that contains one, or the call of a function of the server package
// that does (two levels).
func helperSiteIn(c *core.Ctx, f *ssa.Function) ssa.Instruction {
	return helperSiteDepth(c, f, 0, map[*ssa.Function]bool{})
}

func helperSiteDepth(c *core.Ctx, f *ssa.Function, depth int, seen map[*ssa.Function]bool) ssa.Instruction {
	if f == nil || seen[f] || depth > 2 {
		return nil
	}
	seen[f] = true
	var site ssa.Instruction
	an.Calls(f, func(call ssa.CallInstruction) {
		if isHelperCall(c, call) != nil {
			site = call
			return
		}
		if mc, ok := call.Common().Value.(*ssa.MakeClosure); ok {
			if cf, ok := mc.Fn.(*ssa.Function); ok {
				if helperSiteDepth(c, cf, depth, seen) != nil {
					site = call
				}
			}
			return
		}
		if sc := call.Common().StaticCallee(); sc != nil && sc.Parent() == nil && len(sc.Blocks) > 0 && core.FuncPkgPath(sc) == core.FuncPkgPath(f) && site == nil {
			if helperSiteDepth(c, sc, depth+1, seen) != nil {
				site = call
			}
		}
	})
	return site
}

func runRefDel(c *core.Ctx) {
	r := requireRoles(c)
	if r == nil {
		return
	}
	n := 0
	for _, f := range serverFuncs(c) {
		hasRm := false
		an.Calls(f, func(call ssa.CallInstruction) {
			if r.IsAPI(call, "Repo", "IndexRemove") {
				hasRm = true
			}
		})
		if !hasRm {
			continue
		}
		site := helperSiteIn(c, f)
		if site == nil {
			continue
		}
		n++
		key := "delete-by-digest-only:" + kn(c.P.FuncName(f))
		ok := false
		for _, g := range an.GuardingEdges(site.Block()) {
			call, trueSucc, isCall := an.BoolCallTest(g.If())
			if !isCall || !an.IsMethod(call, "regexp", "Regexp", "MatchString") || !an.IsGlobalLoad(call.Call.Args[0], r.TypesPath, "RefTagRE") {
				continue
			}
			if g.Succ != trueSucc {
				ok = true
			}
		}
		if ok {
			c.Pass(key, site.Pos(), "the referrers update is only reached when the reference is not a tag")
		} else {
			c.Fail(key, site.Pos(), "in %s the referrers update at %s also runs when the reference is a tag: deleting a tag keeps the manifest (still served by digest) but removes it from its subject's referrers list", c.P.FuncName(f), c.P.Pos(site.Pos()))
		}
	}
	if n == 0 {
		c.Unresolved("delete-handler", "no handler with IndexRemove and a referrers update found")
	}
}

func runSiblingRef(c *core.Ctx) {
	r := requireRoles(c)
	if r == nil {
		return
	}
	ph := findPushHandler(c)
	if ph == nil {
		c.Unresolved("push-handler", "push handler not found")
		return
	}
	want := []string{"Annotations", "ArtifactType", "Digest", "MediaType", "Size"}
	// reference builder in package types: the function returning two descriptors from raw bytes
	var ref *ssa.Function
	for _, f := range c.P.Funcs("types") {
		if f.Name() == "ManifestReferrerDescriptor" {
			ref = f
		}
	}
	fieldsOf := func(stores map[string][]ssa.Value) []string {
		var l []string
		for k := range stores {
			l = append(l, k)
		}
		sort.Strings(l)
		return l
	}
	if ref == nil {
		c.Unresolved("types.ManifestReferrerDescriptor", "reference builder not found")
	} else {
		// fields assigned on the returned descriptor variable
		// (in the function itself or in a step of the package it hands the building to)
		best := []string{}
		frames := []*ssa.Function{ref}
		an.Calls(ref, func(call ssa.CallInstruction) {
			if h := call.Common().StaticCallee(); h != nil && h != ref && len(h.Blocks) > 0 && core.FuncPkgPath(h) == core.FuncPkgPath(ref) {
				frames = append(frames, h)
			}
		})
		for _, fr := range frames {
			an.Instrs(fr, func(in ssa.Instruction) {
				if al, ok := in.(*ssa.Alloc); ok && isNamed(an.Deref(al.Type()), r.TypesPath, "Descriptor") {
					if f := fieldsOf(structStores(al)); len(f) > len(best) {
						best = f
					}
				}
			})
		}
		c.Check(strings.Join(best, ",") == strings.Join(want, ","), "builder:types.ManifestReferrerDescriptor", ref.Pos(), "assigns %v, expected %v", best, want)
	}
	// the descriptor literals that flow into the referrers update of the push handler
	var hcall *ssa.Call
	an.Calls(ph.hs.fn, func(call ssa.CallInstruction) {
		if cc, ok := call.(*ssa.Call); ok && isHelperCall(c, call) != nil {
			hcall = cc
		}
	})
	if hcall == nil {
		c.Fail("builders:"+kn(c.P.FuncName(ph.hs.fn)), ph.insert.Pos(), "no referrers update call in the push handler")
		return
	}
	// the descriptors that can reach the update: literals of the handler (directly, through a pointer variable, or as
	// the descriptor field of a small record — &manifestReferrer{subject, desc} — possibly built by a helper)
	type descSrc struct {
		pos    token.Pos
		stores map[string][]ssa.Value
		block  *ssa.BasicBlock // the block of the handler at which the literal is built (its guards tell the manifest kind)
	}
	var srcs []descSrc
	seenAlloc := map[ssa.Value]bool{}
	builtAt := map[[2]ssa.Value]bool{}
	addLiteral := func(al *ssa.Alloc) {
		if seenAlloc[al] {
			return
		}
		seenAlloc[al] = true
		srcs = append(srcs, descSrc{al.Pos(), structStores(al), al.Block()})
	}
	var walk func(v ssa.Value, d int)
	walk = func(v ssa.Value, d int) {
		if d > 8 || v == nil {
			return
		}
		switch x := v.(type) {
		case *ssa.UnOp:
			if x.Op == token.MUL {
				walk(x.X, d+1)
			}
		case *ssa.Phi:
			for _, e := range x.Edges {
				walk(e, d+1)
			}
		case *ssa.Alloc:
			if isNamed(an.Deref(x.Type()), r.TypesPath, "Descriptor") {
				addLiteral(x)
			}
		case *ssa.Extract, *ssa.Call:
			// a descriptor built by a sub-handler of the package and handed back by pointer
			if !isNamed(an.Deref(v.Type()), r.TypesPath, "Descriptor") {
				return
			}
			tg, _ := an.PtrTargets(v, func(h *ssa.Function) bool { return core.FuncPkgPath(h) == c.P.Module })
			for _, t := range tg {
				if isNamed(an.Deref(t.Alloc.Type()), r.TypesPath, "Descriptor") {
					addLiteral(t.Alloc)
				}
			}
			// … or handed back by value from a builder that fills it from its parameters: the literal of the builder, with
			// the arguments of this call in the place of the parameters
			if _, isPtr := v.Type().Underlying().(*types.Pointer); !isPtr {
				for _, hr := range an.HelperReturns(v, func(h *ssa.Function) bool { return core.FuncPkgPath(h) == c.P.Module }) {
					ld, ok := an.Strip(hr.Val).(*ssa.UnOp)
					if !ok || ld.Op != token.MUL {
						continue
					}
					al, ok := ld.X.(*ssa.Alloc)
					if !ok || builtAt[[2]ssa.Value{al, hr.Call}] {
						continue
					}
					builtAt[[2]ssa.Value{al, hr.Call}] = true
					stores := map[string][]ssa.Value{}
					for k, vs := range structStores(al) {
						for _, sv := range vs {
							if p, isP := an.Origin(sv).(*ssa.Parameter); isP {
								for i, hp := range hr.Callee.Params {
									if hp == p && i < len(hr.Call.Call.Args) {
										sv = hr.Call.Call.Args[i]
									}
								}
							}
							stores[k] = append(stores[k], sv)
						}
					}
					srcs = append(srcs, descSrc{hr.Call.Pos(), stores, hr.Call.Block()})
				}
			}
		case *ssa.FieldAddr:
			// &rec.desc: every record that can arrive here
			if !isNamed(an.Deref(x.Type()), r.TypesPath, "Descriptor") {
				return
			}
			tg, _ := an.PtrTargets(x.X, func(h *ssa.Function) bool { return core.FuncPkgPath(h) == c.P.Module })
			for _, t := range tg {
				vals, addrs := an.FieldStoresOf(t.Alloc, x.Field)
				// filled field by field inside the record
				nested := map[string][]ssa.Value{}
				for _, fa := range addrs {
					for k, vs := range structStores(fa) {
						nested[k] = append(nested[k], vs...)
					}
				}
				if len(nested) > 0 && !seenAlloc[t.Alloc] {
					seenAlloc[t.Alloc] = true
					srcs = append(srcs, descSrc{t.Alloc.Pos(), nested, t.Alloc.Block()})
				}
				// stored as a whole: a value of the record's frame, or what the caller handed to the helper
				for _, wv := range vals {
					if arg, ok := t.ArgOf(wv); ok {
						walk(arg, d+1)
					} else {
						walk(wv, d+1)
					}
				}
			}
		}
	}
	for _, a := range hcall.Call.Args {
		if isNamed(a.Type(), r.TypesPath, "Descriptor") {
			walk(a, 0)
		}
	}
	if len(srcs) == 0 {
		c.Undecided("builders:"+kn(c.P.FuncName(ph.hs.fn)), hcall.Pos(), "the referrers descriptor passed to the update could not be traced to literals")
		return
	}
	for i, src := range srcs {
		st := src.stores
		got := fieldsOf(st)
		kind := ""
		if src.block != nil && src.block.Parent() != ph.hs.fn {
			// built in a sub-handler that parses one manifest kind
			for _, sb := range ph.subs {
				if sb.view.hs.fn == src.block.Parent() {
					ks := map[string]bool{}
					for _, k := range sb.view.parsed {
						ks[k] = true
					}
					if len(ks) == 1 {
						for k := range ks {
							kind = k
						}
					}
				}
			}
		}
		if src.block != nil && src.block.Parent() == ph.hs.fn {
			for _, g := range an.GuardingEdges(src.block) {
				if x, nilSucc, ok := an.NilTest(g.If()); ok && g.Succ == nilSucc {
					if call, _ := an.CallOf(x); call != nil {
						if pa, ok := ph.unmarshal[call]; ok {
							kind = ph.parsed[pa]
						}
					}
				}
			}
		}
		key := fmt.Sprintf("builder:%s#%s%d", kn(c.P.FuncName(ph.hs.fn)), kind, i+1)
		if strings.Join(got, ",") != strings.Join(want, ",") {
			c.Fail(key, src.pos, "the referrers entry built at %s fills %v; its siblings fill %v: the referrers list would lack the missing field for this manifest kind", c.P.Pos(src.pos), got, want)
			continue
		}
		if kind == "img" {
			// config fallback (assigned afterwards, or chosen beforehand into a local)
			fallback := false
			for _, v := range st["ArtifactType"] {
				for _, o := range append([]ssa.Value{v}, an.Origins(v)...) {
					if _, p := accessPath(o); pathEq(p, "Config", "MediaType") {
						fallback = true
					}
				}
			}
			if !fallback {
				c.Fail(key, src.pos, "the referrers entry for image manifests does not fall back to the config media type when artifactType is empty")
				continue
			}
		}
		c.Pass(key, src.pos, "fills %v%s", got, map[bool]string{true: " with config fallback", false: ""}[kind == "img"])
	}
	// the media type of the referrers entry is the media type the manifest is recorded under in the index (the
	// declared or detected one the handler validated), not the optional field of the body: the collector and the
	// manifest GET decide by it whether the entry is a manifest to be expanded
	if ph.mtVal != nil {
		recorded := map[ssa.Value]bool{}
		for _, o := range an.Origins(ph.mtVal) {
			recorded[o] = true
		}
		recorded[an.Strip(ph.mtVal)] = true
		c.SetTags("mediatype")
		for i, src := range srcs {
			vals := src.stores["MediaType"]
			if len(vals) == 0 {
				continue
			}
			ok := true
			for _, v := range vals {
				match := recorded[an.Strip(v)]
				for _, o := range an.Origins(v) {
					if recorded[o] {
						match = true
					}
				}
				// inside a sub-handler: the parameter that receives the recorded type
				if p, isP := an.Origin(v).(*ssa.Parameter); isP {
					for _, sb := range ph.subs {
						if sb.view.mtVal == ssa.Value(p) {
							match = true
						}
					}
				}
				if !match {
					ok = false
				}
			}
			c.Check(ok, fmt.Sprintf("media-type:%s#%d", kn(c.P.FuncName(ph.hs.fn)), i+1), src.pos, "the referrers entry built at %s carries the media type the manifest is recorded under in the index: %v — with the body's optional mediaType field instead, an artifact pushed without that field is listed with an empty type: the collector treats it as an opaque blob and sweeps its config and layers although its subject is retained", c.P.Pos(src.pos), ok)
		}
		c.SetTags()
	}
}

func init() {
	register(&Rule{ID: "TS-REFDESC", Floor: 2,
		Doc: "the function that derives a referrer's descriptor from the manifest bytes starts from the descriptor it was given; on every path to a successful return the fields the manifest alone determines — Size (= length of the bytes) and Annotations (= the manifest's own annotations, also when it has none) — have been overwritten from the parsed manifest, so a wrong descriptor (stale fallback entry) can never validate against itself",
		Run: func(c *core.Ctx) {
			r := requireRoles(c)
			if r == nil {
				return
			}
			pk := c.P.Pkg("types")
			if pk == nil {
				c.Unresolved("types", "package types not found")
				return
			}
			var fn *ssa.Function
			for _, f := range c.P.Funcs("types") {
				if f.Name() == "ManifestReferrerDescriptor" && f.Parent() == nil {
					fn = f
				}
			}
			if fn == nil || fn.Signature.Results().Len() != 3 {
				c.Unresolved("ManifestReferrerDescriptor", "function not found")
				return
			}
			// the parsed manifest: the local whose address is given to json.Unmarshal
			var parsed ssa.Value
			an.Calls(fn, func(call ssa.CallInstruction) {
				if an.IsFunc(call, "encoding/json", "Unmarshal") && len(call.Common().Args) == 2 {
					if mi, ok := call.Common().Args[1].(*ssa.MakeInterface); ok {
						parsed = mi.X
					}
				}
			})
			var rawParam *ssa.Parameter
			for _, p := range fn.Params {
				if sl, ok := p.Type().Underlying().(*types.Slice); ok {
					if b, ok := sl.Elem().Underlying().(*types.Basic); ok && b.Kind() == types.Byte {
						rawParam = p
					}
				}
			}
			if parsed == nil || rawParam == nil {
				c.Unresolved("ManifestReferrerDescriptor:parse", "the parsed manifest or the raw bytes parameter was not found")
				return
			}
			// a manifest that names no subject is not a referrer: every successful return lies behind the ‘subject present’
			// edge (the parsed Subject is not nil, or its digest is not empty).  The conversion of fallback tags drops listed
			// manifests that are not referrers on this error and uses the empty subject as ‘none seen yet’; a nil error with
			// an empty subject makes it list such a manifest as a referrer, or file a response under the subject "".
			{
				// presentAtom: the conditional edge establishes that the Subject of value `of` is present
				var presentAtom func(ifi *ssa.If, succ int, of ssa.Value) bool
				presentAtom = func(ifi *ssa.If, succ int, of ssa.Value) bool {
					isSubj := func(v ssa.Value) bool {
						root, pth := accessPath(an.Strip(v))
						if len(pth) == 0 || pth[0] != "Subject" {
							return false
						}
						if root == of || an.Origin(root) == an.Origin(of) {
							return true
						}
						// a value receiver spilled into a local of the predicate
						if al, isAl := root.(*ssa.Alloc); isAl {
							if sv := an.SingleStore(al); sv != nil && an.Strip(sv) == an.Strip(of) {
								return true
							}
						}
						return false
					}
					if x, nilSucc, ok := an.NilTest(ifi); ok && succ != nilSucc && isSubj(x) {
						return true
					}
					if x, y, op, ok := an.CmpTest(ifi); ok {
						for _, pr := range [][2]ssa.Value{{x, y}, {y, x}} {
							if s0, isS := an.ConstString(pr[1]); isS && s0 == "" && isSubj(pr[0]) {
								if (op == token.NEQ && succ == 0) || (op == token.EQL && succ == 1) {
									return true
								}
							}
						}
					}
					return false
				}
				subjectPresent := func(b *ssa.BasicBlock) bool {
					for _, g := range an.GuardingEdges(b) {
						// a predicate of the parsed manifest (`referrer.hasSubject()`): the edges every execution with that answer
						// has taken inside it
						for _, fe := range an.ImpliedHelperEdges(g) {
							if fe.Callee != nil && len(fe.Callee.Params) > 0 {
								if hifi := an.BlockIf(fe.From); hifi != nil && presentAtom(hifi, fe.Succ, fe.Callee.Params[0]) {
									return true
								}
							}
						}
						// …also when the predicate returns a materialised conjunction (`return p.Subject != nil && p.Subject.Digest != ""`):
						// an answer of true came through a predecessor whose operand is not the constant false
						if pc, trueSucc, isCall := an.BoolCallTest(g.If()); isCall && g.Succ == trueSucc {
							if h := pc.Call.StaticCallee(); h != nil && len(h.Blocks) > 0 && len(h.Params) > 0 && core.FuncPkgPath(h) == core.FuncPkgPath(fn) {
								all, any := true, false
								an.Instrs(h, func(in ssa.Instruction) {
									ret, isRet := in.(*ssa.Return)
									if !isRet || len(ret.Results) != 1 {
										return
									}
									ph, isPhi := an.Strip(ret.Results[0]).(*ssa.Phi)
									if !isPhi {
										all = false
										return
									}
									for pi, pred := range ph.Block().Preds {
										if cv, isC := an.ConstBool(ph.Edges[pi]); isC && !cv {
											continue
										}
										any = true
										okPred := false
										for _, hg := range an.GuardingEdges(pred) {
											if presentAtom(hg.If(), hg.Succ, h.Params[0]) {
												okPred = true
											}
										}
										if !okPred {
											all = false
										}
									}
								})
								if all && any {
									return true
								}
							}
						}
						ifi := g.If()
						if x, nilSucc, ok := an.NilTest(ifi); ok && g.Succ != nilSucc {
							if root, pth := accessPath(an.Strip(x)); root == parsed && len(pth) > 0 && pth[0] == "Subject" {
								return true
							}
						}
						if x, y, op, ok := an.CmpTest(ifi); ok {
							for _, pr := range [][2]ssa.Value{{x, y}, {y, x}} {
								if s0, isS := an.ConstString(pr[1]); isS && s0 == "" {
									if root, pth := accessPath(an.Strip(pr[0])); root == parsed && len(pth) > 0 && pth[0] == "Subject" {
										if (op == token.NEQ && g.Succ == 0) || (op == token.EQL && g.Succ == 1) {
											return true
										}
									}
								}
							}
						}
					}
					return false
				}
				badRet := token.NoPos
				nRet := 0
				an.Instrs(fn, func(in ssa.Instruction) {
					if ret, ok := in.(*ssa.Return); ok && len(ret.Results) == 3 && retErrNil(ret) {
						nRet++
						if !subjectPresent(ret.Block()) && badRet == token.NoPos {
							badRet = ret.Pos()
						}
					}
				})
				if nRet > 0 {
					c.Check(badRet == token.NoPos, "no-subject-is-an-error", fn.Pos(), "%s succeeds only for a manifest that names a subject (every successful return lies behind the ‘subject present’ edge): %v%s", c.P.FuncName(fn), badRet == token.NoPos, map[bool]string{true: "", false: fmt.Sprintf(" (the return at %s is reachable for a manifest without a subject) — the conversion of fallback tags then takes a listed manifest that is no referrer for one: it is served as a referrer of the tag's subject, or a response is filed under the subject \"\"", c.P.Pos(badRet))}[badRet == token.NoPos])
				}
			}
			// the frame in which the descriptor is built: the function itself, or — when every successful return hands out the
			// result of one building step of the package (parsed.referrerEntry(raw, d)) — that step, with its parameters in the
			// place of the parsed manifest and the raw bytes
			top := fn
			success := func(x *ssa.Return) bool { return retErrNil(x) }
			{
				var step *ssa.Function
				var stepCall *ssa.Call
				same := true
				an.Instrs(fn, func(in ssa.Instruction) {
					ret, ok := in.(*ssa.Return)
					if !ok || !retErrNil(ret) || len(ret.Results) != 3 {
						return
					}
					call, ok := an.Strip(ret.Results[1]).(*ssa.Call)
					if !ok {
						same = false
						return
					}
					h := call.Call.StaticCallee()
					if h == nil || len(h.Blocks) == 0 || core.FuncPkgPath(h) != core.FuncPkgPath(fn) || (step != nil && step != h) {
						same = false
						return
					}
					step, stepCall = h, call
				})
				if same && step != nil {
					var pParsed, pRaw *ssa.Parameter
					for i, a := range stepCall.Call.Args {
						if i >= len(step.Params) {
							break
						}
						if a == parsed {
							pParsed = step.Params[i]
						}
						if ld, ok := an.Strip(a).(*ssa.UnOp); ok && ld.Op == token.MUL && ld.X == parsed {
							pParsed = step.Params[i]
						}
						if an.Origin(a) == ssa.Value(rawParam) {
							pRaw = step.Params[i]
						}
					}
					if pParsed != nil && pRaw != nil {
						fn, parsed, rawParam = step, pParsed, pRaw
						success = func(x *ssa.Return) bool { return true }
					}
				}
			}
			type st struct{ size, annot bool }
			badSize, badAnnot := token.NoPos, token.NoPos
			an.Paths(an.PathSpec[st]{Fn: fn, Init: st{},
				Instr: func(s st, in ssa.Instruction) []st {
					switch x := in.(type) {
					case *ssa.Store:
						fa, ok := x.Addr.(*ssa.FieldAddr)
						if !ok {
							break
						}
						n := an.NamedOf(an.Deref(fa.X.Type()))
						if n == nil || n.Obj().Name() != "Descriptor" {
							break
						}
						switch an.Deref(fa.X.Type()).Underlying().(*types.Struct).Field(fa.Field).Name() {
						case "Size":
							if l := lenOf(x.Val); l != nil && an.Origin(l) == ssa.Value(rawParam) {
								s.size = true
							}
						case "Annotations":
							root, p := accessPath(an.Strip(x.Val))
							if root == parsed && len(p) == 1 && p[0] == "Annotations" {
								s.annot = true
							}
						}
					case *ssa.Return:
						if success(x) {
							if !s.size && badSize == token.NoPos {
								badSize = x.Pos()
							}
							if !s.annot && badAnnot == token.NoPos {
								badAnnot = x.Pos()
							}
						}
					}
					return []st{s}
				}})
			// the digest of the descriptor handed in is the manifest's identity under the algorithm it was pushed with: it is
			// only ever filled in when it is empty (a store into Digest lies on the ‘Digest == ""’ edge of the same descriptor)
			badDigest := token.NoPos
			an.Instrs(fn, func(in ssa.Instruction) {
				x, ok := in.(*ssa.Store)
				if !ok {
					return
				}
				fa, ok := x.Addr.(*ssa.FieldAddr)
				if !ok {
					return
				}
				n := an.NamedOf(an.Deref(fa.X.Type()))
				if n == nil || n.Obj().Name() != "Descriptor" || an.Deref(fa.X.Type()).Underlying().(*types.Struct).Field(fa.Field).Name() != "Digest" {
					return
				}
				guarded := false
				for _, g := range an.GuardingEdges(x.Block()) {
					a, b, op, isCmp := an.CmpTest(g.If())
					if !isCmp {
						continue
					}
					if s0, isS := an.ConstString(b); !isS || s0 != "" {
						continue
					}
					ar, ap := accessPath(an.Strip(a))
					sr, sp := accessPath(fa)
					if ar == sr && strings.Join(ap, ".") == strings.Join(sp, ".") && len(ap) >= 1 && ap[len(ap)-1] == "Digest" && ((op == token.EQL && g.Succ == 0) || (op == token.NEQ && g.Succ == 1)) {
						guarded = true
					}
				}
				if !guarded && badDigest == token.NoPos {
					badDigest = x.Pos()
				}
			})
			c.Check(badDigest == token.NoPos, "kept:Digest", top.Pos(), "%s replaces the digest of the descriptor it was given only when that digest is empty: %v — a manifest pushed under another algorithm is recorded in its subject's referrers list under that digest; recomputing it with the default algorithm makes the delete look for an entry that is not there, and the deleted artifact stays listed", c.P.FuncName(top), badDigest == token.NoPos)
			c.Check(badSize == token.NoPos, "derived:Size", top.Pos(), "every successful return of %s has set Size = len(raw): %v", c.P.FuncName(top), badSize == token.NoPos)
			c.Check(badAnnot == token.NoPos, "derived:Annotations", top.Pos(), "every successful return of %s has set Annotations from the parsed manifest unconditionally: %v — otherwise annotations of the descriptor passed in (a stale fallback entry) survive, the entry validates against itself and the referrers API serves annotations the manifest never declared", c.P.FuncName(top), badAnnot == token.NoPos)
		}})
}

func init() {
	register(&Rule{ID: "TS-RMDESC", Floor: 1,
		Doc: "every descriptor a handler passes to Repo.IndexRemove identifies the entry by digest: it is the result of an index lookup (GetDesc / GetByAnnotation), or a literal whose Digest is set — a descriptor that carries only a tag makes the index drop every entry of that tag (the removal's ‘no digest’ arm), so deleting a manifest's only tag would drop the manifest itself",
		Run: func(c *core.Ctx) {
			r := requireRoles(c)
			if r == nil {
				return
			}
			n := 0
			for _, fn := range serverFuncs(c) {
				k := 0
				an.Calls(fn, func(call ssa.CallInstruction) {
					if !r.IsAPI(call, "Repo", "IndexRemove") {
						return
					}
					_, args := an.CallArgs(call)
					if len(args) == 0 {
						return
					}
					n++
					k++
					key := fmt.Sprintf("remove:%s#%d", kn(c.P.FuncName(fn)), k)
					bad := ""
					seen := map[ssa.Value]bool{}
					var walk func(v ssa.Value, d int)
					walk = func(v ssa.Value, d int) {
						v = an.Strip(v)
						if v == nil || seen[v] || d > 10 || bad != "" {
							return
						}
						seen[v] = true
						switch x := v.(type) {
						case *ssa.Phi:
							for _, e := range x.Edges {
								walk(e, d+1)
							}
						case *ssa.Extract:
							walk(x.Tuple, d+1)
						case *ssa.Call:
							if an.IsMethod(x, r.TypesPath, "Index", "GetDesc") || an.IsMethod(x, r.TypesPath, "Index", "GetByAnnotation") {
								return
							}
							if x.Call.StaticCallee() != nil && core.FuncPkgPath(x.Call.StaticCallee()) == r.TypesPath {
								return // a function of the types package deriving a descriptor (checked by its own rules)
							}
							bad = fmt.Sprintf("the descriptor comes from %s", describeValue(c, x))
						case *ssa.Parameter:
							// a helper: judged at its callers' IndexRemove-free hand-over is out of scope here
						case *ssa.UnOp:
							if x.Op != token.MUL {
								return
							}
							if al, ok := x.X.(*ssa.Alloc); ok {
								// a variable assigned as a whole (from a lookup, or from different literals on different branches):
								// each assigned value is judged on its own
								if sts, unk := an.CellStores(al); !unk && len(sts) > 0 {
									for _, st := range sts {
										if k, isZero := st.Val.(*ssa.Const); isZero && k.Value == nil {
											// a composite literal written into the variable in place: the zero value, then the fields it sets, in
											// the same block
											hasDigest := false
											after := false
											for _, in := range st.Block().Instrs {
												if in == ssa.Instruction(st) {
													after = true
													continue
												}
												if !after {
													continue
												}
												fs, ok := in.(*ssa.Store)
												if !ok {
													continue
												}
												if fs.Addr == ssa.Value(al) {
													break // the next assignment of the variable
												}
												if fa, ok := fs.Addr.(*ssa.FieldAddr); ok && fa.X == ssa.Value(al) {
													if stt, ok := an.Deref(al.Type()).Underlying().(*types.Struct); ok && stt.Field(fa.Field).Name() == "Digest" {
														hasDigest = true
													}
												}
											}
											if !hasDigest && bad == "" {
												bad = fmt.Sprintf("the descriptor literal assigned at %s sets no Digest", c.P.Pos(st.Pos()))
											}
											continue
										}
										walk(st.Val, d+1)
									}
									return
								}
								// a literal filled field by field
								ss := map[string][]ssa.Value{}
								if al.Referrers() != nil {
									stt, _ := an.Deref(al.Type()).Underlying().(*types.Struct)
									for _, ref := range *al.Referrers() {
										if fa, ok := ref.(*ssa.FieldAddr); ok && stt != nil && fa.Referrers() != nil {
											for _, rr := range *fa.Referrers() {
												if st, ok := rr.(*ssa.Store); ok && st.Addr == ssa.Value(fa) {
													ss[stt.Field(fa.Field).Name()] = append(ss[stt.Field(fa.Field).Name()], st.Val)
												}
											}
										}
									}
								}
								if len(ss["Digest"]) == 0 {
									bad = fmt.Sprintf("the descriptor literal at %s sets no Digest", c.P.Pos(al.Pos()))
								}
								return
							}
							walk(x.X, d+1)
						}
					}
					walk(args[0], 0)
					c.Check(bad == "", key, call.Pos(), "the descriptor passed to IndexRemove at %s identifies the entry by digest%s", c.P.Pos(call.Pos()), map[bool]string{true: "", false: ": " + bad + " — the index then removes every entry of the tag instead of untagging one: deleting a manifest's only tag drops the manifest, which stops being addressable by digest and becomes garbage"}[bad == ""])
				})
			}
			if n == 0 {
				c.Unresolved("index-remove", "no handler calls Repo.IndexRemove")
			}
		}})
	register(&Rule{ID: "TS-DETECT", Floor: 1,
		Doc: "the push handler compares the declared media type with the kind the detector finds in the body, and skips the comparison when the detector answers \"\"; hence the detector may answer \"\" only on paths on which every field test it made found the field absent (or the body did not parse) — a path that saw a kind marker present and still answers \"\" lets such a body through under any declared type",
		Run: func(c *core.Ctx) {
			r := requireRoles(c)
			if r == nil {
				return
			}
			var fn *ssa.Function
			for _, f := range c.P.Funcs("types") {
				if f.Name() == "MediaTypeDetect" && f.Parent() == nil {
					fn = f
				}
			}
			if fn == nil {
				c.Unresolved("MediaTypeDetect", "detector not found")
				return
			}
			var parsed ssa.Value
			an.Calls(fn, func(call ssa.CallInstruction) {
				if an.IsFunc(call, "encoding/json", "Unmarshal") && len(call.Common().Args) == 2 {
					if mi, ok := call.Common().Args[1].(*ssa.MakeInterface); ok {
						parsed = mi.X
					}
				}
			})
			if parsed == nil {
				c.Unresolved("MediaTypeDetect:parse", "the parsed body was not found")
				return
			}
			// presentSucc: for a branch that tests a field of the parsed body for emptiness, the successor on which the field is present
			presentSucc := func(ifi *ssa.If) (int, string, bool) {
				base, neg := an.CondBase(ifi.Cond)
				bo, ok := base.(*ssa.BinOp)
				if !ok {
					return 0, "", false
				}
				x, y := bo.X, bo.Y
				if _, isC := x.(*ssa.Const); isC {
					x, y = y, x
				}
				field := func(v ssa.Value) (string, bool) {
					if l := lenOf(v); l != nil {
						v = l
					}
					root, p := accessPath(an.Strip(v))
					if root == parsed && len(p) > 0 {
						return strings.Join(p, "."), true
					}
					// a variable that holds one of several fields of the body (`nested := m.Config.MediaType; if isIndex { nested =
					// m.Manifests[0].MediaType }`): the test speaks of all of them (joined with "+")
					if ph, isPhi := an.Strip(v).(*ssa.Phi); isPhi {
						var fs []string
						for _, e := range ph.Edges {
							r2, p2 := accessPath(an.Strip(e))
							if r2 != parsed || len(p2) == 0 {
								return "", false
							}
							fs = append(fs, strings.Join(p2, "."))
						}
						sort.Strings(fs)
						return strings.Join(fs, "+"), true
					}
					return "", false
				}
				f, ok := field(x)
				if !ok {
					return 0, "", false
				}
				emptyConst := false
				if s, ok := an.ConstString(y); ok && s == "" {
					emptyConst = true
				}
				if n, ok := an.ConstInt(y); ok && n == 0 {
					emptyConst = true
				}
				if !emptyConst {
					return 0, "", false
				}
				ps := -1
				switch bo.Op {
				case token.EQL, token.LEQ:
					ps = 1 // == "" / len <= 0: present on the false side
				case token.NEQ, token.GTR:
					ps = 0
				default:
					return 0, "", false
				}
				if neg {
					ps = 1 - ps
				}
				return ps, f, true
			}
			// a condition value branched on twice has the same outcome both times on one path: the state carries the outcomes
			// seen so far behind a "|"
			condStep := func(st string, from *ssa.BasicBlock, succ int) (string, bool) {
				ifi := an.BlockIf(from)
				if ifi == nil {
					return st, true
				}
				base, neg := an.CondBase(ifi.Cond)
				if _, isC := base.(*ssa.Const); isC {
					return st, true
				}
				id := fmt.Sprintf("%p", base)
				truth := "F"
				if (succ == 0) != neg {
					truth = "T"
				}
				facts, conds, _ := strings.Cut(st, "|")
				for _, kv := range strings.Split(conds, ";") {
					if k, v, ok := strings.Cut(kv, "="); ok && k == id {
						return st, v == truth
					}
				}
				if conds != "" {
					conds += ";"
				}
				return facts + "|" + conds + id + "=" + truth, true
			}
			factsOf := func(st string) string { f, _, _ := strings.Cut(st, "|"); return f }
			withFacts := func(st, facts string) string {
				_, conds, has := strings.Cut(st, "|")
				if !has {
					return facts
				}
				return facts + "|" + conds
			}
			bad, badField := token.NoPos, ""
			an.Paths(an.PathSpec[string]{Fn: fn, Init: "",
				Instr: func(s string, in ssa.Instruction) []string {
					if ret, ok := in.(*ssa.Return); ok && factsOf(s) != "" && len(ret.Results) == 1 {
						if v, ok := an.ConstString(ret.Results[0]); ok && v == "" && bad == token.NoPos {
							bad, badField = ret.Pos(), factsOf(s)
						}
					}
					return []string{s}
				},
				Edge: func(s string, from *ssa.BasicBlock, succ int) (string, bool) {
					s, feasible := condStep(s, from, succ)
					if !feasible {
						return s, false
					}
					if ifi := an.BlockIf(from); ifi != nil && factsOf(s) == "" {
						// (a variable holding one of several fields says nothing about which of them is present)
						if ps, f, ok := presentSucc(ifi); ok && succ == ps && !strings.Contains(f, "+") {
							return withFacts(s, f), true
						}
					}
					return s, true
				}})
			// second clause: giving up needs evidence of absence. Every top-level field of the parsed body the detector reads is
			// a kind marker; a path that answers "" (other than on the parse error) has taken, for each of them, an edge on
			// which the field — or the part of it the detector looks at — was found empty. A path that merely failed to
			// match the marker's value against known prefixes has seen a marker and still gives up.
			markers := map[string]bool{}
			an.Instrs(fn, func(in ssa.Instruction) {
				v, ok := in.(ssa.Value)
				if !ok {
					return
				}
				if _, isFA := in.(*ssa.FieldAddr); !isFA {
					return
				}
				if root, p := accessPath(v); root == parsed && len(p) > 0 {
					markers[p[0]] = true
				}
			})
			onParseError := func(b *ssa.BasicBlock) bool {
				for _, g := range an.GuardingEdges(b) {
					if x, nilSucc, ok := an.NilTest(g.If()); ok && an.IsErrorType(x.Type()) && g.Succ != nilSucc {
						return true
					}
				}
				return false
			}
			bad2, missing := token.NoPos, ""
			an.Paths(an.PathSpec[string]{Fn: fn, Init: "",
				Instr: func(st string, in ssa.Instruction) []string {
					if ret, ok := in.(*ssa.Return); ok && len(ret.Results) == 1 && bad2 == token.NoPos {
						if v, ok := an.ConstString(ret.Results[0]); ok && v == "" && !onParseError(ret.Block()) {
							var ms []string
							for m := range markers {
								if !strings.Contains(","+factsOf(st)+",", ","+m+",") {
									ms = append(ms, m)
								}
							}
							sort.Strings(ms)
							if len(ms) > 0 {
								bad2, missing = ret.Pos(), strings.Join(ms, ", ")
							}
						}
					}
					return []string{st}
				},
				Edge: func(st string, from *ssa.BasicBlock, succ int) (string, bool) {
					st, feasible := condStep(st, from, succ)
					if !feasible {
						return st, false
					}
					if ifi := an.BlockIf(from); ifi != nil {
						if ps, f, ok := presentSucc(ifi); ok && succ != ps {
							cur := factsOf(st)
							parts := strings.Split(cur, ",")
							if cur == "" {
								parts = nil
							}
							for _, one := range strings.Split(f, "+") {
								top := one
								if i := strings.Index(top, "."); i >= 0 {
									top = top[:i]
								}
								if !strings.Contains(","+strings.Join(parts, ",")+",", ","+top+",") {
									parts = append(parts, top)
								}
							}
							sort.Strings(parts)
							return withFacts(st, strings.Join(parts, ",")), true
						}
					}
					return st, true
				}})
			c.Check(bad2 == token.NoPos, "gives-up-only-on-absence", fn.Pos(), "%s answers \"\" only on paths that found every kind marker it reads (%s) empty: %v%s", c.P.FuncName(fn), strings.Join(sortedKeys(markers), ", "), bad2 == token.NoPos, map[bool]string{true: "", false: fmt.Sprintf(" (it gives up at %s without having found %s empty) — a body that carries the marker with a value the detector does not know is then accepted under any declared media type, e.g. an image manifest with an artifact config type under an index Content-Type: nothing it references is verified", c.P.Pos(bad2), missing)}[bad2 == token.NoPos])
			c.Check(bad == token.NoPos, "gives-up-only-without-markers", fn.Pos(), "%s answers \"\" only where every field it tested was absent (it gives up at %s although %s was found present): %v — otherwise a body of a recognisable kind is not recognised and the handler's comparison with the declared media type is skipped for it", c.P.FuncName(fn), c.P.Pos(bad), badField, bad == token.NoPos)
		}})
}

// callerValue maps a parameter of the body-reading helper to the argument the handler passes for it.
func (ph *pushHandler) callerValue(v ssa.Value) ssa.Value {
	if ph.viaHelper == nil {
		return v
	}
	p, ok := an.Origin(v).(*ssa.Parameter)
	if !ok {
		return v
	}
	h := ph.viaHelper.Call.StaticCallee()
	if h == nil || p.Parent() != h {
		return v
	}
	for i, q := range h.Params {
		if q == p && i < len(ph.viaHelper.Call.Args) {
			return ph.viaHelper.Call.Args[i]
		}
	}
	return v
}
