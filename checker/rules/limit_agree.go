package rules

import (
	"fmt"
	"go/token"
	"go/types"
	"sort"

	"golang.org/x/tools/go/ssa"

	"olacheck/an"
	"olacheck/core"
)

// TS-LIMIT-AGREE: a function that cuts data into pieces under a size limit it is given asks the same question every
// time it compares the length of a piece with that limit. `len(next) > limit` (the piece no longer fits), and
// `len(last) <= limit` (the piece may go out) are the same relation ‘fits ⇔ len ≤ limit’; a `<` among them is a
// contradiction in the sense of Engler et al. — one of the tests is wrong, whichever reading was meant: a page whose
// size is exactly the limit is closed as ‘full’ by one test and then refused as ‘too large’ by the other, and every
// descriptor on it disappears from the paged referrers response.
func init() {
	register(&Rule{ID: "TS-LIMIT-AGREE", Floor: 1,
		Doc: "in a function of the server package that compares the length of byte slices with an integer limit it received as a parameter at two or more places, all those comparisons express one relation (‘fits ⇔ len ≤ limit’ or ‘fits ⇔ len < limit’, after normalising >, >=, <=, < and mirrored operands) — a page of exactly the limit that one test closes as full and another refuses as too large is dropped from the paged referrers response",
		Run: func(c *core.Ctx) {
			n := 0
			fns := append([]*ssa.Function{}, c.P.Funcs("")...)
			sort.Slice(fns, func(i, j int) bool { return c.P.FuncName(fns[i]) < c.P.FuncName(fns[j]) })
			type cmp struct {
				pos token.Pos
				rel string
			}
			type group struct {
				top  *ssa.Function
				name string
				cs   []cmp
			}
			groups := map[string]*group{}
			topOf := func(f *ssa.Function) *ssa.Function {
				for f.Parent() != nil {
					f = f.Parent()
				}
				return f
			}
			isInt := func(t types.Type) bool {
				bt, isB := t.Underlying().(*types.Basic)
				return isB && bt.Info()&types.IsInteger != 0
			}
			// the limit: an integer parameter, or — inside a function literal — a captured variable that holds one
			limitName := func(fn *ssa.Function, v ssa.Value) string {
				v = an.Strip(v)
				if p, ok := v.(*ssa.Parameter); ok && isInt(p.Type()) && fn.Parent() == nil {
					return p.Name()
				}
				if ld, ok := v.(*ssa.UnOp); ok && ld.Op == token.MUL {
					// the parameter spilled to a cell because a function literal captures it
					if al, isAl := ld.X.(*ssa.Alloc); isAl && isInt(ld.Type()) {
						if sv := an.SingleStore(al); sv != nil {
							if p, isP := an.Strip(sv).(*ssa.Parameter); isP && fn.Parent() == nil {
								return p.Name()
							}
						}
					}
					if fv, isFV := ld.X.(*ssa.FreeVar); isFV && isInt(ld.Type()) {
						for _, p := range topOf(fn).Params {
							if p.Name() == fv.Name() {
								return fv.Name()
							}
						}
					}
				}
				return ""
			}
			isLen := func(v ssa.Value) bool {
				v = an.Strip(v)
				if cv, ok := v.(*ssa.Convert); ok {
					v = an.Strip(cv.X)
				}
				l := lenOf(v)
				if l == nil {
					return false
				}
				sl, ok := l.Type().Underlying().(*types.Slice)
				if !ok {
					return false
				}
				bt, isB := sl.Elem().Underlying().(*types.Basic)
				return isB && bt.Kind() == types.Byte
			}
			for _, fn := range fns {
				if len(fn.Blocks) == 0 {
					continue
				}
				an.Instrs(fn, func(in ssa.Instruction) {
					bo, ok := in.(*ssa.BinOp)
					if !ok {
						return
					}
					op := bo.Op
					name := ""
					switch {
					case isLen(bo.X) && limitName(fn, bo.Y) != "":
						name = limitName(fn, bo.Y)
					case isLen(bo.Y) && limitName(fn, bo.X) != "":
						name = limitName(fn, bo.X)
						op = flipCmp(op)
					default:
						return
					}
					rel := ""
					switch op {
					case token.GTR, token.LEQ:
						rel = "len ≤ limit"
					case token.GEQ, token.LSS:
						rel = "len < limit"
					default:
						return
					}
					top := topOf(fn)
					k := c.P.FuncName(top) + "|" + name
					g := groups[k]
					if g == nil {
						g = &group{top: top, name: name}
						groups[k] = g
					}
					g.cs = append(g.cs, cmp{bo.Pos(), rel})
				})
			}
			var gkeys []string
			for k := range groups {
				gkeys = append(gkeys, k)
			}
			sort.Strings(gkeys)
			for _, gk := range gkeys {
				g := groups[gk]
				cs := g.cs
				if len(cs) < 2 {
					continue
				}
				n++
				sort.Slice(cs, func(i, j int) bool { return cs[i].pos < cs[j].pos })
				odd := token.NoPos
				for _, x := range cs[1:] {
					if x.rel != cs[0].rel && odd == token.NoPos {
						odd = x.pos
					}
				}
				key := fmt.Sprintf("agree:%s|%s", kn(c.P.FuncName(g.top)), g.name)
				c.Check(odd == token.NoPos, key, cs[0].pos, "the %d comparisons of a piece's length with %s in %s ask the same question (‘fits ⇔ %s’): %v%s", len(cs), g.name, c.P.FuncName(g.top), cs[0].rel, odd == token.NoPos, map[bool]string{true: "", false: fmt.Sprintf(" (the comparison at %s reads the limit the other way) — a piece of exactly the limit is closed as full by one test and refused as too large by the other: it is dropped, and with it every entry it holds", c.P.Pos(odd))}[odd == token.NoPos])
			}
			if n == 0 {
				// one comparison per limit (a single `fits(page)` predicate) cannot contradict itself
				c.Pass("agree:single-comparison", token.NoPos, "no function of the server package compares piece lengths with one limit at two places: nothing to disagree")
			}
		}})
}
